"""C19 -- stopping conditions stop the run when, and only when, they are met.

Real condition objects are evaluated against a *real* PrecipitateModel (no thermodynamics attached) whose recorded
history arrays are symbolic; the and/or combination is the real PrecipitateBase.postProcess with the four internal
steps that precede it stubbed; the solver's reaction to the stop flag is decided in C05.
"""
import numpy as np
from vk.run import Harness
from kawin.precipitation.KWNEuler import PrecipitateModel
from kawin.precipitation.KWNBase import PrecipitateBase
from kawin.precipitation.PrecipitationParameters import PrecipitationData
from kawin.precipitation import StoppingConditions as SC
from kawin.precipitation.TimeTemperaturePrecipitation import TTPCalculator

KINDS = {
    "volFrac": (SC.VolumeFractionCondition, "volFrac"),
    "Ravg": (SC.AverageRadiusCondition, "Ravg"),
    "drivingForce": (SC.DrivingForceCondition, "drivingForce"),
    "nucRate": (SC.NucleationRateCondition, "nucRate"),
    "density": (SC.PrecipitateDensityCondition, "precipitateDensity"),
    "composition": (SC.CompositionCondition, "composition"),
}


def mk_model(ctx, N, phases=("P1", "P2"), elements=("A", "B")):
    """real model whose recorded history (N steps) is symbolic; time stamps strictly increasing"""
    m = PrecipitateModel(phases=list(phases), elements=list(elements))
    d = PrecipitationData(m.phases, m.elements, N)
    t = ctx.reals("time", N, (0.0, 1.0))
    if ctx.mode == "concrete":
        t = np.cumsum(np.abs(t) + 0.1)
    for i in range(N):
        if ctx.mode != "concrete":
            ctx.assume(t[i] >= 0)
            if i > 0:
                ctx.assume(t[i - 1] < t[i])
    d.time = t
    for name in ("volFrac", "Ravg", "drivingForce", "nucRate", "precipitateDensity"):
        setattr(d, name, ctx.reals(name, (N, len(phases)), (0.0, 2.0)))
    d.composition = ctx.reals("composition", (N, len(elements)), (0.0, 1.0))
    d.n = N - 1
    m.pData = d
    return m, d


def mk_cond(kind, ineq, value, pi, phases, elements):
    cls, attr = KINDS[kind]
    cmp = SC.Inequality.GREATER_THAN if ineq == ">" else SC.Inequality.LESSER_THAN
    if kind == "composition":
        return cls(cmp, value, element=None if pi is None else elements[pi])
    return cls(cmp, value, phase=None if pi is None else phases[pi])


def monitored(d, kind, n, pi):
    return getattr(d, KINDS[kind][1])[n, 0 if pi is None else pi]


def holds(ctx, ineq, v, thr):
    return (v > thr) if ineq == ">" else (v < thr)


def read(ctx, kind="volFrac", ineq=">", pi=1, N=2):
    """a fresh condition evaluated at the current step reads the named quantity of the named phase/element at step n"""
    ph, el = ("P1", "P2"), ("A", "B")
    m, d = mk_model(ctx, N, ph, el)
    thr = ctx.real("thr", (0.0, 2.0))
    c = mk_cond(kind, ineq, thr, pi, ph, el)
    c.testCondition(m)
    v = monitored(d, kind, N - 1, pi)
    want = holds(ctx, ineq, v, thr)
    got = c.isSatisfied()
    ctx.prove("satisfied iff monitored quantity of the named phase/element passes the threshold at the current step",
              ctx.all([ctx.implies(want, got), ctx.implies(got, want)]))
    ctx.prove("unsatisfied condition reports time -1", ctx.implies(ctx.neg(got), ctx.eq(c.satisfiedTime(), -1.0)))


def latch(ctx, kind="Ravg", ineq="<", pi=0, N=2):
    """once satisfied a condition stays satisfied and keeps its time, whatever the later data"""
    ph, el = ("P1", "P2"), ("A", "B")
    m, d = mk_model(ctx, N, ph, el)
    thr = ctx.real("thr", (0.0, 2.0)); ts = ctx.real("tsat", (0.0, 1.0))
    c = mk_cond(kind, ineq, thr, pi, ph, el)
    c._isSatisfied = True
    c._satisfiedTime = ts
    c.testCondition(m)
    ctx.prove("met condition stays met", c.isSatisfied() is True or bool(c.isSatisfied()) is True)
    ctx.prove("met condition keeps its time", ctx.eq(c.satisfiedTime(), ts))


def reuse(ctx, kind="volFrac", ineq=">", pi=1, N=2):
    """a condition object used with one model, reset (as the TTP calculator and model.reset do), then used with a second model that lists the
    phases / elements in another order: it still monitors the phase / element the user named"""
    ph, el = ("P1", "P2"), ("A", "B")
    m1, d1 = mk_model(ctx, N, ph, el)
    thr = ctx.real("thr", (0.0, 2.0))
    c = mk_cond(kind, ineq, thr, pi, ph, el)
    c.testCondition(m1)
    c.reset()
    ctx.prove("reset condition is unsatisfied with time -1", (c.isSatisfied() is False or bool(c.isSatisfied()) is False) and float(c.satisfiedTime()) == -1)
    ph2, el2 = ph[::-1], el[::-1]
    m2 = PrecipitateModel(phases=list(ph2), elements=list(el2))
    d2 = PrecipitationData(m2.phases, m2.elements, N)
    d2.time = d1.time
    for name in ("volFrac", "Ravg", "drivingForce", "nucRate", "precipitateDensity"):
        setattr(d2, name, ctx.reals(name + "_2", (N, 2), (0.0, 2.0)))
    d2.composition = ctx.reals("composition_2", (N, 2), (0.0, 1.0))
    d2.n = N - 1
    m2.pData = d2
    c.testCondition(m2)
    pi2 = None if pi is None else 1 - pi
    v = monitored(d2, kind, N - 1, pi2)
    want = holds(ctx, ineq, v, thr); got = c.isSatisfied()
    ctx.prove("after reset the condition reads the named phase/element of the model it is now used with",
              ctx.all([ctx.implies(want, got), ctx.implies(got, want)]))


def interp(ctx, kind="volFrac", ineq=">", pi=1, N=3):
    """first satisfied at step n>0 after an unsatisfied previous step: time is the linear interpolant inside the step;
    first satisfied at step 0: time is t_0"""
    ph, el = ("P1", "P2"), ("A", "B")
    m, d = mk_model(ctx, N, ph, el)
    thr = ctx.real("thr", (0.0, 2.0))
    c = mk_cond(kind, ineq, thr, pi, ph, el)
    n = N - 1
    cv = monitored(d, kind, n, pi)
    if n > 0:
        pv = monitored(d, kind, n - 1, pi)
        # whether the previous step already satisfied the condition is left open: a condition that holds in the initial state, or
        # one added to a model that was solved past the threshold, is first tested on a step without a crossing
        prev_held = holds(ctx, ineq, pv, thr)
    c.testCondition(m)
    got = c.isSatisfied()
    st = c.satisfiedTime()
    if n > 0:
        tp, tc = d.time[n - 1], d.time[n]
        ctx.prove("time within the crossing step", ctx.implies(got, ctx.all([ctx.le(tp, st), ctx.le(st, tc)])))
        ctx.prove("time is the linear interpolant", ctx.implies(ctx.all([got, ctx.neg(prev_held)]), ctx.eq((st - tp) * (cv - pv), (tc - tp) * (thr - pv))))
        ctx.prove("no crossing on this step (already met at its start): reported time is the start of the step",
                  ctx.implies(ctx.all([got, prev_held]), ctx.eq(st, tp)))
    else:
        ctx.prove("time at step 0 is t_0", ctx.implies(got, ctx.eq(st, d.time[0])))


def combine(ctx, modes=("or", "and", "and"), N=2, pre=()):
    """real postProcess: stop = any(or-conditions met) or (there are and-conditions and all of them are met);
    conditions already met before the step stay met"""
    ph, el = ("P1", "P2"), ("A", "B")
    m, d = mk_model(ctx, N, ph, el)
    # the four steps of postProcess before the stopping logic are not the subject here
    m._calculateDependentTerms = lambda t, x: None
    m._appendArrays = lambda Y: None
    m._updateParticleSizeDistribution = lambda t, x: None
    m.updateCoupledModels = lambda: None
    m.getCurrentX = lambda: (d.time[d.n], ["X"])
    kinds = ["volFrac", "density", "composition", "nucRate"]
    conds, before, thr = [], [], []
    for mode in pre:        # an earlier set of conditions, removed again with the public clearStoppingConditions()
        m.addStoppingCondition(mk_cond("volFrac", ">", 0.5, 0, ph, el), mode)
    if pre:
        m.clearStoppingConditions()
    for i, mode in enumerate(modes):
        th = ctx.real("thr%d" % i, (0.0, 2.0)); thr.append(th)
        c = mk_cond(kinds[i % 4], ">" if i % 2 == 0 else "<", th, i % 2, ph, el)
        was = ctx.boolean("met_before%d" % i)
        if was:
            c._isSatisfied = True; c._satisfiedTime = d.time[0]
        before.append(bool(was))
        conds.append(c)
        m.addStoppingCondition(c, mode)
    x, stop = PrecipitateBase.postProcess(m, d.time[d.n], ["X"])
    now = []
    for i, c in enumerate(conds):
        v = monitored(d, kinds[i % 4], N - 1, i % 2)
        now.append(ctx.any([before[i], holds(ctx, ">" if i % 2 == 0 else "<", v, thr[i])]))
        ctx.prove("condition state after the step = met before or met now", ctx.all([ctx.implies(now[i], c.isSatisfied()), ctx.implies(c.isSatisfied(), now[i])]))
    ors = [now[i] for i, mo in enumerate(modes) if mo == "or"]
    ands = [now[i] for i, mo in enumerate(modes) if mo != "or"]
    want = ctx.any([ctx.any(ors) if ors else False, ctx.all(ands) if ands else False])
    ctx.prove("stop flag = any(or) or (and-conditions exist and all met)", ctx.all([ctx.implies(want, stop), ctx.implies(stop, want)]))
    ctx.prove("state handed back unchanged", x == ["X"])


def ttp(ctx, nc=2, pre=(), fresh=False):
    """TTPCalculator._getStopTime: model reset (conditions with it) before the run, temperature set, one time per condition (-1 if unmet)"""
    ph, el = ("P1",), ("A",)
    m = PrecipitateModel(phases=list(ph), elements=list(el))
    conds = []
    for i in range(nc):
        c = SC.VolumeFractionCondition(SC.Inequality.GREATER_THAN, 0.5)
        c._isSatisfied = True; c._satisfiedTime = 123.0     # stale state from a previous temperature
        conds.append(c)
    for mode in pre:        # the model was used with other stopping conditions before it was handed to the calculator
        m.addStoppingCondition(SC.VolumeFractionCondition(SC.Inequality.GREATER_THAN, 0.25), mode)
    calc = TTPCalculator(m, conds)
    calc._maxTime = 10.0
    log = []
    T = ctx.real("T", (300.0, 900.0))
    ts = [ctx.real("tsat%d" % i, (0.0, 10.0)) for i in range(nc)]
    met = [ctx.boolean("met%d" % i) for i in range(nc)]

    def fake_solve(simTime, **kw):
        log.append(("solve", simTime, [c.isSatisfied() for c in conds], [c.satisfiedTime() for c in conds], m.temperatureParameters(0.0),
                    m.pData.n))
        for i, c in enumerate(conds):
            if met[i]:
                c._isSatisfied = True; c._satisfiedTime = ts[i]
    m.solve = fake_solve
    if not fresh:
        m.pData.n = 7     # history from the previous temperature (fresh: a model that was never solved; the condition objects come from elsewhere)
    vals = calc._getStopTime(T)
    ctx.prove("solve called once with the maximum time", len(log) == 1 and log[0][1] == 10.0)
    ctx.prove("conditions were reset before the run", all(s is False for s in log[0][2]) and all(float(x) == -1 for x in log[0][3]))
    ctx.prove("model history was reset before the run", log[0][5] == 0)
    ctx.prove("temperature set before the run", ctx.eq(log[0][4], T))
    for i in range(nc):
        ctx.prove("reported time is the condition's time, -1 when unmet", ctx.eq(vals[i], ts[i] if met[i] else -1.0))
    ctx.prove("conditions are and-combined in the model", m._stopConditionMode == [False] * nc and m._stoppingConditions == conds)


class _Pool:
    """multiprocessing-pool stand-in: map/imap return results in submission order (their contract); imap_unordered returns them in the order
    the workers finish, which is a schedule -- here a symbolic choice between submission order and its rotations/reversal"""
    def __init__(self, ctx, only_map=False):
        self.ctx = ctx
        if only_map:
            self.imap = self.imap_unordered = None
            del self.imap, self.imap_unordered

    def map(self, fn, it, chunksize=None):
        return [fn(v) for v in it]

    def imap(self, fn, it, chunksize=1):
        return iter([fn(v) for v in it])

    def imap_unordered(self, fn, it, chunksize=1):
        out = [fn(v) for v in it]
        if len(out) > 1 and bool(self.ctx.boolean("sched_reversed")):
            out = out[::-1]
        elif len(out) > 2 and bool(self.ctx.boolean("sched_rotated")):
            out = out[1:] + out[:1]
        return iter(out)

    def map_async(self, fn, it, chunksize=None, callback=None, error_callback=None):
        res = self.map(fn, it)
        class _R:
            def get(self_, timeout=None): return res
            def wait(self_, timeout=None): return None
            def ready(self_): return True
            def successful(self_): return True
        return _R()


def ttp_table(ctx, nc=2, nT=2, pool=None):
    """TTPCalculator.calculateTTP: the table holds, for every temperature and condition, exactly the time _getStopTime returned
    (the run's interpolated crossing time, -1 when unmet)"""
    m = PrecipitateModel(phases=["P1"], elements=["A"])
    conds = [SC.VolumeFractionCondition(SC.Inequality.GREATER_THAN, 0.5) for _ in range(nc)]
    calc = TTPCalculator(m, conds)
    met = [[ctx.boolean("met_T%d_c%d" % (i, j)) for j in range(nc)] for i in range(nT)]
    ts = [[ctx.real("t_T%d_c%d" % (i, j), (0.01, 9.5)) for j in range(nc)] for i in range(nT)]
    for i in range(nT):
        for j in range(nc):
            ctx.assume(ts[i][j] > 0)
    seen = []

    def fake_stop_time(T):
        i = len(seen); seen.append(T)
        return [ts[i][j] if met[i][j] else -1 for j in range(nc)]
    calc._getStopTime = fake_stop_time
    if pool is None:
        calc.calculateTTP(600.0, 700.0, nT, 10.0)
    else:
        # user-supplied pool: whatever the order in which the workers finish, row i of the table belongs to temperature i
        calc.calculateTTP(600.0, 700.0, nT, 10.0, pool=_Pool(ctx, only_map=(pool == "map_only")))
    ctx.prove("one run per temperature, in order", len(seen) == nT and [float(x) for x in seen] == [float(x) for x in np.linspace(600.0, 700.0, nT)])
    ctx.prove("table shape", tuple(np.shape(calc.transformationTimes)) == (nT, nc))
    for i in range(nT):
        for j in range(nc):
            ctx.prove("reported transformation time is the run's crossing time, -1 when unmet",
                      ctx.eq(calc.transformationTimes[i, j], ts[i][j] if met[i][j] else -1.0))


_F = [SC.PrecipitationStoppingCondition.testCondition, SC.PrecipitationStoppingCondition._testCondition, SC.PrecipitationStoppingCondition._poll,
      SC.CompositionCondition._poll, SC.PrecipitationStoppingCondition.reset, PrecipitateBase.postProcess, PrecipitateBase.addStoppingCondition,
      PrecipitateBase.phaseIndex, TTPCalculator._getStopTime, TTPCalculator.__init__]
_A = ["recorded time stamps strictly increase (C05)", "history arrays arbitrary reals", "interp: the previous step may or may not have satisfied the condition already"]
_all_kinds = [{"kind": k, "ineq": i, "pi": p} for k in KINDS for i in (">", "<") for p in (None, 0, 1)]
HARNESSES = [
    Harness("C19.read", read, functions=_F, assumptions=_A, bounds={"history length": "N", "phases/elements": 2},
            params={"quick": [dict(x, N=2) for x in _all_kinds[::3]] + [dict(_all_kinds[4], N=1)] + [dict(x, N=2) for x in _all_kinds if x["kind"] == "composition" and x["pi"] == 1], "thorough": [dict(x, N=n) for x in _all_kinds for n in (1, 3)]}),
    Harness("C19.reuse", reuse, functions=_F, assumptions=_A + ["two models with the same phases/elements listed in opposite orders"], bounds={"history length": "N"},
            params={"quick": [dict(x, N=2) for x in _all_kinds[1::5]] + [dict(x, N=2) for x in _all_kinds if x["pi"] == 1 and x["ineq"] == ">"], "thorough": [dict(x, N=n) for x in _all_kinds for n in (1, 2)]}),
    Harness("C19.latch", latch, functions=_F, assumptions=_A,
            params={"quick": [dict(x, N=2) for x in _all_kinds[1::7]], "thorough": [dict(x, N=2) for x in _all_kinds]}),
    Harness("C19.interp", interp, functions=_F, assumptions=_A,
            params={"quick": [dict(x, N=3) for x in _all_kinds[2::4]] + [dict(_all_kinds[0], N=1), dict(_all_kinds[9], N=2)] + [dict(x, N=2) for x in _all_kinds if x["kind"] == "composition" and x["pi"] == 1 and x["ineq"] == "<"],
                    "thorough": [dict(x, N=n) for x in _all_kinds for n in (1, 2, 4)]}),
    Harness("C19.combine", combine, functions=_F, assumptions=_A, bounds={"conditions": "<= 3 (4 thorough)"},
            stubs=["_calculateDependentTerms/_appendArrays/_updateParticleSizeDistribution/updateCoupledModels/getCurrentX of the model: no-ops (not the subject)"],
            params={"quick": [{"modes": ["or"]}, {"modes": ["and", "and"]}, {"modes": ["or", "and", "and"]}, {"modes": ["or", "or", "and"]}, {"modes": []},
                              {"modes": ["and", "and"], "pre": ["or", "or"]}, {"modes": ["or", "and"], "pre": ["and"]}],
                    "thorough": [{"modes": list(mo)} for k in (1, 2, 3, 4) for mo in __import__("itertools").product(("or", "and"), repeat=k)]}),
    Harness("C19.ttp", ttp, functions=_F, assumptions=_A, stubs=["model.solve replaced by a stub that marks conditions met according to symbolic bits"],
            params={"quick": [{"nc": 1}, {"nc": 2}, {"nc": 2, "pre": ["or"]}, {"nc": 2, "fresh": True}], "thorough": [{"nc": 3}, {"nc": 3, "pre": ["or", "and"]}, {"nc": 3, "fresh": True}]}),
    Harness("C19.ttp_table", ttp_table, functions=[TTPCalculator.calculateTTP], assumptions=["crossing times > 0 arbitrary reals (fractions of a second included)"],
            stubs=["TTPCalculator._getStopTime replaced by a stub returning symbolic crossing times / -1 per symbolic bit (the real one is the subject of C19.ttp)"],
            params={"quick": [{"nc": 2, "nT": 2}, {"nc": 1, "nT": 2, "pool": "mp"}, {"nc": 1, "nT": 2, "pool": "map_only"}],
                    "thorough": [{"nc": 3, "nT": 3}, {"nc": 2, "nT": 3, "pool": "mp"}, {"nc": 2, "nT": 4, "pool": "mp"}, {"nc": 2, "nT": 3, "pool": "map_only"}]}),
]
