"""C05 -- the solver honours its time and state contract for any model.

step_fp : ONE iteration of the real `while` loop of DESolver.solve (lifted from the current source by vk.astx) from an
          arbitrary loop state, in IEEE-754 double arithmetic (z3 FloatingPoint): the proposed dt is a free double
          (zero, negative, +-inf, NaN ...).  No overshoot, progress, clamp window, invariant re-established.
run     : the whole real solve() in real arithmetic for <= 3 accepted steps (minDtFrac >= 1/3 makes that an unwinding
          bound that is itself proved), symbolic dt proposals and stop bits: increasing stamps, ends at tf or at the stop.
entry   : GenericModel.solve hands t0 = current time and tf = t0 + simTime to the solver.
layout  : flattenX/unflattenX round trip for nested layouts, Coupler bookkeeping, Coupler stop/dt combination.
"""
import itertools
import numpy as np
from vk.run import Harness
from vk import astx, fp
from vk.core import PathAbort
from kawin.solver.Solver import DESolver, SolverType
from kawin.solver.Iterators import ExplicitEulerIterator, RK4Iterator
from kawin.GenericModel import GenericModel, Coupler

KIND = {"euler": SolverType.EXPLICITEULER, "rk4": SolverType.RK4}


def step_fp(ctx, kind="euler", assume_resolvable=True, deep=False, only_progress=False):
    step, test, info = astx.extract_while(DESolver.solve)
    F = lambda n, s=(0.5, 2.0): fp.fp_input(ctx, n, s)
    t0 = F("t0", (0.0, 1.0)); tf = F("tf", (5.0, 6.0)); cur = F("currTime", (1.0, 4.0))
    dtmin = F("_dtmin", (0.01, 0.1)); dtmax = F("_dtmax", (0.5, 3.0)); prop = F("dt_proposed", (-1.0, 4.0))
    fin = lambda x: fp.isfinite(ctx, x)
    for v in (t0, tf, cur, dtmin, dtmax):
        ctx.assume(fin(v))
    ctx.assume(t0 <= cur); ctx.assume(cur < tf)
    ctx.assume(dtmin > 0.0); ctx.assume(dtmax > 0.0)
    # loop-state invariant: the step ceiling is at least the step floor, or it has already been cut to the remaining time
    ctx.assume(ctx.any([dtmin <= dtmax, tf - cur <= dtmax]))
    # _dtmin = minDtFrac * (tf - t0) with 2^-27 <= minDtFrac <= 1 (default 1e-8): multiplication by a power of two is exact
    ctx.assume(dtmin <= tf - t0); ctx.assume(tf - t0 <= dtmin * 134217728.0)
    if assume_resolvable:
        # the minimum step is resolvable at the current time (|t|/duration below ~1e8 for the default minDtFrac)
        ctx.assume(cur + dtmin > cur)
    s = DESolver(KIND[kind])
    seen = {}

    def post(t, X):
        seen["t"] = t
        return X, False
    s.setFunctions(preProcess=lambda: None, postProcess=post)
    s.setdXdtFunctions(lambda t, X: X * 0.0, s.correctdXdtNotImplemented, lambda dXdt: prop, s.flattenXNotImplemented, s.unflattenXNotImplemented)
    s._dtmin = dtmin; s._dtmax = dtmax
    X0 = np.zeros(0)
    st = {"self": s, "t0": t0, "X0": X0, "tf": tf, "currTime": cur, "i": 0, "stop": False, "verbose": False, "vIt": 10, "timeStart": 0.0}
    ctx.prove("loop test holds in the pre-state", test(st) is True or bool(test(st)))
    out = step(st)
    new = out["currTime"]; used = out["dt"]
    ctx.observe("currTime_new", new); ctx.observe("dt_used", used)
    if only_progress:
        ctx.prove("progress: new time > old time (no resolvability assumption)", ctx.xlt(cur, new))
        return
    ctx.prove("time handed to postProcess is the new clock", ctx.xeq(seen["t"], new))
    ctx.prove("no overshoot: new time <= tf", ctx.xle(new, tf))
    ctx.prove("new time and step are finite numbers", ctx.all([fin(new), fin(used)]))
    ctx.prove("step used <= step ceiling", ctx.xle(used, dtmax))
    rem = tf - cur
    ctx.prove("step used >= min(step floor, remaining time)", ctx.xle(ctx.ite(dtmin <= rem, dtmin, rem), used))
    ctx.prove("step used is positive", ctx.xlt(0.0, used))
    ctx.prove("step used <= remaining time (the state is never integrated past the end time)", ctx.xle(used, rem))
    ctx.prove("clock advances by the step the iterator used (up to the end-time clamp)", ctx.any([ctx.xeq(new, cur + used), ctx.xeq(new, tf)]))
    ctx.prove("progress: new time > old time" + ("" if assume_resolvable else " (no resolvability assumption)"), ctx.xlt(cur, new))
    # invariant for the next iteration (when there is one)
    ndtmax = out["self"]._dtmax
    cont = test(out)
    ctx.prove("invariant re-established when the loop continues (clock inside the interval, ceiling positive)",
              ctx.implies(cont, ctx.all([new < tf, t0 <= new, ndtmax > 0.0])))
    if deep:
        ctx.prove("invariant re-established when the loop continues (ceiling >= floor or already cut to the remaining time)",
                  ctx.implies(cont, ctx.any([dtmin <= ndtmax, tf - new <= ndtmax])))
    ctx.prove("loop continues exactly while new time < tf (no stop requested)", ctx.all([ctx.implies(cont, new < tf), ctx.implies(new < tf, cont)]))
    ctx.prove("iteration counter advanced", out["i"] == 1)


class _Rec(Exception):
    pass


def run(ctx, kind="euler", nmax=3):
    """real solve() end to end, real arithmetic, symbolic proposals and stop schedule"""
    t0 = ctx.real("t0", (-1.0, 1.0)); D = ctx.real("duration", (0.5, 2.0))
    fmin = ctx.real("minDtFrac", (1.0 / nmax, 1.0 / nmax + 0.1)); fmax = ctx.real("maxDtFrac", (1.0 / nmax + 0.1, 1.0))
    ctx.assume(D > 0); ctx.assume(fmin * nmax >= 1); ctx.assume(fmin <= fmax); ctx.assume(fmax <= 1)
    tf = t0 + D
    props = [ctx.real("dt%d" % i, (-0.5, 2.0)) for i in range(nmax + 1)]
    stops = [ctx.boolean("stop%d" % i) for i in range(nmax + 1)]
    calls = {"post": [], "dt": 0, "f": []}
    s = DESolver(KIND[kind], minDtFrac=fmin, maxDtFrac=fmax)

    def getdt(dXdt):
        k = calls["dt"]; calls["dt"] += 1
        if k > nmax:
            raise PathAbort("unwinding bound")
        return props[k]

    def post(t, X):
        k = len(calls["post"])
        if k > nmax:
            raise PathAbort("unwinding bound")
        calls["post"].append(t)
        return X, bool(stops[k])
    s.setFunctions(preProcess=lambda: None, postProcess=post)
    used = []

    def correct(dt, x, dxdt):
        used.append(dt)
    s.setdXdtFunctions(lambda t, X: (calls["f"].append(t), X * 0.0)[1], correct, getdt, s.flattenXNotImplemented, s.unflattenXNotImplemented)
    s.solve(t0, np.zeros(1), tf)
    ts = calls["post"]
    n = len(ts)
    ctx.observe("n_steps", float(n))
    ctx.prove("unwinding: at most nmax accepted steps are needed when minDtFrac >= 1/nmax", n <= nmax)
    ctx.prove("at least one step", n >= 1)
    prev = t0
    for k, t in enumerate(ts):
        ctx.prove("accepted times strictly increase", ctx.lt(prev, t))
        ctx.prove("accepted times never exceed the end time", ctx.le(t, tf))
        step_ = t - prev
        ctx.prove("step <= maxDtFrac * duration", ctx.le(step_, fmax * D))
        ctx.prove("step >= min(minDtFrac * duration, remaining time)", ctx.le(ctx.ite(fmin * D <= tf - prev, fmin * D, tf - prev), step_))
        if k < n - 1:
            ctx.prove("no step is taken after a stop request", bool(stops[k]) is False)
        per = len(used) // n if n else 0
        if per >= 1 and len(used) == per * n:
            ctx.prove("the state is advanced by exactly the accepted time difference", ctx.eq(used[per * (k + 1) - 1], step_))
        prev = t
    last_stop = bool(stops[n - 1])
    ctx.prove("run ends at the end time unless the model asked to stop at that step", ctx.any([last_stop, ctx.eq(ts[-1], tf)]))
    ctx.prove("derivative callback is first invoked at t0", ctx.eq(calls["f"][0], t0))


def entry(ctx, kind="euler"):
    """GenericModel.solve: t0 = model's current time, tf = t0 + simTime, exactly"""
    tcur = ctx.real("t_current", (-1.0, 3.0)); sim = ctx.real("simTime", (0.5, 2.0)); ctx.assume(sim > 0)
    x0 = ctx.reals("x", 2, (-1.0, 1.0))
    log = {"post": [], "f": [], "setup": 0}

    class M(GenericModel):
        def setup(self_): log["setup"] += 1
        def getCurrentX(self_): return tcur, [x0]
        def getdXdt(self_, t, x): log["f"].append(t); return [x[0] * 0.0]
        def getDt(self_, dXdt): return sim * 10.0
        def postProcess(self_, t, x): log["post"].append(t); return x, False
    m = M()
    m.solve(sim, solverType=KIND[kind])
    ctx.prove("setup called once per solve", log["setup"] == 1)
    ctx.prove("first derivative evaluation at the model's current time", ctx.eq(log["f"][0], tcur))
    ctx.prove("single accepted step when the model proposes more than the duration", len(log["post"]) == 1)
    ctx.prove("run ends exactly at current time + simTime", ctx.eq(log["post"][-1], tcur + sim))
    ctx.prove("time info recorded for the model", ctx.all([ctx.eq(m.initialTime, tcur), ctx.eq(m.finalTime, tcur + sim), ctx.eq(m.deltaTime, sim)]))


def entry_twice(ctx, kind="euler", kind2=None):
    """GenericModel.solve called twice on one model with different step fractions: each call honours ITS OWN minDtFrac / maxDtFrac
    (largest step <= maxDtFrac*simTime, and a model proposing nothing is advanced by minDtFrac*simTime per step)"""
    sims = [ctx.real("simTime%d" % k, (0.5, 2.0)) for k in range(2)]
    fr = [ctx.real("maxDtFrac%d" % k, (0.3, 0.9)) for k in range(2)]
    for k in range(2):
        ctx.assume(sims[k] > 0); ctx.assume(fr[k] >= 0.3); ctx.assume(fr[k] <= 1)
    x0 = ctx.reals("x", 1, (-1.0, 1.0))
    st = {"t": ctx.real("t_current", (-1.0, 1.0)), "post": [], "evals": 0}
    kinds = [kind, kind2 or kind]

    class M(GenericModel):
        def setup(self_): pass
        def getCurrentX(self_): return st["t"], [x0]
        def getdXdt(self_, t, x): st["evals"] += 1; return [x[0] * 0.0]
        def getDt(self_, dXdt): return sims[0] * 100.0 + sims[1] * 100.0      # proposes far more than any allowed step
        def postProcess(self_, t, x): st["post"].append(t); st["t"] = t; return x, False
    m = M()
    for k in range(2):
        t0 = st["t"]; n0 = len(st["post"]); e0 = st["evals"]
        m.solve(sims[k], solverType=KIND[kinds[k]], maxDtFrac=fr[k])
        steps = st["post"][n0:]
        ctx.prove("call %d: the iterator asked for in THIS call is used (model evaluations per accepted step)" % (k + 1),
                  st["evals"] - e0 == len(steps) * (4 if kinds[k] == "rk4" else 1))
        prev = t0
        for tt in steps:
            ctx.prove("call %d: no step exceeds this call's maxDtFrac * simTime" % (k + 1), ctx.le(tt - prev, fr[k] * sims[k]))
            prev = tt
        ctx.prove("call %d: the run ends exactly at its own end time" % (k + 1), ctx.eq(st["post"][-1], t0 + sims[k]))


def _mk_layout(ctx, layout, tag):
    X = []
    for i, sz in enumerate(layout):
        if sz == 0:
            X.append(ctx.real("%s%d" % (tag, i), (-1.0, 1.0)))
        else:
            X.append(ctx.reals("%s%d" % (tag, i), sz, (-1.0, 1.0)))
    return X


def _same(ctx, a, b):
    return ctx.eq(a, b)


def layout(ctx, lay=(0, 2, 1)):
    """unflattenX(flattenX(X), X) returns every entry in its original slot with its original shape"""
    m = GenericModel()
    X = _mk_layout(ctx, lay, "e")
    flat = m.flattenX(X)
    ctx.prove("flat length", len(flat) == sum(max(1, s) for s in lay))
    Y = m.unflattenX(flat, X)
    ctx.prove("same number of entries", len(Y) == len(X))
    for i, sz in enumerate(lay):
        if sz == 0:
            ctx.prove("scalar entry back in its slot", ctx.all([np.ndim(Y[i]) == 0, _same(ctx, Y[i], X[i])]))
        else:
            ctx.prove("array entry keeps its shape", np.shape(Y[i]) == (sz,))
            if np.shape(Y[i]) == (sz,):
                ctx.prove("array entry back in its slot", ctx.all([_same(ctx, Y[i][j], X[i][j]) for j in range(sz)]))
    # flat order is entry order
    k = 0
    for i, sz in enumerate(lay):
        for j in range(max(1, sz)):
            ctx.prove("flat vector is the concatenation in entry order", _same(ctx, flat[k], X[i] if sz == 0 else X[i][j]))
            k += 1


def coupler(ctx, lay1=(2,), lay2=(0, 1), kind="euler"):
    """Coupler of two models with different layouts: round trip, per-model callbacks get their own layout inside a real
    solver iteration, dt = min over models, stop = any model requests it, clock recorded"""
    log = {"f": [], "post": []}
    dts = [ctx.real("dtA", (0.1, 1.0)), ctx.real("dtB", (0.1, 1.0))]
    ctx.assume(dts[0] > 0); ctx.assume(dts[1] > 0)
    stops = [ctx.boolean("stopA"), ctx.boolean("stopB")]

    class M(GenericModel):
        def __init__(self_, idx, lay): self_.idx = idx; self_.lay = lay
        def getdXdt(self_, t, x):
            log["f"].append((self_.idx, [np.shape(e) for e in x]))
            return [e * 0.0 + 1.0 for e in x]
        def getDt(self_, dXdt): return dts[self_.idx]
        def postProcess(self_, t, x):
            log["post"].append((self_.idx, t, [np.shape(e) for e in x]))
            return x, bool(stops[self_.idx])
    a, b = M(0, lay1), M(1, lay2)
    c = Coupler([a, b])
    X = [_mk_layout(ctx, lay1, "a"), _mk_layout(ctx, lay2, "b")]
    flat = c.flattenX(X)
    Y = c.unflattenX(flat, X)
    for mi, lay in enumerate((lay1, lay2)):
        for i, sz in enumerate(lay):
            if sz == 0:
                ctx.prove("coupled round trip: scalar slot", _same(ctx, Y[mi][i], X[mi][i]))
            else:
                ctx.prove("coupled round trip: array slot keeps its shape", np.shape(Y[mi][i]) == (sz,))
                if np.shape(Y[mi][i]) == (sz,):
                    ctx.prove("coupled round trip: array slot", ctx.all([_same(ctx, Y[mi][i][j], X[mi][i][j]) for j in range(sz)]))
    shp = lambda lay: [() if s == 0 else (s,) for s in lay]
    d = c.getdXdt(0.0, X)
    ctx.prove("each model's derivative callback sees its own layout", [e for e in log["f"]] == [(0, shp(lay1)), (1, shp(lay2))])
    dt = c.getDt(d)
    ctx.prove("coupled dt is the smallest proposal", ctx.eq(dt, ctx.ite(dts[0] <= dts[1], dts[0], dts[1])))
    # one real solver iteration through the coupler
    s = DESolver(KIND[kind])
    s.setFunctions(preProcess=c.preProcess, postProcess=c.postProcess)
    s.setdXdtFunctions(c.getdXdt, c.correctdXdt, c.getDt, c.flattenX, c.unflattenX)
    s._dtmin = 0.0; s._dtmax = 1e30; s._X0 = X
    log["f"].clear()
    xf, dtu = s.iterator(s._getdXdt, 0.0, c.flattenX(X), s._updateX)
    Xn = c.unflattenX(xf, X)
    tnew = ctx.real("tnew", (0.1, 2.0))
    xn, stop = c.postProcess(tnew, Xn)
    ctx.prove("callbacks inside a solver iteration see the supplied layouts", all(e == (0, shp(lay1)) or e == (1, shp(lay2)) for e in log["f"]) and len(log["f"]) >= 2)
    ctx.prove("each model's postProcess sees its own layout and the step time",
              [(e[0], e[2]) for e in log["post"]] == [(0, shp(lay1)), (1, shp(lay2))] and ctx.all([ctx.eq(e[1], tnew) for e in log["post"]]))
    want = ctx.any([bool(stops[0]), bool(stops[1])])
    ctx.prove("coupled stop = any model requested it", bool(stop) == bool(want))
    ctx.prove("coupler clock records the step", ctx.all([len(c.time) == 2, ctx.eq(c.time[-1], tnew)]))


def coupler_clock(ctx, kind="euler"):
    """real Coupler.solve on two models of which one was advanced on its own before (its current time t1 > 0; the Coupler's docstring
    allows that): every model is advanced from ITS current time by the requested duration, with increasing times"""
    t1 = ctx.real("t_modelA", (0.5, 3.0)); ctx.assume(t1 > 0)
    sim = ctx.real("simTime", (0.5, 2.0)); ctx.assume(sim > 0)
    sim2 = ctx.real("simTime2", (0.5, 2.0)); ctx.assume(sim2 > 0)
    xs = [ctx.reals("xa", 1, (-1.0, 1.0)), ctx.reals("xb", 2, (-1.0, 1.0))]
    log = {0: [], 1: []}

    class M(GenericModel):
        def __init__(self_, idx, t): self_.idx = idx; self_.t = t
        def setup(self_): pass
        def getCurrentX(self_): return self_.t, [xs[self_.idx]]
        def getdXdt(self_, t, x): return [x[0] * 0.0]
        def getDt(self_, dXdt): return (sim + sim2) * 100.0
        def postProcess(self_, t, x): log[self_.idx].append(t); self_.t = t; return x, False
    a, b = M(0, t1), M(1, 0.0)
    c = Coupler([a, b])
    c.solve(sim, solverType=KIND[kind])
    ctx.prove("one accepted step when the models propose more than the duration", len(log[0]) == 1 and len(log[1]) == 1)
    if len(log[0]) == 1 and len(log[1]) == 1:
        ctx.prove("the model that starts at 0 ends at the requested duration", ctx.eq(log[1][-1], sim))
        ctx.prove("a model advanced on its own before coupling continues from its own time (t1 + duration, never backwards)",
                  ctx.all([ctx.eq(log[0][-1], t1 + sim), ctx.lt(t1, log[0][-1])]))
    # a second solve on the same coupler continues the coupling clock (and the model that started with it)
    c.solve(sim2, solverType=KIND[kind])
    ctx.prove("second solve: one more accepted step", len(log[1]) == 2)
    if len(log[1]) == 2:
        ctx.prove("second solve on the same coupler continues from the end of the first (sub-model time sim + sim2)", ctx.eq(log[1][-1], sim + sim2))
        ctx.prove("second solve: coupling clock continues", ctx.eq(c.time[-1], sim + sim2))


_F = [DESolver.solve, DESolver._getdXdt, DESolver._updateX, ExplicitEulerIterator, RK4Iterator, GenericModel.solve, GenericModel.setTimeInfo,
      GenericModel.flattenX, GenericModel.unflattenX, Coupler.flattenX, Coupler.unflattenX, Coupler.getDt, Coupler.getdXdt, Coupler.postProcess]
_lays = [l for n in (1, 2, 3) for l in itertools.product((0, 1, 2, 3), repeat=n)]
HARNESSES = [
    Harness("C05.step_fp", step_fp, functions=_F,
            assumptions=["loop pre-state: finite t0 <= currTime < tf, _dtmin > 0, _dtmax > 0, (_dtmin <= _dtmax or _dtmax >= tf - currTime)",
                         "progress clause: fl(currTime + _dtmin) > currTime (the minimum step is resolvable at the current time); without it see known findings",
                         "IEEE-754 binary64, round-to-nearest-even for + and -; proposed dt is an arbitrary double incl. NaN/inf/negative/zero",
                         "_dtmin = minDtFrac*(tf - t0) with 2^-27 <= minDtFrac <= 1 (stated as _dtmin <= tf - t0 <= 2^27 * _dtmin)"],
            bounds={"iterations": "one loop iteration from an arbitrary state (inductive step)", "arithmetic": "Float64"},
            opts={"ob_timeout": 120.0, "branch_timeout_ms": 4000, "batch": False, "fast_first": False, "cvc5": False, "shards": 8}, budget={"quick": 420.0, "thorough": 2400.0}, validate=1,
            params={"quick": [{"kind": "euler"}], "thorough": [{"kind": "euler", "deep": True}, {"kind": "rk4"}]}),
    Harness("C05.step_fp_unresolvable", step_fp, functions=_F,
            assumptions=["as C05.step_fp but WITHOUT assuming that the minimum step is resolvable at the current time"],
            bounds={"iterations": "one loop iteration", "arithmetic": "Float64"},
            opts={"ob_timeout": 120.0, "branch_timeout_ms": 4000, "batch": False, "fast_first": False, "cvc5": False}, budget={"quick": 420.0, "thorough": 2400.0}, validate=1,
            params={"quick": [{"kind": "euler", "assume_resolvable": False, "only_progress": True}],
                    "thorough": [{"kind": "euler", "assume_resolvable": False, "only_progress": True}, {"kind": "rk4", "assume_resolvable": False, "only_progress": True}]}),
    Harness("C05.run", run, functions=_F, assumptions=["real arithmetic", "duration > 0, 1/nmax <= minDtFrac <= maxDtFrac <= 1"],
            bounds={"accepted steps": "<= nmax (proved as unwinding obligation)"}, opts={"max_paths": 1500},
            params={"quick": [{"kind": "euler", "nmax": 2}, {"kind": "rk4", "nmax": 2}, {"kind": "euler", "nmax": 3}],
                    "thorough": [{"kind": "rk4", "nmax": 3}, {"kind": "euler", "nmax": 4}]}),
    Harness("C05.entry", entry, functions=_F, assumptions=["real arithmetic"],
            params={"quick": [{"kind": "euler"}, {"kind": "rk4"}], "thorough": [{"kind": "euler"}, {"kind": "rk4"}]}),
    Harness("C05.coupler_clock", coupler_clock, functions=_F + [Coupler.solve if hasattr(Coupler, "solve") else GenericModel.solve],
            assumptions=["real arithmetic; the models propose more than the duration (one accepted step)"],
            params={"quick": [{"kind": "euler"}], "thorough": [{"kind": "euler"}, {"kind": "rk4"}]}),
    Harness("C05.entry_twice", entry_twice, functions=_F, assumptions=["real arithmetic", "0.3 <= maxDtFrac <= 1 (at most 4 steps per call)", "the model proposes more than any allowed step"],
            bounds={"solve calls": 2}, params={"quick": [{"kind": "euler"}, {"kind": "euler", "kind2": "rk4"}], "thorough": [{"kind": "euler"}, {"kind": "rk4"}, {"kind": "rk4", "kind2": "euler"}]}),
    Harness("C05.layout", layout, functions=_F, bounds={"layouts": "<= 3 entries, each a scalar or a 1-D array of length <= 3 (enumerated)"},
            params={"quick": [{"lay": list(l)} for l in _lays[::5]], "thorough": [{"lay": list(l)} for l in _lays]}),
    Harness("C05.coupler", coupler, functions=_F, bounds={"models": 2, "layouts": "as listed"},
            params={"quick": [{"lay1": [2], "lay2": [0, 1], "kind": "euler"}, {"lay1": [0], "lay2": [3], "kind": "rk4"}, {"lay1": [1, 2], "lay2": [2], "kind": "euler"}],
                    "thorough": [{"lay1": list(a), "lay2": list(b), "kind": k} for a in _lays[1:20:4] for b in _lays[2:30:6] for k in ("euler", "rk4")]}),
]
