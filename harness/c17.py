"""C17 -- homogenised mobilities respect the classical bounds and post-processing addresses phases by name.

Clause 1 (bounds/perm/single/lab): the five real averaging functions on a symbolic (phases x elements) mobility matrix
and a symbolic fraction vector on the simplex.
Clause 2 (post): the four real post-process functions on rows labelled by the *stable* phases (a sub-list, in any
order, of the database phase list) with symbolic 'undefined' flags per row; oracle written from the documentation.
Clause 3 (e2e): the real computeHomogenizationFunction -> real _computeSingleMobility -> real HashTable, with the
thermodynamic backend (therm.getEq, mobility_from_composition_set) replaced by uninterpreted functions of the
point: result = averaging rule applied to the oracle's matrices; evaluating the same point again (second call, and
second row of one call) gives the same answer, cache enabled or not.
"""
import itertools, importlib, functools, operator
import numpy as np
from vk.run import Harness
from kawin.thermo import GeneralThermodynamics
from kawin.thermo.Mobility import x_to_u_frac, interstitials

HP = importlib.import_module("kawin.diffusion.HomogenizationParameters")      # the module (the package re-exports the class)
DP = importlib.import_module("kawin.diffusion.DiffusionParameters")
HomogenizationParameters = HP.HomogenizationParameters

RULES = {"wu": HP.wienerUpper, "wl": HP.wienerLower, "hu": HP.hashinShtrikmanUpper, "hl": HP.hashinShtrikmanLower}


# ------------------------------------------------------------------------------------------------ inputs

def simplex(ctx, p, name="f"):
    """fractions on the simplex: f_0..f_{p-2} >= 0 are inputs with sum <= 1, the last one is 1 - sum"""
    if p == 1:
        return np.array([ctx.const(1.0)])
    g = ctx.reals(name, p - 1, (0.0, 1.0 / (p - 1)))
    for i in range(p - 1):
        ctx.assume(g[i] >= 0)
    last = 1.0 - sum(g[i] for i in range(p - 1))
    ctx.assume(last >= 0)
    return np.array([g[i] for i in range(p - 1)] + [last])


def defined_mob(ctx, p, e, name="M"):
    M = ctx.reals(name, (p, e), (0.2, 3.0))
    for i in range(p):
        for j in range(e):
            ctx.assume(M[i, j] > 0)
    return M


def order_fork(ctx, M, j):
    """fork on the order of the phase mobilities of element j, so that every path carries a concrete ordering
    (amax/amin inside the real code then fold under the path condition)"""
    if ctx.mode == "concrete":
        return
    p = M.shape[0]
    for a in range(p):
        for b in range(a + 1, p):
            if M[a, j] <= M[b, j]:
                pass


def cp(a):
    """element-wise copy that shares no storage (kawin's post-process functions write in place)"""
    return np.array([[a[i, j] * 1 for j in range(a.shape[1])] for i in range(a.shape[0])]) if a.ndim == 2 \
        else np.array([a[i] * 1 for i in range(a.shape[0])])


# ------------------------------------------------------------------------------------------------ clause 1

def bounds(ctx, p=2, e=1, order=None):
    """min M <= W_low <= HS_low <= HS_up <= W_up <= max M for defined mobilities and fractions on the simplex.
    order=None: the orderings of the phase mobilities are explored as paths; order=(i0, i1, ..): only the case
    M[i0] <= M[i1] <= ... for element 0 (a list of such tuples: one per element) -- the parameter sets enumerate all
    orderings, so that they run in parallel"""
    orders = [] if order is None else ([list(order)] if not isinstance(order[0], (list, tuple)) else [list(o) for o in order])
    M = defined_mob(ctx, p, e)
    if ctx.mode == "concrete" and ctx.rng is not None:
        # random validation sample: rearrange each column so that it has the ordering of this parameter set
        for j, o in enumerate(orders):
            col = sorted(float(M[i, j]) for i in range(p))
            for rank, i in enumerate(o):
                M[i, j] = col[rank]; ctx.values["M[%d,%d]" % (i, j)] = col[rank]
    f = simplex(ctx, p)
    for j, o in enumerate(orders):
        for a, b in zip(o[:-1], o[1:]):
            ctx.assume(M[a, j] <= M[b, j])
    for j in range(len(orders), e):
        order_fork(ctx, M, j)
    M0 = cp(M); f0 = cp(f)
    r = {k: fn(M, f) for k, fn in RULES.items()}
    for k in r:
        ctx.observe(k, r[k])
    ctx.safe("finite")
    for j in range(e):
        col = [M0[i, j] for i in range(p)]
        ctx.prove("min M <= lower Wiener", ctx.any([ctx.le(c, r["wl"][j]) for c in col]))
        ctx.prove("lower Wiener <= lower Hashin-Shtrikman", ctx.le(r["wl"][j], r["hl"][j]))
        ctx.prove("lower Hashin-Shtrikman <= upper Hashin-Shtrikman", ctx.le(r["hl"][j], r["hu"][j]))
        ctx.prove("upper Hashin-Shtrikman <= upper Wiener", ctx.le(r["hu"][j], r["wu"][j]))
        ctx.prove("upper Wiener <= max M", ctx.any([ctx.le(r["wu"][j], c) for c in col]))
    ctx.prove("inputs not modified", ctx.all([ctx.eq(M[i, j], M0[i, j]) for i in range(p) for j in range(e)] +
                                             [ctx.eq(f[i], f0[i]) for i in range(p)]))


def perm(ctx, p=2, e=1, perm=(1, 0), rules=("wu", "wl", "hu", "hl")):
    """each bound rule gives the same value when the phases are listed in another order"""
    M = defined_mob(ctx, p, e)
    f = simplex(ctx, p)
    for j in range(e):
        order_fork(ctx, M, j)
    idx = list(perm)
    for k in rules:
        a = RULES[k](cp(M), cp(f))
        b = RULES[k](cp(M)[idx], cp(f)[idx])
        ctx.observe(k, a); ctx.observe(k + "_perm", b)
        ctx.prove("%s independent of the phase order" % RULES[k].__name__, ctx.all([ctx.eq(a[j], b[j]) for j in range(e)]))


def single(ctx, e=2):
    """a single phase: every rule returns that phase's mobility"""
    M = defined_mob(ctx, 1, e)
    f = simplex(ctx, 1)
    for k, fn in RULES.items():
        r = fn(cp(M), cp(f))
        ctx.observe(k, r)
        ctx.prove("%s of a single phase is its mobility" % fn.__name__, ctx.all([ctx.eq(r[j], M[0, j]) for j in range(e)]))
    ctx.safe("finite")


def lab(ctx, p=2, e=1, n="sym", undef=False):
    """labyrinth(n = 1) = upper Wiener; labyrinth(n) <= upper Wiener for 1 <= n <= 2"""
    M = ctx.reals("M", (p, e), (0.2, 3.0))
    und = [[ctx.boolean("undef[%d,%d]" % (i, j)) if undef else False for j in range(e)] for i in range(p)]
    for i in range(p):
        for j in range(e):
            ctx.assume(M[i, j] > 0)
            if undef:
                M[i, j] = ctx.ite(und[i][j], ctx.const(-1.0), M[i, j])
    f = simplex(ctx, p)
    wu = HP.wienerUpper(cp(M), cp(f))
    l1 = HP.labyrinth(cp(M), cp(f), labyrinth_factor=1)
    ctx.observe("wu", wu); ctx.observe("l1", l1)
    ctx.prove("labyrinth with factor 1 equals upper Wiener", ctx.all([ctx.eq(l1[j], wu[j]) for j in range(e)]))
    if n == "sym":
        nn = ctx.real("n", (1.0, 2.0))
        ctx.assume(nn >= 1); ctx.assume(nn <= 2)
        # ground instances of pow(x, 1) = x for the fractions, so that the monotonicity axioms of pow in the exponent
        # (the only facts about pow the engine has) relate pow(f, n) to f
        one = ctx.real("one", (1.0, 1.0)); ctx.assume(one == 1)
        anchors = [f[i] ** one for i in range(p)]
    else:
        nn = n
    Ma, fa = cp(M), cp(f)
    ln = HP.labyrinth(Ma, fa, labyrinth_factor=nn)
    ctx.observe("ln", ln); ctx.observe("f_after", fa); ctx.observe("M_after", Ma)
    # the arrays handed in are the ones stored in the cache entry of the point: a rule that overwrites them makes
    # the next evaluation of the same point differ
    ctx.prove("labyrinth: fractions argument not modified", ctx.all([ctx.eq(fa[i], f[i]) for i in range(p)]))
    ctx.prove("labyrinth: mobility argument not modified", ctx.all([ctx.eq(Ma[i, j], M[i, j]) for i in range(p) for j in range(e)]))
    ctx.prove("labyrinth never exceeds upper Wiener", ctx.all([ctx.le(ln[j], wu[j]) for j in range(e)]))
    # through the parameter object (clipping of the factor to [1, 2] is what the setter documents)
    hp = HomogenizationParameters("lab")
    hp.setLabyrinthFactor(nn)
    Mb, fb = cp(M), cp(f)
    l2 = hp.homogenizationFunction(Mb, fb, labyrinth_factor=hp.labyrinthFactor)
    ctx.prove("labyrinth through HomogenizationParameters: arguments not modified",
              ctx.all([ctx.eq(fb[i], f[i]) for i in range(p)] + [ctx.eq(Mb[i, j], M[i, j]) for i in range(p) for j in range(e)]))
    ctx.prove("labyrinth through HomogenizationParameters never exceeds upper Wiener", ctx.all([ctx.le(l2[j], wu[j]) for j in range(e)]))


# ------------------------------------------------------------------------------------------------ clause 2

DB = ["ALPHA", "BETA", "GAMMA", "DELTA"]


def mk_therm(phases, elements=("A", "B")):
    t = object.__new__(GeneralThermodynamics)
    t.phases = list(phases)
    t.elements = list(elements) + ["VA"]
    t.numElements = len(elements)
    return t


def mk_rows(ctx, stable, e, simplex_f=True):
    """mobility rows of the stable phases: a row is either defined (> 0) or undefined (-1, as _computeSingleMobility
    leaves it for a phase without mobility model), chosen by a symbolic bit per phase"""
    p = len(stable)
    M = ctx.reals("M", (p, e), (0.2, 3.0))
    bit = {ph: ctx.boolean("undef_%s" % ph) for ph in dict.fromkeys(stable)}      # one bit per phase name
    und = [bit[ph] for ph in stable]       # a name may be stable as several composition sets (miscibility gap)
    for i in range(p):
        for j in range(e):
            ctx.assume(M[i, j] > 0)
            M[i, j] = ctx.ite(und[i], ctx.const(-1.0), M[i, j])
    f = simplex(ctx, p)
    return M, f, und


def is_undef(ctx, v):
    return ctx.eq(v, -1.0, rtol=0.0)


def oracle_post(ctx, mode, arg, stable, M, f, und=None):
    """what the documentation says, written on rows addressed by *name*.  Returns (M', f', checks) where M'[i][j] is the
    expected entry or None when the documentation leaves it open; `checks` are extra (name, cond) claims"""
    p, e = M.shape
    Mo = [[M[i, j] for j in range(e)] for i in range(p)]
    fo = [f[i] for i in range(p)]
    if und is None:
        und = lambda i, j: is_undef(ctx, M[i, j])
    if mode == "none":
        return Mo, fo
    if mode == "predefined":
        # "phases with no mobility models will take on the same mobility value as the predefined phase"
        if arg in stable:
            a = list(stable).index(arg)
            Mo = [[ctx.ite(und(i, j), M[a, j], M[i, j]) for j in range(e)] for i in range(p)]
        return Mo, fo
    if mode == "exclude":
        # "for all excluded phases, the ... phase fraction will be set to 0"; the mobility of an excluded row is left
        # open (None): its fraction is zero
        for i, ph in enumerate(stable):
            if ph in arg:
                fo[i] = 0.0 * f[i]
                Mo[i] = [None] * e
        return Mo, fo
    raise ValueError(mode)


def check_post(ctx, tag, mode, arg, stable, M0, f0, M1, f1):
    p, e = M0.shape
    if mode == "majority":
        # "phases with no mobility will take on the same mobility of the phase with the largest phase fraction";
        # which of several equally large phases is used is left open
        for i in range(p):
            for j in range(e):
                same = ctx.eq(M1[i, j], M0[i, j])
                frommaj = ctx.any([ctx.all([ctx.all([f0[k] >= f0[m] for m in range(p)]), ctx.eq(M1[i, j], M0[k, j])]) for k in range(p)])
                ctx.prove(tag + "majority: undefined entries take the mobility of a phase with the largest fraction, defined entries stay",
                          ctx.ite(is_undef(ctx, M0[i, j]), frommaj, same))
        ctx.prove(tag + "majority: fractions unchanged", ctx.all([ctx.eq(f1[i], f0[i]) for i in range(p)]))
        return
    Mo, fo = oracle_post(ctx, mode, arg, stable, M0, f0)
    want = [ctx.eq(M1[i, j], Mo[i][j]) for i in range(p) for j in range(e) if Mo[i][j] is not None]
    ctx.prove(tag + "%s: mobility rows as documented, addressed by name" % mode, ctx.all(want) if want else True)
    ctx.prove(tag + "%s: fractions as documented, addressed by name" % mode, ctx.all([ctx.eq(f1[i], fo[i]) for i in range(p)]))


def post(ctx, mode="predefined", arg="BETA", db=3, stable=("BETA", "ALPHA"), e=2):
    """a post-process option acts on the rows *named* by the user among the stable phases of the point"""
    therm = mk_therm(DB[:db])
    M, f, und = mk_rows(ctx, stable, e)
    M0 = cp(M); f0 = cp(f)
    hp = HomogenizationParameters("wiener upper", postProcessFunction=mode, postProcessArgs=arg)
    if mode == "exclude" and isinstance(arg, str):
        # a single phase given by its bare name instead of the documented one-element list: a version that rejects this input is fine,
        # one that accepts it must act on the phase of that name (not on none, not on another one)
        try:
            M1, f1 = hp.postProcessFunction(therm, M, f, *hp.postProcessParameters, phases=np.array(list(stable)))
        except (TypeError, ValueError):
            return
        arg = [arg]
    else:
        M1, f1 = hp.postProcessFunction(therm, M, f, *hp.postProcessParameters, phases=np.array(list(stable)))
    ctx.observe("M1", M1); ctx.observe("f1", f1)
    ctx.prove("post-process returns a (p, e) matrix and p fractions", np.shape(M1) == np.shape(M0) and np.shape(f1) == np.shape(f0))
    check_post(ctx, "", mode, arg, stable, M0, f0, M1, f1)


# ------------------------------------------------------------------------------------------------ clause 3

class _PR:
    def __init__(self, name, els):
        self.phase_name = name
        self.nonvacant_elements = list(els)


class _CS:
    def __init__(self, name, els, NP, X):
        self.phase_record = _PR(name, els)
        self.NP = NP
        self.X = X


class _Eq:
    pass


class _Wks:
    def __init__(self, MU, cs):
        self.eq = _Eq(); self.eq.MU = MU
        self._cs = cs

    def get_composition_sets(self):
        return self._cs


BIG = 1.0e6      # backend values are taken from (0, BIG): keeps solver models inside the double range


def mk_backend(ctx, therm, stable, log, undef=True):
    """thermodynamic backend as uninterpreted functions of the point (x, T); arrays in alphabetical element order
    (pycalphad's convention).  The stable composition sets (names, order; a name may occur twice = miscibility gap,
    each set with its own amounts/compositions/mobilities) are fixed per harness parameter set; which phase names
    have a mobility model is a symbolic bit per name."""
    els = sorted(therm.elements[:-1])
    has_model = {ph: (ctx.neg(ctx.boolean("undef_%s" % ph)) if (ph in stable and undef) else True) for ph in therm.phases}
    cs_key = {}

    def getEq(x, T, gExtra=0, precPhase=None):
        key = [xi for xi in np.atleast_1d(x)] + [T]
        log.append(key)
        raw = [ctx.uf("NP_%d%s" % (i, ph), *key, rng=(0.1, 1.0)) for i, ph in enumerate(stable)]
        for r in raw:
            ctx.assume(r > 0, "backend contract: stable phases have positive amount"); ctx.assume(r < BIG)
        tot = sum(raw)
        NP = [r / tot for r in raw]
        cs = []
        for i, ph in enumerate(stable):
            X = [ctx.uf("X_%d%s_%s" % (i, ph, el), *key, rng=(0.1, 1.0)) for el in els]
            for v in X:
                ctx.assume(v > 0, "backend contract: positive site fractions"); ctx.assume(v < BIG)
            cs.append(_CS(ph, els, NP[i], X))
            cs_key[id(cs[-1])] = (cs[-1], key, i)
        MU = np.array([[ctx.uf("MU_%s" % el, *key, rng=(-2.0, 2.0)) for el in els]])
        return _Wks(MU, cs)

    def mob_from_cs(cs, callables, correction=None, parameters={}):
        ph = cs.phase_record.phase_name
        _, key, i = cs_key[id(cs)]
        vals = [ctx.uf("MOB_%d%s_%s" % (i, ph, el), *key, rng=(0.2, 3.0)) for el in els]
        for v in vals:
            ctx.assume(v > 0, "backend contract: mobilities are positive"); ctx.assume(v < BIG)
        return np.array(vals)

    therm.getEq = getEq
    therm.mobility_correction = {el: 1 for el in therm.elements}
    return has_model, mob_from_cs, els


def e2e(ctx, rule="wiener upper", mode="predefined", arg="BETA", db=3, stable=("BETA", "ALPHA"), elements=("NI", "AL"),
        cache=True, pts=((0.3,),), T=900.0, undef=True, labfac=1):
    """real computeHomogenizationFunction/_computeSingleMobility/HashTable on a stubbed backend: the average at every
    point is the rule applied to the documented (by-name) post-processing of the backend's rows for that point, and
    evaluating the points again (cache enabled or disabled) gives the same answer"""
    therm = mk_therm(DB[:db], elements)
    log = []
    has_model, mob_from_cs, els = mk_backend(ctx, therm, stable, log, undef)
    # a phase without mobility model has no callables (None), exactly as GeneralThermodynamics leaves it;
    # whether it has one is symbolic -> fork here (dict.get(...) is not None is a Python-level test in the real code)
    therm.mobCallables = {ph: ({} if has_model[ph] else None) for ph in therm.phases}
    ne = len(elements); npts = len(pts)
    hp = HomogenizationParameters(rule, labyrinthFactor=labfac, postProcessFunction=mode, postProcessArgs=arg)
    ht = DP.HashTable()
    ht.enableCaching(cache)
    saved = DP.mobility_from_composition_set
    DP.mobility_from_composition_set = mob_from_cs
    try:
        if ne == 2:
            xin = [q[0] for q in pts] if npts > 1 else pts[0][0]
        else:
            xin = [list(q) for q in pts] if npts > 1 else list(pts[0])
        avg1, mu1 = HP.computeHomogenizationFunction(therm, xin, T, hp, ht)
        ncalls1 = len(log)
        avg2, mu2 = HP.computeHomogenizationFunction(therm, xin, T, hp, ht)
        ncalls2 = len(log)
    finally:
        DP.mobility_from_composition_set = saved
    avg1 = np.reshape(avg1, (npts, ne)); avg2 = np.reshape(avg2, (npts, ne))
    mu1 = np.reshape(mu1, (npts, ne)); mu2 = np.reshape(mu2, (npts, ne))
    ctx.observe("avg1", avg1); ctx.observe("avg2", avg2); ctx.observe("backend calls", [ncalls1, ncalls2])
    # ---- oracle: rows by name from the backend, in the element order of therm.elements
    p = len(stable)
    sub = [el for el in elements if el not in interstitials]      # u-fraction: X_a / sum of the substitutional X
    und_row = [not bool(has_model[ph]) for ph in stable]          # decided on this path (forked where mobCallables was built)
    avg = lambda Mx, fx: hp.homogenizationFunction(np.array(Mx), np.array(fx), labyrinth_factor=hp.labyrinthFactor)
    for k in range(npts):
        key = list(pts[k]) + [T]
        raw = [ctx.uf("NP_%d%s" % (i, ph), *key, rng=(0.1, 1.0)) for i, ph in enumerate(stable)]
        tot = sum(raw)
        f0 = np.array([r / tot for r in raw])
        rows = []
        for i, ph in enumerate(stable):
            X = {el: ctx.uf("X_%d%s_%s" % (i, ph, el), *key, rng=(0.1, 1.0)) for el in els}
            usum = functools.reduce(operator.add, [X[el] for el in sub])
            if not und_row[i]:
                rows.append([ctx.uf("MOB_%d%s_%s" % (i, ph, el), *key, rng=(0.2, 3.0)) * (X[el] / usum) for el in elements])
            else:
                rows.append([ctx.const(-1.0) for el in elements])
        M0 = np.array(rows)
        if mode == "majority":
            # undefined entries take the mobility of a phase with the largest fraction (which one among equals is open)
            alts = []
            for m in range(p):
                Mk = [[(M0[m, j] if und_row[i] else M0[i, j]) for j in range(ne)] for i in range(p)]
                alts.append((ctx.all([f0[m] >= f0[q] for q in range(p)]), avg(Mk, [f0[i] for i in range(p)])))
            ctx.prove("average = rule applied to the by-name post-processed rows of the point",
                      ctx.any([ctx.all([c] + [ctx.eq(avg1[k, j], w[j]) for j in range(ne)]) for c, w in alts]))
        else:
            Mo, fo = oracle_post(ctx, mode, arg, stable, M0, f0, und=lambda i, j: und_row[i])
            # excluded rows: their mobility is left open by the documentation; the backend's row is used here, which is
            # immaterial for the upper Wiener/labyrinth rules (fraction zero) -- 'exclude' is only run with those rules
            Mo = [[Mo[i][j] if Mo[i][j] is not None else M0[i, j] for j in range(ne)] for i in range(p)]
            want = avg(Mo, fo)
            ctx.prove("average = rule applied to the by-name post-processed rows of the point",
                      ctx.all([ctx.eq(avg1[k, j], want[j]) for j in range(ne)]))
        ctx.prove("second evaluation of the point gives the same average", ctx.all([ctx.eq(avg2[k, j], avg1[k, j]) for j in range(ne)]))
        ctx.prove("second evaluation of the point gives the same chemical potentials", ctx.all([ctx.eq(mu2[k, j], mu1[k, j]) for j in range(ne)]))
        for k0 in range(k):
            if list(pts[k0]) == list(pts[k]):
                ctx.prove("repeated point inside one call gives the same average", ctx.all([ctx.eq(avg1[k, j], avg1[k0, j]) for j in range(ne)]))


def backend_rows(ctx, stable, els, elements, key, und_row):
    """what the backend stub delivers for the point `key`, by composition set: fractions and (p, e) mobility rows in
    the element order of therm.elements (u-fraction weighted), -1 rows for phases without mobility model"""
    sub = [el for el in elements if el not in interstitials]
    raw = [ctx.uf("NP_%d%s" % (i, ph), *key, rng=(0.1, 1.0)) for i, ph in enumerate(stable)]
    tot = sum(raw)
    f0 = [r / tot for r in raw]
    rows = []
    for i, ph in enumerate(stable):
        X = {el: ctx.uf("X_%d%s_%s" % (i, ph, el), *key, rng=(0.1, 1.0)) for el in els}
        usum = functools.reduce(operator.add, [X[el] for el in sub])
        if not und_row[i]:
            rows.append([ctx.uf("MOB_%d%s_%s" % (i, ph, el), *key, rng=(0.2, 3.0)) * (X[el] / usum) for el in elements])
        else:
            rows.append([ctx.const(-1.0) for el in elements])
    return rows, f0


def seq(ctx, A=("wiener upper", "none", None, 1), B=("wiener upper", "exclude", ["GAMMA"], 1), db=3, stable=("GAMMA", "ALPHA"),
        elements=("NI", "AL"), x=(0.3,), T=900.0):
    """one HashTable with caching on, the same point evaluated with parameter set A, then B, then A again: every answer
    equals the answer of a cold cache for the same parameters (so the third equals the first), the cached entry of the
    point still holds the backend's arrays after every evaluation, and computeMobility on the table reports them"""
    therm = mk_therm(DB[:db], elements)
    log = []
    has_model, mob_from_cs, els = mk_backend(ctx, therm, stable, log, True)
    therm.mobCallables = {ph: ({} if has_model[ph] else None) for ph in therm.phases}
    und_row = [not bool(has_model[ph]) for ph in stable]
    ne = len(elements); p = len(stable)
    key = list(x) + [T]
    xin = x[0] if ne == 2 else list(x)
    mk = lambda q: HomogenizationParameters(q[0], labyrinthFactor=q[3], postProcessFunction=q[1], postProcessArgs=q[2])
    hot = DP.HashTable(); hot.enableCaching(True)
    M0, f0 = backend_rows(ctx, stable, els, elements, key, und_row)

    def cached_ok(tag):
        ent = list(hot.cachedData.values())
        ctx.observe("cache entries after " + tag, len(ent))
        if len(ent) != 1:
            return
        md = ent[0]
        ctx.prove("cached fractions of the point are the backend's after " + tag, ctx.all([ctx.eq(md.phase_fractions[i], f0[i]) for i in range(p)]))
        ctx.prove("cached mobilities of the point are the backend's after " + tag,
                  ctx.all([ctx.eq(md.mobility[i, j], M0[i][j]) for i in range(p) for j in range(ne)]))

    saved = DP.mobility_from_composition_set
    DP.mobility_from_composition_set = mob_from_cs
    try:
        ev = lambda q, ht: [np.reshape(r, (ne,)) for r in HP.computeHomogenizationFunction(therm, xin, T, mk(q), ht)]
        r1 = ev(A, hot); cached_ok("the first evaluation (A)")
        r2 = ev(B, hot); cached_ok("the second evaluation (B)")
        r3 = ev(A, hot); cached_ok("the third evaluation (A again)")
        md = DP.computeMobility(therm, xin, T, hot)
        cold = []
        for q in (A, B):
            ht = DP.HashTable(); ht.enableCaching(True)
            cold.append(ev(q, ht))
    finally:
        DP.mobility_from_composition_set = saved
    ctx.observe("r1", r1[0]); ctx.observe("r2", r2[0]); ctx.observe("r3", r3[0])
    same = lambda a, b: ctx.all([ctx.eq(a[0][j], b[0][j]) for j in range(ne)] + [ctx.eq(a[1][j], b[1][j]) for j in range(ne)])
    ctx.prove("A, B, A on one cache: the third answer equals the first", same(r3, r1))
    ctx.prove("A, B, A on one cache: the first answer equals the cold-cache answer for A", same(r1, cold[0]))
    ctx.prove("A, B, A on one cache: the second answer equals the cold-cache answer for B", same(r2, cold[1]))
    ctx.prove("A, B, A on one cache: the third answer equals the cold-cache answer for A", same(r3, cold[0]))
    ctx.prove("computeMobility on the same table reports the backend's fractions", len(md.phase_fractions) == 1 and
              ctx.all([ctx.eq(md.phase_fractions[0][i], f0[i]) for i in range(p)]))
    ctx.prove("computeMobility on the same table reports the backend's mobilities", len(md.mobility) == 1 and
              ctx.all([ctx.eq(md.mobility[0][i, j], M0[i][j]) for i in range(p) for j in range(ne)]))


# ------------------------------------------------------------------------------------------------ registry

_F1 = [HP.wienerUpper, HP.wienerLower, HP.hashinShtrikmanUpper, HP.hashinShtrikmanLower, HP._hashinShtrikmanGeneral, HP.labyrinth,
       HomogenizationParameters.setLabyrinthFactor, HomogenizationParameters._setHomogenizationFunctionByStr,
       HomogenizationParameters._setHomogenizationFunctionByID]
_F2 = [HP._postProcessDoNothing, HP._postProcessPredefinedMatrixPhase, HP._postProcessMajorityPhase, HP._postProcessExcludePhases,
       HomogenizationParameters.setPostProcessFunction, HomogenizationParameters._setPostProcessFunctionByStr,
       HomogenizationParameters._setPostProcessFunctionByID]
_F3 = [HP.computeHomogenizationFunction, DP._computeSingleMobility, DP.HashTable.retrieveFromHashTable, DP.HashTable.addToHashTable,
       DP.HashTable._hashingFunction, x_to_u_frac]
_A1 = ["defined mobilities M > 0; fractions f >= 0 with sum f = 1; real arithmetic (orderings hold up to rounding)"]

_A2 = ["rows are the stable phases of the point, a sub-list (any order) of the database phase list; a row is defined (> 0) or "
       "undefined (-1) by a symbolic bit per phase; fractions on the simplex"]
_perms3 = [list(q) for q in itertools.permutations(range(3))][1:]
_subsets = lambda db: [list(q) for k in range(1, db + 1) for c in itertools.combinations(DB[:db], k) for q in itertools.permutations(c)]

def _e(rule, mode, arg, stable, elements=("NI", "AL"), cache=True, pts=((0.3,),), undef=True, labfac=1):
    return {"rule": rule, "mode": mode, "arg": arg, "stable": list(stable), "elements": list(elements), "cache": cache,
            "pts": [list(q) for q in pts], "undef": undef, "labfac": labfac}


_SAME2 = ((0.3,), (0.3,)); _DIFF2 = ((0.3,), (0.4,)); _T3 = ((0.3, 0.2),); _T3x3 = ((0.3, 0.2), (0.2, 0.3), (0.3, 0.2))
# rules that replace an undefined entry by the largest double (lower Wiener, Hashin-Shtrikman) rely on floating-point
# overflow, which real arithmetic does not model: they are run with every stable phase having a mobility model
_E2E_Q = [
    _e("wiener upper", "predefined", "BETA", ["BETA", "ALPHA"]),
    _e("wiener upper", "predefined", "BETA", ["ALPHA", "GAMMA"], pts=_SAME2),
    _e("lab", "predefined", "GAMMA", ["GAMMA"], cache=False, pts=_DIFF2),
    _e("wiener upper", "predefined", "GAMMA", ["BETA", "GAMMA"], elements=("NI", "AL", "CR"), pts=_T3),
    _e("hashin lower", "predefined", "GAMMA", ["GAMMA", "ALPHA"], undef=False),
    _e("wiener upper", "exclude", ["GAMMA"], ["GAMMA", "ALPHA"], pts=_SAME2),
    _e("wiener upper", "exclude", ["BETA", "GAMMA"], ["GAMMA"], pts=_DIFF2),
    _e("lab", "exclude", ["BETA"], ["ALPHA", "BETA"], elements=("FE", "C"), cache=False),
    _e("wiener upper", "majority", None, ["BETA", "ALPHA"]),
    _e("lab", "majority", None, ["GAMMA"], pts=_DIFF2),
    _e("hashin upper", "majority", None, ["BETA", "ALPHA"], undef=False, cache=False),
    _e("wiener lower", "none", None, ["GAMMA", "BETA"], undef=False, pts=_SAME2),
    # labyrinth factor != 1, >= 2 stable phases, cache on, the same point twice in one call and in a second call
    # (factor 2 only: with 1.5 a rule that keeps re-powering the cached fractions nests square roots and z3 hangs;
    #  the factor 1.5 is covered by C17.lab)
    _e("lab", "predefined", "BETA", ["BETA", "ALPHA"], pts=_SAME2, labfac=2),
    _e("lab", "none", None, ["GAMMA", "ALPHA"], pts=_SAME2, labfac=2, cache=True),
    _e("lab", "majority", None, ["ALPHA", "BETA"], pts=_SAME2, labfac=2, undef=False),
    # the excluded phase is stable as two composition sets with the same name and different mobilities
    _e("wiener upper", "exclude", ["GAMMA"], ["GAMMA", "ALPHA", "GAMMA"], pts=_SAME2),
    _e("lab", "exclude", ["ALPHA"], ["BETA", "ALPHA", "ALPHA"], labfac=2, cache=False),
]
_E2E_T = [_e(r, "predefined", a, st, elements=els, cache=c, pts=x)
          for r, c in (("wiener upper", True), ("lab", False))
          for a in ("BETA", "GAMMA") for st in (["GAMMA"], ["BETA", "ALPHA"], ["ALPHA", "GAMMA", "BETA"], ["ALPHA", "BETA"])
          for els, x in ((("NI", "AL"), _SAME2), (("CR", "AL", "NI"), _T3x3))][::2] + \
         [_e(r, "exclude", ex, st, pts=_SAME2) for r in ("wiener upper", "lab") for ex in (["GAMMA"], ["ALPHA", "GAMMA"])
          for st in (["GAMMA"], ["BETA", "ALPHA"], ["BETA", "GAMMA", "ALPHA"])] + \
         [_e("wiener upper", "exclude", ex, st, pts=_T3x3 if len(st) > 2 else _DIFF2, elements=("CR", "AL", "NI") if len(st) > 2 else ("NI", "AL")) for ex, st in
          ((["GAMMA"], ["GAMMA", "GAMMA"]), (["BETA", "GAMMA"], ["GAMMA", "BETA", "GAMMA"]), (["ALPHA"], ["GAMMA", "ALPHA", "GAMMA"]))] + \
         [_e(r, "majority", None, st, pts=x) for r in ("wiener upper",) for st, x in ((["GAMMA"], _DIFF2), (["BETA", "ALPHA"], _DIFF2), (["BETA", "GAMMA", "ALPHA"], ((0.3,),)))] + \
         [_e(r, m, a, st, undef=False) for r in ("wiener lower", "hashin upper", "hashin lower") for m, a in (("predefined", "BETA"), ("majority", None))
          for st in (["BETA"], ["ALPHA", "BETA"])] + \
         [_e("lab", m, a, st, pts=x, labfac=n, elements=els) for m, a in (("predefined", "ALPHA"), ("exclude", ["GAMMA"]), ("none", None))
          for st, x, els in ((["BETA", "ALPHA"], _SAME2, ("NI", "AL")), (["ALPHA", "GAMMA", "BETA"], _T3x3, ("CR", "AL", "NI"))) for n in (2,)]

_W = "wiener upper"
_MODES = {"none": (_W, "none", None, 1), "exclude": (_W, "exclude", ["GAMMA"], 1), "predefined": (_W, "predefined", "ALPHA", 1), "majority": (_W, "majority", None, 1)}
_SEQ_Q = [{"A": list(_MODES[a]), "B": list(_MODES[b]), "stable": ["GAMMA", "ALPHA"]}
          for a, b in (("none", "exclude"), ("predefined", "none"), ("none", "majority"), ("exclude", "predefined"), ("majority", "exclude"), ("predefined", "majority"))] + \
         [   # same functions, different arguments / labyrinth factor
          {"A": [_W, "exclude", ["GAMMA"], 1], "B": [_W, "exclude", ["ALPHA"], 1], "stable": ["GAMMA", "ALPHA"]},
          {"A": [_W, "exclude", ["GAMMA", "BETA"], 1], "B": [_W, "exclude", ["GAMMA"], 1], "stable": ["BETA", "GAMMA", "ALPHA"]},
          {"A": [_W, "predefined", "ALPHA", 1], "B": [_W, "predefined", "GAMMA", 1], "stable": ["GAMMA", "ALPHA"]},
          {"A": ["lab", "none", None, 2], "B": ["lab", "none", None, 1], "stable": ["GAMMA", "ALPHA"]},
          {"A": ["lab", "exclude", ["ALPHA"], 1], "B": [_W, "majority", None, 1], "stable": ["ALPHA", "BETA"], "elements": ["FE", "C"]}]
_SEQ_T = [{"A": list(_MODES[a]), "B": list(_MODES[b]), "stable": st, "elements": els, "x": x}
          for a in _MODES for b in _MODES if a != b
          for st, els, x in ((["GAMMA", "ALPHA"], ["NI", "AL"], [0.3]), (["ALPHA", "GAMMA", "BETA"], ["CR", "AL", "NI"], [0.3, 0.2]))] + \
         [{"A": ["lab", "predefined", "GAMMA", 2], "B": ["lab", "predefined", "GAMMA", 1.5], "stable": ["BETA", "GAMMA"]},
          {"A": [_W, "exclude", ["GAMMA", "ALPHA"], 1], "B": [_W, "exclude", ["ALPHA"], 1], "stable": ["ALPHA", "GAMMA", "GAMMA"]}]

HARNESSES = [
    Harness("C17.bounds", bounds, functions=_F1, assumptions=_A1,
            bounds={"phases": "2-3 (4 phases: the two Hashin-Shtrikman orderings stay undecided at 300 s per obligation, so 4 is NOT claimed)",
                    "elements": "1-2", "orderings": "3 phases: one parameter set per ordering of the phase mobilities, all 6 enumerated"},
            opts={"fold_ite": True, "ob_timeout": 60.0}, budget={"quick": 400.0, "thorough": 2400.0},
            params={"quick": [{"p": 2, "e": 1}, {"p": 2, "e": 2}] + [{"p": 3, "e": 1, "order": list(q), "_opts": {"ob_timeout": 150.0}} for q in itertools.permutations(range(3))],
                    "thorough": [{"p": 3, "e": 2, "order": [list(q), list(q2)], "_opts": {"ob_timeout": 600.0}}
                                 for q in itertools.permutations(range(3)) for q2 in itertools.permutations(range(3))]}),
    Harness("C17.perm", perm, functions=_F1, assumptions=_A1, bounds={"phases": "2-3", "elements": "1-2"},
            opts={"fold_ite": True, "ob_timeout": 30.0}, budget={"quick": 120.0, "thorough": 900.0},
            params={"quick": [{"p": 2, "e": 2, "perm": [1, 0]}, {"p": 3, "e": 1, "perm": [1, 2, 0]}, {"p": 3, "e": 1, "perm": [0, 2, 1]}],
                    "thorough": [{"p": 3, "e": 2, "perm": q} for q in _perms3[1::2]] + [{"p": 3, "e": 1, "perm": q} for q in _perms3[0::2]] + [{"p": 4, "e": 1, "perm": [3, 0, 1, 2]}, {"p": 4, "e": 1, "perm": [1, 0, 3, 2]}]}),
    Harness("C17.single", single, functions=_F1, assumptions=_A1, bounds={"phases": 1, "elements": "2 (3 thorough)"},
            opts={"fold_ite": True}, params={"quick": [{"e": 2}], "thorough": [{"e": 3}]}),
    Harness("C17.lab", lab, functions=_F1,
            assumptions=_A1 + ["labyrinth factor 1 <= n <= 2 (symbolic: only the engine's pow axioms -- pow(x,1)=x, pow(0,n)=0, pow(1,n)=1, "
                               "monotone in the exponent; or the concrete values 1, 1.5, 2 with exact arithmetic)",
                               "undef=True: every entry is either > 0 or the sentinel -1 (symbolic bit)"],
            bounds={"phases": "2 (3-4 thorough)", "elements": "1-2"}, opts={"ob_timeout": 30.0},
            params={"quick": [{"p": 2, "e": 1, "n": "sym"}, {"p": 2, "e": 2, "n": 2}, {"p": 3, "e": 1, "n": 1.5, "undef": True}, {"p": 2, "e": 1, "n": "sym", "undef": True}],
                    "thorough": [{"p": 3, "e": 2, "n": "sym", "undef": True}, {"p": 4, "e": 1, "n": "sym"}, {"p": 4, "e": 1, "n": 2}, {"p": 3, "e": 1, "n": 2, "undef": True}, {"p": 3, "e": 2, "n": 1.5}]}),
    Harness("C17.post", post, functions=_F2, assumptions=_A2, bounds={"database phases": "3 (4 thorough)", "stable phases": "1-3", "elements": 2},
            stubs=["therm: object.__new__(GeneralThermodynamics) with phases/elements only"],
            params={"quick": [{"mode": "predefined", "arg": "BETA", "db": 3, "stable": st} for st in (["BETA"], ["BETA", "GAMMA"], ["GAMMA", "BETA"], ["ALPHA", "GAMMA"], ["GAMMA"], ["ALPHA", "BETA", "GAMMA"])] +
                             [{"mode": "predefined", "arg": "GAMMA", "db": 3, "stable": st} for st in (["GAMMA"], ["ALPHA", "GAMMA"], ["BETA", "ALPHA"])] +
                             [{"mode": "exclude", "arg": ex, "db": 3, "stable": st} for ex, st in ((["GAMMA"], ["GAMMA"]), (["GAMMA"], ["ALPHA", "GAMMA"]), (["GAMMA"], ["ALPHA", "BETA"]),
                                                                                                    (["BETA", "GAMMA"], ["GAMMA", "ALPHA"]), (["BETA"], ["BETA", "GAMMA"]), (["ALPHA", "GAMMA"], ["ALPHA", "BETA", "GAMMA"]), ([], ["ALPHA", "BETA"]),
                                                                                                    ("GAMMA", ["ALPHA", "GAMMA"]), (("BETA", "GAMMA"), ["GAMMA", "ALPHA"]), ("BETA", ["BETA"]))] +
                             # a phase stable as two composition sets of the same name (miscibility gap): every row with an excluded
                             # name is removed; 'predefined' with a repeated *alpha* name is left out (which set is meant is undocumented)
                             [{"mode": "exclude", "arg": ex, "db": 3, "stable": st} for ex, st in ((["GAMMA"], ["GAMMA", "ALPHA", "GAMMA"]), (["GAMMA", "BETA"], ["ALPHA", "GAMMA", "GAMMA"]),
                                                                                                    (["ALPHA"], ["ALPHA", "ALPHA"]), (["BETA"], ["GAMMA", "ALPHA", "GAMMA"]))] +
                             [{"mode": "predefined", "arg": "BETA", "db": 3, "stable": ["GAMMA", "BETA", "GAMMA"]}, {"mode": "majority", "arg": None, "db": 3, "stable": ["GAMMA", "GAMMA", "ALPHA"]}] +
                             [{"mode": "majority", "arg": None, "db": 3, "stable": st} for st in (["BETA"], ["GAMMA", "ALPHA"], ["ALPHA", "BETA", "GAMMA"])] +
                             [{"mode": "none", "arg": None, "db": 3, "stable": ["GAMMA", "BETA"]}],
                    "thorough": [{"mode": "predefined", "arg": a, "db": 4, "stable": st} for a in ("ALPHA", "GAMMA") for st in _subsets(4) if len(st) <= 3][::3] +
                                [{"mode": "exclude", "arg": ex, "db": 4, "stable": st} for ex in (["DELTA"], ["BETA", "DELTA"], ["ALPHA"]) for st in _subsets(4) if len(st) <= 3][::5] +
                                [{"mode": "majority", "arg": None, "db": 4, "stable": st} for st in _subsets(4) if len(st) <= 3][::4] +
                                [{"mode": "exclude", "arg": ex, "db": 4, "stable": st} for ex in (["DELTA"], ["BETA", "DELTA"]) for st in
                                 (["DELTA", "DELTA"], ["DELTA", "ALPHA", "DELTA"], ["BETA", "DELTA", "DELTA"], ["ALPHA", "DELTA", "BETA", "DELTA"], ["BETA", "BETA", "DELTA"])] +
                                # the excluded phase(s) given as a bare name or a tuple instead of a list
                                [{"mode": "exclude", "arg": ex, "db": 4, "stable": st} for ex in ("DELTA", "ALPHA", ("BETA", "DELTA"), ("GAMMA",)) for st in
                                 (["DELTA"], ["ALPHA", "DELTA"], ["GAMMA", "BETA", "DELTA"], ["DELTA", "ALPHA", "DELTA"], ["ALPHA", "GAMMA"])]}),
    Harness("C17.e2e", e2e, functions=_F3 + _F2 + _F1, assumptions=_A2 + ["the point (x, T) is concrete (the cache key truncates to integers); backend values are arbitrary"],
            stubs=["therm.getEq -> workspace stub: MU, composition sets (phase_record.phase_name, NP, X) = uninterpreted functions of (x, T), alphabetical element order; "
                   "stable phases positive amounts normalised to 1, positive X", "kawin.diffusion.DiffusionParameters.mobility_from_composition_set -> uninterpreted positive values per (phase, element, point)",
                   "therm.mobCallables[phase] is None for a phase without mobility model (symbolic bit per phase, forked)"],
            bounds={"database phases": 3, "stable phases": "1-2 (3 thorough)", "elements": "2-3", "points per call": "1-2"},
            opts={"ob_timeout": 30.0, "fold_ite": True}, budget={"quick": 150.0, "thorough": 900.0},
            params={"quick": _E2E_Q, "thorough": _E2E_T}),
    Harness("C17.seq", seq, functions=_F3 + [DP.computeMobility] + _F2 + _F1,
            assumptions=_A2 + ["the point (x, T) is concrete; backend values are arbitrary (positive, < 1e6); undefined rows by a symbolic bit per phase name",
                               "rules: upper Wiener and labyrinth (the other rules overflow on undefined entries, see C17.e2e)"],
            stubs=["as C17.e2e"], bounds={"stable composition sets": "2 (3 thorough)", "elements": "2 (3 thorough)", "evaluations": "A, B, A on one table + cold tables"},
            opts={"ob_timeout": 30.0, "fold_ite": True}, budget={"quick": 150.0, "thorough": 900.0},
            params={"quick": _SEQ_Q, "thorough": _SEQ_T}),
]
