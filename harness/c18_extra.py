"""C18 (extra) -- total strength at entries where every part is exactly zero (no base strength, no solid solution, no
precipitates: the initial / incubation entries of a precipitate-only coupled run) is finite and zero."""
import numpy as np
from vk.run import Harness
from kawin.precipitation.coupling.Strength import StrengthModel


def total_zero(ctx, n=2, exp=1.8, mixed=False):
    sm = StrengthModel()
    sm.setBaseStrength(0.0)
    sm.setStrengthSuperpositionExponent(totalExp=exp)
    if mixed:
        s1 = ctx.real("ss1", (0.1, 2.0)); p1 = ctx.real("prec1", (0.1, 2.0))
        ctx.assume(s1 > 0); ctx.assume(p1 > 0)
        ss = np.array([0.0, 1.0]) * s1
        pr = np.array([0.0, 1.0]) * p1
        n = 2
    else:
        scale = ctx.real("unused", (0.5, 1.5))
        ss = np.zeros(n); pr = np.zeros(n)
    t = np.atleast_1d(sm.totalStrength(ss, pr))
    ctx.prove("one total per entry", np.shape(t) == (n,))
    zero_rows = [0] if mixed else list(range(n))
    for j in zero_rows:
        tj = t[j]
        fin = (tj == tj) if not hasattr(tj, "t") else True          # NaN check for plain numbers; symbolic reals are finite
        ctx.prove("total strength is a number when all three parts are zero", bool(fin))
        if fin:
            ctx.prove("total strength is zero when all three parts are zero", ctx.eq(tj, 0.0))


EXTRA = [
    Harness("C18.total_zero", total_zero, functions=[StrengthModel.totalStrength],
            assumptions=["base strength 0, zero solid-solution and precipitate strength at the entry (concrete zeros)"],
            bounds={"entries": "n", "exponent": "exp"},
            params={"quick": [{"n": 2, "exp": 1.8}, {"n": 1, "exp": 2}, {"mixed": True, "exp": 1.8}], "thorough": [{"n": 3, "exp": e, "mixed": m} for e in (1, 1.8, 2, 3) for m in (False, True)]}),
]
