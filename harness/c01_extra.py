"""C01 (extra) -- two ingredients of the solute balance that live in other modules' harnesses, posed again under C01 because a defect there is a
mass-balance defect: (1) the interfacial composition tables (the precipitate composition the balance books with) survive a backend fault,
(2) the particle volume factor of grain-boundary type nuclei follows every change of the interfacial / grain-boundary energy.
The bodies are imported lazily (c03 imports c01)."""
from vk.run import Harness


def tables_survive_faults(ctx, **kw):
    from harness import c03
    return c03.update_psd_faults(ctx, **kw)


def tables_kept_on_fault(ctx, **kw):
    from harness import c03
    return c03.faults_multi(ctx, **kw)


def table_follows_cooling(ctx, **kw):
    from harness import c13
    return c13.lookup_refresh(ctx, **kw)


def volume_factor_follows_energies(ctx, **kw):
    from harness import c14
    return c14.cache(ctx, **kw)


EXTRA = [
    Harness("C01.tables_survive_faults", tables_survive_faults, functions=[],
            assumptions=["as C03.update_psd_faults: after the size classes changed and the recalculation failed, the precipitate compositions used by the next mass balance are the last valid ones, not zeros"],
            opts={"ob_timeout": 30.0}, budget={"quick": 120.0, "thorough": 900.0},
            params={"quick": [{"nph": 1, "ncls": 2, "nel": 2, "mode": "append"}, {"nph": 1, "ncls": 2, "nel": 2, "mode": "remesh"}], "thorough": [{"nph": 1, "ncls": 3, "nel": 2, "mode": "remesh"}]}),
    Harness("C01.tables_kept_on_fault", tables_kept_on_fault, functions=[],
            assumptions=["as C03.faults_multi: a backend fault with non-negative driving force keeps the interfacial composition tables"],
            params={"quick": [{"nph": 1, "ncls": 2, "nel": 2}], "thorough": [{"nph": 2, "ncls": 2, "nel": 2}]}),
    Harness("C01.table_follows_cooling", table_follows_cooling, functions=[],
            assumptions=["as C13.lookup_refresh: the binary lookup table (the precipitate composition the balance books with) is rebuilt when the temperature has drifted by more than maxTempChange in EITHER direction"],
            params={"quick": [{"bins": 3}], "thorough": [{"bins": 3}]}),
    Harness("C01.volume_factor_follows_energies", volume_factor_follows_energies, functions=[],
            opts={"symbolic_pi": True, "branch_timeout_ms": 6000, "twin_timeout": 40.0},
            assumptions=["as C14.cache: the cached volume factor (particle volume = factor * R^3 in the balance) is that of the current energies and site"],
            params={"quick": [{"site0": "grain boundaries", "ops": ["gamma", "gbe", "site:grain edges"], "owned": False}],
                    "thorough": [{"site0": "grain boundaries", "ops": ["gbe", "gamma"], "owned": True}]}),
]
