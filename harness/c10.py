"""C10 -- diffusivities: volume-fixed frame, tracer = R*T*mobility, Darken, reference-column and element-order glue.

The real functions of kawin.thermo.Mobility (x_to_u_frac, mobility_from_composition_set, mobility_matrix,
chemical_diffusivity, interdiffusivity, inverseMobility, tracer_diffusivity) and the real
GeneralThermodynamics._interdiffusivitySingle/_tracerDiffusivitySingle/getInterdiffusivity/getTracerDiffusivity run on a
stub composition set (symbolic mole fractions, site fractions, temperature), mobility callables that are uninterpreted
functions of the degrees of freedom, and a symbolic chemical-potential derivative matrix in place of the bordered-Hessian
solve (FreeEnergyHessian.partialdMudX/dMudX: pycalphad's compiled derivatives are outside the technique).
"""
import itertools
import numpy as np
import numpy as _np
from vk.run import Harness
from pycalphad import variables as v
import kawin.thermo.Mobility as MOB
from kawin.thermo.Mobility import (x_to_u_frac, mobility_from_composition_set, mobility_matrix, chemical_diffusivity,
                                   interdiffusivity, inverseMobility, tracer_diffusivity, interstitials)
from kawin.thermo.Thermodynamics import GeneralThermodynamics
from kawin.Constants import GAS_CONSTANT


# ----------------------------------------------------------------------------------------------------------------------
# stubs: the attribute surface of pycalphad's CompositionSet / PhaseRecord that the analysed functions read

class _Species:
    def __init__(self, name):
        self.name = name


class _SiteFraction:
    def __init__(self, sublattice_index, species):
        self.sublattice_index = sublattice_index
        self.species = _Species(species)


class _PhaseRecord:
    def __init__(self, elements, variables, statevars=None):
        self.nonvacant_elements = list(elements)          # pycalphad: alphabetical
        self.state_variables = list(statevars) if statevars is not None else [v.N, v.P, v.T]
        self.variables = variables


class _CompositionSet:
    def __init__(self, phase_record, X, dof):
        self.phase_record = phase_record
        self.X = X
        self.dof = dof


class _EqResult:
    def __init__(self, mu):
        self.chemical_potentials = mu


def sc(x):
    if isinstance(x, _np.ndarray) and x.ndim == 0:
        return x[()]
    return x


def zero(ctx, a):
    """a == 0 (exactly in the symbolic runs; up to rounding of O(1) summands in the concrete runs)"""
    return ctx.eq(a, 0.0, atol=1e-9)


def det(A):
    A = _np.asarray(A, dtype=object)
    if A.ndim == 0:
        return A[()]
    n = A.shape[0]
    if n == 1:
        return A[0, 0]
    return sum(((-1) ** j) * A[0, j] * det(_np.delete(_np.delete(A, 0, axis=0), j, axis=1)) for j in range(n))


def _inv_cut(a):
    """np.linalg.inv inside inverseMobility: _interdiffusivitySingle discards the inverse-mobility product, so in the
    symbolic runs the inverse is an unconstrained matrix (cut); non-singularity is assumed by the harness"""
    from vk import core, symnp
    c = core.cur()
    if c.mode != "symbolic":
        return symnp.inv_cofactor(a)
    out = _np.empty(a.shape, dtype=object)
    for i in _np.ndindex(*a.shape):
        out[i] = core.SymReal(c.fresh("inv"), 1)
    return out.view(symnp.SymArray)


def constitution(elements, va_on_interstitial=True):
    """site-fraction variables of a (substitutionals)(interstitials, VA) phase in pycalphad's order"""
    subs = [e for e in elements if e not in interstitials]
    ints = [e for e in elements if e in interstitials]
    vs = [_SiteFraction(0, e) for e in subs]
    if ints:
        vs += [_SiteFraction(1, e) for e in sorted(ints + (["VA"] if va_on_interstitial else []))]
    return vs


def mk_compset(ctx, elements, tag="", va_on_interstitial=True, X=None, T=None, statevars=None):
    """composition set with symbolic mole fractions X (alphabetical, all > 0), temperature and site fractions"""
    elements = sorted(elements)
    n = len(elements)
    if X is None:
        X = ctx.reals(tag + "X", n, (0.05, 0.6))
        for i in range(n):
            ctx.assume(X[i] > 0, "mole fractions are positive")
    if T is None:
        T = ctx.real(tag + "T", (500.0, 1500.0))
        ctx.assume(T > 0, "temperature is positive")
    vs = constitution(elements, va_on_interstitial)
    y = ctx.reals(tag + "y", len(vs), (0.05, 0.95))
    sv = {"GE": 0.0, "N": 1.0, "P": 101325.0, "T": T}
    head = [1.0, 101325.0, T] if statevars is None else [sv[str(q)] for q in statevars]
    dof = np.array(head + [y[i] for i in range(len(vs))])
    return _CompositionSet(_PhaseRecord(elements, vs, statevars), X, dof), elements, X, T, y


def mk_callables(ctx, elements, positive=False, tag=""):
    """mobility callables: deterministic but arbitrary functions of the degrees of freedom handed to them"""
    def mk(e):
        def f(dof):
            m = ctx.uf(tag + "mobility_" + e, *[sc(d) for d in _np.ravel(_np.asarray(dof, dtype=object))], rng=(0.1, 2.0))
            return m
        return f
    return {e: mk(e) for e in elements}


def mob_of(ctx, callables, cs, elements, positive=True):
    M = [callables[e](cs.dof) for e in elements]
    if positive:
        for m in M:
            ctx.assume(m > 0, "mobilities are positive (database)")
    return M


class hessian_stub:
    """`with hessian_stub(ctx, n) as (P, H):` kawin.thermo.Mobility.partialdMudX -> symbolic n x n matrix P (dmu_i/dx_j,
    alphabetical), dMudX -> symbolic (n-1) x (n-1) matrix H"""

    def __init__(self, ctx, n, P=None):
        self.ctx, self.n, self.P = ctx, n, P

    def __enter__(self):
        ctx, n = self.ctx, self.n
        P = self.P if self.P is not None else ctx.reals("dmudx", (n, n), (-2.0, 2.0))
        H = ctx.reals("totalH", (n - 1, n - 1), (0.5, 2.0))
        self.saved = (MOB.partialdMudX, MOB.dMudX)
        MOB.partialdMudX = lambda chemical_potentials, composition_set: P
        MOB.dMudX = lambda chemical_potentials, composition_set, refElement: H
        return P, H

    def __exit__(self, *exc):
        MOB.partialdMudX, MOB.dMudX = self.saved
        return False


_SYSTEMS = {
    "bin": ["AL", "NI"], "tern": ["AL", "CR", "NI"], "bin_c": ["C", "FE"], "tern_c": ["C", "CR", "FE"], "quat_c": ["C", "CR", "FE", "NI"],
    "tern_cn": ["C", "FE", "N"], "quat": ["AL", "CR", "NI", "TI"],
}


# ----------------------------------------------------------------------------------------------------------------------

def volume_frame(ctx, system="tern", vacancy_poor=False, va=True, corr=False):
    """mobility matrix in the volume-fixed frame: the substitutional fluxes -M grad(mu) sum to zero for every potential
    gradient; interstitial rows are diagonal, substitutional rows have no interstitial column; the interstitial entry
    carries the vacancy fraction of its own sublattice unless vacancy_poor_interstitial_sublattice (or no vacancy there)"""
    cs, els, X, T, y = mk_compset(ctx, _SYSTEMS[system], va_on_interstitial=va)
    n = len(els)
    calls = mk_callables(ctx, els)
    mc = {els[0]: ctx.real("corr", (0.5, 2.0))} if corr else None
    M = mobility_matrix(cs, calls, mobility_correction=mc, vacancy_poor_interstitial_sublattice=vacancy_poor, parameters={})
    ctx.observe("M", M)
    ctx.prove("matrix shape", tuple(M.shape) == (n, n))
    subs = [i for i in range(n) if els[i] not in interstitials]
    ints = [i for i in range(n) if els[i] in interstitials]
    g = ctx.reals("gradmu", n, (-1.0, 1.0))
    J = [-sum(M[a, b] * g[b] for b in range(n)) for a in range(n)]
    ctx.prove("substitutional fluxes sum to zero in the volume-fixed frame", zero(ctx, sum(J[a] for a in subs)))
    for b in subs:
        ctx.prove("substitutional column sums to zero", zero(ctx, sum(M[a, b] for a in subs)))
    for a in ints:
        ctx.prove("interstitial row is diagonal", ctx.all([zero(ctx, M[a, b]) for b in range(n) if b != a]))
        ctx.prove("substitutional rows have no interstitial column", ctx.all([zero(ctx, M[s, a]) for s in subs]))
    if ints:
        Mp = mobility_matrix(cs, calls, mobility_correction=mc, vacancy_poor_interstitial_sublattice=True, parameters={})
        vs = cs.phase_record.variables
        for a in ints:
            sub = [q.sublattice_index for q in vs if q.species.name == els[a]][0]
            yva = [y[k] for k, q in enumerate(vs) if q.species.name == "VA" and q.sublattice_index == sub]
            factor = 1.0 if (vacancy_poor or not yva) else yva[0]
            ctx.prove("interstitial mobility carries the vacancy fraction of its sublattice (1 if vacancy-poor or none)",
                      ctx.eq(M[a, a], factor * Mp[a, a]))
        ctx.prove("substitutional block does not depend on the vacancy option",
                  ctx.all([ctx.eq(M[a, b], Mp[a, b]) for a in subs for b in subs]))
    # the same through chemical_diffusivity: D = M * dmu/dx for an arbitrary derivative matrix
    with hessian_stub(ctx, n) as (P, H):
        D, hess = chemical_diffusivity(ctx.reals("mu", n, (-1.0, 1.0)), cs, calls, mobility_correction=mc, returnHessian=True,
                                       vacancy_poor_interstitial_sublattice=vacancy_poor, parameters={})
    ctx.observe("D", D)
    for j in range(n):
        ctx.prove("substitutional rows of the chemical diffusivity sum to zero", zero(ctx, sum(D[a, j] for a in subs)))
    ctx.prove("chemical diffusivity is mobility matrix times potential derivative",
              ctx.all([ctx.eq(D[a, j], sum(M[a, b] * P[b, j] for b in range(n))) for a in range(n) for j in range(n)]))
    ctx.prove("returned derivative matrix is the one used", hess is P)


def refcolumn(ctx, system="tern", ref="NI"):
    """interdiffusivity D^n_ab = D_ab - D_an for a substitutional column b, D_ab for an interstitial column; rows and
    columns alphabetical without the reference element n"""
    cs, els, X, T, y = mk_compset(ctx, _SYSTEMS[system])
    n = len(els)
    calls = mk_callables(ctx, els)
    mu = ctx.reals("mu", n, (-1.0, 1.0))
    with hessian_stub(ctx, n) as (P, H):
        D, _ = chemical_diffusivity(mu, cs, calls, parameters={})
        Dn, hess = interdiffusivity(mu, cs, ref, mobility_callables=calls, parameters={})
    ctx.observe("Dn", Dn)
    r = els.index(ref)
    rest = [i for i in range(n) if i != r]
    ctx.prove("shape (n-1, n-1)", tuple(Dn.shape) == (n - 1, n - 1))
    for c, a in enumerate(rest):
        for d, b in enumerate(rest):
            want = D[a, b] if els[b] in interstitials else D[a, b] - D[a, r]
            ctx.prove("reference column subtracted for substitutional, not for interstitial columns", ctx.eq(Dn[c, d], want))
    ctx.prove("no hessian returned unless asked", hess is None)


def tracer_rt(ctx, system="tern", order=(0, 1, 2), corr=True, via="single"):
    """tracer diffusivity = R*T*mobility (R = kawin.Constants.GAS_CONSTANT, mobility including the user's correction
    factor), positive for positive mobilities, element by element in the user's element order"""
    names = sorted(_SYSTEMS[system])
    user = [names[i] for i in order]                 # user's element order, first = reference
    n = len(user)
    th = object.__new__(GeneralThermodynamics)
    th.elements = list(user) + ["VA"]
    th.numElements = n
    th.phases = ["FCC_A1", "P2"]
    th._diffusivity_cache = {}
    th._parameters = {}
    calls = mk_callables(ctx, names)
    th.mobCallables = {"FCC_A1": calls, "P2": None}
    th.diffCallables = {"FCC_A1": None, "P2": None}
    cf = {e: (ctx.real("corr_" + e, (0.5, 2.0)) if corr else 1) for e in th.elements}
    if corr:
        for e in user:
            ctx.assume(cf[e] > 0, "correction factors are positive")
    th.mobility_correction = dict(cf)
    made = []

    def getLocalEq(x, T, gExtra=0, precPhase=None, composition_sets=None):
        xs = [sc(q) for q in _np.ravel(_np.asarray(x, dtype=object))]
        comp = {user[0]: 1 - sum(xs)}
        for e, q in zip(user[1:], xs):
            comp[e] = q
        cs, _, _, _, _ = mk_compset(ctx, names, tag="eq%d_" % len(made), X=np.array([comp[e] for e in names]), T=sc(T))
        made.append(cs)
        return _EqResult(ctx.reals("mu%d" % len(made), n, (-1.0, 1.0))), [cs]
    th.getLocalEq = getLocalEq
    if via == "single":
        x = ctx.reals("x", n - 1, (0.05, 0.3)); T = ctx.real("T", (500.0, 1500.0))
        ctx.assume(T > 0)
        got = th._tracerDiffusivitySingle(x if n > 2 else x[0], T, True, None)
        rows, Ts = [got], [T]
    else:
        N = 2
        x = ctx.reals("x", (N, n - 1), (0.05, 0.3)); T = ctx.reals("T", N, (500.0, 1500.0))
        for k in range(N):
            ctx.assume(T[k] > 0)
        got = th.getTracerDiffusivity(x if n > 2 else x[:, 0], T)
        rows, Ts = [got[k] for k in range(N)], [T[k] for k in range(N)]
    ctx.observe("Dtracer", got)
    ctx.prove("one local equilibrium per state point", len(made) == len(rows))
    ms = [{e: calls[e](made[k].dof) for e in user} for k in range(len(rows))]
    for mk in ms:
        for e in user:
            ctx.assume(mk[e] > 0, "mobilities are positive (database)")
    for k, (row, Tk) in enumerate(zip(rows, Ts)):
        ctx.prove("one value per element", len(row) == n)
        for i, e in enumerate(user):
            ctx.prove("tracer diffusivity = R*T*mobility in the user's element order", ctx.eq(row[i], GAS_CONSTANT * Tk * (cf[e] * ms[k][e])))
            ctx.prove("tracer diffusivity positive", ctx.lt(0.0 * Tk, row[i]))


def darken(ctx, ref_first=True, via="single"):
    """binary substitutional phase: interdiffusivity = (x_A D*_B + x_B D*_A) * Phi with the thermodynamic factor
    Phi = x_B/(R T) dmu_B/dx_B, D* the tracer diffusivities -- given the Gibbs-Duhem relation on the (stubbed) potential
    derivatives; positive in the stable region"""
    names = ["AL", "NI"]
    user = names if ref_first else names[::-1]       # user[0] = reference element n, user[1] = solute B
    th = object.__new__(GeneralThermodynamics)
    th.elements = list(user) + ["VA"]; th.numElements = 2; th.phases = ["FCC_A1", "P2"]
    th._diffusivity_cache = {}; th._parameters = {}; th.vacancyPoorInterstitialSublattice = {}
    calls = mk_callables(ctx, names)
    th.mobCallables = {"FCC_A1": calls, "P2": None}; th.diffCallables = {"FCC_A1": None, "P2": None}
    th.mobility_correction = {e: 1 for e in th.elements}
    xB = ctx.real("xB", (0.05, 0.6)); T = ctx.real("T", (500.0, 1500.0))
    ctx.assume(xB > 0); ctx.assume(xB < 1); ctx.assume(T > 0)
    xA = 1 - xB
    comp = {user[0]: xA, user[1]: xB}
    iA, iB = names.index(user[0]), names.index(user[1])
    # potential derivatives dmu_i/dx_j (alphabetical); Gibbs-Duhem along the composition line x_A = 1 - x_B,
    #   x_A dmu_A/dx_B + x_B dmu_B/dx_B = 0  with  dmu_i/dx_B = P[i,B] - P[i,A],  holds by construction of P[A,B]
    pAA = ctx.real("dmuA_dxA", (-2.0, 2.0)); pBA = ctx.real("dmuB_dxA", (-2.0, 2.0)); pBB = ctx.real("dmuB_dxB", (-2.0, 2.0))
    dmuB = pBB - pBA
    pAB = pAA - xB * dmuB / xA
    P = np.zeros((2, 2))
    P[iA, iA], P[iA, iB], P[iB, iA], P[iB, iB] = pAA, pAB, pBA, pBB
    made = []

    def getLocalEq(x, T_, gExtra=0, precPhase=None, composition_sets=None):
        cs, _, _, _, _ = mk_compset(ctx, names, tag="eq%d_" % len(made), X=np.array([comp[e] for e in names]), T=sc(T_))
        made.append(cs)
        return _EqResult(ctx.reals("mu%d" % len(made), 2, (-1.0, 1.0))), [cs]
    th.getLocalEq = getLocalEq
    with hessian_stub(ctx, 2, P=P):
        if via == "single":
            D = th._interdiffusivitySingle(xB, T, True, None)
        else:
            D = th.getInterdiffusivity(xB, T)
    D = sc(D)
    ctx.observe("D", D)
    ctx.assume(D != 0, "interdiffusivity non-zero (kawin inverts it on the way)")
    Dt = tracer_diffusivity(made[0], calls, mobility_correction=None, parameters={})       # alphabetical
    for i in range(2):
        ctx.assume(Dt[i] > 0, "tracer diffusivities positive (C10.tracer_rt)")
    phi = xB / (GAS_CONSTANT * T) * dmuB
    ctx.prove("binary interdiffusivity is the Darken combination times the thermodynamic factor",
              ctx.eq(D, (xA * Dt[iB] + xB * Dt[iA]) * phi))
    ctx.prove("binary interdiffusivity positive where the phase is stable (dmu_B/dx_B > 0)", ctx.implies(dmuB > 0, ctx.lt(0.0 * T, D)))


def phase_arg(ctx, system="bin", order=(0, 1), entry="array", first_has_mobility=True, corr=False):
    """thermodynamics object with two phases that both carry (different) mobility functions: asked for the SECOND phase
    through the `phase` argument, the tracer diffusivities are R*T*mobility with that phase's mobility functions on that
    phase's composition set, the interdiffusivity is built from that phase's mobility functions, and for a binary the
    two obey the Darken relation"""
    names = sorted(_SYSTEMS[system])
    user = [names[i] for i in order]
    n = len(user)
    first, second = "FCC_A1", "BCC_A2"
    th = object.__new__(GeneralThermodynamics)
    th.elements = list(user) + ["VA"]; th.numElements = n; th.phases = [first, second]
    th._diffusivity_cache = {}; th._parameters = {}; th.vacancyPoorInterstitialSublattice = {}
    calls = {first: mk_callables(ctx, names, tag="fcc_"), second: mk_callables(ctx, names, tag="bcc_")}
    diffs = {first: mk_callables(ctx, names, tag="fccdiff_"), second: None}
    th.mobCallables = {first: calls[first] if first_has_mobility else None, second: calls[second]}
    th.diffCallables = dict(diffs)
    cf = {e: (ctx.real("corr_" + e, (0.5, 2.0)) if corr else 1) for e in th.elements}
    if corr:
        for e in user:
            ctx.assume(cf[e] > 0, "correction factors are positive")
    th.mobility_correction = dict(cf)
    x = ctx.reals("x", n - 1, (0.05, 0.3)); T = ctx.real("T", (500.0, 1500.0))
    for k in range(n - 1):
        ctx.assume(x[k] > 0)
    ctx.assume(T > 0); ctx.assume(sum(x) < 1)
    comp = {user[0]: 1 - sum(x)}
    for e, q in zip(user[1:], x):
        comp[e] = q
    if n == 2:
        # Gibbs-Duhem by construction (as in C10.darken), A = reference, B = solute
        iA, iB = names.index(user[0]), names.index(user[1])
        xA, xB = comp[user[0]], comp[user[1]]
        pAA = ctx.real("dmuA_dxA", (-2.0, 2.0)); pBA = ctx.real("dmuB_dxA", (-2.0, 2.0)); pBB = ctx.real("dmuB_dxB", (-2.0, 2.0))
        dmuB = pBB - pBA
        P = np.zeros((2, 2))
        P[iA, iA], P[iA, iB], P[iB, iA], P[iB, iB] = pAA, pAA - xB * dmuB / xA, pBA, pBB
    else:
        P = None
    eq, asked = {}, []

    def getLocalEq(x_, T_, gExtra=0, precPhase=None, composition_sets=None):
        ph = precPhase[0] if isinstance(precPhase, (list, tuple)) else precPhase
        asked.append(ph)
        if ph not in eq:       # the local equilibrium is a function of (x, T, phase)
            cs, _, _, _, _ = mk_compset(ctx, names, tag=str(ph) + "_", X=np.array([comp[e] for e in names]), T=sc(T_))
            eq[ph] = (_EqResult(ctx.reals("mu_" + str(ph), n, (-1.0, 1.0))), [cs])
        return eq[ph]
    th.getLocalEq = getLocalEq
    xarg = x if n > 2 else x[0]
    with hessian_stub(ctx, n, P=P) as (Pm, H):
        if entry == "array":
            Dt = th.getTracerDiffusivity(xarg, T, phase=second)
            Dn = th.getInterdiffusivity(xarg, T, phase=second)
        else:
            Dt = th._tracerDiffusivitySingle(xarg, T, True, second)
            Dn = th._interdiffusivitySingle(xarg, T, True, second)
        ctx.observe("Dtracer", Dt); ctx.observe("Dn", [sc(q) for q in _np.ravel(_np.asarray(Dn, dtype=object))])
        Dn2 = _np.asarray(Dn, dtype=object).reshape(n - 1, n - 1)
        ctx.assume(det(Dn2) != 0, "interdiffusivity matrix non-singular (kawin inverts it on the way)")
        ctx.prove("local equilibrium computed for the requested phase only", len(asked) >= 2 and all(a == second for a in asked))
        cs = eq[second][1][0]
        ms = {e: calls[second][e](cs.dof) for e in user}
        for e in user:
            ctx.assume(ms[e] > 0, "mobilities are positive (database)")
        ctx.prove("one value per element", len(Dt) == n)
        for i, e in enumerate(user):
            ctx.prove("tracer diffusivity of the requested phase = R*T*mobility of THAT phase, user's element order",
                      ctx.eq(Dt[i], GAS_CONSTANT * T * (cf[e] * ms[e])))
        # interdiffusivity of the requested phase: reference formula on that phase's mobility functions
        D, _ = chemical_diffusivity(None, cs, calls[second], mobility_correction=dict(cf), parameters={})
    r = names.index(user[0])
    for i, ei in enumerate(user[1:]):
        for j, ej in enumerate(user[1:]):
            a, b = names.index(ei), names.index(ej)
            ctx.prove("interdiffusivity of the requested phase uses THAT phase's mobility functions", ctx.eq(Dn2[i, j], D[a, b] - D[a, r]))
    if n == 2:
        ctx.prove("requested phase: binary interdiffusivity is the Darken combination of its tracer diffusivities",
                  ctx.eq(Dn2[0, 0], (xA * Dt[1] + xB * Dt[0]) * (xB / (GAS_CONSTANT * T) * dmuB)))


def user_functions(ctx, system="bin", order=(0, 1), kind="mobility", form="dict", corr=False):
    """user-supplied temperature functions (setMobility / setDiffusivity: one function per element in a dictionary, one
    function for all elements, or a single element replaced afterwards): every element's tracer diffusivity is built from
    ITS OWN function -- R*T*M_e(T) for mobilities, D_e(T) for diffusivities (times the correction factor) -- in the user's
    element order, and the interdiffusivity is built from the same per-element functions"""
    names = sorted(_SYSTEMS[system])
    user = [names[i] for i in order]
    n = len(user)
    ph = "FCC_A1"
    th = object.__new__(GeneralThermodynamics)
    th.elements = list(user) + ["VA"]; th.numElements = n; th.phases = [ph, "P2"]
    th._diffusivity_cache = {}; th._parameters = {}; th.vacancyPoorInterstitialSublattice = {}
    th.mobCallables = {ph: None, "P2": None}; th.diffCallables = {ph: None, "P2": None}
    cf = {e: (ctx.real("corr_" + e, (0.5, 2.0)) if corr else 1) for e in th.elements}
    th.mobility_correction = dict(cf)
    T = ctx.real("T", (500.0, 1500.0)); ctx.assume(T > 0)
    x = ctx.reals("x", n - 1, (0.05, 0.3))
    for k in range(n - 1):
        ctx.assume(x[k] > 0)
    ctx.assume(sum(x) < 1)
    seen = []

    def userfn(tag):
        def f(temp):
            seen.append(temp)
            return ctx.uf("user_" + tag, sc(temp), rng=(0.1, 2.0))
        return f
    fns = {e: userfn(e) for e in user}                       # dictionary in the user's element order
    setter = th.setMobility if kind == "mobility" else th.setDiffusivity
    if form == "dict":
        setter(dict(fns), ph)
        own = {e: "user_" + e for e in user}
    elif form == "single":
        setter(userfn("all"), ph)
        own = {e: "user_all" for e in user}
    else:                                                    # dictionary first, then one element replaced
        setter(dict(fns), ph)
        el = user[-1] if form == "element_last" else user[0]
        setter({e: userfn("new_" + e) for e in user}, ph, element=el)
        own = {e: ("user_new_" + e if e == el else "user_" + e) for e in user}
    stored = th.mobCallables[ph] if kind == "mobility" else th.diffCallables[ph]
    ctx.prove("one callable per element", sorted(stored.keys()) == sorted(user))
    comp = {user[0]: 1 - sum(x)}
    for e, q in zip(user[1:], x):
        comp[e] = q
    made = []

    def getLocalEq(x_, T_, gExtra=0, precPhase=None, composition_sets=None):
        if not made:
            cs, _, _, _, _ = mk_compset(ctx, names, tag="eq_", X=np.array([comp[e] for e in names]), T=sc(T_),
                                        statevars=GeneralThermodynamics.stateVariables)
            made.append((_EqResult(ctx.reals("mu", n, (-1.0, 1.0))), [cs]))
        return made[0]
    th.getLocalEq = getLocalEq
    xarg = x if n > 2 else x[0]
    val = {e: ctx.uf(own[e], T, rng=(0.1, 2.0)) for e in user}       # the element's own function at the temperature
    with hessian_stub(ctx, n) as (P, H):
        Dt = th._tracerDiffusivitySingle(xarg, T, True, None)
        Dn = th._interdiffusivitySingle(xarg, T, True, None)
        ctx.observe("Dtracer", Dt); ctx.observe("Dn", [sc(q) for q in _np.ravel(_np.asarray(Dn, dtype=object))])
        Dn2 = _np.asarray(Dn, dtype=object).reshape(n - 1, n - 1)
        ctx.assume(det(Dn2) != 0, "interdiffusivity matrix non-singular (kawin inverts it on the way)")
        ctx.prove("user functions are evaluated at the temperature of the state point", len(seen) > 0 and all(same_t is T or bool(sc(same_t) == T) for same_t in seen))
        for i, e in enumerate(user):
            want = GAS_CONSTANT * T * (cf[e] * val[e]) if kind == "mobility" else cf[e] * val[e]
            ctx.prove("tracer diffusivity of each element is built from that element's own user function", ctx.eq(Dt[i], want))
        cs = made[0][1][0]
        if kind == "mobility":
            ref_calls = {e: (lambda dof, e=e: val[e]) for e in user}
            D, _ = chemical_diffusivity(None, cs, ref_calls, mobility_correction=dict(cf), parameters={})
    r = names.index(user[0])
    for i, ei in enumerate(user[1:]):
        for j, ej in enumerate(user[1:]):
            if kind == "mobility":
                a, b = names.index(ei), names.index(ej)
                want = D[a, b] - D[a, r]
            else:
                want = cf[ei] * val[ei] if i == j else 0.0 * T
            ctx.prove("interdiffusivity is built from each element's own user function", ctx.eq(Dn2[i, j], want, atol=1e-12))


def default_correction(ctx, system="tern", ref="NI", side="diffusivity"):
    """the documented default of the correction argument (None) means a factor of 1 for every element: each function
    gives the same result with None as with the all-ones dictionary, and a dictionary naming only some elements equals
    the full dictionary with ones for the others"""
    cs, els, X, T, y = mk_compset(ctx, _SYSTEMS[system])
    n = len(els)
    calls = mk_callables(ctx, els, tag="diff_" if side == "diffusivity" else "")
    mu = ctx.reals("mu", n, (-1.0, 1.0))
    c0 = ctx.real("corr", (0.5, 2.0))
    ones = lambda: {e: 1 for e in els}
    partial = lambda: {els[-1]: c0}
    full = lambda: dict(ones(), **{els[-1]: c0})

    def same(a, b):
        a = _np.asarray(a, dtype=object); b = _np.asarray(b, dtype=object)
        return a.shape == b.shape and ctx.all([ctx.eq(sc(a[i]), sc(b[i]), atol=1e-12) for i in _np.ndindex(*a.shape)])
    if side == "diffusivity":
        fns = [("tracer_diffusivity_from_diff", lambda c: MOB.tracer_diffusivity_from_diff(cs, calls, diffusivity_correction=c, parameters={})),
               ("interdiffusivity_from_diff", lambda c: MOB.interdiffusivity_from_diff(cs, ref, calls, diffusivity_correction=c, parameters={})),
               ("inverseMobility_from_diffusivity", lambda c: MOB.inverseMobility_from_diffusivity(mu, cs, ref, calls, diffusivity_correction=c, parameters={})[:2])]
        defaults = [lambda: MOB.tracer_diffusivity_from_diff(cs, calls), lambda: MOB.interdiffusivity_from_diff(cs, ref, calls),
                    lambda: MOB.inverseMobility_from_diffusivity(mu, cs, ref, calls)[:2]]
    else:
        fns = [("mobility_from_composition_set", lambda c: mobility_from_composition_set(cs, calls, mobility_correction=c, parameters={})),
               ("tracer_diffusivity", lambda c: tracer_diffusivity(cs, calls, mobility_correction=c, parameters={})),
               ("mobility_matrix", lambda c: mobility_matrix(cs, calls, mobility_correction=c, parameters={})),
               ("chemical_diffusivity", lambda c: chemical_diffusivity(mu, cs, calls, mobility_correction=c, parameters={})[0]),
               ("interdiffusivity", lambda c: interdiffusivity(mu, cs, ref, mobility_callables=calls, mobility_correction=c, parameters={})[0]),
               ("inverseMobility", lambda c: inverseMobility(mu, cs, ref, calls, mobility_correction=c, parameters={})[:2])]
        defaults = [lambda: mobility_from_composition_set(cs, calls), lambda: tracer_diffusivity(cs, calls), lambda: mobility_matrix(cs, calls),
                    lambda: chemical_diffusivity(mu, cs, calls)[0], lambda: interdiffusivity(mu, cs, ref, mobility_callables=calls)[0],
                    lambda: inverseMobility(mu, cs, ref, calls)[:2]]
    with hessian_stub(ctx, n) as (P, H):
        for (name, f), fd in zip(fns, defaults):
            r_one = f(ones())
            ctx.observe(name, [sc(q) for part in (r_one if isinstance(r_one, tuple) else (r_one,)) for q in _np.ravel(_np.asarray(part, dtype=object))])
            for label, got in (("argument left out", fd()), ("None", f(None))):
                pairs = zip(got, r_one) if isinstance(r_one, tuple) else [(got, r_one)]
                ctx.prove("default correction (%s) = factor 1 for every element: %s" % (label, name), ctx.all([same(a, b) for a, b in pairs]))
            r_p, r_f = f(partial()), f(full())
            pairs = zip(r_p, r_f) if isinstance(r_f, tuple) else [(r_p, r_f)]
            ctx.prove("elements missing from the correction dictionary get factor 1: " + name, ctx.all([same(a, b) for a, b in pairs]))


def reorder(ctx, system="tern", order=(0, 1, 2), vacancy_poor=False):
    """GeneralThermodynamics._interdiffusivitySingle hands back D^n with rows/columns in the user's solute order, the
    user's first element as reference, whatever the alphabetical position of the elements"""
    names = sorted(_SYSTEMS[system])
    user = [names[i] for i in order]
    n = len(user)
    th = object.__new__(GeneralThermodynamics)
    th.elements = list(user) + ["VA"]; th.numElements = n; th.phases = ["FCC_A1", "P2"]
    th._diffusivity_cache = {}; th._parameters = {}
    th.vacancyPoorInterstitialSublattice = {"FCC_A1": True} if vacancy_poor else {}
    calls = mk_callables(ctx, names)
    th.mobCallables = {"FCC_A1": calls, "P2": None}; th.diffCallables = {"FCC_A1": None, "P2": None}
    th.mobility_correction = {e: 1 for e in th.elements}
    x = ctx.reals("x", n - 1, (0.05, 0.3)); T = ctx.real("T", (500.0, 1500.0))
    for k in range(n - 1):
        ctx.assume(x[k] > 0)
    ctx.assume(T > 0); ctx.assume(sum(x) < 1)
    made = []

    def getLocalEq(x_, T_, gExtra=0, precPhase=None, composition_sets=None):
        xs = [sc(q) for q in _np.ravel(_np.asarray(x_, dtype=object))]
        comp = {user[0]: 1 - sum(xs)}
        for e, q in zip(user[1:], xs):
            comp[e] = q
        cs, _, _, _, _ = mk_compset(ctx, names, tag="eq%d_" % len(made), X=np.array([comp[e] for e in names]), T=sc(T_))
        made.append(cs)
        return _EqResult(ctx.reals("mu%d" % len(made), n, (-1.0, 1.0))), [cs]
    th.getLocalEq = getLocalEq
    with hessian_stub(ctx, n) as (P, H):
        got = th._interdiffusivitySingle(x, T, True, None)
        cs = made[0]
        D, _ = chemical_diffusivity(None, cs, calls, mobility_correction=None, vacancy_poor_interstitial_sublattice=vacancy_poor, parameters={})
    ctx.observe("Dnkj", got)
    ctx.prove("shape (n-1, n-1)", tuple(_np.shape(got)) == (n - 1, n - 1))
    ctx.assume(det(got) != 0, "interdiffusivity matrix non-singular (kawin inverts it on the way; a singular one raises LinAlgError)")
    ctx.prove("composition set of the requested state point", ctx.all([ctx.eq(cs.X[names.index(e)], x[k]) for k, e in enumerate(user[1:])]))
    r = names.index(user[0])
    for i, ei in enumerate(user[1:]):
        for j, ej in enumerate(user[1:]):
            a, b = names.index(ei), names.index(ej)
            want = D[a, b] if ej in interstitials else D[a, b] - D[a, r]
            ctx.prove("entry (i, j) belongs to the user's i-th and j-th solute, reference = user's first element", ctx.eq(got[i, j], want))


# ----------------------------------------------------------------------------------------------------------------------

_F = [x_to_u_frac, mobility_from_composition_set, mobility_matrix, chemical_diffusivity, interdiffusivity, inverseMobility,
      tracer_diffusivity, MOB._get_mobility_arguments, GeneralThermodynamics._interdiffusivitySingle,
      GeneralThermodynamics._tracerDiffusivitySingle, GeneralThermodynamics.getInterdiffusivity, GeneralThermodynamics.getTracerDiffusivity]
_S = ["composition set / phase record: nonvacant_elements (alphabetical), state_variables [N, P, T], variables (site fractions of a "
      "(substitutional)(interstitial, VA) phase), X, dof -- only what the analysed functions read",
      "mobility callables: uninterpreted functions of the degrees of freedom, one per element",
      "FreeEnergyHessian.partialdMudX / dMudX (bordered-Hessian solve on pycalphad's compiled derivatives): symbolic matrices",
      "GeneralThermodynamics.getLocalEq: composition set at the requested x, T (components alphabetical), symbolic chemical potentials"]
_A = ["mole fractions > 0, T > 0; mobilities > 0 only where positivity is claimed",
      "the reference (first) element is substitutional; the interdiffusivity matrix handed back is non-singular (kawin inverts it on the way)",
      "darken: x_A + x_B = 1 and the Gibbs-Duhem relation x_A dmu_A + x_B dmu_B = 0 on the stubbed derivatives",
      "pycalphad orders components alphabetically (trusted)"]
_perm3 = list(itertools.permutations(range(3)))

HARNESSES = [
    Harness("C10.volume_frame", volume_frame, functions=_F, stubs=_S, assumptions=_A, bounds={"components": "2-4, at most 2 interstitial"},
            params={"quick": [{"system": "bin"}, {"system": "tern", "corr": True}, {"system": "bin_c"}, {"system": "tern_c", "vacancy_poor": True},
                              {"system": "tern_c", "va": False}, {"system": "tern_c"}, {"system": "tern_cn"}],
                    "thorough": [{"system": s, "vacancy_poor": vp, "va": va, "corr": c} for s in _SYSTEMS for vp in (False, True)
                                 for va in (True, False) for c in (False, True) if (va or "_c" in s) and (not vp or "_c" in s)]}),
    Harness("C10.refcolumn", refcolumn, functions=_F, stubs=_S, assumptions=_A, bounds={"components": "2-4"},
            params={"quick": [{"system": "bin", "ref": "AL"}, {"system": "tern", "ref": "CR"}, {"system": "tern_c", "ref": "FE"},
                              {"system": "tern_c", "ref": "CR"}, {"system": "tern", "ref": "AL"}],
                    "thorough": [{"system": s, "ref": r} for s in _SYSTEMS for r in _SYSTEMS[s] if r not in interstitials]}),
    Harness("C10.tracer_rt", tracer_rt, functions=_F, stubs=_S, assumptions=_A, bounds={"components": "2-3", "state points": "1-2"},
            params={"quick": [{"system": "bin", "order": [0, 1], "via": "single"}, {"system": "bin", "order": [1, 0], "via": "array"},
                              {"system": "tern", "order": [2, 0, 1], "via": "single"}, {"system": "tern", "order": [1, 2, 0], "via": "array"},
                              {"system": "tern_c", "order": [2, 1, 0], "via": "single", "corr": False},
                              {"system": "quat", "order": [1, 2, 3, 0], "via": "single"}],
                    "thorough": [{"system": s, "order": list(o), "via": via, "corr": c} for s in ("tern", "tern_c") for o in _perm3
                                 for via in ("single", "array") for c in (True, False)] +
                                [{"system": "bin", "order": list(o), "via": via} for o in ((0, 1), (1, 0)) for via in ("single", "array")]}),
    Harness("C10.darken", darken, functions=_F, stubs=_S, assumptions=_A, bounds={"components": 2},
            params={"quick": [{"ref_first": True, "via": "single"}, {"ref_first": False, "via": "single"}, {"ref_first": False, "via": "array"}],
                    "thorough": [{"ref_first": r, "via": via} for r in (True, False) for via in ("single", "array")]}),
    Harness("C10.phase_arg", phase_arg, functions=_F, assumptions=_A, bounds={"components": "2-3", "phases": 2}, opts={"inv_hook": _inv_cut},
            stubs=_S + ["two phases with distinct uninterpreted mobility functions (and diffusivity functions for the first phase)",
                        "np.linalg.inv of the interdiffusivity matrix inside inverseMobility: unconstrained in the symbolic runs (product discarded)"],
            params={"quick": [{"system": "bin", "order": [0, 1], "entry": "array"}, {"system": "bin", "order": [1, 0], "entry": "single", "corr": True},
                              {"system": "tern", "order": [2, 0, 1], "entry": "array", "corr": True},
                              {"system": "bin", "order": [1, 0], "entry": "array", "first_has_mobility": False}],
                    "thorough": [{"system": s, "order": list(o), "entry": en, "first_has_mobility": fm, "corr": c}
                                 for s, os_ in (("bin", ((0, 1), (1, 0))), ("tern", _perm3)) for o in os_ for en in ("array", "single")
                                 for fm in (True, False) for c in (False, True)]}),
    Harness("C10.user_functions", user_functions,
            functions=_F + [GeneralThermodynamics.setMobility, GeneralThermodynamics.setDiffusivity, MOB.tracer_diffusivity_from_diff,
                            MOB.interdiffusivity_from_diff, MOB.inverseMobility_from_diffusivity] +
                      [f for f in [getattr(GeneralThermodynamics, "_generateTdependentFunction", None)] if f is not None],
            assumptions=_A + ["no interstitial components in the user-function harness"], bounds={"components": "2-3"}, opts={"inv_hook": _inv_cut},
            stubs=_S + ["user mobility / diffusivity functions: uninterpreted functions of the temperature, one per element",
                        "composition set with kawin's own state-variable layout [GE, N, P, T]",
                        "np.linalg.inv inside inverseMobility*: unconstrained in the symbolic runs (product discarded)"],
            params={"quick": [{"system": "bin", "order": [0, 1], "kind": "mobility", "form": "dict"},
                              {"system": "bin", "order": [1, 0], "kind": "diffusivity", "form": "dict", "corr": True},
                              {"system": "tern", "order": [2, 0, 1], "kind": "mobility", "form": "dict", "corr": True},
                              {"system": "tern", "order": [1, 2, 0], "kind": "diffusivity", "form": "element_first"},
                              {"system": "bin", "order": [1, 0], "kind": "mobility", "form": "element_last"},
                              {"system": "tern", "order": [0, 2, 1], "kind": "mobility", "form": "single"}],
                    "thorough": [{"system": s, "order": list(o), "kind": k, "form": f, "corr": c}
                                 for s, os_ in (("bin", ((0, 1), (1, 0))), ("tern", _perm3)) for o in os_ for k in ("mobility", "diffusivity")
                                 for f, c in (("dict", True), ("single", False), ("element_first", False), ("element_last", True))]}),
    Harness("C10.default_correction", default_correction, functions=_F + [MOB.tracer_diffusivity_from_diff, MOB.interdiffusivity_from_diff,
                                                                            MOB.inverseMobility_from_diffusivity],
            assumptions=_A, bounds={"components": "2-3"}, opts={"inv_hook": _inv_cut},
            stubs=_S + ["np.linalg.inv inside inverseMobility*: unconstrained in the symbolic runs; only the interdiffusivity and curvature parts of the result are compared"],
            params={"quick": [{"system": "tern", "ref": "NI", "side": "diffusivity"}, {"system": "bin", "ref": "AL", "side": "diffusivity"},
                              {"system": "tern", "ref": "CR", "side": "mobility"}, {"system": "tern_c", "ref": "FE", "side": "mobility"}],
                    "thorough": [{"system": s, "ref": r, "side": sd} for s in ("bin", "tern", "tern_c", "quat") for r in _SYSTEMS[s] if r not in interstitials
                                 for sd in ("diffusivity", "mobility")]}),
    Harness("C10.reorder", reorder, functions=_F, assumptions=_A, bounds={"components": "3-4"}, opts={"inv_hook": _inv_cut},
            stubs=_S + ["np.linalg.inv of the interdiffusivity matrix inside inverseMobility: unconstrained matrix in the symbolic runs (its product "
                        "is discarded by _interdiffusivitySingle); real inverse in concrete runs"],
            params={"quick": [{"system": "tern", "order": list(o)} for o in _perm3[::2]] +
                             [{"system": "tern_c", "order": [2, 0, 1]}, {"system": "tern_c", "order": [1, 2, 0], "vacancy_poor": True},
                              {"system": "quat", "order": [2, 3, 0, 1]}],
                    "thorough": [{"system": s, "order": list(o), "vacancy_poor": vp} for s in ("tern", "tern_c") for o in _perm3 for vp in (False, True)
                                 if not (vp and s == "tern") and sorted(_SYSTEMS[s])[o[0]] not in interstitials] +
                                [{"system": "quat_c", "order": list(o)} for o in ((3, 0, 1, 2), (1, 3, 0, 2), (2, 1, 3, 0))] +
                                [{"system": "quat", "order": list(o)} for o in ((0, 2, 3, 1), (1, 3, 0, 2), (3, 1, 2, 0))]}),
]

from harness.c10_extra import EXTRA as _EXTRA
HARNESSES = HARNESSES + _EXTRA
