"""C20 -- saved files and surrogates reproduce what they were made from.

round trips   real save/load (toDict/fromDict) of PrecipitateModel, DiffusionModel, StrengthModel and the recorded size
              distributions on symbolic contents; the file layer (np.savez_compressed/np.load, json.dump/json.load, open)
              is the identity on the dict of arrays in symbolic runs and the REAL file layer (temporary directory) in
              concrete runs, so shim validation and replay go through real files.
pass-through  real surrogate getters on an untrained phase with the thermodynamics object replaced by uninterpreted
              functions (one per backend method, arguments = everything the method receives).
trained       real train*/_fit*/get* glue of the surrogates around an *ideal interpolating kernel* (predict(x_i) = y_i,
              the contract of the RBF interpolator; SciPy itself is outside the technique).
rebuilt       real toJson/fromJson: the rebuilt surrogate hands its kernel the same training matrices.
"""
import os, tempfile, itertools
import numpy as np
import numpy as _np          # stays the real numpy (the facade only replaces the names np/numpy)
from vk.run import Harness
from kawin.GenericModel import GenericModel
from kawin.precipitation.KWNEuler import PrecipitateModel
from kawin.precipitation.KWNBase import PrecipitateBase
from kawin.precipitation.PrecipitationParameters import PrecipitationData
from kawin.precipitation.PopulationBalance import PopulationBalanceModel as PBM
from kawin.precipitation.coupling.Strength import StrengthModel
from kawin.diffusion.Diffusion import DiffusionModel
from kawin.thermo.Surrogate import GeneralSurrogate, BinarySurrogate, MulticomponentSurrogate, SurrogateKernel
from kawin.thermo.MultiTherm import CurvatureOutput, GrowthRateOutput, _growthRateOutputFromCurvature
from kawin.thermo.utils import _process_xT_arrays, _process_TG_arrays
import kawin.GenericModel as _mod_generic
import kawin.precipitation.coupling.Strength as _mod_strength
import kawin.precipitation.PopulationBalance as _mod_pbm
import kawin.thermo.Surrogate as _mod_surr



# ----------------------------------------------------------------------------------------------------------------------
# helpers

def sc(v):
    """unbox 0-d arrays"""
    if isinstance(v, _np.ndarray) and v.ndim == 0:
        return v[()]
    return v


def same(ctx, a, b):
    """exact equality of two scalars (exact float comparison on concrete runs: the property says 'exactly')"""
    a, b = sc(a), sc(b)
    if a is None or b is None:
        return a is None and b is None
    if ctx.mode == "concrete":
        return float(a) == float(b)
    return ctx.eq(a, b)


def oarr(a):
    return a if isinstance(a, _np.ndarray) else _np.asarray(a, dtype=object)


def same_arr(ctx, a, b):
    """same shape and every element equal"""
    if a is None or b is None:
        return a is None and b is None
    a, b = oarr(a), oarr(b)
    if a.shape != b.shape:
        return False
    return ctx.all([same(ctx, a[i], b[i]) for i in _np.ndindex(*a.shape)])


def same_struct(ctx, a, b):
    """tuples / namedtuples / arrays / scalars / None compared recursively"""
    if a is None or b is None:
        return a is None and b is None
    if isinstance(a, tuple) or isinstance(b, tuple):
        if not (isinstance(a, tuple) and isinstance(b, tuple)) or len(a) != len(b) or type(a) is not type(b):
            return False
        return ctx.all([same_struct(ctx, x, y) for x, y in zip(a, b)])
    return same_arr(ctx, a, b)


def flat(v):
    """flat list of the scalars in a tuple/array/scalar structure (None stays None)"""
    if v is None:
        return [None]
    if isinstance(v, (tuple, list)):
        return [e for x in v for e in flat(x)]
    if isinstance(v, _np.ndarray):
        return [sc(e) for e in v.ravel()] if v.ndim else [v[()]]
    return [v]


def obs(ctx, name, v):
    ctx.observe(name, flat(v))


def prove_each(ctx, name, got, want):
    """one obligation per scalar (keeps the non-linear cube-root identities apart)"""
    g, w = flat(got), flat(want)
    gs = oarr(got).shape if not isinstance(got, tuple) else None
    ws = oarr(want).shape if not isinstance(want, tuple) else None
    ctx.prove(name + " (shape)", gs == ws and len(g) == len(w))
    for a, b in zip(g, w):
        ctx.prove(name, same(ctx, a, b))


def distinct(ctx, rows):
    """pairwise distinct rows (lists of scalars)"""
    for i in range(len(rows)):
        for j in range(i):
            ctx.assume(ctx.any([rows[i][k] != rows[j][k] for k in range(len(rows[i]))]), "training points are pairwise distinct")


# ----------------------------------------------------------------------------------------------------------------------
# file layer

class _Npz:
    """what np.load hands back: mapping of arrays; object arrays that need pickling cannot be read (allow_pickle=False)"""

    def __init__(self, d):
        self._d = d

    def keys(self):
        return self._d.keys()

    def __iter__(self):
        return iter(self._d)

    def __contains__(self, k):
        return k in self._d

    def __getitem__(self, k):
        v = self._d[k]
        if isinstance(v, _np.ndarray) and v.dtype == object and any(e is None or isinstance(e, (str, dict, list)) for e in v.ravel()):
            raise ValueError("Object arrays cannot be loaded when allow_pickle=False")
        return v


class _NpStub:
    """numpy as seen by the module under test, with savez/savez_compressed/load = identity on the dict of arrays"""

    def __init__(self, base, fs):
        self.__dict__["_base"] = base
        self.__dict__["_fs"] = fs

    def __getattr__(self, name):
        return getattr(self._base, name)

    def _save(self, file, *args, **kw):
        if args:
            raise TypeError("positional arrays not modelled")
        fn = file if file.endswith(".npz") else file + ".npz"
        self._fs[fn] = {k: self._base.asarray(v) for k, v in kw.items()}

    def savez_compressed(self, file, *args, **kw):
        self._save(file, *args, **kw)

    def savez(self, file, *args, **kw):
        self._save(file, *args, **kw)

    def load(self, file, *a, **kw):
        if file not in self._fs:
            raise FileNotFoundError(file)
        return _Npz(dict(self._fs[file]))


class file_layer:
    """`with file_layer(ctx, modules) as path_of:` -- concrete runs: real files in a temporary directory;
    symbolic runs: np.savez*/np.load inside the given kawin modules are the identity on the dict of arrays"""

    def __init__(self, ctx, mods):
        self.ctx, self.mods, self.saved, self.tmp = ctx, mods, [], None

    def __enter__(self):
        if self.ctx.mode == "concrete":
            self.tmp = tempfile.TemporaryDirectory(prefix="vk_c20_")
            return lambda name: os.path.join(self.tmp.name, name)
        fs = {}
        for m in self.mods:
            self.saved.append((m, m.__dict__["np"]))
            m.__dict__["np"] = _NpStub(m.__dict__["np"], fs)
        return lambda name: "/vkfs/" + name

    def __exit__(self, *exc):
        for m, v in self.saved:
            m.__dict__["np"] = v
        if self.tmp is not None:
            self.tmp.cleanup()
        return False


# ----------------------------------------------------------------------------------------------------------------------
# round trips

# the recorded histories of a precipitation model (kawin.precipitation.PrecipitationParameters.PrecipitationData.reset)
def _history_shapes(N, nph, nel):
    s = {"time": (N,), "temperature": (N,), "composition": (N, nel), "xEqAlpha": (N, nph, nel), "xEqBeta": (N, nph, nel),
         "fconc": (N, nph, nel)}
    for k in ("drivingForce", "impingement", "Gcrit", "Rcrit", "Rnuc", "nucRate", "precipitateDensity", "Ravg", "ARavg", "volFrac"):
        s[k] = (N, nph)
    return s


_PH = ["BETA", "BETA_2", "GAMMA"]
_EL = ["CR", "AL", "TI"]


def _fill_kwn(ctx, m, N, bins, tag=""):
    """put a solved-at-least-once state into the model (symbolic contents); returns what has to come back"""
    nph, nel = len(m.phases), len(m.elements)
    d = PrecipitationData(m.phases, m.elements, N)
    shapes = _history_shapes(N, nph, nel)
    for name, shp in shapes.items():
        setattr(d, name, ctx.reals(tag + name, shp, (0.0, 2.0)))
    d.n = N - 1
    m.pData = d
    snap = {"N": N, "hist": {name: oarr(getattr(d, name)).copy() for name in shapes}, "pbm": []}
    for p in range(nph):
        b = bins[p]
        pbm = PBM(1e-10, 1e-9, b)
        lo = ctx.real(tag + "min%d" % p, (0.05, 0.1)); hi = ctx.real(tag + "max%d" % p, (1.0, 2.0))
        ctx.assume(hi >= 10 * lo, "PopulationBalanceModel keeps max >= 10*min (constructor and changeSizeClasses)")
        pbm.min, pbm.max, pbm.bins = lo, hi, b
        pbm.PSD = ctx.reals(tag + "PSD%d" % p, b, (0.0, 5.0))
        pbm.PSDbounds = ctx.reals(tag + "PSDbounds%d" % p, b + 1, (0.1, 2.0))
        pbm.PSDsize = ctx.reals(tag + "PSDsize%d" % p, b, (0.1, 2.0))
        m.PBM[p] = pbm
        m.eqAspectRatio[p] = ctx.reals(tag + "eqAR%d" % p, b + 1, (1.0, 3.0))
        snap["pbm"].append({"min": lo, "max": hi, "bins": b, "PSD": oarr(pbm.PSD).copy(), "PSDbounds": oarr(pbm.PSDbounds).copy(),
                            "PSDsize": oarr(pbm.PSDsize).copy(), "eqAR": oarr(m.eqAspectRatio[p]).copy()})
    return snap


def _check_kwn(ctx, m2, snap, tag=""):
    nph = len(snap["pbm"])
    for name, want in snap["hist"].items():
        got = getattr(m2.pData, name)
        obs(ctx, tag + name, got)
        ctx.prove(tag + "history array restored: " + name, same_arr(ctx, got, want))
    ctx.prove(tag + "step counter restored", int(m2.pData.n) == snap["N"] - 1)
    ctx.prove(tag + "one size distribution per phase", len(m2.PBM) == nph and len(m2.eqAspectRatio) == nph)
    for p in range(nph):
        w, b = snap["pbm"][p], m2.PBM[p]
        obs(ctx, tag + "PSD%d" % p, b.PSD)
        ctx.prove(tag + "PSD restored", same_arr(ctx, b.PSD, w["PSD"]))
        ctx.prove(tag + "PSDbounds restored", same_arr(ctx, b.PSDbounds, w["PSDbounds"]))
        ctx.prove(tag + "PSDsize restored", same_arr(ctx, b.PSDsize, w["PSDsize"]))
        ctx.prove(tag + "grid min/max/bins restored", ctx.all([same(ctx, b.min, w["min"]), same(ctx, b.max, w["max"]), int(b.bins) == w["bins"]]))
        ctx.prove(tag + "eqAspectRatio restored", same_arr(ctx, m2.eqAspectRatio[p], w["eqAR"]))


def _fname(io, base, fname):
    return fname if fname is not None else (base if io == "file" else base + ".npz")


def roundtrip_kwn(ctx, nph=2, nel=1, N=2, bins=(2, 3), io="file", psdrec=False, fname=None, two=None, fresh_cfg=None):
    """PrecipitateModel.save -> fresh PrecipitateModel.load restores every history array, n, and per phase PSD,
    PSDbounds, PSDsize, min/max/bins and eqAspectRatio -- whatever the file name (with or without .npz, dots inside);
    two saves of one run under two names (mid-run, later) each give back the state they were made from"""
    phases, elements = _PH[:nph], _EL[:nel]
    m = PrecipitateModel(phases=list(phases), elements=list(elements))
    if psdrec:
        m.setPSDrecording(True)
    snap = _fill_kwn(ctx, m, N, bins)
    settings = []

    def fresh():
        mm = PrecipitateModel(phases=list(phases), elements=list(elements))
        if fresh_cfg is not None:
            # size class settings of the model the file is loaded into: they are configuration, not saved data
            mm.setPBMParameters(cMin=2e-10, cMax=5e-9, bins=7, minBins=fresh_cfg["minBins"], maxBins=fresh_cfg["maxBins"], adaptive=fresh_cfg["adaptive"])
            mm.setPSDrecording(fresh_cfg["record"])
            for p in range(nph):
                if fresh_cfg.get("rows"):
                    _fill_psdrec(ctx, mm.PBM[p], fresh_cfg["rows"], fresh_cfg["maxBins"], tag="fresh%d_" % p)
                b = mm.PBM[p]
                settings.append((b, b.minBins, b.maxBins, b._adaptiveBinSize, b._record, b.originalMin, b.originalMax, b.originalBins,
                                 _cp(b._recordedTime), _cp(b._recordedBins), _cp(b._recordedPSD)))
        return mm

    def check_settings(mm):
        for p in range(nph):
            b = mm.PBM[p]
            obj, minB, maxB, adapt, rec, omin, omax, obins, rt, rb, rp = settings[p]
            ctx.prove("size class settings (min/max number of classes, adaptive sizing, recording flag) are those of the model loaded into",
                      b.minBins == minB and b.maxBins == maxB and b._adaptiveBinSize == adapt and b._record == rec)
            ctx.prove("original grid settings of the model loaded into are kept", b.originalMin == omin and b.originalMax == omax and b.originalBins == obins)
            ctx.prove("recorded size distributions of the model loaded into are kept",
                      ctx.all([same_arr(ctx, b._recordedTime, rt), same_arr(ctx, b._recordedBins, rb), same_arr(ctx, b._recordedPSD, rp)]))
    if two is not None:
        with file_layer(ctx, [_mod_generic]) as path_of:
            m.save(path_of(two[0]))
            snap2 = _fill_kwn(ctx, m, N + 1, bins[::-1], tag="later_")           # the run went on
            m.save(path_of(two[1]))
            m1, m2 = fresh(), fresh()
            m1.load(path_of(two[0])); m2.load(path_of(two[1]))
        _check_kwn(ctx, m1, snap, tag="first save: ")
        _check_kwn(ctx, m2, snap2, tag="second save: ")
        return
    m2 = fresh()
    if io == "dict":
        m2.fromDict(m.toDict())
    else:
        with file_layer(ctx, [_mod_generic]) as path_of:
            fn = path_of(_fname(io, "prec", fname))
            m.save(fn)
            m2.load(fn)
    _check_kwn(ctx, m2, snap)
    if fresh_cfg is not None:
        check_settings(m2)


class _ContinueBackend:
    """multicomponent backend for the setup() of a loaded model: a deterministic backend asked again at the recorded state
    answers what it answered when the last row was recorded (equilibrium compositions = the loaded last row); growth
    rates and interfacial compositions of the size classes are arbitrary"""
    numElements = 3

    def __init__(self, ctx, model, nel):
        self.ctx, self.m, self.nel, self.k = ctx, model, nel, 0

    def getGrowthAndInterfacialComposition(self, x, T, dG, R, gExtra, precPhase=None, removeCache=False, searchDir=None):
        n = len(_np.atleast_1d(oarr(R)))
        k = self.k; self.k += 1
        p = list(self.m.phases).index(precPhase)
        d = self.m.pData
        c = self.ctx
        return (c.reals("be%d_growth" % k, n, (-1.0, 1.0)), c.reals("be%d_xA" % k, (n, self.nel), (0.01, 0.2)), c.reals("be%d_xB" % k, (n, self.nel), (0.2, 0.8)),
                oarr(d.xEqAlpha[d.n, p]).copy(), oarr(d.xEqBeta[d.n, p]).copy())


def kwn_continue(ctx, nph=1, nel=2, ncls=2, N=2, io="file"):
    """a loaded precipitation model continues from the loaded state: after save -> load into a fresh model of the same
    configuration, the first thing the next solve() does -- the real PrecipitateModel.setup() -- leaves the size
    distribution of every phase, the grids, the step counter and every recorded history row as loaded"""
    from harness.kwn_common import mk_kwn
    T = ctx.real("T_iso", (500.0, 900.0)); ctx.assume(T > 0)

    m, info = mk_kwn(ctx, nph, nel, ncls, hist=N)

    def configure(mm, src):
        """the same configuration (parameters, constraints, temperature, alloy composition) as the saved model"""
        mm.removeCache = False
        mm.matrixParameters.volume.Vm = src.matrixParameters.volume.Vm
        mm.matrixParameters.volume.a = src.matrixParameters.volume.a
        for p in range(nph):
            a, b = src.precipitateParameters[p], mm.precipitateParameters[p]
            b.volume.Vm = a.volume.Vm
            b._gamma = 0.1
            b.nucleation._gamma = 0.1
            b.nucleation._volumeFactor = a.nucleation._volumeFactor
            b.nucleation._areaFactor = a.nucleation._areaFactor
            b.nucleation._GBk = a.nucleation._GBk
            b.infinitePrecipitateDiffusion = a.infinitePrecipitateDiffusion
        mm.constraints.minNucleateDensity = src.constraints.minNucleateDensity
        mm.constraints.minComposition = src.constraints.minComposition
        mm.matrixParameters._initComposition = info["x0"]
        mm.temperatureParameters.setIsothermalTemperature(T)
    configure(m, m)
    d = m.pData
    shapes = _history_shapes(N, nph, nel)
    for name, shp in shapes.items():
        if name in ("time", "composition", "volFrac", "fconc"):
            continue
        setattr(d, name, ctx.reals("rec_" + name, shp, (0.0, 2.0)))
    d.temperature = np.zeros(N) + T                       # the recorded temperatures follow the (isothermal) schedule
    for p in range(nph):
        ctx.assume(d.drivingForce[N - 1, p] >= 0, "last recorded state: precipitates stable (for an unstable, absent phase kawin records zero "
                                                   "equilibrium compositions, by the same rule it applies again)")
    if N == 1:
        d.time = ctx.reals("time", 1, (0.0, 1.0))
    snap = {"N": N, "hist": {name: oarr(getattr(d, name)).copy() for name in shapes}, "pbm": []}
    for p in range(nph):
        b = m.PBM[p]
        snap["pbm"].append({"min": b.min, "max": b.max, "bins": b.bins, "PSD": oarr(b.PSD).copy(), "PSDbounds": oarr(b.PSDbounds).copy(),
                            "PSDsize": oarr(b.PSDsize).copy(), "eqAR": oarr(m.eqAspectRatio[p]).copy()})
    m2 = PrecipitateModel(phases=list(m.phases), elements=list(m.elements))
    configure(m2, m)
    if io == "dict":
        m2.fromDict(m.toDict())
    else:
        with file_layer(ctx, [_mod_generic]) as path_of:
            m.save(path_of("midrun")); m2.load(path_of("midrun"))
    _check_kwn(ctx, m2, snap, tag="after load: ")
    m2.therm = _ContinueBackend(ctx, m2, nel)
    m2._calcNucleationRate = lambda t, x, Y: Y           # nucleation quantities of the recorded state: as recorded
    m2.setup()                                            # what solve() does first
    _check_kwn(ctx, m2, snap, tag="after setup of the loaded model: ")
    ctx.prove("after setup of the loaded model: histories keep their length",
              all(len(getattr(m2.pData, name)) == N for name in shapes))


def _fill_diff(ctx, m, nel, N, R, record, tag=""):
    m.t = ctx.real(tag + "t", (0.0, 100.0))
    m.x = ctx.reals(tag + "x", (nel, N), (0.0, 1.0))
    if record:
        m._recordedX = ctx.reals(tag + "recX", (R, nel, N), (0.0, 1.0))
        m._recordedTime = ctx.reals(tag + "recT", R, (0.0, 100.0))
    return _snap_diff(m)


def _cp(a):
    """independent copy of an array (the symbolic file layer hands the very same array objects to the loaded model)"""
    return None if a is None else oarr(a).copy()


def _snap_diff(m):
    return {"t": m.t, "x": _cp(m.x), "recX": _cp(m._recordedX), "recT": _cp(m._recordedTime)}


def _check_diff(ctx, m2, snap, tag=""):
    obs(ctx, tag + "t", sc(m2.t)); obs(ctx, tag + "x", m2.x); obs(ctx, tag + "recT", m2._recordedTime)
    ctx.prove(tag + "current time restored", same(ctx, m2.t, snap["t"]))
    ctx.prove(tag + "current profile restored", same_arr(ctx, m2.x, snap["x"]))
    ctx.prove(tag + "recorded profiles restored", same_arr(ctx, m2._recordedX, snap["recX"]))
    ctx.prove(tag + "recorded times restored", same_arr(ctx, m2._recordedTime, snap["recT"]))
    if snap["recX"] is not None:
        ctx.prove(tag + "every recorded row present after loading", m2._recordedX is not None and m2._recordedTime is not None
                  and len(m2._recordedX) == len(snap["recX"]) and len(m2._recordedTime) == len(snap["recT"]))


def roundtrip_diff(ctx, nel=2, N=3, R=2, record=True, io="file", disable=False, post=False, fresh_record=None, fname=None, two=None, remove=False,
                   setup=False):
    """DiffusionModel.save -> fresh DiffusionModel.load restores t, x and the recorded profiles/times -- also when
    recording was switched off (disableRecording keeps the history recorded so far) before saving, optionally with one
    more unrecorded step in between, whether or not the fresh model records, whatever the file name (with or without
    .npz, dots inside); two saves of one run under two names each give back the state they were made from"""
    els = ["NI"] + _EL[:nel]
    m = DiffusionModel([0.0, 1.0], N, list(els), ["FCC_A1"], record=record)
    _fill_diff(ctx, m, nel, N, R, record)
    if setup:
        for k in range(N):
            for e in range(nel):
                ctx.assume(m.x[e, k] >= 0, "saved compositions are valid")
            ctx.assume(sum(m.x[e, k] for e in range(nel)) <= 1, "saved compositions are valid (sum <= 1 at every node)")
    if remove:
        m.removeRecordedData()          # recording stays on, the history recorded so far is dropped
        ctx.prove("removeRecordedData leaves no recorded history", m._recordedX is None and m._recordedTime is None)
    hist = (m._recordedX, m._recordedTime)
    if disable:
        m.disableRecording()
        ctx.prove("disableRecording keeps the history recorded so far", m._recordedX is hist[0] and m._recordedTime is hist[1])
    if post:
        t1 = ctx.real("t1", (100.0, 200.0)); x1 = ctx.reals("x1", (nel, N), (0.0, 1.0))
        ctx.assume(t1 > 0)
        m.postProcess(t1, [x1])
        if disable:
            ctx.prove("an unrecorded step leaves the recorded history alone",
                      ctx.all([same_arr(ctx, m._recordedX, hist[0]), same_arr(ctx, m._recordedTime, hist[1])]))
    snap = _snap_diff(m)
    fresh = lambda: DiffusionModel([0.0, 1.0], N, list(els), ["FCC_A1"], record=record if fresh_record is None else fresh_record)
    if two is not None:
        with file_layer(ctx, [_mod_generic]) as path_of:
            m.save(path_of(two[0]))
            snap2 = _fill_diff(ctx, m, nel, N, R + 1, record, tag="later_")     # the run went on
            m.save(path_of(two[1]))
            m1, m2 = fresh(), fresh()
            m1.load(path_of(two[0])); m2.load(path_of(two[1]))
        _check_diff(ctx, m1, snap, tag="first save: ")
        _check_diff(ctx, m2, snap2, tag="second save: ")
        return
    m2 = fresh()
    if setup:
        # the fresh model of the same configuration has its own initial-profile recipe (what a first solve() would build)
        for e in els[1:]:
            m2.setCompositionLinear(0.1, 0.2, e)
    if io == "dict":
        m2.fromDict(m.toDict())
    else:
        with file_layer(ctx, [_mod_generic]) as path_of:
            fn = path_of(_fname(io, "diff", fname))
            m.save(fn)
            m2.load(fn)
    _check_diff(ctx, m2, snap)
    if setup:
        # what the next solve() does first: the loaded state must be continued, not rebuilt, shifted or re-recorded
        m2.setup()
        _check_diff(ctx, m2, snap, tag="after setup of the loaded model: ")
        m2.setup()
        _check_diff(ctx, m2, snap, tag="after a second setup: ")


def roundtrip_strength(ctx, nph=2, N=2, compressed=True, fname="strength.npz"):
    """StrengthModel.save -> fresh StrengthModel.load under the SAME file name (with the .npz extension, without it, with
    dots inside) restores rss, ls and the solid-solution strength history"""
    s = StrengthModel()
    s.rss = ctx.reals("rss", (N, nph), (0.0, 2.0))
    s.ls = ctx.reals("ls", (N, nph), (0.0, 2.0))
    s.solidStrength = ctx.reals("ss", N, (0.0, 2.0))
    s2 = StrengthModel()
    with file_layer(ctx, [_mod_strength]) as path_of:
        fn = path_of(fname)
        s.save(fn, compressed)
        s2.load(fn)
    obs(ctx, "rss", s2.rss)
    ctx.prove("rss restored", same_arr(ctx, s2.rss, s.rss))
    ctx.prove("ls restored", same_arr(ctx, s2.ls, s.ls))
    ctx.prove("solid solution strength restored", same_arr(ctx, s2.solidStrength, s.solidStrength))


def _fill_psdrec(ctx, pbm, K, maxb, tag=""):
    pbm.enableRecording()
    pbm._recordedTime = ctx.reals(tag + "rt", K, (0.0, 10.0))
    pbm._recordedBins = ctx.reals(tag + "rb", (K, maxb + 1), (0.0, 2.0))
    pbm._recordedPSD = ctx.reals(tag + "rp", (K, maxb), (0.0, 5.0))


def _check_psdrec(ctx, b, a, tag=""):
    obs(ctx, tag + "rp", b._recordedPSD)
    ctx.prove(tag + "recorded times restored", same_arr(ctx, b._recordedTime, a._recordedTime))
    ctx.prove(tag + "recorded class boundaries restored", same_arr(ctx, b._recordedBins, a._recordedBins))
    ctx.prove(tag + "recorded distributions restored", same_arr(ctx, b._recordedPSD, a._recordedPSD))
    ctx.prove(tag + "recording switched on by loading", b._record is True)


def roundtrip_psdrec(ctx, K=2, maxb=3, compressed=True, fname="psd.npz", model=None):
    """PopulationBalanceModel.saveRecordedPSD -> loadRecordedPSD under the SAME file name (with the .npz extension,
    without it, with dots inside) restores the recorded size-distribution history; likewise for the files written by
    PrecipitateModel.saveRecordedPSD(filename, phase=...) (one per phase, '<filename>_<phase>', or the named phase)"""
    if model is None:
        a = PBM(1e-10, 1e-9, 2, 1, maxb)
        _fill_psdrec(ctx, a, K, maxb)
        b = PBM(1e-10, 1e-9, 2, 1, maxb)
        with file_layer(ctx, [_mod_pbm]) as path_of:
            fn = path_of(fname)
            a.saveRecordedPSD(fn, compressed)
            b.loadRecordedPSD(fn)
        _check_psdrec(ctx, b, a)
        return
    phases = _PH[:2]
    m = PrecipitateModel(phases=list(phases), elements=["CR"])
    for p in range(2):
        m.PBM[p] = PBM(1e-10, 1e-9, 2, 1, maxb)
        _fill_psdrec(ctx, m.PBM[p], K + p, maxb, tag="%s_" % phases[p])
    with file_layer(ctx, [_mod_pbm]) as path_of:
        fn = path_of(fname)
        if model == "all":
            m.saveRecordedPSD(fn, compressed)
            todo = [(p, fn + "_" + phases[p]) for p in range(2)]
        else:
            p = phases.index(model)
            m.saveRecordedPSD(fn, compressed, phase=model)
            todo = [(p, fn)]
        loaded = []
        for p, name in todo:
            b = PBM(1e-10, 1e-9, 2, 1, maxb)
            b.loadRecordedPSD(name)
            loaded.append((p, b))
    for p, b in loaded:
        _check_psdrec(ctx, b, m.PBM[p], tag="%s: " % phases[p])


# ----------------------------------------------------------------------------------------------------------------------
# thermodynamics backend = uninterpreted functions

class Therm:
    """stands in for General/Binary/MulticomponentThermodynamics: the attribute surface the surrogates read
    (numElements, elements, phases and the seven query methods with the real signatures).  Every value handed back is an
    uninterpreted function -- named after the method -- of everything the method received."""

    def __init__(self, ctx, ne, phases, flags=True, fault=None):
        self.ctx = ctx
        self.numElements = ne
        self.elements = ["NI", "AL", "CR"][:ne]
        self.phases = list(phases)
        self.flags = flags          # False: values depend on the state point and the phase only (what thermodynamics means)
        self.fault = fault or {}
        self.calls = []

    # -- helpers
    def _ph(self, phase, default):
        if phase is None:
            phase = self.phases[default]
        return [float(self.phases.index(phase))]

    def _fl(self, *flags):
        if not self.flags:
            return []
        out = []
        for f in flags:
            if f is None or isinstance(f, (bool, _np.bool_)):
                out.append(1.0 if f else 0.0)
            else:
                out.append(1.0)
                out.extend(list(_np.ravel(oarr(f))))
        return out

    def _u(self, name, args, rng=(0.1, 2.0)):
        return self.ctx.uf(name, *[sc(a) for a in args], rng=rng)

    def _pack(self, rows):
        return np.squeeze(np.array(rows))

    # -- GeneralThermodynamics
    def getDrivingForce(self, x, T, precPhase=None, removeCache=False, local_phase_sampling_conditions=None):
        self.calls.append("getDrivingForce")
        x, T = _process_xT_arrays(x, T, self.numElements == 2)
        ex = self._ph(precPhase, 1) + self._fl(removeCache, local_phase_sampling_conditions is not None)
        dg = [self._u("dg", list(x[i]) + [T[i]] + ex) for i in range(len(T))]
        xp = [[self._u("xp%d" % k, list(x[i]) + [T[i]] + ex) for k in range(self.numElements - 1)] for i in range(len(T))]
        return self._pack(dg), self._pack(xp)

    def getInterdiffusivity(self, x, T, removeCache=True, phase=None):
        self.calls.append("getInterdiffusivity")
        x, T = _process_xT_arrays(x, T, self.numElements == 2)
        ex = self._ph(phase, 0) + self._fl(removeCache)
        n = self.numElements - 1
        rows = [[[self._u("dnkj%d%d" % (a, b), list(x[i]) + [T[i]] + ex) for b in range(n)] for a in range(n)] for i in range(len(T))]
        return self._pack(rows)

    def getTracerDiffusivity(self, x, T, removeCache=True, phase=None):
        self.calls.append("getTracerDiffusivity")
        x, T = _process_xT_arrays(x, T, self.numElements == 2)
        ex = self._ph(phase, 0) + self._fl(removeCache)
        rows = [[self._u("dtracer%d" % a, list(x[i]) + [T[i]] + ex) for a in range(self.numElements)] for i in range(len(T))]
        return self._pack(rows)

    # -- BinaryThermodynamics
    def getInterfacialComposition(self, T, gExtra=0, precPhase=None):
        self.calls.append("getInterfacialComposition")
        T, gExtra = _process_TG_arrays(T, gExtra)
        ex = self._ph(precPhase, 1)
        xa, xb = [], []
        for i in range(len(T)):
            Ti = _np.ravel(oarr(T[i]))
            if len(Ti) != 1:
                raise ValueError("temperature of a single condition is not a scalar")
            xa.append(self._u("xalpha", [Ti[0], gExtra[i]] + ex, rng=(-0.2, 0.5)))
            xb.append(self._u("xbeta", [Ti[0], gExtra[i]] + ex))
        return self._pack(xa), self._pack(xb)

    # -- MulticomponentThermodynamics
    def curvatureFactor(self, x, T, precPhase=None, removeCache=False, searchDir=None, computeSearchDir=False):
        self.calls.append("curvatureFactor")
        if self.fault.get("curvature_none") and self.fault["curvature_none"](x, T):
            return None
        xs = list(_np.ravel(oarr(x))); n = self.numElements - 1
        a = xs + [sc(T)] + self._ph(precPhase, 1) + self._fl(removeCache, searchDir, computeSearchDir)
        return CurvatureOutput(dc=np.array([self._u("dc%d" % k, a) for k in range(n)]), mc=self._u("mc", a),
                               gba=np.array([[self._u("gba%d%d" % (i, j), a) for j in range(n)] for i in range(n)]),
                               beta=self._u("beta", a),
                               c_eq_alpha=np.array([self._u("cea%d" % k, a) for k in range(n)]),
                               c_eq_beta=np.array([self._u("ceb%d" % k, a) for k in range(n)]))

    def getGrowthAndInterfacialComposition(self, x, T, dG, R, gExtra, precPhase=None, removeCache=False, searchDir=None):
        self.calls.append("getGrowthAndInterfacialComposition")
        if self.fault.get("growth_none"):
            return None
        xs = list(_np.ravel(oarr(x))); n = self.numElements - 1
        Rs = list(_np.ravel(oarr(R))); gs = list(_np.ravel(oarr(gExtra)))
        base = xs + [sc(T), sc(dG)]
        ex = self._ph(precPhase, 1) + self._fl(removeCache, searchDir)
        gr = [self._u("gr", base + [Rs[j], gs[j]] + ex) for j in range(len(Rs))]
        ca = [[self._u("ca%d" % k, base + [Rs[j], gs[j]] + ex) for k in range(n)] for j in range(len(Rs))]
        cb = [[self._u("cb%d" % k, base + [Rs[j], gs[j]] + ex) for k in range(n)] for j in range(len(Rs))]
        return GrowthRateOutput(growth_rate=self._pack(gr), c_alpha=self._pack(ca), c_beta=self._pack(cb),
                                c_eq_alpha=np.array([self._u("gcea%d" % k, base + ex) for k in range(n)]),
                                c_eq_beta=np.array([self._u("gceb%d" % k, base + ex) for k in range(n)]))

    def impingementFactor(self, x, T, precPhase=None, removeCache=False, searchDir=None):
        self.calls.append("impingementFactor")
        xs = list(_np.ravel(oarr(x)))
        return self._u("impingement", xs + [sc(T)] + self._ph(precPhase, 1) + self._fl(removeCache, searchDir))


class Poison:
    """a trained model that must not be consulted"""

    def predict(self, x):
        raise AssertionError("the surrogate model of another phase/quantity was consulted")


_PHASES = ["FCC_A1", "P2", "P3"]
_GETTERS = {   # name -> (binary class?, multicomponent class?, which phase list position is the default, own model dict)
    "getDrivingForce": ("prec", "drivingForceModels"),
    "getInterdiffusivity": ("matrix", "diffusivityModels"),
    "getTracerDiffusivity": ("matrix", "diffusivityModels"),
    "getInterfacialComposition": ("prec", "interfacialCompositionModels"),
    "curvatureFactor": ("prec", "curvatureModels"),
    "getGrowthAndInterfacialComposition": ("prec", "curvatureModels"),
    "impingementFactor": ("prec", "curvatureModels"),
}
_PHASE_KW = {"getDrivingForce": "precPhase", "getInterdiffusivity": "phase", "getTracerDiffusivity": "phase",
             "getInterfacialComposition": "precPhase", "curvatureFactor": "precPhase",
             "getGrowthAndInterfacialComposition": "precPhase", "impingementFactor": "precPhase"}


def passthrough(ctx, getter="getDrivingForce", ne=2, npts=1, form="default", mixed=False):
    """a getter called for a phase without a trained model returns what the same-named method of the thermodynamics
    object returns for the same state point, phase (defaults resolved) and options -- also when other phases or other
    quantities have trained models"""
    binary = ne == 2
    therm = Therm(ctx, ne, _PHASES, flags=True)
    if getter in ("curvatureFactor", "getGrowthAndInterfacialComposition"):
        if ctx.boolean("backend_returns_none"):
            therm.fault["curvature_none"] = lambda x, T: True
            therm.fault["growth_none"] = True
    surr = (BinarySurrogate if binary else MulticomponentSurrogate)(therm)
    kind, own = _GETTERS[getter]
    default = _PHASES[1] if kind == "prec" else _PHASES[0]
    named = _PHASES[2] if kind == "prec" else _PHASES[1]          # a non-default phase
    qphase = default if form in ("default", "kwopts") else named
    if mixed:
        other = [p for p in _PHASES if p != qphase]
        for dname in ("drivingForceModels", "diffusivityModels", "interfacialCompositionModels", "curvatureModels"):
            if not hasattr(surr, dname):
                continue
            trained = other if dname == own else list(_PHASES)
            setattr(surr, dname, {p: Poison() for p in trained})
            setattr(surr, dname.replace("Models", "Data"), {p: {"logX": False, "logY": False, "singleX": False, "singleT": False, "singleG": False} for p in trained})
    # state point
    n = ne - 1
    if getter == "getInterfacialComposition":
        T = ctx.reals("T", npts, (500.0, 900.0)); g = ctx.reals("gExtra", npts, (100.0, 5000.0))
        pos = [T[0], g[0]] if npts == 1 else [T, g]
    else:
        if npts == 1 or getter in ("curvatureFactor", "getGrowthAndInterfacialComposition", "impingementFactor"):
            x = ctx.real("x", (0.01, 0.3)) if binary else ctx.reals("x", n, (0.01, 0.3))
            T = ctx.real("T", (500.0, 900.0))
        else:
            x = ctx.reals("x", npts if binary else (npts, n), (0.01, 0.3)); T = ctx.reals("T", npts, (500.0, 900.0))
        pos = [x, T]
        if getter == "getGrowthAndInterfacialComposition":
            dG = ctx.real("dG", (100.0, 900.0))
            if npts == 1:
                Rr = ctx.real("R", (0.5, 2.0)); gE = ctx.real("gE", (10.0, 500.0))
            else:
                Rr = ctx.reals("R", npts, (0.5, 2.0)); gE = ctx.reals("gE", npts, (10.0, 500.0))
            pos += [dG, Rr, gE]
    # options the kawin models pass by keyword
    opts = {}
    if form in ("kw", "kwopts"):
        if getter in ("getDrivingForce", "getInterdiffusivity", "getTracerDiffusivity", "curvatureFactor",
                      "getGrowthAndInterfacialComposition", "impingementFactor"):
            opts["removeCache"] = bool(ctx.boolean("removeCache"))
        if getter in ("curvatureFactor", "getGrowthAndInterfacialComposition", "impingementFactor") and not binary:
            opts["searchDir"] = ctx.reals("searchDir", n, (0.1, 0.9))
        if getter == "curvatureFactor":
            opts["computeSearchDir"] = True
    pkw = _PHASE_KW[getter]
    if form == "default":
        args, kw = list(pos), {}
    elif form == "pos":
        args, kw = list(pos) + [named], {}
    elif form == "kw":
        args, kw = list(pos), dict(opts, **{pkw: named})
    elif form == "kwopts":      # options but default phase
        args, kw = list(pos), dict(opts); qphase = default
    else:
        raise ValueError(form)
    got = getattr(surr, getter)(*args, **kw)
    n_calls = list(therm.calls)
    want = getattr(therm, getter)(*pos, **dict(opts, **{pkw: qphase}))
    obs(ctx, "got", got)
    ctx.prove("untrained getter returns what the same-named thermodynamics method returns", same_struct(ctx, got, want))
    ctx.prove("only the same-named thermodynamics method was consulted", all(c == getter for c in n_calls) and len(n_calls) >= 1)


# ----------------------------------------------------------------------------------------------------------------------
# ideal interpolating kernel

def mk_kernel(ctx):
    class TableKernel(SurrogateKernel):
        """contract of an interpolating kernel: predict(x_i) = y_i at every training point; anything (an uninterpreted
        function of the query) elsewhere"""

        def __init__(self, x, y, *args, **kwargs):
            self.x = oarr(x); self.y = oarr(y); self.args = args; self.kwargs = dict(kwargs)
            if self.x.ndim != 2 or self.y.ndim != 2 or self.x.shape[0] != self.y.shape[0]:
                raise ValueError("kernel needs (m, n) inputs and (m, k) outputs, got %s and %s" % (self.x.shape, self.y.shape))

        def predict(self, xq):
            xq = oarr(xq)
            if xq.ndim != 2 or xq.shape[1] != self.x.shape[1]:
                raise ValueError("query of shape %s for a model trained on %s" % (xq.shape, self.x.shape))
            out = np.zeros((xq.shape[0], self.y.shape[1]))
            for r in range(xq.shape[0]):
                hit = None
                for i in range(self.x.shape[0]):
                    if bool(ctx.all([sc(self.x[i, k]) == sc(xq[r, k]) for k in range(xq.shape[1])])):
                        hit = i
                        break
                for c in range(self.y.shape[1]):
                    out[r, c] = self.y[hit, c] if hit is not None else ctx.uf("offgrid%d" % c, *[sc(v) for v in xq[r]])
            return out
    return TableKernel


def _rows(v, N):
    return oarr(v).reshape(N, -1) if N else oarr(v).reshape(0, 0)


def check_stored(ctx, surr, therm, tag=""):
    """every stored training array (x, T / T, gExtra and the outputs) is, row by row, what the thermodynamics object
    returns for the stored state point -- fitting, querying and (de)serialising must not alter the stored data"""
    name = tag + "stored training data are what the thermodynamics object returned: "
    for ph, d in surr.drivingForceData.items():
        T = [sc(t) for t in _np.ravel(oarr(d["T"]))]; N = len(T)
        x, dg, xp = _rows(d["x"], N), _rows(d["dg"], N), _rows(d["xp"], N)
        for r in range(N):
            w = therm.getDrivingForce(np.array([[sc(q) for q in x[r]]]), T[r], precPhase=ph)
            ctx.prove(name + "drivingForce", ctx.all([same(ctx, a, b) for a, b in zip(list(dg[r]) + list(xp[r]), flat(w))] + [len(flat(w)) == dg.shape[1] + xp.shape[1]]))
    for ph, d in surr.diffusivityData.items():
        T = [sc(t) for t in _np.ravel(oarr(d["T"]))]; N = len(T)
        x, dn, dt = _rows(d["x"], N), _rows(d["dnkj"], N), _rows(d["dtracer"], N)
        for r in range(N):
            xr = np.array([[sc(q) for q in x[r]]])
            w = flat(therm.getInterdiffusivity(xr, T[r], phase=ph)) + flat(therm.getTracerDiffusivity(xr, T[r], phase=ph))
            ctx.prove(name + "diffusivity", ctx.all([same(ctx, a, b) for a, b in zip(list(dn[r]) + list(dt[r]), w)] + [len(w) == dn.shape[1] + dt.shape[1]]))
    for ph, d in getattr(surr, "interfacialCompositionData", {}).items():
        T = [sc(t) for t in _np.ravel(oarr(d["T"]))]; g = [sc(t) for t in _np.ravel(oarr(d["gExtra"]))]
        xa = [sc(t) for t in _np.ravel(oarr(d["xpalpha"]))]; xb = [sc(t) for t in _np.ravel(oarr(d["xpbeta"]))]
        ctx.prove(name + "interfacialComposition (lengths)", len(T) == len(g) == len(xa) == len(xb))
        for r in range(min(len(T), len(g), len(xa), len(xb))):
            wa, wb = therm.getInterfacialComposition(T[r], g[r], precPhase=ph)
            ctx.prove(name + "interfacialComposition", ctx.all([same(ctx, xa[r], wa), same(ctx, xb[r], wb)]))
    for ph, d in getattr(surr, "curvatureData", {}).items():
        T = [sc(t) for t in _np.ravel(oarr(d["T"]))]; N = len(T)
        for r in range(N):
            w = therm.curvatureFactor(_np.ravel(oarr(d["x"][r])), T[r], precPhase=ph)
            got = (d["dc"][r], d["mc"][r], d["gba"][r], d["beta"][r], d["xEqAlpha"][r], d["xEqBeta"][r])
            ctx.prove(name + "curvature", ctx.all([same(ctx, a, b) for a, b in zip(flat(got), flat(tuple(w)))] + [len(flat(got)) == len(flat(tuple(w)))]))


_DATA_DICTS = ("drivingForceData", "diffusivityData", "interfacialCompositionData", "curvatureData")


def snapshot_data(surr):
    """deep copy (lists of scalars) of every stored training-data dict"""
    out = {}
    for dn in _DATA_DICTS:
        for ph, d in getattr(surr, dn, {}).items():
            out[(dn, ph)] = {k: (list(flat(_lst(v))) if isinstance(v, (list, tuple, _np.ndarray)) else v) for k, v in d.items()}
    return out


def same_data(ctx, a, b):
    if sorted(a.keys()) != sorted(b.keys()):
        return False
    conds = []
    for key in a:
        if sorted(a[key].keys()) != sorted(b[key].keys()):
            return False
        for k, v in a[key].items():
            w = b[key][k]
            if isinstance(v, list) or isinstance(w, list):
                if not (isinstance(v, list) and isinstance(w, list)) or len(v) != len(w):
                    return False
                conds += [same(ctx, p, q) for p, q in zip(v, w)]
            elif v != w:
                return False
    return ctx.all(conds)


def _grid(nx, nT, broadcast):
    return [(i, j) for j in range(nT) for i in range(nx)] if broadcast else [(i, i) for i in range(nx)]


def _state_points(ctx, ne, nx, nT, logX):
    binary = ne == 2
    xs = ctx.reals("x", nx if binary else (nx, ne - 1), (0.01, 0.3))
    Ts = ctx.reals("T", nT, (500.0, 900.0))
    rows = [[xs[i]] if binary else list(xs[i]) for i in range(nx)]
    for r in rows:
        for v in r:
            ctx.assume(v > 0, "compositions are positive")
    for j in range(nT):
        ctx.assume(Ts[j] > 0, "temperatures are positive")
    distinct(ctx, rows); distinct(ctx, [[Ts[j]] for j in range(nT)])
    xarg = xs if nx > 1 else xs[0]
    Targ = Ts if nT > 1 else Ts[0]
    return xs, Ts, xarg, Targ


def trained_df(ctx, ne=2, nx=2, nT=1, logX=False, broadcast=True, form="scalar", batch=False):
    """driving force surrogate: at every training point the trained getter returns the training data (= what the
    thermodynamics object returns there), for every documented way of passing the composition"""
    therm = Therm(ctx, ne, _PHASES, flags=False)
    surr = (BinarySurrogate if ne == 2 else MulticomponentSurrogate)(therm, kernel=mk_kernel(ctx), kernelKwargs={})
    xs, Ts, xarg, Targ = _state_points(ctx, ne, nx, nT, logX)
    ph = _PHASES[2]
    surr.trainDrivingForce(xarg, Targ, precPhase=ph, logX=logX, broadcast=broadcast)
    ctx.prove("model registered for the trained phase only", list(surr.drivingForceModels.keys()) == [ph])
    grid = _grid(nx, nT, broadcast)
    for pts in ([grid] if batch else [[p] for p in grid]):
        xq, Tq = _query(ctx, xs, Ts, pts, ne, form)
        xw, Tw = _query(ctx, xs, Ts, pts, ne, "2d")
        got = surr.getDrivingForce(xq, Tq, precPhase=ph)
        want = therm.getDrivingForce(xw, Tw, precPhase=ph)
        obs(ctx, "dg" + "".join("%d%d" % p for p in pts), got)
        ctx.prove("trained driving force reproduces the training data", same_struct(ctx, got, want))
    check_stored(ctx, surr, therm)


def _lst(v):
    """python list (of lists) of scalars"""
    v = oarr(v)
    if v.ndim == 0:
        return [v[()]]
    return [_lst(r) for r in v] if v.ndim > 1 else [sc(e) for e in v]


def _query(ctx, xs, Ts, pts, ne, form):
    """(x, T) arguments addressing the training points `pts` in one of the documented input forms"""
    one = len(pts) == 1
    xr = [xs[i] for i, j in pts]; Tr = [Ts[j] for i, j in pts]
    if form == "scalar":          # binary: float, T float            multicomponent: (e,) array, T float
        assert one
        x0 = sc(xr[0]) if ne == 2 else xr[0]
        if ne == 2 and ctx.mode == "concrete":
            x0 = float(x0)
        return x0, (float(Tr[0]) if ctx.mode == "concrete" else Tr[0])
    if form == "list":            # binary: [x1, ..], T list          multicomponent: one point [a, b] / several [[a, b], ..]
        x = [sc(v) for v in xr] if ne == 2 else ([_lst(r) for r in xr] if not one else _lst(xr[0]))
        return x, ([sc(t) for t in Tr] if not one else sc(Tr[0]))
    if form == "1d":              # binary: (N,) array                 multicomponent: (e,) array, single point
        if ne == 2:
            return np.array([sc(v) for v in xr]), (np.array([sc(t) for t in Tr]) if not one else sc(Tr[0]))
        assert one
        return np.array(_lst(xr[0])), sc(Tr[0])
    if form == "2d":              # (N, 1) / (N, e)
        x = np.array([[sc(v)] for v in xr]) if ne == 2 else np.array([_lst(r) for r in xr])
        return x, (np.array([sc(t) for t in Tr]) if not one else sc(Tr[0]))
    raise ValueError(form)


def trained_diff(ctx, ne=2, nx=2, nT=2, logX=False, broadcast=True, form="2d", which="inter", batch=False):
    """diffusivity surrogate: interdiffusivity and tracer diffusivity at the training points equal the training data,
    for every documented way of passing the composition (float, list, (N,), (e,), (N,1), (N,e))"""
    therm = Therm(ctx, ne, _PHASES, flags=False)
    surr = (BinarySurrogate if ne == 2 else MulticomponentSurrogate)(therm, kernel=mk_kernel(ctx), kernelKwargs={})
    xs, Ts, xarg, Targ = _state_points(ctx, ne, nx, nT, logX)
    surr.trainDiffusivity(xarg, Targ, logX=logX, broadcast=broadcast)
    ctx.prove("model registered for the matrix phase", list(surr.diffusivityModels.keys()) == [_PHASES[0]])
    check_stored(ctx, surr, therm)          # fitting must leave the stored data alone (posed before the cube-root identities)
    grid = _grid(nx, nT, broadcast)
    for pts in ([grid] if batch else [[p] for p in grid]):
        xq, Tq = _query(ctx, xs, Ts, pts, ne, form)
        # reference: what thermodynamics gives at these points (composition handed over as plain 2-D array)
        xw, Tw = _query(ctx, xs, Ts, pts, ne, "2d")
        tag = "".join("%d%d" % p for p in pts)
        if which == "inter":
            got = surr.getInterdiffusivity(xq, Tq)
            want = therm.getInterdiffusivity(xw, Tw)
            obs(ctx, "D" + tag, got)
            prove_each(ctx, "trained interdiffusivity reproduces the training data", got, want)
        else:
            got = surr.getTracerDiffusivity(xq, Tq)
            want = therm.getTracerDiffusivity(xw, Tw)
            obs(ctx, "Dt" + tag, got)
            prove_each(ctx, "trained tracer diffusivity reproduces the training data", got, want)


def trained_ic(ctx, nT=1, ng=2, logY=False, broadcast=True):
    """binary interfacial-composition surrogate: at every training point that was kept (matrix composition > 0) the
    trained getter returns the training data"""
    therm = Therm(ctx, 2, _PHASES, flags=False)
    surr = BinarySurrogate(therm, kernel=mk_kernel(ctx), kernelKwargs={})
    Ts = ctx.reals("T", nT, (500.0, 900.0)); gs = ctx.reals("g", ng, (100.0, 5000.0))
    for j in range(nT):
        ctx.assume(Ts[j] > 0)
    for k in range(ng):
        ctx.assume(gs[k] > 0, "Gibbs-Thomson contributions are positive")
    distinct(ctx, [[Ts[j]] for j in range(nT)]); distinct(ctx, [[gs[k]] for k in range(ng)])
    ph = _PHASES[1]
    for j, k in ([(j, k) for k in range(ng) for j in range(nT)] if broadcast else [(k, k) for k in range(ng)]):
        wa, _ = therm.getInterfacialComposition(Ts[j], gs[k], precPhase=ph)
        ctx.assume(ctx.any([sc(wa) > 0, sc(wa) == -1]), "backend contract: a positive matrix composition, or the sentinel -1 when the precipitate is unstable")
    surr.trainInterfacialComposition(Ts if nT > 1 else Ts[0], gs if ng > 1 else gs[0], logY=logY, broadcast=broadcast)
    ctx.prove("model registered for the default precipitate phase", list(surr.interfacialCompositionModels.keys()) == [ph])
    pts = [(j, k) for k in range(ng) for j in range(nT)] if broadcast else [(k, k) for k in range(ng)]
    data = surr.interfacialCompositionData[ph]
    dT = [sc(v) for v in _np.ravel(oarr(data["T"]))]; dg = [sc(v) for v in _np.ravel(oarr(data["gExtra"]))]
    kept = 0
    for j, k in pts:
        wa, wb = therm.getInterfacialComposition(Ts[j], gs[k], precPhase=ph)
        if not bool(sc(wa) > 0):
            continue            # not a training point: filtered out by trainInterfacialComposition
        kept += 1
        ctx.prove("training grid holds every (T, gExtra) combination with a positive matrix composition",
                  len(dT) == len(dg) and ctx.any([ctx.all([same(ctx, dT[r], Ts[j]), same(ctx, dg[r], gs[k])]) for r in range(len(dT))]))
        ga, gb = surr.getInterfacialComposition(Ts[j], gs[k])
        obs(ctx, "xb%d%d" % (j, k), gb)
        ctx.prove("trained precipitate-side composition reproduces the training data", same(ctx, gb, wb))
        if not logY:
            ctx.prove("trained matrix-side composition reproduces the training data", same(ctx, ga, wa))
    ctx.prove("training grid has no other points", len(dT) == kept and len(dg) == kept)
    check_stored(ctx, surr, therm)


def trained_curv(ctx, nx=2, nT=1, logX=False, broadcast=True, fault=False, refit=None):
    """curvature surrogate (ternary): curvatureFactor and impingementFactor at the training points equal the training
    data; training points where the backend gave no result are left out.  refit: the model was first trained on a
    coarser grid (one composition) and queried at a point that only the second, final training contains ("query"), or
    the final training data arrive through fromJson of another surrogate's file ("json") -- the first query after the
    refit is for that very point and must give the final training datum"""
    ne = 3
    therm = Therm(ctx, ne, _PHASES, flags=False)
    surr = MulticomponentSurrogate(therm, kernel=mk_kernel(ctx), kernelKwargs={})
    xs, Ts, xarg, Targ = _state_points(ctx, ne, nx, nT, logX)
    bad = None
    if fault and bool(ctx.boolean("first_point_fails")):
        x0 = [sc(v) for v in xs[0]]; T0 = sc(Ts[0])
        therm.fault["curvature_none"] = lambda x, T: all(bool(sc(a) == b) for a, b in zip(_np.ravel(oarr(x)), x0)) and bool(sc(T) == T0)
        bad = (0, 0)
    ph = _PHASES[1]
    order = _grid(nx, nT, broadcast)
    if refit is not None:
        # earlier life of the same surrogate object: coarser training (first composition only), one query at a point
        # of the final grid that the coarse grid does not contain
        surr.trainCurvature(xs[0], Ts if nT > 1 else [Ts[0], Ts[0] + 50.0], logX=logX, broadcast=True)
        first = [q for q in order if q[0] == nx - 1][0]
        if refit == "query":
            surr.curvatureFactor(xs[first[0]], Ts[first[1]])
        elif refit == "growth":
            surr.getGrowthAndInterfacialComposition(xs[first[0]], Ts[first[1]], 100.0, 1.0, 10.0)
        else:
            surr.impingementFactor(xs[first[0]], Ts[first[1]])
        order = [first] + [q for q in order if q != first]
    if refit == "json":
        other = MulticomponentSurrogate(therm, kernel=mk_kernel(ctx), kernelKwargs={})
        other.trainCurvature(xarg, Targ, logX=logX, broadcast=broadcast)
        with json_layer(ctx) as path_of:
            other.toJson(path_of("final"))
            surr.fromJson(path_of("final"))
    else:
        surr.trainCurvature(xarg, Targ, logX=logX, broadcast=broadcast)
    therm.fault.pop("curvature_none", None)
    for i, j in order:
        if (i, j) == bad:
            continue
        got = surr.curvatureFactor(xs[i], Ts[j])
        want = therm.curvatureFactor(xs[i], Ts[j], precPhase=ph)
        obs(ctx, "mc%d%d" % (i, j), got.mc)
        for f in ("dc", "mc", "gba", "beta", "c_eq_beta") + (() if logX else ("c_eq_alpha",)):
            ctx.prove("trained curvature factor reproduces the training data: " + f, same_arr(ctx, getattr(got, f), getattr(want, f)))
        ctx.prove("trained impingement factor is the trained beta", same(ctx, surr.impingementFactor(xs[i], Ts[j]), want.beta))
    check_stored(ctx, surr, therm)


def trained_curv_phase(ctx, nx=2, nT=1, broadcast=True, both=False, form="kw"):
    """two precipitate phases, curvature model trained for the SECOND one (optionally also for the first, whose training
    data differ): curvatureFactor, impingementFactor and getGrowthAndInterfacialComposition asked for the second
    precipitate at its training points use the training data of THAT phase.  Growth rate and interfacial compositions
    follow the documented relations (Philippe & Voorhees eq. 28, 31, 36) on the trained curvature output:
    v = mc/R (dG - gExtra), c_alpha = clip(x - (dG - gExtra) dc), c_beta = clip(c_eq_beta + gba (c_alpha' - c_eq_alpha))"""
    ne = 3; n = ne - 1
    therm = Therm(ctx, ne, _PHASES, flags=False)
    surr = MulticomponentSurrogate(therm, kernel=mk_kernel(ctx), kernelKwargs={})
    xs, Ts, xarg, Targ = _state_points(ctx, ne, nx, nT, False)
    first, second = _PHASES[1], _PHASES[2]
    dG = ctx.real("dG", (100.0, 900.0)); R = ctx.real("R", (0.5, 2.0)); gE = ctx.real("gE", (10.0, 500.0))
    ctx.assume(R > 0, "precipitate radius is positive")
    if both:
        surr.trainCurvature(xarg, Targ, precPhase=first, broadcast=broadcast)
    surr.trainCurvature(xarg, Targ, precPhase=second, broadcast=broadcast)
    ctx.prove("models registered for exactly the trained phases", sorted(surr.curvatureModels.keys()) == sorted([second] + ([first] if both else [])))
    ph_a, ph_k = ((second,), {}) if form == "pos" else ((), {"precPhase": second})
    clip = lambda v: ctx.ite(v < 0, 0.0 * v, ctx.ite(v > 1, 0.0 * v + 1.0, v))
    for i, j in _grid(nx, nT, broadcast):
        want = therm.curvatureFactor(xs[i], Ts[j], precPhase=second)          # training data of the second precipitate
        got = surr.curvatureFactor(xs[i], Ts[j], *ph_a, **ph_k)
        obs(ctx, "mc%d%d" % (i, j), got.mc)
        for f in ("dc", "mc", "gba", "beta", "c_eq_alpha", "c_eq_beta"):
            ctx.prove("curvature factor of the requested precipitate reproduces its training data: " + f,
                      same_arr(ctx, getattr(got, f), getattr(want, f)))
        ctx.prove("impingement factor of the requested precipitate is its trained beta",
                  same(ctx, surr.impingementFactor(xs[i], Ts[j], *ph_a, **ph_k), want.beta))
        g = surr.getGrowthAndInterfacialComposition(xs[i], Ts[j], dG, R, gE, *ph_a, **ph_k)
        obs(ctx, "growth%d%d" % (i, j), tuple(g))
        rd = dG - gE
        x = [sc(q) for q in xs[i]]
        dc = [sc(q) for q in want.dc]; cea = [sc(q) for q in want.c_eq_alpha]; ceb = [sc(q) for q in want.c_eq_beta]
        ca = [x[k] - rd * dc[k] for k in range(n)]
        cb = [ceb[k] + sum(sc(want.gba[k, l]) * (ca[l] - cea[l]) for l in range(n)) for k in range(n)]
        ctx.prove("growth rate of the requested precipitate from its trained curvature (v R = mc (dG - gExtra))",
                  ctx.eq(sc(g.growth_rate) * R, sc(want.mc) * rd))
        ctx.prove("matrix-side interfacial composition of the requested precipitate from its trained curvature",
                  ctx.all([same(ctx, flat(g.c_alpha)[k], clip(ca[k])) for k in range(n)]))
        ctx.prove("precipitate-side interfacial composition of the requested precipitate from its trained curvature",
                  ctx.all([same(ctx, flat(g.c_beta)[k], clip(cb[k])) for k in range(n)]))
        ctx.prove("equilibrium compositions of the requested precipitate are its training data",
                  ctx.all([same_arr(ctx, g.c_eq_alpha, want.c_eq_alpha), same_arr(ctx, g.c_eq_beta, want.c_eq_beta)]))


# ----------------------------------------------------------------------------------------------------------------------
# rebuilt from the saved file

def _jsonify(o, enc):
    """what json.dump(cls=NumpyEncoder) followed by json.load does to the data: dict keys become strings, tuples lists,
    objects json does not know go through the REAL encoder's default(); numbers survive (repr round trip of doubles)"""
    from vk.core import is_sym
    if isinstance(o, dict):
        out = {}
        for k, v in o.items():
            if not isinstance(k, (str, int, float, bool)) and k is not None:
                raise TypeError("keys must be str, int, float, bool or None")
            out[k if isinstance(k, str) else str(k)] = _jsonify(v, enc)
        return out
    if isinstance(o, (list, tuple)):
        return [_jsonify(v, enc) for v in o]
    if o is None or isinstance(o, (str, bool, int, float)) or is_sym(o):
        return float(o) if isinstance(o, _np.floating) else o
    return _jsonify(enc.default(o), enc)


class _JsonStub:
    def __init__(self, real, fs):
        self.__dict__["_real"] = real; self.__dict__["_fs"] = fs

    def __getattr__(self, n):
        return getattr(self._real, n)

    def dump(self, data, f, cls=None, **kw):
        self._fs[f.name] = _jsonify(data, (cls or self._real.JSONEncoder)())

    def load(self, f, **kw):
        return self._fs[f.name]


class _Handle:
    def __init__(self, name):
        self.name = name

    def __enter__(self):
        return self

    def __exit__(self, *a):
        return False


class json_layer:
    """concrete runs: real json files in a temporary directory; symbolic runs: json.dump/json.load/open inside
    kawin.thermo.Surrogate are the identity on the data (arrays become nested lists, as NumpyEncoder makes them)"""

    def __init__(self, ctx):
        self.ctx, self.tmp = ctx, None

    def __enter__(self):
        if self.ctx.mode == "concrete":
            self.tmp = tempfile.TemporaryDirectory(prefix="vk_c20_")
            return lambda name: os.path.join(self.tmp.name, name)
        fs = {}
        self.saved_json = _mod_surr.__dict__["json"]
        _mod_surr.__dict__["json"] = _JsonStub(self.saved_json, fs)

        def fake_open(name, mode="r", *a, **k):
            if "r" in mode and name not in fs:
                raise FileNotFoundError(name)
            return _Handle(name)
        _mod_surr.__dict__["open"] = fake_open
        return lambda name: "/vkfs/" + name

    def __exit__(self, *exc):
        if self.tmp is not None:
            self.tmp.cleanup()
        else:
            _mod_surr.__dict__["json"] = self.saved_json
            _mod_surr.__dict__.pop("open", None)
        return False


_DEFAULT_OPTIONS = {"kernel": "cubic", "normalize": True}        # documented default of kernelKwargs


def _fresh_session_defaults():
    """the default kernel options are one dict object per class signature, shared by every surrogate of the process:
    start every run from the documented default, as a fresh interpreter session does"""
    import inspect
    for c in (GeneralSurrogate, BinarySurrogate, MulticomponentSurrogate):
        d = inspect.signature(c.__init__).parameters["kernelKwargs"].default
        if isinstance(d, dict):
            d.clear(); d.update(_DEFAULT_OPTIONS)


def rebuilt(ctx, ne=2, logX=False, suffix=False, options="own", intT=False):
    """toJson -> fromJson on a fresh surrogate: every model of the rebuilt surrogate is fitted to the same training
    matrices with the same kernel arguments (hence, for a deterministic kernel, gives the same predictions), and it
    reproduces the training data like the original"""
    binary = ne == 2
    cls = BinarySurrogate if binary else MulticomponentSurrogate
    therm = Therm(ctx, ne, _PHASES, flags=False)
    K = mk_kernel(ctx)
    _fresh_session_defaults()
    kw = dict(_DEFAULT_OPTIONS) if options == "default" else {"degree": 1, "normalize": True}
    mk = (lambda: cls(therm, kernel=K)) if options == "default" else (lambda: cls(therm, kernel=K, kernelKwargs=dict(kw)))
    surr = mk()
    xs, Ts, xarg, Targ = _state_points(ctx, ne, 2, 2, logX)
    surr.trainDrivingForce(xarg, Targ, precPhase=_PHASES[2], logX=logX)
    surr.trainDiffusivity(xarg, Ts[0], logX=logX)
    if binary:
        gs = ctx.reals("g", 2, (100.0, 5000.0))
        ctx.assume(gs[0] > 0); ctx.assume(gs[1] > 0); ctx.assume(gs[0] != gs[1])
        for k in range(2):
            wa, _ = therm.getInterfacialComposition(Ts[0], gs[k], precPhase=_PHASES[1])
            ctx.assume(ctx.any([sc(wa) > 0, sc(wa) == -1]), "backend contract: positive matrix composition or the sentinel -1")
        surr.trainInterfacialComposition(Ts[0], gs, logY=logX)
    else:
        # intT: temperatures given as integers (numpy integer scalars end up in the stored training data)
        surr.trainCurvature(xarg, _np.array([1073, 1123]) if intT else Ts[1], logX=logX)
    check_stored(ctx, surr, therm, tag="after training: ")
    before = snapshot_data(surr)
    surr2 = mk()
    with json_layer(ctx) as path_of:
        surr.toJson(path_of("surr.json" if suffix else "surr"))
        surr2.fromJson(path_of("surr.json" if suffix else "surr"))
    ctx.prove("saving leaves the stored training data unchanged", same_data(ctx, snapshot_data(surr), before))
    ctx.prove("rebuilt surrogate stores the original's training data", same_data(ctx, snapshot_data(surr2), before))
    check_stored(ctx, surr2, therm, tag="rebuilt: ")
    dicts = ["drivingForceModels", "diffusivityModels"] + (["interfacialCompositionModels"] if binary else ["curvatureModels"])
    for dn in dicts:
        a, b = getattr(surr, dn), getattr(surr2, dn)
        ctx.prove("same phases have models after rebuilding: " + dn, sorted(a.keys()) == sorted(b.keys()) and len(a) == 1)
        for ph in a:
            if ph not in b:
                continue
            obs(ctx, dn + ".y", b[ph].y)
            ctx.prove("rebuilt model fitted to the same inputs: " + dn, same_arr(ctx, b[ph].x, a[ph].x))
            ctx.prove("rebuilt model fitted to the same outputs: " + dn, same_arr(ctx, b[ph].y, a[ph].y))
            ctx.prove("rebuilt model uses the same kernel arguments: " + dn, b[ph].kwargs == a[ph].kwargs and b[ph].args == a[ph].args)
    for which, sg in (("original", surr), ("rebuilt", surr2)):
        ctx.prove("fitting leaves the surrogate's kernel options as they were given: " + which, sg.kernelKwargs == kw)
        ctx.prove("every model is fitted with the surrogate's kernel options: " + which,
                  all(mdl.kwargs == kw and mdl.args == () for dn in dicts for mdl in getattr(sg, dn).values()))
    got = surr2.getDrivingForce(xs[1], Ts[0], precPhase=_PHASES[2])
    ctx.prove("rebuilt surrogate gives the original's prediction", same_struct(ctx, got, surr.getDrivingForce(xs[1], Ts[0], precPhase=_PHASES[2])))
    ctx.prove("untrained phases stay untrained after rebuilding", _PHASES[1] not in surr2.drivingForceModels)


# ----------------------------------------------------------------------------------------------------------------------

_F_RT = [DiffusionModel.setup, DiffusionModel.setCompositionLinear, DiffusionModel.removeRecordedData, DiffusionModel.disableRecording, DiffusionModel.postProcess, DiffusionModel.record, GenericModel.save, GenericModel.load, PrecipitateModel.toDict, PrecipitateModel.fromDict, PrecipitateBase.toDict,
         PrecipitateBase.fromDict, PrecipitationData.toDict, PrecipitationData.fromDict, DiffusionModel.toDict,
         DiffusionModel.fromDict, PBM.__init__, PBM.reset, StrengthModel.save, StrengthModel.load, PBM.saveRecordedPSD,
         PBM.loadRecordedPSD]
_F_PT = [GeneralSurrogate.__init__, GeneralSurrogate.getDrivingForce, GeneralSurrogate.getInterdiffusivity,
         GeneralSurrogate.getTracerDiffusivity, BinarySurrogate.getInterfacialComposition, MulticomponentSurrogate.curvatureFactor,
         MulticomponentSurrogate.getGrowthAndInterfacialComposition, MulticomponentSurrogate.impingementFactor]
_F_TR = [GeneralSurrogate._processCompositionInput, GeneralSurrogate._createInput, GeneralSurrogate.trainDrivingForce,
         GeneralSurrogate._fitDrivingForce, GeneralSurrogate.getDrivingForce, GeneralSurrogate.trainDiffusivity,
         GeneralSurrogate._fitDiffusivity, GeneralSurrogate._getDiffusivity, GeneralSurrogate.getInterdiffusivity,
         GeneralSurrogate.getTracerDiffusivity, BinarySurrogate._processGibbsThompsonInput,
         BinarySurrogate.trainInterfacialComposition, BinarySurrogate._fitInterfacialComposition,
         BinarySurrogate.getInterfacialComposition, MulticomponentSurrogate.trainCurvature, MulticomponentSurrogate._fitCurvature,
         MulticomponentSurrogate._surrogateOutputToCurvature, MulticomponentSurrogate.curvatureFactor,
         MulticomponentSurrogate.impingementFactor, _process_xT_arrays, _process_TG_arrays]
_F_JS = [GeneralSurrogate.toJson, GeneralSurrogate.fromJson, GeneralSurrogate._collectSurrogateData, GeneralSurrogate._processSurrogateData,
         BinarySurrogate._collectSurrogateData, BinarySurrogate._processSurrogateData, MulticomponentSurrogate._collectSurrogateData,
         MulticomponentSurrogate._processSurrogateData]

_S_FILE = ["np.savez/np.savez_compressed/np.load inside the kawin module: identity on the dict of arrays (values through np.asarray, "
           "'.npz' appended on saving only, object arrays holding None not loadable) in symbolic runs; the real file layer in "
           "concrete runs (shim validation, replay)"]
_S_THERM = ["thermodynamics object: numElements/elements/phases plus the seven query methods with the real signatures, every "
            "returned number an uninterpreted function (named after the method) of state point, resolved phase and, for the "
            "pass-through harness, the option arguments; x/T broadcasting through the real _process_xT_arrays/_process_TG_arrays"]
_S_KERNEL = ["surrogate kernel: ideal interpolating kernel predict(x_i) = y_i at the training points, uninterpreted elsewhere "
             "(contract of scipy RBFInterpolator with smoothing 0; SciPy itself and the 'normalize' scaling of RBFKernel are outside)"]
_S_JSON = ["json.dump(cls=NumpyEncoder)/json.load/open inside kawin.thermo.Surrogate: identity on the data with arrays turned into "
           "nested lists in symbolic runs; real json files in concrete runs"]
_A_RT = ["the model was solved at least once: every history array has N rows, eqAspectRatio is an array per phase",
         "PopulationBalanceModel invariant max >= 10*min (kept by its constructor and changeSizeClasses)",
         "file contents are float64 arrays (exact); the same phases/elements are given to the fresh model"]
_A_TR = ["training points pairwise distinct, compositions/temperatures/Gibbs-Thomson terms positive",
         "the kernel interpolates its training data exactly and is deterministic",
         "log-scaled outputs (logY matrix composition, logX equilibrium matrix composition) are not compared: exp(log(x)) = x is "
         "outside the axioms"]

_NAMES = ["snap_t0.25h", "a.b.c", "x.npz.bak", "v1.0", ".hidden", "name.", "t=1e-3s.npz"]
_NAME_PAIRS = [("snap_t0.25h", "snap_t0.50h"), ("a.b.c", "a.b.d"), ("x.npz.bak", "x.npz.old"), ("run.npz", "run.npz.bak"),
               ("run", "run.1"), ("plain", "plain.npz.npz"), ("v1.0", "v1.1")]
_pt = []
for _g in ("getDrivingForce", "getInterdiffusivity", "getTracerDiffusivity"):
    _pt += [{"getter": _g, "ne": 2, "npts": 1, "form": "default", "mixed": True},
            {"getter": _g, "ne": 3, "npts": 2, "form": "kw", "mixed": True},
            {"getter": _g, "ne": 3, "npts": 1, "form": "pos", "mixed": False}]
_pt += [{"getter": "getDrivingForce", "ne": 2, "npts": 2, "form": "kwopts", "mixed": True},
        {"getter": "getTracerDiffusivity", "ne": 3, "npts": 1, "form": "kwopts", "mixed": True},
        {"getter": "getGrowthAndInterfacialComposition", "ne": 3, "npts": 2, "form": "kwopts", "mixed": True}]
_pt += [{"getter": "getInterfacialComposition", "ne": 2, "npts": 1, "form": "default", "mixed": True},
        {"getter": "getInterfacialComposition", "ne": 2, "npts": 2, "form": "kw", "mixed": True},
        {"getter": "getInterfacialComposition", "ne": 2, "npts": 2, "form": "pos", "mixed": False}]
for _g in ("curvatureFactor", "getGrowthAndInterfacialComposition", "impingementFactor"):
    _pt += [{"getter": _g, "ne": 3, "npts": 1, "form": "default", "mixed": True},
            {"getter": _g, "ne": 3, "npts": 2, "form": "kw", "mixed": True},
            {"getter": _g, "ne": 3, "npts": 1, "form": "pos", "mixed": False}]
_pt_all = [{"getter": g, "ne": ne, "npts": k, "form": f, "mixed": mx}
           for g in _GETTERS for ne in (2, 3) for k in (1, 2) for f in ("default", "kw", "pos", "kwopts") for mx in (False, True)
           if not (g == "getInterfacialComposition" and ne == 3)
           and not (g in ("curvatureFactor", "getGrowthAndInterfacialComposition", "impingementFactor") and ne == 2)]

_FORMS2 = [("scalar", False), ("list", False), ("list", True), ("1d", False), ("1d", True), ("2d", False), ("2d", True)]
_FORMS3 = [("scalar", False), ("list", False), ("list", True), ("1d", False), ("2d", False), ("2d", True)]


def _th_trained(grids2, grids3, whiches=(None,)):
    out, k = [], 0
    for ne, grids, forms in ((2, grids2, _FORMS2), (3, grids3, _FORMS3)):
        for (nx, nT, bc) in grids:
            for w in whiches:
                for f, bt in forms:
                    d = {"ne": ne, "nx": nx, "nT": nT, "logX": k % 2 == 1, "broadcast": bc, "form": f, "batch": bt}
                    if w is not None:
                        d["which"] = w
                    out.append(d); k += 1
    return out


HARNESSES = [
    Harness("C20.roundtrip_kwn", roundtrip_kwn, functions=_F_RT, assumptions=_A_RT, stubs=_S_FILE,
            bounds={"phases": "nph", "solutes": "nel", "history length": "N", "size classes": "bins"},
            params={"quick": [{"nph": 1, "nel": 1, "N": 1, "bins": [2], "io": "file"},
                              {"nph": 2, "nel": 2, "N": 2, "bins": [2, 3], "io": "file"},
                              {"nph": 2, "nel": 1, "N": 3, "bins": [3, 2], "io": "dict", "psdrec": True},
                              {"nph": 2, "nel": 2, "N": 2, "bins": [2, 2], "io": "file.npz"},
                              {"nph": 1, "nel": 1, "N": 2, "bins": [2], "io": "file", "fname": "snap_t0.25h"},
                              {"nph": 2, "nel": 1, "N": 1, "bins": [2, 3], "io": "file", "fresh_cfg": {"minBins": 4, "maxBins": 8, "adaptive": False, "record": True}},
                              {"nph": 1, "nel": 1, "N": 2, "bins": [3], "io": "dict", "fresh_cfg": {"minBins": 2, "maxBins": 6, "adaptive": True, "record": False}},
                              {"nph": 1, "nel": 1, "N": 1, "bins": [2], "io": "file", "fresh_cfg": {"minBins": 2, "maxBins": 3, "adaptive": False, "record": True, "rows": 2}},
                              {"nph": 1, "nel": 1, "N": 1, "bins": [2], "two": ["snap_t0.25h", "snap_t0.50h"]},
                              {"nph": 2, "nel": 1, "N": 1, "bins": [2, 3], "two": ["run.npz", "run.npz.bak"]}],
                    "thorough": [{"nph": p, "nel": e, "N": n, "bins": [2, 3, 4][:p], "io": io, "psdrec": r}
                                 for p in (1, 2, 3) for e in (1, 2, 3) for n in (1, 4) for io, r in (("file", False), ("dict", True))] +
                                [{"nph": 2, "nel": 1, "N": 2, "bins": [2, 3], "io": io, "fresh_cfg": {"minBins": mb, "maxBins": 2 * mb + 1, "adaptive": ad, "record": rec, "rows": rows}}
                                 for io in ("file", "dict") for mb in (2, 4) for ad in (True, False) for rec, rows in ((False, 0), (True, 0), (True, 2))] +
                                [{"nph": 1, "nel": 1, "N": 2, "bins": [2], "io": "file", "fname": f} for f in _NAMES] +
                                [{"nph": 2, "nel": 1, "N": 2, "bins": [2, 3], "two": list(t)} for t in _NAME_PAIRS]}),
    Harness("C20.roundtrip_diff", roundtrip_diff, functions=_F_RT, assumptions=_A_RT, stubs=_S_FILE,
            bounds={"solutes": "nel", "nodes": "N", "recorded frames": "R"},
            params={"quick": [{"nel": 1, "N": 2, "R": 1, "record": True, "io": "file"},
                              {"nel": 2, "N": 3, "R": 2, "record": True, "io": "file.npz"},
                              {"nel": 2, "N": 3, "R": 2, "record": False, "io": "dict"},
                              {"nel": 2, "N": 2, "R": 3, "record": True, "io": "dict"},
                              {"nel": 1, "N": 2, "R": 2, "record": True, "io": "dict", "disable": True, "fresh_record": True},
                              {"nel": 2, "N": 2, "R": 3, "record": True, "io": "file", "disable": True, "post": True, "fresh_record": False},
                              {"nel": 1, "N": 3, "R": 2, "record": True, "io": "file.npz", "disable": True, "post": True, "fresh_record": True},
                              {"nel": 1, "N": 2, "R": 2, "record": True, "io": "dict", "post": True},
                              {"nel": 2, "N": 2, "R": 1, "record": False, "io": "file"},
                              {"nel": 1, "N": 2, "R": 2, "record": True, "io": "file", "setup": True},
                              {"nel": 2, "N": 2, "R": 1, "record": True, "io": "dict", "setup": True, "fresh_record": False},
                              {"nel": 1, "N": 3, "R": 1, "record": False, "io": "file.npz", "setup": True},
                              {"nel": 1, "N": 2, "R": 2, "record": True, "io": "file", "setup": True, "disable": True},
                              {"nel": 1, "N": 3, "R": 1, "record": False, "io": "file.npz", "fresh_record": True},
                              {"nel": 1, "N": 2, "R": 2, "record": True, "io": "file", "remove": True},
                              {"nel": 1, "N": 2, "R": 2, "record": True, "io": "file", "remove": True, "disable": True, "fresh_record": False},
                              {"nel": 1, "N": 2, "R": 1, "record": False, "two": ["off.1", "off.2"]},
                              {"nel": 1, "N": 2, "R": 1, "record": True, "io": "file", "fname": "a.b.c"},
                              {"nel": 1, "N": 2, "R": 1, "record": True, "io": "file", "fname": "x.npz.bak"},
                              {"nel": 1, "N": 2, "R": 2, "record": True, "two": ["snap_t0.25h", "snap_t0.50h"]},
                              {"nel": 2, "N": 2, "R": 1, "record": True, "two": ["a.b.c", "a.b.d"], "disable": True},
                              {"nel": 1, "N": 2, "R": 1, "record": True, "two": ["x.npz.bak", "x.npz.old"]},
                              {"nel": 1, "N": 2, "R": 1, "record": True, "two": ["plain", "plain.npz.npz"]}],
                    "thorough": [{"nel": e, "N": n, "R": r, "record": rec, "io": io} for e in (1, 2, 3) for n in (2, 5) for r in (1, 4)
                                 for rec, io in ((True, "file"), (True, "dict"), (False, "dict"))] +
                                [{"nel": e, "N": 3, "R": r, "record": True, "io": io, "disable": True, "post": po, "fresh_record": fr}
                                 for e in (1, 2) for r in (2, 4) for io in ("file", "dict") for po in (False, True) for fr in (True, False)] +
                                [{"nel": e, "N": 3, "R": 2, "record": rec, "io": io, "remove": rm, "fresh_record": fr}
                                 for e in (1, 2) for rec, rm in ((False, False), (True, True)) for io in ("file", "file.npz", "dict") for fr in (True, False)] +
                                [{"nel": e, "N": 3, "R": 2, "record": rec, "io": io, "setup": True, "fresh_record": fr}
                                 for e in (1, 2) for rec in (True, False) for io in ("file", "dict") for fr in (True, False)] +
                                [{"nel": 1, "N": 2, "R": 2, "record": True, "io": "file", "fname": f} for f in _NAMES] +
                                [{"nel": 2, "N": 3, "R": 2, "record": True, "two": list(t)} for t in _NAME_PAIRS]}),
    Harness("C20.roundtrip_strength", roundtrip_strength, functions=_F_RT, assumptions=["the strength model was updated at least once (rss, ls, solidStrength are arrays)"],
            stubs=_S_FILE, bounds={"phases": "nph", "history length": "N"},
            params={"quick": [{"nph": 2, "N": 2, "compressed": True}, {"nph": 1, "N": 3, "compressed": False},
                              {"nph": 1, "N": 2, "compressed": True, "fname": "strength"}, {"nph": 2, "N": 1, "compressed": False, "fname": "strength_t0.5"}],
                    "thorough": [{"nph": p, "N": n, "compressed": c, "fname": f} for p in (1, 2, 3) for n in (1, 4) for c in (True, False)
                                 for f in ("strength.npz", "strength", "strength_t0.5", "a.b.c")]}),
    Harness("C20.roundtrip_psdrec", roundtrip_psdrec, functions=_F_RT + [PrecipitateModel.saveRecordedPSD], assumptions=["recording enabled"], stubs=_S_FILE,
            bounds={"recorded frames": "K", "max classes": "maxb", "phases (model level)": 2},
            params={"quick": [{"K": 2, "maxb": 3, "compressed": True, "fname": "psd.npz"}, {"K": 1, "maxb": 2, "compressed": False, "fname": "psd.npz"},
                              {"K": 2, "maxb": 2, "compressed": True, "fname": "psd"}, {"K": 1, "maxb": 2, "compressed": False, "fname": "psd_t0.5"},
                              {"K": 1, "maxb": 2, "compressed": True, "fname": "rec", "model": "all"},
                              {"K": 1, "maxb": 2, "compressed": False, "fname": "rec.npz", "model": "BETA_2"},
                              {"K": 1, "maxb": 2, "compressed": True, "fname": "rec_t0.5", "model": "BETA"}],
                    "thorough": [{"K": k, "maxb": b, "compressed": c, "fname": f} for k in (1, 4) for b in (2, 5) for c in (True, False) for f in ("psd.npz", "psd", "psd_t0.5", "a.b.c")] +
                                [{"K": 2, "maxb": 3, "compressed": c, "fname": f, "model": mo} for c in (True, False) for f in ("rec", "rec.npz", "rec_t0.5") for mo in ("all", "BETA", "BETA_2")]}),
    Harness("C20.passthrough", passthrough, functions=_F_PT, stubs=_S_THERM + ["trained models of other phases/quantities: objects whose predict raises"],
            assumptions=["phase passed positionally or by keyword, options by keyword (the call forms kawin's own models use)"],
            bounds={"components": "ne (2 binary, 3 ternary)", "state points per call": "npts", "phases": 3},
            params={"quick": _pt, "thorough": _pt_all}),
    Harness("C20.trained_df", trained_df, functions=_F_TR, stubs=_S_THERM + _S_KERNEL, assumptions=_A_TR,
            bounds={"components": "ne", "compositions": "nx", "temperatures": "nT", "input forms": "float/list/(N,)/(e,)/(N,1)/(N,e)"},
            params={"quick": [{"ne": 2, "nx": 2, "nT": 1, "logX": True, "broadcast": True, "form": "scalar"},
                              {"ne": 2, "nx": 2, "nT": 2, "logX": False, "broadcast": True, "form": "list", "batch": True},
                              {"ne": 2, "nx": 2, "nT": 2, "logX": True, "broadcast": False, "form": "1d", "batch": True},
                              {"ne": 3, "nx": 2, "nT": 2, "logX": False, "broadcast": False, "form": "scalar"},
                              {"ne": 3, "nx": 1, "nT": 2, "logX": True, "broadcast": True, "form": "list"},
                              {"ne": 3, "nx": 2, "nT": 2, "logX": False, "broadcast": True, "form": "2d", "batch": True},
                              {"ne": 3, "nx": 2, "nT": 1, "logX": False, "broadcast": True, "form": "list", "batch": True}],
                    "thorough": _th_trained([(2, 2, True), (2, 2, False), (3, 1, True), (1, 3, True), (3, 2, True)],
                                            [(2, 2, True), (2, 2, False), (3, 1, True), (1, 3, True)])}),
    Harness("C20.trained_diff", trained_diff, functions=_F_TR, stubs=_S_THERM + _S_KERNEL, opts={"batch": False, "ob_timeout": 90}, assumptions=_A_TR,
            bounds={"components": "ne", "compositions": "nx", "temperatures": "nT", "input forms": "float/list/(N,)/(e,)/(N,1)/(N,e)"},
            params={"quick": [{"ne": 2, "nx": 2, "nT": 2, "logX": False, "broadcast": True, "form": "2d", "which": "inter"},
                              {"ne": 2, "nx": 2, "nT": 1, "logX": True, "broadcast": True, "form": "scalar", "which": "tracer"},
                              {"ne": 2, "nx": 2, "nT": 2, "logX": False, "broadcast": False, "form": "1d", "which": "tracer", "batch": True},
                              {"ne": 2, "nx": 2, "nT": 1, "logX": False, "broadcast": True, "form": "list", "which": "tracer", "batch": True},
                              {"ne": 2, "nx": 1, "nT": 2, "logX": False, "broadcast": True, "form": "scalar", "which": "inter"},
                              {"ne": 3, "nx": 2, "nT": 2, "logX": False, "broadcast": False, "form": "2d", "which": "inter", "batch": True},
                              {"ne": 3, "nx": 2, "nT": 2, "logX": False, "broadcast": False, "form": "scalar", "which": "tracer"},
                              {"ne": 3, "nx": 1, "nT": 2, "logX": True, "broadcast": True, "form": "1d", "which": "inter"},
                              {"ne": 3, "nx": 2, "nT": 1, "logX": True, "broadcast": True, "form": "list", "which": "tracer"},
                              {"ne": 3, "nx": 2, "nT": 1, "logX": False, "broadcast": True, "form": "list", "which": "inter", "batch": True}],
                    "thorough": _th_trained([(2, 2, True), (2, 2, False), (3, 1, True), (1, 3, True)],
                                            [(2, 2, False), (2, 1, True), (1, 2, True)], whiches=("inter", "tracer"))}),
    Harness("C20.trained_ic", trained_ic, functions=_F_TR, stubs=_S_THERM + _S_KERNEL, assumptions=_A_TR,
            bounds={"temperatures": "nT", "Gibbs-Thomson values": "ng"},
            params={"quick": [{"nT": 1, "ng": 2, "logY": False, "broadcast": True},
                              {"nT": 2, "ng": 2, "logY": False, "broadcast": False},
                              {"nT": 1, "ng": 2, "logY": True, "broadcast": True},
                              {"nT": 2, "ng": 2, "logY": False, "broadcast": True},
                              {"nT": 2, "ng": 1, "logY": False, "broadcast": True}],
                    "thorough": [{"nT": nT, "ng": ng, "logY": ly, "broadcast": True} for ly in (False, True) for nT in (1, 2, 3) for ng in (1, 2, 3) if nT * ng > 1] +
                                [{"nT": 3, "ng": 3, "logY": ly, "broadcast": False} for ly in (False, True)]}),
    Harness("C20.trained_curv", trained_curv, functions=_F_TR, stubs=_S_THERM + _S_KERNEL, assumptions=_A_TR,
            bounds={"components": 3, "compositions": "nx", "temperatures": "nT"},
            params={"quick": [{"nx": 2, "nT": 1, "logX": False, "broadcast": True},
                              {"nx": 2, "nT": 2, "logX": True, "broadcast": False},
                              {"nx": 2, "nT": 2, "logX": False, "broadcast": True, "fault": True},
                              {"nx": 2, "nT": 1, "logX": False, "broadcast": True, "refit": "query"},
                              {"nx": 2, "nT": 2, "logX": False, "broadcast": False, "refit": "json"},
                              {"nx": 2, "nT": 1, "logX": True, "broadcast": True, "refit": "impingement"}],
                    "thorough": [{"nx": nx, "nT": nT, "logX": lx, "broadcast": bc, "fault": f}
                                 for nx in (1, 2, 3) for nT in (1, 2) for lx in (False, True) for bc in (True, False) for f in (False, True)
                                 if not (nx == 1 and nT == 1) and (bc or nx == nT)] +
                                [{"nx": 2, "nT": nT, "logX": lx, "broadcast": True, "refit": r} for nT in (1, 2) for lx in (False, True)
                                 for r in ("query", "growth", "impingement", "json")]}),
    Harness("C20.trained_curv_phase", trained_curv_phase, stubs=_S_THERM + _S_KERNEL, assumptions=_A_TR + ["R > 0"],
            functions=_F_TR + [MulticomponentSurrogate.getGrowthAndInterfacialComposition, _growthRateOutputFromCurvature],
            bounds={"components": 3, "precipitate phases": 2, "compositions": "nx", "temperatures": "nT", "radii per call": 1},
            params={"quick": [{"nx": 2, "nT": 1, "broadcast": True, "both": False, "form": "kw"},
                              {"nx": 2, "nT": 1, "broadcast": True, "both": True, "form": "pos"},
                              {"nx": 2, "nT": 2, "broadcast": False, "both": True, "form": "kw"}],
                    "thorough": [{"nx": nx, "nT": nT, "broadcast": bc, "both": b, "form": f} for (nx, nT, bc) in ((2, 1, True), (1, 2, True), (2, 2, False), (2, 2, True))
                                 for b in (False, True) for f in ("kw", "pos")]}),
    Harness("C20.rebuilt", rebuilt, functions=_F_JS + _F_TR, stubs=_S_THERM + _S_KERNEL + _S_JSON, assumptions=_A_TR,
            bounds={"components": "ne", "training grid": "2 compositions x 2 temperatures"},
            params={"quick": [{"ne": 2, "logX": False, "suffix": False}, {"ne": 3, "logX": True, "suffix": True}, {"ne": 2, "logX": True, "suffix": True},
                              {"ne": 2, "logX": False, "suffix": True, "options": "default"}, {"ne": 3, "logX": False, "suffix": False, "options": "default"},
                              {"ne": 3, "logX": False, "suffix": False, "intT": True}],
                    "thorough": [{"ne": ne, "logX": lx, "suffix": s, "options": o} for ne in (2, 3) for lx in (False, True) for s in (False, True) for o in ("own", "default")] +
                                [{"ne": 3, "logX": lx, "suffix": True, "intT": True} for lx in (False, True)]}),
    Harness("C20.kwn_continue", kwn_continue, functions=[GenericModel.save, GenericModel.load, PrecipitateModel.toDict, PrecipitateModel.fromDict,
                                                         PrecipitateModel.setup, PrecipitateBase.setup, PrecipitateModel._setupAspectRatio],
            assumptions=["same configuration for the saved and the fresh model (same symbolic parameters, isothermal, alloy composition = first recorded row)",
                         "uniform grid per phase, recorded temperatures follow the schedule, spherical precipitates (aspect ratio 1)",
                         "driving force of the last recorded row >= 0"],
            stubs=_S_FILE + ["multicomponent backend: equilibrium compositions = the loaded last row (deterministic backend at the recorded state), "
                             "growth rates / interfacial compositions arbitrary", "_calcNucleationRate: leaves the recorded nucleation quantities as they are"],
            bounds={"phases": "nph", "solutes": 2, "size classes": "ncls", "history length": "N"},
            params={"quick": [{"nph": 1, "nel": 2, "ncls": 2, "N": 2, "io": "file"}],
                    "thorough": [{"nph": p, "nel": 2, "ncls": c, "N": n, "io": io} for p in (1, 2) for c in (2, 3) for n in (1, 3) for io in ("file", "dict")]}),
]
PENDING = []
