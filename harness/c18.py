"""C18 -- coupled strength and grain-growth models stay physical and aligned with the host model.

Decided here on the real StrengthModel / GrainGrowthModel code:
  zener      constrainedGrowth: drag never reverses or accelerates a boundary and freezes it when strong enough
  clip       getStrengthContributions: every returned weak / strong / Orowan entry is finite and >= 0, whatever the raw
             formulas deliver (finite reals of any sign, NaN, +-inf injected at the formula level; or the real formulas on
             symbolic positive radii / spacings -- sub-core radii included -- and on concrete zero radii / spacings)
  combine    combineStrengthContributions: Taylor factor times the smallest of the weak, strong and Orowan branches,
             finite, >= 0, zero when there are no precipitates; comparison flag
  total      totalStrength >= each part, non-decreasing in each part, finite and >= 0
  history    StrengthModel.updateCoupledModel through the host's updateCoupledModels: one row per host step, earlier rows
             untouched, rss / Ls finite and >= 0 and 0 for an empty distribution
  gg_couple  GrainGrowthModel.updateCoupledModel: drag force >= 0, one solve request over exactly the host step
  gg_frozen  the same with the real GenericModel.solve / DESolver.solve: under drag strong enough to freeze every boundary the
             grain distribution is unchanged and the grain-growth clock advances by exactly the host step
Outside: the individual dislocation formulas (log / pow / trig), edge / screw limits, grain-volume conservation and
mean-size monotonicity of the discretised growth law (trajectory level).
"""
import math
import numpy as np
from vk.run import Harness
from vk import core
from kawin.precipitation.coupling.Strength import StrengthModel
from kawin.precipitation.coupling.GrainGrowth import GrainGrowthModel
from kawin.precipitation.KWNEuler import PrecipitateModel
from kawin.precipitation.PrecipitationParameters import PrecipitationData
from kawin.precipitation.PopulationBalance import PopulationBalanceModel as PBM
from kawin.GenericModel import GenericModel
from kawin.solver.Solver import DESolver, SolverType

NAN, INF = float("nan"), float("inf")

from vk import symnp as _sn0


def _f_histogram(a, bins=10, range=None, density=None, weights=None):
    """np.histogram for symbol-free data and edges held in object arrays (GrainGrowthModel.LoadDistribution): plain numpy on the
    float values; the edges come back as an object array like every float array in symbolic mode.  Symbolic data is not supported."""
    from vk import symnp as sn
    if sn.has_sym(a) or sn.has_sym(bins) or weights is not None:
        raise core.FacadeMissing("numpy.histogram on symbolic data")
    import numpy as rnp
    fa = sn.to_float(sn.plain(sn.to_obj(a))) if isinstance(a, (rnp.ndarray, list, tuple)) else a
    fb = sn.to_float(sn.plain(sn.to_obj(bins))) if isinstance(bins, (rnp.ndarray, list, tuple)) else bins
    cnt, edges = rnp.histogram(fa, fb, range=range, density=density)
    if not sn.symbolic_mode():
        return cnt, edges
    # the counts are converted by the caller with .astype('float'); in symbolic mode float data lives in object arrays (a genuine
    # float array would later meet symbolic scalars outside the facade), so that conversion is made to keep the object layout
    return cnt.astype(float).astype(object).view(_Counts), sn.wrap_num(edges)


class _Counts(_sn0.SymArray):
    def astype(self, dtype, *a, **kw):
        import numpy as rnp
        if rnp.dtype(dtype).kind == "f":
            return self.view(_sn0.SymArray).copy()
        return _sn0.SymArray.astype(self.view(_sn0.SymArray), dtype, *a, **kw)


_sn0.FUNCS.setdefault("histogram", _f_histogram)

# engine gap worked around here: StrengthModel.precStrength converts a boolean mask with np.array(mask, dtype='int'); numpy then calls
# int() on every element.  A symbolic boolean is concretised by forking (sound: both values are explored).
if not hasattr(core.SymBool, "__int__"):
    core.SymBool.__int__ = lambda self: 1 if bool(self) else 0

# second engine gap: SymArray.__getitem__ with a tuple key (slice, mask) applies the mask to the wrong axis (it indexes with the
# leading part first and then masks axis 0 of the result).  precStrength does ps[:, indices] with a mask of plain Python bools held in
# an object array; such masks are turned into genuine bool arrays here, after which numpy's own indexing applies.
from vk import symnp as _symnp
if not getattr(_symnp.SymArray, "_c18_getitem", False):
    _orig_getitem = _symnp.SymArray.__getitem__

    def _plain_mask(k):
        if isinstance(k, np.ndarray) and k.dtype == object and k.size > 0 and all(isinstance(e, (bool, np.bool_)) for e in k.view(np.ndarray).flat):
            return k.view(np.ndarray).astype(bool)
        return k

    def _getitem(self, key):
        if isinstance(key, tuple) and len(key) > 1:
            key = tuple(_plain_mask(k) for k in key)
        return _orig_getitem(self, key)
    _symnp.SymArray.__getitem__ = _getitem
    _symnp.SymArray._c18_getitem = True


def _ok(ctx, v):
    """finite and >= 0; plain numbers (the real code may deliver NaN / inf constants) are judged in Python"""
    if isinstance(v, np.ndarray) and v.ndim == 0:
        v = v[()]
    if core.is_sym(v):
        return v >= 0            # a real-valued term is finite
    v = float(v)
    return bool(math.isfinite(v) and v >= 0)


def _fin(ctx, v):
    if core.is_sym(v):
        return True
    return bool(math.isfinite(float(v)))


def _items(a):
    return [a[idx] for idx in np.ndindex(*np.shape(a))]


# ------------------------------------------------------------------------------------------------ Zener drag

def zener(ctx, n=3, sym_mobility=True):
    gg = GrainGrowthModel(1e-10, 1e-9, n, 1, 10 * n)
    if sym_mobility:
        al = ctx.real("alpha", (0.1, 2.0)); mo = ctx.real("M", (0.1, 2.0)); ctx.assume(al >= 0); ctx.assume(mo >= 0)
    else:
        al, mo = 1.0, 1.0
    gbe = ctx.real("gbe", (0.0, 2.0)); z = ctx.real("z", (0.0, 2.0))
    ctx.assume(gbe >= 0); ctx.assume(z >= 0)
    gg.alpha, gg.M, gg.gbe = al, mo, gbe
    g = ctx.reals("g", n + 1, (-2.0, 2.0))
    free = [g[i] * 1 for i in range(n + 1)]
    cg = gg.constrainedGrowth(g, z)
    ctx.observe("cg", cg)
    ctx.prove("one constrained rate per boundary", np.shape(cg) == (n + 1,))
    drag = al * mo * gbe * z
    zero = 0.0 * z
    for i in range(n + 1):
        f, c = free[i], cg[i]
        ctx.prove("drag never reverses a boundary", ctx.all([ctx.implies(f >= 0, ctx.le(zero, c)), ctx.implies(f <= 0, ctx.le(c, zero))]))
        ctx.prove("drag never accelerates a boundary", ctx.all([ctx.implies(f >= 0, ctx.le(c, f)), ctx.implies(f <= 0, ctx.le(f, c))]))
        ctx.prove("boundary frozen when the drag is strong enough", ctx.implies(ctx.all([f <= drag, -drag <= f]), ctx.eq(c, 0.0, rtol=0.0)))
        ctx.prove("boundary moves when the driving force exceeds the drag", ctx.all([ctx.implies(f > drag, ctx.lt(zero, c)), ctx.implies(f < -drag, ctx.lt(c, zero))]))
    ctx.prove("free rates handed in are not modified", ctx.all([ctx.eq(g[i], free[i], rtol=0.0) for i in range(n + 1)]))


# ------------------------------------------------------------------------------------------------ contributions

G_, B_, NU_ = 79.3e9, 0.25e-9, 1 / 3
SETTERS = {
    "coherency": lambda sm, ph: sm.setCoherencyParameters(0.001, phase=ph),
    "modulus": lambda sm, ph: sm.setModulusParameters(70e9, phase=ph),
    "apb": lambda sm, ph: sm.setAPBParameters(0.04, phase=ph),
    "sfe": lambda sm, ph: sm.setSFEParameters(0.1, 0.05, B_, phase=ph),
    "interfacial": lambda sm, ph: sm.setInterfacialParameters(0.5, phase=ph),
}
WS = {"coherency": ("coherencyWeak", "coherencyStrong"), "modulus": ("modulusWeak", "modulusStrong"), "apb": ("APBweak", "APBstrong"),
      "sfe": ("SFEweak", "SFEstrong"), "interfacial": ("interfacialWeak", "interfacialStrong")}


def mk_sm(kinds, setphase):
    sm = StrengthModel()
    sm.setDislocationParameters(G_, B_, NU_, 2 * B_, theta=90, psi=120)
    for k in kinds:
        SETTERS[k](sm, setphase)
    return sm


def _raw(ctx, name, pattern):
    """raw contribution values by class: r = any finite real (symbolic), n = NaN, i = +inf, m = -inf, z = 0"""
    vals = []
    for j, ch in enumerate(pattern):
        if ch == "r":
            vals.append(ctx.real("%s[%d]" % (name, j), (-3.0, 3.0)))
        else:
            vals.append({"n": NAN, "i": INF, "m": -INF, "z": 0.0}[ch])
    if ctx.mode == "concrete":
        return np.array(vals, dtype=float)
    a = np.empty(len(vals), dtype=object)
    for j, v in enumerate(vals):
        a[j] = v
    return np.array(a)


def clip(ctx, kinds=("coherency", "modulus"), pattern="rnim", setphase="all", phase="all", exp=1.8):
    """the raw formulas are replaced (instance attributes of the same names) by arbitrary values of every floating-point
    class; what getStrengthContributions hands back is finite and >= 0"""
    sm = mk_sm(kinds, setphase)
    sm.setStrengthSuperpositionExponent(singlePhaseExp=exp)
    n = len(pattern)
    rot = lambda k: pattern[k % n:] + pattern[:k % n]
    cnt = [0]
    for k in kinds:
        for nm in WS[k]:
            arr = _raw(ctx, nm, rot(cnt[0])); cnt[0] += 1
            setattr(sm, nm, (lambda a: (lambda r, Ls, r0, phase="all": a))(arr))
    oro = _raw(ctx, "orowan", rot(cnt[0]))
    sm.orowan = lambda r, Ls: oro
    rss = ctx.reals("rss", n, (0.0, 2.0)); Ls = ctx.reals("Ls", n, (0.1, 2.0))
    w, s, o, labels = sm.getStrengthContributions(rss, Ls, phase)
    ctx.observe("weak", w); ctx.observe("strong", s); ctx.observe("orowan", o)
    active = len(kinds) if (setphase == "all" or setphase == phase) else 0
    ctx.prove("one row per enabled contribution", np.shape(w) == ((active, n) if active else (0,)) and np.shape(s) == np.shape(w) and len(labels) == active)
    ctx.prove("one Orowan value per radius", np.shape(o) == (n,))
    ctx.prove("weak contributions are finite and >= 0", ctx.all([_ok(ctx, v) for v in _items(w)]))
    ctx.prove("strong contributions are finite and >= 0", ctx.all([_ok(ctx, v) for v in _items(s)]))
    ctx.prove("orowan contribution is finite and >= 0", ctx.all([_ok(ctx, v) for v in _items(o)]))
    if active:
        st = sm.combineStrengthContributions(w, s, o)
        ctx.observe("strength", st)
        ctx.prove("combined precipitate strength is finite and >= 0", ctx.all([_ok(ctx, v) for v in _items(st)]))


def contrib(ctx, kinds=("modulus", "interfacial"), setphase="all", phase="all", zeros=True, exp=1.8):
    """real formulas: symbolic positive radius / spacing (sub-core radii included) next to concrete zero radii / spacings"""
    sm = mk_sm(kinds, setphase)
    sm.setStrengthSuperpositionExponent(exp, exp, exp, exp)
    r = ctx.real("r", (0.05e-9, 60e-9)); L = ctx.real("Ls", (0.2e-9, 300e-9))
    ctx.assume(r > 0); ctx.assume(L > 0)
    if zeros:
        rs = [0.0, 0.0, 50e-9, r]; ls = [0.0, 200e-9, 0.0, L]
    else:
        rs = [r]; ls = [L]
    rss = np.array(rs); Ls = np.array(ls)
    n = len(rs)
    w, s, o, labels = sm.getStrengthContributions(rss, Ls, phase)
    ctx.observe("weak", w); ctx.observe("strong", s); ctx.observe("orowan", o)
    ctx.prove("weak contributions are finite and >= 0", ctx.all([_ok(ctx, v) for v in _items(w)]))
    ctx.prove("strong contributions are finite and >= 0", ctx.all([_ok(ctx, v) for v in _items(s)]))
    ctx.prove("orowan contribution is finite and >= 0", ctx.all([_ok(ctx, v) for v in _items(o)]))
    st = sm.combineStrengthContributions(w, s, o)
    ctx.observe("strength", st)
    ctx.prove("combined precipitate strength is finite and >= 0", ctx.all([_ok(ctx, v) for v in _items(st)]))
    if zeros:
        ctx.prove("zero precipitate strength when there are no precipitates (r = 0 or spacing = 0)",
                  all((not core.is_sym(st[j])) and float(st[j]) == 0.0 for j in range(3)))


# ------------------------------------------------------------------------------------------------ mixed -> edge / screw

PAIRS = {   # mixed formula: (edge / screw reference of the class, spacing used as outer cut-off r0, reference carries the J factor)
    "coherencyWeak": ("coherencyWeak%s", "weak", False), "coherencyStrong": ("coherencyStrong%s", "strong", True),
    "modulusWeak": ("modulusWeak%s", "weak", False), "APBweak": ("APBweak%s", "weak", False), "APBstrong": ("APBstrong%s", "strong", False),
    "SFEweak": ("SFEweakNarrow%s", "weak", False), "SFEstrong": ("SFEstrongNarrow%s", "strong", True),
    "interfacialWeak": ("interfacialWeak%s", "weak", False), "interfacialStrong": ("interfacialStrongOld", "strong", True),
}
PSETS = {"unit": dict(G=1.3, b=0.7, nu=1 / 3, ri=0.9, eps=0.05, Gp=0.8, yAPB=0.3, ySFM=0.4, ySFP=0.15, gamma=0.25, r=(1.0, 4.0), L=(4.0, 12.0)),
         "steel": dict(G=79.3e9, b=0.25e-9, nu=1 / 3, ri=0.5e-9, eps=0.001, Gp=70e9, yAPB=0.04, ySFM=0.1, ySFP=0.05, gamma=0.5, r=(2e-9, 1e-7), L=(2e-8, 1e-6))}


def reduce(ctx, name="APBweak", jmodel="simple", pset="unit", tmodels=("simple", "complex", "uf"), thetas=(90, 0), tol=2e-3):
    """a mixed-dislocation formula evaluated at 90 (0) degrees against the edge (screw) formula of the class, for symbolic radius
    and spacing, under either line-tension model (and an arbitrary positive one, 'uf') and the given J-factor setting"""
    P = PSETS[pset]
    r = ctx.real("r", P["r"]); L = ctx.real("Ls", P["L"])
    ctx.assume(r > 0); ctx.assume(L > 0)
    refname, which, _ = PAIRS[name]
    for tmodel in tmodels:
        for theta in thetas:
            sm = StrengthModel()
            sm.setDislocationParameters(P["G"], P["b"], P["nu"], P["ri"], theta=theta, psi=120)
            sm.setCoherencyParameters(P["eps"]); sm.setModulusParameters(P["Gp"]); sm.setAPBParameters(P["yAPB"])
            sm.setSFEParameters(P["ySFM"], P["ySFP"], P["b"]); sm.setInterfacialParameters(P["gamma"])
            if tmodel == "uf":
                def anyT(th, r0, _tag="T%d" % theta):
                    t = ctx.uf(_tag, float(th), r0, rng=(0.3 * P["G"] * P["b"] ** 2, 1.5 * P["G"] * P["b"] ** 2))
                    ctx.assume(t > 0, "line tension positive")
                    return t
                sm.T = anyT
            else:
                sm.setTmodel(tmodel)
            sm.setJfactor(jmodel)
            kind = "Edge" if theta == 90 else "Screw"
            r0 = L / np.sqrt(np.cos(sm.psi / 2)) if which == "weak" else L
            if tmodel == "complex":
                ctx.assume(r0 > P["ri"], "outer cut-off beyond the dislocation core (positive line tension)")
            mixed = getattr(sm, name)(r, L, r0)
            rn = refname % kind if "%s" in refname else refname
            ref = getattr(sm, rn)(r, L, r0)
            ctx.observe("mixed_%s_%d" % (tmodel, theta), mixed); ctx.observe("ref_%s_%d" % (tmodel, theta), ref)
            # relative to |ref|; APBweak is a difference of two terms and has a root in r, so there the agreement is measured against its
            # leading (first) term as well -- the reference formula with beta = 0 -- instead of against a difference that may cancel
            lead = 0.0 * r
            if name == "APBweak":
                beta = sm.beta; sm.beta = 0
                lead = getattr(sm, rn)(r, L, r0)
                sm.beta = beta
            diff = mixed - ref
            aref = ctx.ite(ref >= 0, ref, -ref); alead = ctx.ite(lead >= 0, lead, -lead)
            bound = tol * (aref + alead)
            ctx.prove("%s at %d degrees reduces to %s (line tension model: %s, J factor: %s)" % (name, theta, rn, tmodel, jmodel),
                      ctx.all([ctx.le(diff, bound, rtol=0.0), ctx.le(-bound, diff, rtol=0.0)]))


# ------------------------------------------------------------------------------------------------ combination

def _pw(x, e):
    """x**e for the exponents that are exact in real arithmetic"""
    if e == 1:
        return x
    if e == 2:
        return x * x
    raise ValueError(e)


def combine(ctx, k=2, n=2, exp=2):
    sm = StrengthModel()
    M = ctx.real("M", (0.5, 3.0)); ctx.assume(M > 0)
    sm.setTaylorFactor(M)
    sm.setStrengthSuperpositionExponent(singlePhaseExp=exp)
    weak = ctx.reals("weak", (k, n), (0.0, 3.0)) if k else np.array([])
    strong = ctx.reals("strong", (k, n), (0.0, 3.0)) if k else np.array([])
    oro = ctx.reals("orowan", n, (0.0, 3.0))
    for v in _items(weak) + _items(strong) + _items(oro):
        ctx.assume(v >= 0)
    w0 = [[weak[i, j] * 1 for j in range(n)] for i in range(k)]; s0 = [[strong[i, j] * 1 for j in range(n)] for i in range(k)]
    o0 = [oro[j] * 1 for j in range(n)]
    st, cmp_, (mw, ms, mo) = sm.combineStrengthContributions(weak, strong, oro, returnComparison=True)
    st2 = sm.combineStrengthContributions(weak, strong, oro)
    ctx.observe("strength", st); ctx.observe("branches", [mw, ms, mo])
    ctx.prove("shapes", np.shape(st) == (n,) and np.shape(mw) == (n,) and np.shape(ms) == (n,) and np.shape(mo) == (n,) and np.shape(cmp_) == (n,))
    zero = 0.0 * M
    for j in range(n):
        ctx.prove("strength is the smallest branch", ctx.all([ctx.le(st[j], mw[j]), ctx.le(st[j], ms[j]), ctx.le(st[j], mo[j]),
                                                               ctx.any([ctx.eq(st[j], mw[j]), ctx.eq(st[j], ms[j]), ctx.eq(st[j], mo[j])])]))
        ctx.prove("Orowan branch is the Taylor factor times the Orowan contribution", ctx.eq(mo[j], M * o0[j]))
        ctx.prove("branches and strength are >= 0", ctx.all([ctx.le(zero, mw[j]), ctx.le(zero, ms[j]), ctx.le(zero, mo[j]), ctx.le(zero, st[j])]))
        ctx.prove("same result with and without the comparison output", ctx.eq(st2[j], st[j]))
        ctx.prove("comparison flag: weak branch above strong and Orowan", ctx.all([ctx.implies(cmp_[j], ctx.all([mw[j] > ms[j], mw[j] > mo[j]])),
                                                                               ctx.implies(ctx.all([mw[j] > ms[j], mw[j] > mo[j]]), cmp_[j])]))
        allzero = ctx.all([ctx.eq(w0[i][j], 0.0, rtol=0.0) for i in range(k)] + [ctx.eq(s0[i][j], 0.0, rtol=0.0) for i in range(k)] + [ctx.eq(o0[j], 0.0, rtol=0.0)])
        ctx.prove("zero strength when every contribution is zero", ctx.implies(allzero, ctx.eq(st[j], 0.0, rtol=0.0)))
        ctx.prove("zero strength without bowing resistance (Orowan contribution 0)", ctx.implies(ctx.eq(o0[j], 0.0, rtol=0.0), ctx.eq(st[j], 0.0, rtol=0.0)))
        if k == 0:
            ctx.prove("no cutting mechanism enabled: weak and strong branches are 0", ctx.all([ctx.eq(mw[j], 0.0, rtol=0.0), ctx.eq(ms[j], 0.0, rtol=0.0)]))
        elif exp in (1, 2):
            # superposition law of the docstring (tau^n = sum tau_i^n) for exponents that are exact over the reals
            sw = sum(_pw(w0[i][j], exp) for i in range(k)); ss = sum(_pw(s0[i][j], exp) for i in range(k))
            ctx.prove("weak / strong branch: (branch / M)^n = sum of contributions^n",
                      ctx.all([ctx.eq(_pw(mw[j], exp), _pw(M, exp) * sw), ctx.eq(_pw(ms[j], exp), _pw(M, exp) * ss)]))


def total(ctx, n=2, exp=2, which="prec"):
    sm = StrengthModel()
    s0 = ctx.real("sigma0", (0.0, 2.0)); ctx.assume(s0 >= 0)
    sm.setBaseStrength(s0)
    sm.setStrengthSuperpositionExponent(totalExp=exp)
    ss = ctx.reals("ss", n, (0.0, 2.0)); pr = ctx.reals("prec", n, (0.0, 2.0))
    d = ctx.reals("incr", n, (0.0, 1.0))
    for j in range(n):
        ctx.assume(ss[j] >= 0); ctx.assume(pr[j] >= 0); ctx.assume(d[j] >= 0)
    t = sm.totalStrength(ss, pr)
    ctx.observe("total", t)
    ctx.prove("one total per time", np.shape(t) == (n,))
    zero = 0.0 * s0
    for j in range(n):
        ctx.prove("total strength is >= 0", ctx.le(zero, t[j]))
        if exp in (1, 2):
            ctx.prove("total strength >= each of its parts", ctx.all([ctx.le(s0, t[j]), ctx.le(ss[j], t[j]), ctx.le(pr[j], t[j])]))
            ctx.prove("total strength^n = sum of parts^n", ctx.eq(_pw(t[j], exp), _pw(s0, exp) + _pw(ss[j], exp) + _pw(pr[j], exp)))
    # non-decreasing in one part (the other two held fixed)
    if which == "prec":
        t2 = sm.totalStrength(ss, pr + d)
    elif which == "ss":
        t2 = sm.totalStrength(ss + d, pr)
    else:
        sm.setBaseStrength(s0 + d[0])
        t2 = sm.totalStrength(ss, pr)
    ctx.observe("total2", t2)
    for j in range(n):
        ctx.prove("total strength is non-decreasing in " + which, ctx.le(t[j], t2[j]))


def prec(ctx, nph=2, pattern="r", same=2, mixed=1, kinds=("modulus",)):
    """precStrength over the recorded history: multi-phase superposition of the per-phase strengths (raw formulas replaced by
    arbitrary values as in clip)"""
    sm = mk_sm(kinds, "all")
    M = ctx.real("M", (0.5, 3.0)); ctx.assume(M > 0)
    sm.setTaylorFactor(M)
    sm.setStrengthSuperpositionExponent(2, same, mixed, 1.8)
    N = len(pattern)
    phases = ["P%d" % (i + 1) for i in range(nph)]
    raw = {}
    for p in range(nph):
        for k in kinds:
            for nm in WS[k]:
                raw[(nm, p)] = _raw(ctx, "%s_%d" % (nm, p), pattern)
        raw[("orowan", p)] = _raw(ctx, "orowan_%d" % p, pattern)
    sm.rss = ctx.reals("rss", (N, nph), (0.0, 2.0)); sm.ls = ctx.reals("ls", (N, nph), (0.1, 2.0))
    cur = [0]
    for k in kinds:
        for nm in WS[k]:
            setattr(sm, nm, (lambda name: (lambda r, Ls, r0, phase="all": raw[(name, cur[0])] * 1))(nm))
    sm.orowan = lambda r, Ls: raw[("orowan", cur[0])] * 1
    host = PrecipitateModel(phases=phases, elements=["A"])
    # the per-phase strengths, through the same real functions
    per = []
    for p in range(nph):
        cur[0] = p
        w, s, o, _ = sm.getStrengthContributions(sm.rss[:, p], sm.ls[:, p], phases[p])
        per.append(sm.combineStrengthContributions(w, s, o))
    orig_get = sm.getStrengthContributions

    def get(rss, Ls, phase="all", selectedContributions=None):
        cur[0] = list(phases).index(phase)
        return orig_get(rss, Ls, phase, selectedContributions)
    sm.getStrengthContributions = get
    ps = sm.precStrength(host)
    ctx.observe("prec", ps)
    ctx.prove("one precipitate strength per recorded time", np.shape(ps) == (N,))
    if np.shape(ps) != (N,):
        return
    for j in range(N):
        ctx.prove("combined precipitate strength is finite and >= 0", _ok(ctx, ps[j]))
        ctx.prove("combined precipitate strength >= the strength of each phase", ctx.all([ctx.le(per[p][j], ps[j]) for p in range(nph)]))
        ctx.prove("zero precipitate strength when no phase contributes", ctx.implies(ctx.all([ctx.eq(per[p][j], 0.0, rtol=0.0) for p in range(nph)]), ctx.eq(ps[j], 0.0, rtol=0.0)))
        if nph == 1:
            ctx.prove("single phase: the phase's own strength", ctx.eq(ps[j], per[0][j]))


def gg_post(ctx, n=3):
    """GrainGrowthModel.postProcess from an arbitrary new distribution: total grain volume (third moment) is 1 afterwards, one
    clock / mean-size entry is appended, the mean size is the volume-mean radius"""
    rmin, dr = 0.05, 0.02
    gg = GrainGrowthModel(rmin, rmin + n * dr, n, 1, 10 * n)
    gg.LoadDistributionFunction(lambda R: 1.0 + 0.0 * R)
    t0 = ctx.real("t0", (0.0, 1.0)); t1 = ctx.real("t1", (1.0, 2.0))
    gg.time = np.array([t0])
    x = ctx.reals("x", n, (0.0, 50.0))
    for i in range(n):
        ctx.assume(x[i] >= 0)
    ctx.assume(ctx.any([x[i] >= 1 for i in range(n)]), "at least one class holds a grain (otherwise the structure has vanished)")
    out, stop = gg.postProcess(t1, [x])
    pb = gg.pbm
    ctx.observe("psd", pb.PSD); ctx.observe("avgR", gg.avgR[-1])
    ctx.prove("postProcess never stops the host solve", stop is False)
    ctx.prove("returned state is the stored distribution", len(out) == 1 and out[0] is pb.PSD)
    ctx.prove("one clock and one mean-size entry per solver iteration (histories stay aligned)", np.shape(gg.time) == (2,) and np.shape(gg.avgR) == (2,))
    ctx.prove("clock entry is the time handed in", ctx.eq(gg.time[1], t1, rtol=0.0))
    nb = pb.bins
    m3 = sum(pb.PSD[i] * pb.PSDsize[i] ** 3 for i in range(nb)); m0 = sum(pb.PSD[i] for i in range(nb))
    ctx.prove("total grain volume is conserved (third moment = 1 after the step)", ctx.eq(m3, 1.0))
    ctx.prove("populations stay >= 0", ctx.all([ctx.le(0.0 * t0, pb.PSD[i]) for i in range(nb)]))
    a = gg.avgR[1]
    ctx.prove("mean grain size is the volume-mean radius: avgR^3 * number = volume", ctx.eq(a * a * a * m0, m3))
    ctx.prove("mean grain size > 0", ctx.lt(0.0 * t0, a))


# ------------------------------------------------------------------------------------------------ histories

def mk_host(ctx, nph, N, ncls, nel=1):
    phases = ["P%d" % (i + 1) for i in range(nph)]; els = ["A", "B"][:nel]
    m = PrecipitateModel(phases=phases, elements=els)
    d = PrecipitationData(m.phases, m.elements, N)
    t = ctx.reals("time", N, (0.0, 1.0))
    for i in range(N):
        ctx.assume(t[i] >= 0)
        if i > 0:
            ctx.assume(t[i - 1] < t[i])
    d.time = t
    d.composition = ctx.reals("composition", (N, nel), (0.0, 1.0))
    d.volFrac = ctx.reals("volFrac", (N, nph), (0.0, 0.5))
    d.Ravg = ctx.reals("Ravg", (N, nph), (0.0, 2.0))
    for v in _items(d.volFrac) + _items(d.Ravg) + _items(d.composition):
        ctx.assume(v >= 0)
    m.pData = d
    m.PBM = [PBM(1.0, 2.0, ncls, 1, 10 * ncls) for _ in range(nph)]
    return m, d


def history(ctx, nph=1, steps=2, ncls=2):
    """host.updateCoupledModels() once per host step with a StrengthModel attached"""
    m, d = mk_host(ctx, nph, steps + 1, ncls)
    sm = StrengthModel()
    wA = ctx.real("kA", (0.0, 3.0)); ctx.assume(wA >= 0)
    sm.setSolidSolutionStrength({"A": wA}, 1)
    m.addCouplingModel(sm)
    ctx.prove("no history before the first step", all(h is None or len(h) == 0 for h in (sm.rss, sm.ls, sm.solidStrength)))
    snap = []
    psds = {}
    for k in range(1, steps + 1):            # all inputs first (a counterexample of an early step must be replayable)
        for p in range(nph):
            psds[(k, p)] = ctx.reals("N%d_%d" % (k, p), ncls, (0.0, 3.0))
            for v in _items(psds[(k, p)]):
                ctx.assume(v >= 0)
    for k in range(1, steps + 1):
        d.n = k
        for p in range(nph):
            m.PBM[p].PSD = psds[(k, p)]
        GenericModel.updateCoupledModels(m)
        ctx.prove("one history entry per host step (plus the initial state)",
                  np.shape(sm.rss) == (k + 1, nph) and np.shape(sm.ls) == (k + 1, nph) and np.shape(sm.solidStrength) == (k + 1,) and len(sm.rss) == d.n + 1)
        if np.shape(sm.rss) != (k + 1, nph) or np.shape(sm.ls) != (k + 1, nph) or np.shape(sm.solidStrength) != (k + 1,):
            return
        for (j, p, a, b) in snap:
            ctx.prove("earlier history entries are untouched", ctx.all([ctx.eq(sm.rss[j, p], a, rtol=0.0), ctx.eq(sm.ls[j, p], b, rtol=0.0)]))
        for p in range(nph):
            rs, l = sm.rss[k, p], sm.ls[k, p]
            ctx.observe("rss%d_%d" % (k, p), rs); ctx.observe("ls%d_%d" % (k, p), l)
            ctx.prove("mean projected radius and spacing are finite and >= 0", ctx.all([_ok(ctx, rs), _ok(ctx, l)]))
            empty = ctx.all([ctx.eq(v, 0.0, rtol=0.0) for v in _items(m.PBM[p].PSD)])
            ctx.prove("no precipitates: radius and spacing entries are 0", ctx.implies(empty, ctx.all([ctx.eq(rs, 0.0, rtol=0.0), ctx.eq(l, 0.0, rtol=0.0)])))
            snap.append((k, p, rs * 1, l * 1))
        ctx.prove("solid-solution entry of the step is the weighted composition of that step", ctx.eq(sm.solidStrength[k], wA * d.composition[k, 0]))
        ctx.prove("solid-solution strength is >= 0", ctx.le(0.0 * wA, sm.solidStrength[k]))
    ctx.prove("initial entry is the state before the first step", ctx.all([ctx.eq(sm.solidStrength[0], wA * d.composition[0, 0])] + [ctx.eq(sm.rss[0, p], 0.0, rtol=0.0) for p in range(nph)]))


def history_long(ctx, nph=1, steps=1030):
    """the real StrengthModel.updateCoupledModel over a LONG coupled run (more entries than any plausible buffer chunk): every entry of the three
    histories is the value computed on its own host step.  The per-step terms (rssterm, Lsterm, ssStrength -- C18.history checks them) are replaced
    on the instance by affine functions of the step number with symbolic coefficients, so that an entry that is dropped, shifted or written twice
    is visible to the solver whatever the coefficients"""
    m, d = mk_host(ctx, nph, 2, 2)
    sm = StrengthModel()
    a = ctx.real("a", (0.5, 3.0)); b = ctx.real("b", (0.5, 3.0)); c = ctx.real("c", (0.5, 3.0))
    for v in (a, b, c):
        ctx.assume(v > 0)
    step = [0]
    sm.rssterm = lambda model, p: a * (step[0] + 1 + p)
    sm.Lsterm = lambda model, p: b * (2 * step[0] + 1 + p)
    sm.ssStrength = lambda model, n: c * (step[0] + 3)
    for k in range(1, steps + 1):
        step[0] = k
        sm.updateCoupledModel(m)
    ok_shape = np.shape(sm.rss) == (steps + 1, nph) and np.shape(sm.ls) == (steps + 1, nph) and np.shape(sm.solidStrength) == (steps + 1,)
    ctx.prove("one history entry per host step (plus the initial state) over a long run", ok_shape)
    if not ok_shape:
        return
    for lo in range(1, steps + 1, 128):
        ks = range(lo, min(lo + 128, steps + 1))
        ctx.prove("every entry of a long history is the value computed on its own host step",
                  ctx.all([ctx.eq(sm.rss[k, p], a * (k + 1 + p), rtol=0.0) for k in ks for p in range(nph)] +
                          [ctx.eq(sm.ls[k, p], b * (2 * k + 1 + p), rtol=0.0) for k in ks for p in range(nph)] +
                          [ctx.eq(sm.solidStrength[k], c * (k + 3), rtol=0.0) for k in ks]))


def host_step(ctx, nph=1, mode="or", steps=2):
    """the real PrecipitateBase.postProcess of a host that has BOTH coupled models and a stopping condition: on every host step --
    also on the one on which the condition fires and the run stops -- each coupled model is updated exactly once (strength history
    keeps one entry per host step, the grain model is asked to advance over that step)"""
    from kawin.precipitation.KWNBase import PrecipitateBase
    from kawin.precipitation import StoppingConditions as SC
    m, d = mk_host(ctx, nph, steps + 1, 2)
    sm = StrengthModel()
    wA = ctx.real("kA", (0.0, 3.0)); ctx.assume(wA >= 0)
    sm.setSolidSolutionStrength({"A": wA}, 1)
    gg = GrainGrowthModel(1e-10, 1e-9, 3, 1, 30)
    asked = []
    gg.solve = lambda simTime, **kw: asked.append(simTime)
    m.addCouplingModel(sm); m.addCouplingModel(gg)
    thr = ctx.real("thr", (0.0, 0.5))
    cond = SC.VolumeFractionCondition(SC.Inequality.GREATER_THAN, thr, phase=m.phases[0])
    m.addStoppingCondition(cond, mode)
    psds = {(k, p): ctx.reals("N%d_%d" % (k, p), 2, (0.0, 3.0)) for k in range(1, steps + 1) for p in range(nph)}
    for v in [x for a in psds.values() for x in _items(a)]:
        ctx.assume(v >= 0)
    # the parts of postProcess that build the host's own arrays are not the subject (C01/C02/C19): the recorded arrays are symbolic
    m._calculateDependentTerms = lambda t, x: None
    m._appendArrays = lambda Y: None
    m._currY = None
    cur = [0]

    def upd(t, x):
        cur[0] += 1
        d.n = cur[0]
        for p in range(nph):
            m.PBM[p].PSD = psds[(cur[0], p)]
    m._updateParticleSizeDistribution = upd
    m.getCurrentX = lambda: (d.time[d.n], ["X"])
    fired = []
    for k in range(1, steps + 1):
        x, stop = PrecipitateBase.postProcess(m, d.time[k], ["X"])
        fired.append(bool(stop))
        ctx.prove("strength history has one entry per host step, also on the step on which a stopping condition fires",
                  np.shape(sm.rss) == (k + 1, nph) and np.shape(sm.solidStrength) == (k + 1,) and len(sm.rss) == d.n + 1)
        ctx.prove("grain-growth model is advanced once per host step, also on the step on which a stopping condition fires", len(asked) == k)
        if len(asked) == k:
            ctx.prove("grain-growth model is advanced over exactly that host step", ctx.eq(asked[k - 1], d.time[k] - d.time[k - 1], rtol=0.0))
        if np.shape(sm.solidStrength) == (k + 1,):
            ctx.prove("strength entry of the step is the state of that step", ctx.eq(sm.solidStrength[k], wA * d.composition[k, 0]))
        want = d.volFrac[k, 0] > thr
        if k == 1:
            ctx.prove("stop flag = the condition is met on this step", ctx.all([ctx.implies(want, stop), ctx.implies(stop, want)]))
        if stop:
            break
    ctx.observe("stops", [float(f) for f in fired])


def after_load(ctx, nph=1, n0=2, steps=1):
    """StrengthModel history restored with load() (real save -> load through an .npz file) and the host solved further: the loaded
    entries are kept and one entry per further host step is appended"""
    import tempfile, os
    import numpy as rnp                    # plain numpy: the file of the earlier session holds ordinary float arrays
    m, d = mk_host(ctx, nph, n0 + steps + 1, 2)
    wA = ctx.real("kA", (0.0, 3.0)); ctx.assume(wA >= 0)
    psds = {(k, p): ctx.reals("N%d_%d" % (k, p), 2, (0.0, 3.0)) for k in range(1, steps + 1) for p in range(nph)}
    for v in [x for a in psds.values() for x in _items(a)]:
        ctx.assume(v >= 0)
    # a history of n0 + 1 entries from an earlier session (concrete numbers: files hold numbers)
    old = StrengthModel()
    old.rss = rnp.array([[0.1 * (j + 1) * (p + 1) for p in range(nph)] for j in range(n0 + 1)], dtype=float)
    old.ls = rnp.array([[0.3 * (j + 1) + p for p in range(nph)] for j in range(n0 + 1)], dtype=float)
    old.solidStrength = rnp.array([0.5 + j for j in range(n0 + 1)], dtype=float)
    fd, path = tempfile.mkstemp(suffix=".npz"); os.close(fd)
    try:
        old.save(path)
        sm = StrengthModel()
        sm.setSolidSolutionStrength({"A": wA}, 1)
        sm.load(path)
    finally:
        os.remove(path)
    ctx.prove("load restores the saved history", np.shape(sm.rss) == (n0 + 1, nph) and np.shape(sm.ls) == (n0 + 1, nph) and np.shape(sm.solidStrength) == (n0 + 1,))
    m.addCouplingModel(sm)
    for k in range(1, steps + 1):
        d.n = n0 + k
        for p in range(nph):
            m.PBM[p].PSD = psds[(k, p)]
        GenericModel.updateCoupledModels(m)
        ctx.prove("history after load: loaded entries plus one entry per further host step",
                  np.shape(sm.rss) == (n0 + 1 + k, nph) and np.shape(sm.ls) == (n0 + 1 + k, nph) and np.shape(sm.solidStrength) == (n0 + 1 + k,) and len(sm.rss) == d.n + 1)
        if np.shape(sm.rss) != (n0 + 1 + k, nph) or np.shape(sm.solidStrength) != (n0 + 1 + k,):
            return
        ctx.prove("loaded entries are kept", ctx.all([ctx.eq(sm.rss[j, p], float(old.rss[j, p])) for j in range(n0 + 1) for p in range(nph)]
                                                     + [ctx.eq(sm.solidStrength[j], float(old.solidStrength[j])) for j in range(n0 + 1)]))
        ctx.prove("new entry is the state of the new step", ctx.eq(sm.solidStrength[n0 + k], wA * d.composition[n0 + k, 0]))
    ctx.observe("ss", sm.solidStrength)


def gg_reload_grid(ctx, loader="function", n=2, k=1):
    """load -> the grid is extended (as the automatic extension during a run does) -> load again -> reset(): the second load starts
    from the original grid, and reset() leaves a consistent state: the loaded (normalised) distribution on the grid it was loaded on"""
    rmin, dr = 0.05, 0.02
    gg = GrainGrowthModel(rmin, rmin + n * dr, n, 1, 10 * n)
    t1 = ctx.real("t1", (0.5, 2.0)); ctx.assume(t1 > 0)
    if loader == "function":
        w = ctx.reals("w", n, (1.0, 6.0))
        for i in range(n):
            ctx.assume(w[i] > 0)
        load = lambda: gg.LoadDistributionFunction(lambda R: (w if len(R) == n else np.concatenate([w, np.ones(len(R) - n)])) + 0.0 * R)
    else:
        wts = DISTS["a" if n == 2 else "b"]
        data = [rmin + (i + 0.5) * dr for i in range(n) for _ in range(int(wts[i]))]
        load = lambda: gg.LoadDistribution(data)
    load()
    first = [gg.pbm.PSD[i] * 1 for i in range(n)]
    gg.pbm.addSizeClasses(k)                     # what adjustSizeClassesEuler does when the last class fills up
    gg.time = np.append(gg.time, t1)
    load()                                       # a new distribution is loaded into the used model
    pb = gg.pbm

    def ri(tag):
        ok = isinstance(pb.bins, (int, np.integer)) and np.shape(pb.PSD) == (pb.bins,) and np.shape(pb.PSDsize) == (pb.bins,) and np.shape(pb.PSDbounds) == (pb.bins + 1,)
        ctx.prove(tag + ": lengths of PSD / centres / boundaries match the class count", ok)
        if ok:
            nb = pb.bins
            ctx.prove(tag + ": boundaries run from min to max in equal steps", ctx.all([ctx.eq(pb.PSDbounds[i], pb.min + i * (pb.max - pb.min) / nb) for i in range(nb + 1)]))
            ctx.prove(tag + ": centres are the midpoints", ctx.all([ctx.eq(pb.PSDsize[i], 0.5 * (pb.PSDbounds[i] + pb.PSDbounds[i + 1])) for i in range(nb)]))
        return ok
    ok = ri("after the second load")
    ctx.prove("loading starts from the original grid", pb.bins == n and float(pb.min) == rmin)
    if not ok:
        return
    loaded = [pb.PSD[i] * 1 for i in range(pb.bins)]; lb = [pb.PSDbounds[i] * 1 for i in range(pb.bins + 1)]; nload = pb.bins
    if nload == n:
        ctx.prove("same distribution loaded twice gives the same state", ctx.all([ctx.eq(loaded[i], first[i]) for i in range(n)]))
    pb.PSD[0] = pb.PSD[0] + 1.0
    gg.reset()
    ok = ri("after reset")
    if not ok:
        return
    ctx.prove("reset restores the loaded (normalised) distribution on the grid it was loaded on",
              pb.bins == nload and ctx.all([ctx.eq(pb.PSD[i], loaded[i]) for i in range(min(nload, pb.bins))] + [ctx.eq(pb.PSDbounds[i], lb[i]) for i in range(min(nload, pb.bins) + 1)]))
    ctx.prove("reset: total grain volume is 1", ctx.eq(_m3(pb), 1.0))


def mk_gg(ctx, n, tag="g"):
    gg = GrainGrowthModel(1e-10, 1e-9, n, 1, 10 * n)
    b0 = ctx.real(tag + "b0", (0.05, 0.1)); w = ctx.real(tag + "w", (0.01, 0.03))
    ctx.assume(b0 > 0); ctx.assume(w > 0)
    pbm = gg.pbm
    pbm.min = b0; pbm.max = b0 + n * w; pbm.bins = n
    pbm.reset(False)
    return gg, b0, w


def gg_couple(ctx, nph=2, N=3):
    """GrainGrowthModel.updateCoupledModel: drag from the host's current step, then one solve request over the host step"""
    m, d = mk_host(ctx, nph, N, 2)
    d.n = N - 1
    gg = GrainGrowthModel(1e-10, 1e-9, 3, 1, 30)
    calls = []
    gg.solve = lambda simTime, **kw: calls.append((simTime, kw))
    gg.updateCoupledModel(m)
    ctx.observe("z", gg._z)
    ctx.prove("exactly one solve request per host step", len(calls) == 1)
    if len(calls) != 1:
        return
    ctx.prove("solve is requested over exactly the host step", ctx.eq(calls[0][0], d.time[N - 1] - d.time[N - 2], rtol=0.0))
    ctx.prove("only the documented solver option is passed", set(calls[0][1]) <= {"solverType"})
    ctx.prove("drag force is >= 0", ctx.le(0.0 * d.time[0], gg._z))
    nop = ctx.all([ctx.any([ctx.eq(d.Ravg[N - 1, p], 0.0, rtol=0.0), ctx.eq(d.volFrac[N - 1, p], 0.0, rtol=0.0)]) for p in range(nph)])
    ctx.prove("no drag without precipitates", ctx.implies(nop, ctx.eq(gg._z, 0.0, rtol=0.0)))


DISTS = {"a": [3.0, 2.0], "b": [1.0, 4.0, 2.0], "c": [2.0, 0.0, 5.0]}


def gg_frozen(ctx, dist="a", solver="rk4", wide=False):
    """real GrainGrowthModel.solve (GenericModel.solve -> DESolver.solve -> iterator -> postProcess) over one host step under
    pinning strong enough to freeze every boundary; symbolic host times, grain-growth clock and drag, concrete grain distribution"""
    wts = DISTS[dist]; n = len(wts)
    m, d = mk_host(ctx, 1, 2, 2)
    d.n = 1
    rp = 0.001                      # mean precipitate radius of the host step (concrete), volume fraction symbolic
    d.Ravg[1, 0] = rp
    rmin, dr = 0.05, 0.02
    if wide:
        # a grid spanning two decades of which the grains fill only the lowest classes (fewer than minBins/2): the configuration in
        # which adjustSizeClassesEuler(checkDissolution=True) re-meshes
        wts = list(wts) + [0.0] * (8 - n); n = 8; rmin = 0.01
        gg = GrainGrowthModel(rmin, 1.0, n, 4, n, solverType=SolverType.RK4 if solver == "rk4" else SolverType.EXPLICITEULER)
    else:
        gg = GrainGrowthModel(rmin, rmin + n * dr, n, 1, 10 * n, solverType=SolverType.RK4 if solver == "rk4" else SolverType.EXPLICITEULER)
    gg.setGrainBoundaryMobility(1.0); gg.setGrainBoundaryEnergy(0.5)
    gg.LoadDistributionFunction(lambda R: np.array(wts) + 0.0 * R)
    start = [float(gg.pbm.PSD[i]) for i in range(n)]
    grid0 = [float(gg.pbm.PSDbounds[i]) for i in range(n + 1)]
    r0 = float(gg.avgR[0])
    t_gg = ctx.real("ggclock", (0.0, 5.0))
    gg.time = np.array([t_gg])
    # strong pinning: z * R_min >= 1  =>  |1/Rcr - 1/R_i| <= 1/R_min <= z for every boundary;  z = f / (K * Ravg)
    ctx.assume(d.volFrac[1, 0] * rmin >= gg.K["all"] * rp, "strong pinning: z >= 1/R_min")
    gg.updateCoupledModel(m)
    ctx.observe("clock", gg.time); ctx.observe("psd", gg.pbm.PSD); ctx.observe("z", gg._z)
    ctx.prove("clock and mean-size histories grow together", np.ndim(gg.time) == 1 and np.shape(gg.time) == np.shape(gg.avgR) and len(gg.time) >= 2)
    if not (np.ndim(gg.time) == 1 and np.shape(gg.time) == np.shape(gg.avgR) and len(gg.time) >= 2):
        return
    ctx.prove("grain-growth clock advances by exactly the host step", ctx.eq(gg.time[-1] - t_gg, d.time[1] - d.time[0]))
    ctx.prove("grain-growth clock never runs backwards", ctx.all([ctx.le(gg.time[i], gg.time[i + 1]) for i in range(len(gg.time) - 1)]))
    ctx.prove("class count unchanged", gg.pbm.bins == n and np.shape(gg.pbm.PSD) == (n,))
    if np.shape(gg.pbm.PSD) == (n,):
        tol = 1e-9
        ctx.prove("frozen structure: size-class grid unchanged", ctx.all([ctx.eq(gg.pbm.PSDbounds[i], grid0[i]) for i in range(n + 1)]))
        ctx.prove("frozen structure: grain size distribution unchanged (to rounding of the re-normalisation)",
                  ctx.all([ctx.all([ctx.le(gg.pbm.PSD[i], start[i] * (1 + tol) + 0.0 * t_gg), ctx.le(start[i] * (1 - tol) + 0.0 * t_gg, gg.pbm.PSD[i])]) for i in range(n)]))
        m3 = sum(gg.pbm.PSD[i] * float(gg.pbm.PSDsize[i]) ** 3 for i in range(n))
        ctx.prove("total grain volume conserved over the step", ctx.all([ctx.le(m3, 1 + tol + 0.0 * t_gg), ctx.le(1 - tol + 0.0 * t_gg, m3)]))
    a3 = gg.avgR[-1] * gg.avgR[-1] * gg.avgR[-1]
    ctx.prove("frozen structure: mean grain size unchanged", ctx.all([ctx.le(a3, r0 ** 3 * (1 + 1e-8) + 0.0 * t_gg), ctx.le(r0 ** 3 * (1 - 1e-8) + 0.0 * t_gg, a3)]))


def _m3(pb):
    return sum(pb.PSD[i] * pb.PSDsize[i] ** 3 for i in range(len(pb.PSD)))


def gg_reload_sym(ctx, n=2):
    """load (function loader, symbolic class weights) -> reset() -> [load again] -> one iteration that leaves the populations
    unchanged: reset() restores the normalised loaded distribution, so the total grain volume is the same before and after the step"""
    rmin, dr = 0.05, 0.02
    gg = GrainGrowthModel(rmin, rmin + n * dr, n, 1, 10 * n)
    w = ctx.reals("w", n, (1.0, 6.0))
    for i in range(n):
        ctx.assume(w[i] > 0)
    t1 = ctx.real("t1", (0.5, 2.0)); ctx.assume(t1 > 0)
    fn = lambda R: w + 0.0 * R
    gg.LoadDistributionFunction(fn)
    loaded = [gg.pbm.PSD[i] * 1 for i in range(n)]; lb = [gg.pbm.PSDbounds[i] * 1 for i in range(n + 1)]
    ctx.observe("loaded", gg.pbm.PSD)
    v_load = _m3(gg.pbm)
    ctx.prove("loading normalises the total grain volume to 1", ctx.eq(v_load, 1.0))
    # every class of the normalised distribution holds at least one grain (the PBM drops classes below one)
    for i in range(n):
        ctx.assume(loaded[i] >= 1)
    gg.pbm.PSD[0] = gg.pbm.PSD[0] + 1.0          # the run changes the live distribution ...
    gg.time = np.append(gg.time, t1)
    gg.reset()                                   # ... and reset() goes back to the loaded structure
    ctx.observe("after_reset", gg.pbm.PSD)
    ctx.prove("reset: class count and grid as loaded", gg.pbm.bins == n and np.shape(gg.pbm.PSD) == (n,) and np.shape(gg.pbm.PSDbounds) == (n + 1,))
    if np.shape(gg.pbm.PSD) != (n,):
        return
    ctx.prove("reset restores the normalised loaded distribution", ctx.all([ctx.eq(gg.pbm.PSD[i], loaded[i]) for i in range(n)]))
    ctx.prove("reset restores the loaded grid", ctx.all([ctx.eq(gg.pbm.PSDbounds[i], lb[i]) for i in range(n + 1)]))
    v_reset = _m3(gg.pbm)
    ctx.prove("reset: total grain volume as after loading", ctx.eq(v_reset, v_load))
    ctx.prove("reset: clock back to a single entry 0", np.shape(gg.time) == (1,) and float(gg.time[0]) == 0.0)
    # load -> reset -> load: same state as after the first load
    gg.LoadDistributionFunction(fn)
    ctx.prove("load after reset gives the state of the first load", ctx.all([ctx.eq(gg.pbm.PSD[i], loaded[i]) for i in range(n)] + [ctx.eq(gg._oldPSD[i], loaded[i]) for i in range(n)]))
    gg.reset()
    ctx.prove("second reset restores the normalised loaded distribution", ctx.all([ctx.eq(gg.pbm.PSD[i], loaded[i]) for i in range(n)]))
    # first iteration after reset; populations unchanged by the transport (frozen boundaries)
    x = np.array(gg.pbm.PSD)
    gg.postProcess(t1, [x])
    ctx.observe("after_step", gg.pbm.PSD)
    ctx.prove("total grain volume conserved across the first step after reset", ctx.eq(_m3(gg.pbm), v_reset))


def gg_reload(ctx, loader="function", dist="a", solver="rk4", runs=1):
    """load (either loader) -> [frozen coupled step] -> reset() -> frozen coupled step through the real solve: reset() restores the
    loaded, normalised distribution and the total grain volume is conserved across the first step after reset"""
    wts = DISTS[dist]; n = len(wts)
    m, d = mk_host(ctx, 1, 2, 2)
    d.n = 1
    rp = 0.001
    d.Ravg[1, 0] = rp
    rmin, dr = 0.05, 0.02
    gg = GrainGrowthModel(rmin, rmin + n * dr, n, 1, 10 * n, solverType=SolverType.RK4 if solver == "rk4" else SolverType.EXPLICITEULER)
    gg.setGrainBoundaryMobility(1.0); gg.setGrainBoundaryEnergy(0.5)
    ctx.assume(d.volFrac[1, 0] * rmin >= gg.K["all"] * rp, "strong pinning: z >= 1/R_min")
    if loader == "function":
        gg.LoadDistributionFunction(lambda R: np.array(wts) + 0.0 * R)
    else:
        data = [rmin + (i + 0.5) * dr for i in range(n) for _ in range(int(wts[i]))]
        gg.LoadDistribution(data)
    loaded = [float(gg.pbm.PSD[i]) for i in range(n)]
    v_load = sum(loaded[i] * float(gg.pbm.PSDsize[i]) ** 3 for i in range(n))
    tol = 1e-9
    zero = 0.0 * d.time[0]
    ctx.prove("loading normalises the total grain volume to 1", abs(v_load - 1) <= tol)
    for _ in range(runs - 1):
        gg.updateCoupledModel(m)                 # a run before the reset
    gg.reset()
    ctx.prove("reset: class count as loaded", gg.pbm.bins == n and np.shape(gg.pbm.PSD) == (n,))
    if np.shape(gg.pbm.PSD) != (n,):
        return
    ctx.observe("after_reset", gg.pbm.PSD)
    ctx.prove("reset restores the normalised loaded distribution",
              ctx.all([ctx.all([ctx.le(gg.pbm.PSD[i], loaded[i] * (1 + tol) + zero), ctx.le(loaded[i] * (1 - tol) + zero, gg.pbm.PSD[i])]) for i in range(n)]))
    v_reset = _m3(gg.pbm)
    ctx.prove("reset: total grain volume as after loading", ctx.all([ctx.le(v_reset, v_load * (1 + tol) + zero), ctx.le(v_load * (1 - tol) + zero, v_reset)]))
    gg.updateCoupledModel(m)                     # first (frozen) step after reset, real solve
    ctx.observe("after_step", gg.pbm.PSD); ctx.observe("clock", gg.time)
    ctx.prove("class count unchanged by the step", np.shape(gg.pbm.PSD) == (n,))
    if np.shape(gg.pbm.PSD) != (n,):
        return
    v_step = _m3(gg.pbm)
    ctx.prove("total grain volume conserved across the first step after reset", ctx.all([ctx.le(v_step, v_reset * (1 + tol) + zero), ctx.le(v_reset * (1 - tol) + zero, v_step)]))
    ctx.prove("clock restarts at 0 and advances by the host step", ctx.all([ctx.eq(gg.time[0], 0.0, rtol=0.0), ctx.eq(gg.time[-1], d.time[1] - d.time[0])]))


_FS = [StrengthModel.getStrengthContributions, StrengthModel.combineStrengthContributions, StrengthModel.totalStrength, StrengthModel._getStrengthFunctions,
       StrengthModel.orowan, StrengthModel.updateCoupledModel, StrengthModel.rssterm, StrengthModel.Lsterm, StrengthModel.ssStrength,
       StrengthModel.setStrengthSuperpositionExponent, StrengthModel.setDislocationParameters]
_FG = [GrainGrowthModel.constrainedGrowth, GrainGrowthModel.updateCoupledModel, GrainGrowthModel.computeZenerRadius, GrainGrowthModel.getdXdt,
       GrainGrowthModel.correctdXdt, GrainGrowthModel.getDt, GrainGrowthModel.postProcess, GrainGrowthModel.grainGrowth, GrainGrowthModel.Normalize,
       GenericModel.solve, GenericModel.updateCoupledModels, DESolver.solve]
_A = ["real arithmetic stands in for the finite doubles; NaN and +-inf are injected as concrete IEEE values where they are the subject"]
_kind_sets = [("coherency", "modulus"), ("apb",), ("sfe", "interfacial"), ("coherency", "modulus", "apb", "sfe", "interfacial")]
HARNESSES = [
    Harness("C18.zener", zener, functions=_FG, assumptions=_A + ["alpha, M, grain-boundary energy, z >= 0; free rates arbitrary"], bounds={"boundaries": "n+1"},
            params={"quick": [{"n": 1, "sym_mobility": True}, {"n": 2, "sym_mobility": False}], "thorough": [{"n": 2, "sym_mobility": True}, {"n": 3, "sym_mobility": False}]}),
    Harness("C18.clip", clip, functions=_FS, assumptions=_A,
            stubs=["the ten raw formulas (coherencyWeak ... interfacialStrong) and orowan replaced on the instance by arbitrary values: finite reals of either sign, NaN, +inf, -inf"],
            params={"quick": [{"kinds": list(_kind_sets[0]), "pattern": "rnim", "setphase": "all", "phase": "all"},
                              {"kinds": list(_kind_sets[1]), "pattern": "rrnz", "setphase": "beta", "phase": "beta"},
                              {"kinds": list(_kind_sets[2]), "pattern": "mirn", "setphase": "all", "phase": "beta"},
                              {"kinds": list(_kind_sets[1]), "pattern": "rn", "setphase": "beta", "phase": "alpha"}],
                    "thorough": [{"kinds": list(ks), "pattern": pt, "setphase": sp, "phase": ph, "exp": (2 if len(ks) > 2 else 1.8)} for ks in _kind_sets for pt in ("rnim", "rrrr", "mzin")
                                 for (sp, ph) in (("all", "all"), ("beta", "beta"), ("all", "beta"))]}),
    Harness("C18.contrib", contrib, functions=_FS, assumptions=_A + ["parameter set of kawin/tests/test_strength.py (concrete); radius and spacing symbolic > 0, or concrete zeros",
                                                                     "where a real-mode square root / logarithm leaves its domain the symbolic entry is not covered (C18.clip covers NaN)"],
            opts={"ob_timeout": 30.0},
            params={"quick": [{"kinds": ["modulus", "interfacial"], "setphase": "all", "phase": "all", "zeros": True, "exp": 1.8},
                              {"kinds": ["coherency"], "setphase": "beta", "phase": "beta", "zeros": True, "exp": 2},
                              {"kinds": [], "setphase": "all", "phase": "all", "zeros": False, "exp": 1.8}],
                    "thorough": [{"kinds": list(ks), "setphase": sp, "phase": ph, "zeros": True, "exp": e} for ks in _kind_sets + [()] for (sp, ph) in (("all", "all"), ("beta", "beta"))
                                 for e in (1.8, 2) if not (len(ks) > 2 and e != 2)]}),
    Harness("C18.reduce", reduce, functions=_FS + [getattr(StrengthModel, n) for n in PAIRS] + [StrengthModel.Tcomplex, StrengthModel.Tsimple, StrengthModel.setTmodel, StrengthModel.setJfactor],
            assumptions=_A + ["concrete parameter sets (PSETS), radius and spacing symbolic > 0; agreement to 2e-3 relative (the class's own coefficients are rounded to 4-5 digits); "
                              "complex line tension: outer cut-off > core radius; 'uf': an arbitrary positive line tension function of character and cut-off",
                              "sin / cos of the concrete character angle are evaluated numerically; log / pow are uninterpreted (same arguments on both sides)"],
            stubs=["tmodel 'uf': StrengthModel.T (a configurable attribute) set to an uninterpreted positive function"], opts={"ob_timeout": 30.0},
            params={"quick": [{"name": n, "jmodel": "simple", "pset": "unit"} for n in PAIRS] + [{"name": n, "jmodel": "complex", "pset": "unit"} for n in PAIRS if not PAIRS[n][2]],
                    "thorough": [{"name": n, "jmodel": j, "pset": ps} for n in PAIRS for j in ("simple", "complex") for ps in ("unit", "steel") if not (j == "complex" and PAIRS[n][2])]}),
    Harness("C18.combine", combine, functions=_FS, assumptions=_A + ["contributions as delivered by getStrengthContributions: finite and >= 0; Taylor factor > 0"],
            bounds={"contributions": "k", "radii": "n"}, opts={"ob_timeout": 30.0},
            params={"quick": [{"k": 2, "n": 2, "exp": 2}, {"k": 2, "n": 1, "exp": 1}, {"k": 2, "n": 1, "exp": 1.8}, {"k": 0, "n": 2, "exp": 1.8}, {"k": 1, "n": 2, "exp": 1.8}],
                    "thorough": [{"k": k, "n": 2, "exp": e} for k in (0, 1, 2, 3) for e in (1, 2, 1.8)]}),
    Harness("C18.total", total, functions=_FS, assumptions=_A + ["base, solid-solution and precipitate strength >= 0"], opts={"ob_timeout": 30.0},
            params={"quick": [{"n": 1, "exp": 2, "which": "prec"}, {"n": 2, "exp": 1, "which": "ss"}, {"n": 1, "exp": 1.8, "which": "prec"}, {"n": 1, "exp": 1.8, "which": "sigma0"},
                              {"n": 1, "exp": 2, "which": "sigma0"}, {"n": 1, "exp": 1.8, "which": "ss"}],
                    "thorough": [{"n": 2, "exp": e, "which": wh} for e in (1, 2, 1.8) for wh in ("prec", "ss", "sigma0")]}),
    Harness("C18.prec", prec, functions=_FS + [StrengthModel.precStrength], assumptions=_A + ["superposition exponents 1 and 2 (exact over the reals)"],
            stubs=["raw formulas replaced by arbitrary values per phase (as in C18.clip)"], bounds={"phases": "nph", "recorded times": "len(pattern)"}, opts={"ob_timeout": 30.0},
            params={"quick": [{"nph": 2, "pattern": "r", "same": 2, "mixed": 1}, {"nph": 1, "pattern": "rn", "same": 2, "mixed": 1}, {"nph": 2, "pattern": "r", "same": 1, "mixed": 2}],
                    "thorough": [{"nph": 2, "pattern": "rr", "same": 2, "mixed": 1}, {"nph": 3, "pattern": "r", "same": 2, "mixed": 1}, {"nph": 2, "pattern": "ri", "same": 1, "mixed": 2}]}),
    Harness("C18.gg_post", gg_post, functions=_FG, assumptions=_A + ["new distribution >= 0 with at least one class holding a grain; concrete grid"], bounds={"grain size classes": "n"},
            opts={"ob_timeout": 30.0, "max_paths": 400},
            params={"quick": [{"n": 2}, {"n": 3}], "thorough": [{"n": 4}]}),
    Harness("C18.history", history, functions=_FS + _FG, assumptions=_A + ["host history arrays and size distributions arbitrary >= 0"],
            bounds={"phases": "nph", "host steps": "steps", "size classes": "ncls"},
            params={"quick": [{"nph": 1, "steps": 2, "ncls": 2}, {"nph": 2, "steps": 1, "ncls": 2}], "thorough": [{"nph": 2, "steps": 2, "ncls": 2}, {"nph": 1, "steps": 3, "ncls": 3}]}),
    Harness("C18.history_long", history_long, functions=[StrengthModel.updateCoupledModel], assumptions=_A + ["per-step terms replaced by affine functions of the step number with symbolic positive coefficients"],
            stubs=["rssterm, Lsterm, ssStrength on the instance (their values are the subject of C18.history)"], bounds={"host steps": "steps"},
            params={"quick": [{"nph": 1, "steps": 1030}], "thorough": [{"nph": 2, "steps": 2100}, {"nph": 1, "steps": 4200}]}),
    Harness("C18.gg_couple", gg_couple, functions=_FG, assumptions=_A + ["Zener exponent m = 1 (default)"], stubs=["GrainGrowthModel.solve replaced on the instance by a recorder (the solve itself: C05, C18.gg_frozen)"],
            params={"quick": [{"nph": 1, "N": 2}, {"nph": 2, "N": 3}], "thorough": [{"nph": 3, "N": 3}]}),
    Harness("C18.gg_frozen", gg_frozen, functions=_FG, assumptions=_A + ["pinning strong enough to freeze every boundary (z * smallest grain radius >= 1)", "host step > 0; host times, grain-growth clock and precipitate volume fraction symbolic"],
            bounds={"grain distribution": "concrete, 2-3 classes (DISTS)", "host steps": 1}, opts={"ob_timeout": 30.0, "max_paths": 300},
            params={"quick": [{"dist": "a", "solver": "rk4"}, {"dist": "b", "solver": "euler"}], "thorough": [{"dist": dd, "solver": sv} for dd in ("a", "b", "c") for sv in ("rk4", "euler")]}),
    Harness("C18.host_step", host_step, functions=_FS + _FG, assumptions=_A + ["host arrays symbolic; stopping condition: volume fraction of the first phase > symbolic threshold"],
            stubs=["_calculateDependentTerms / _appendArrays / _updateParticleSizeDistribution / getCurrentX of the host (its own bookkeeping: C01, C02, C19); GrainGrowthModel.solve recorded"],
            bounds={"host steps": "steps", "phases": "nph"},
            params={"quick": [{"nph": 1, "mode": "or", "steps": 2}, {"nph": 1, "mode": "and", "steps": 1}], "thorough": [{"nph": 2, "mode": mo, "steps": 2} for mo in ("or", "and")]}),
    Harness("C18.after_load", after_load, functions=_FS + [StrengthModel.save, StrengthModel.load], assumptions=_A + ["the saved history holds concrete numbers (a real .npz file is written and read)"],
            bounds={"loaded entries": "n0 + 1", "further host steps": "steps"},
            params={"quick": [{"nph": 1, "n0": 2, "steps": 1}, {"nph": 2, "n0": 1, "steps": 2}], "thorough": [{"nph": 2, "n0": 3, "steps": 2}]}),
    Harness("C18.gg_reload_grid", gg_reload_grid, functions=_FG + [GrainGrowthModel.LoadDistribution, GrainGrowthModel.LoadDistributionFunction, GrainGrowthModel.reset],
            assumptions=_A + ["function loader: symbolic class weights; data loader: concrete samples"], bounds={"classes": "n", "classes appended before the second load": "k"},
            opts={"ob_timeout": 30.0},
            params={"quick": [{"loader": "function", "n": 2, "k": 1}, {"loader": "data", "n": 3, "k": 2}], "thorough": [{"loader": ld, "n": nn, "k": kk} for ld in ("function", "data") for nn in (2, 3) for kk in (1, 2)]}),
    Harness("C18.gg_reload_sym", gg_reload_sym, functions=_FG + [GrainGrowthModel.LoadDistributionFunction, GrainGrowthModel.reset],
            assumptions=_A + ["symbolic positive class weights on a concrete grid; every class of the normalised distribution holds at least one grain",
                              "the step after reset is one solver iteration (postProcess) whose transport leaves the populations unchanged"],
            bounds={"grain size classes": "n"}, opts={"ob_timeout": 30.0, "max_paths": 300},
            params={"quick": [{"n": 2}, {"n": 3}], "thorough": [{"n": 2}, {"n": 3}, {"n": 4}]}),
    Harness("C18.gg_reload", gg_reload, functions=_FG + [GrainGrowthModel.LoadDistribution, GrainGrowthModel.LoadDistributionFunction, GrainGrowthModel.reset],
            assumptions=_A + ["pinning strong enough to freeze every boundary; host times and precipitate volume fraction symbolic; concrete grain distribution (np.histogram needs concrete data)"],
            bounds={"grain distribution": "concrete, 2-3 classes (DISTS)", "steps after reset": 1}, opts={"ob_timeout": 30.0, "max_paths": 300},
            params={"quick": [{"loader": "function", "dist": "a", "solver": "rk4", "runs": 1}, {"loader": "data", "dist": "b", "solver": "euler", "runs": 1},
                              {"loader": "data", "dist": "a", "solver": "rk4", "runs": 2}],
                    "thorough": [{"loader": ld, "dist": dd, "solver": sv, "runs": rn} for ld in ("function", "data") for dd in ("a", "b", "c") for sv in ("rk4", "euler") for rn in (1, 2)]}),
]

# the two harnesses below were triage harnesses for reported findings: the J-factor one is repaired in /repo (4b1fcb0), the re-mesh one
# is a recorded known finding (same re-mesh behaviour as the C08 finding)
HARNESSES = HARNESSES + [
    Harness("C18.gg_frozen_remesh", gg_frozen, functions=_FG, assumptions=_A + ["as C18.gg_frozen, on a wide grid (max = 100 min) whose populated classes are the lowest two or three of eight"],
            params={"quick": [{"dist": "a", "solver": "rk4", "wide": True}, {"dist": "a", "solver": "euler", "wide": True}], "thorough": [{"dist": "a", "solver": sv, "wide": True} for sv in ("rk4", "euler")]}),
    Harness("C18.reduce_Jcomplex", reduce, functions=_FS, assumptions=_A + ["setJfactor('complex')"],
            params={"quick": [{"name": n, "jmodel": "complex", "pset": "unit"} for n in PAIRS if PAIRS[n][2]],
                    "thorough": [{"name": n, "jmodel": "complex", "pset": ps} for n in PAIRS if PAIRS[n][2] for ps in ("unit", "steel")]}),
]

# harnesses whose obligations are violated by the unmodified code and that are not (yet) recorded; not part of the check
PENDING = []

from harness.c18_extra import EXTRA as _EXTRA
HARNESSES = HARNESSES + _EXTRA
