"""C11 (extra) -- phase addressing in the binary PSD update: size classes appended to the grid of phase p get interfacial
compositions evaluated with phase p's own Gibbs-Thomson parameters and phase name, wherever p is listed."""
import numpy as np
from vk.run import Harness
from harness.kwn_common import mk_kwn
from kawin.precipitation.KWNEuler import PrecipitateModel


def psd_append_by_phase(ctx, nph=2, ncls=2, order=(0, 1)):
    m, info = mk_kwn(ctx, nph, 1, ncls, hist=1)
    names = [m.phases[i] for i in range(nph)]
    gam = {}
    for p in range(nph):
        pp = m.precipitateParameters[p]
        g = ctx.real("gamma_%s" % names[p], (0.1, 0.5)); ctx.assume(g > 0)
        pp._gamma = g; pp.nucleation._gamma = g
        gam[names[p]] = g
        m.PBM[p].originalBins = 4; m.PBM[p].maxBins = 10 * ncls; m.PBM[p].minBins = 2
        m.PBM[p].getDissolutionIndex = lambda *a, **k: 0
    calls = []

    class Th:
        numElements = 2

        def getInterfacialComposition(s, T, gExtra=0, precPhase=None):
            g = np.atleast_1d(gExtra)
            calls.append((precPhase, [x * 1 for x in g]))
            xa = np.array([ctx.uf("xa_" + str(precPhase), T, gi, rng=(0.01, 0.2)) for gi in g]) if ctx.mode == "concrete" else \
                __import__("vk.symnp", fromlist=["to_obj"]).to_obj([ctx.uf("xa_" + str(precPhase), T, gi, rng=(0.01, 0.2)) for gi in g])
            for v in xa:
                ctx.assume(v > 0)        # a valid answer (a composition), not the -1 "no result" sentinel (that case: C03.update_psd_binary_faults)
            xb = xa * 0.0 + 0.5
            return xa, xb

        def getInterdiffusivity(s, x, T, removeCache=False):
            return 1.0
    m.therm = Th()
    m.removeCache = False
    m.growth = [np.zeros(ncls + 1) for _ in range(nph)]
    m._growthRate = lambda Y: ([np.zeros(m.PBM[p].bins + 1) for p in range(nph)], Y)
    m.pData.drivingForce = ctx.reals("dG", (1, nph), (0.1, 1.0))
    m.pData.temperature = ctx.reals("T", 1, (500.0, 900.0))
    m.pData.xEqAlpha = ctx.reals("rec_xEqA", (1, nph, 1), (0.01, 0.2))
    for p in range(nph):
        ctx.assume(m.pData.drivingForce[0, p] > 0)
    m.constraints.minRadius = 0.0
    m.dTemp = 0
    x = [ctx.reals("x%d" % p, ncls, (1.5, 4.0)) for p in range(nph)]
    for p in range(nph):
        for i in range(ncls):
            ctx.assume(x[p][i] > 1)           # last class populated: classes are appended
    m._updateParticleSizeDistribution(ctx.real("t", (0.1, 1.0)), x)
    for p in range(nph):
        nb = m.PBM[p].bins
        ctx.prove("classes were appended", nb == ncls + 1 and np.shape(m.PSDXalpha[p]) == (nb + 1, 1))
        if nb != ncls + 1:
            continue
        R = m.PBM[p].PSDbounds[ncls:]
        want_g = m.precipitateParameters[p].computeGibbsThomsonContribution(R)
        mine = [c for c in calls if c[0] == names[p]]
        ctx.prove("backend asked once for the appended classes of this phase, under its own name", len(mine) == 1 and len(mine[0][1]) == len(R))
        if len(mine) == 1 and len(mine[0][1]) == len(R):
            ctx.prove("appended classes use the phase's own Gibbs-Thomson energy", ctx.all([ctx.eq(mine[0][1][i], want_g[i]) for i in range(len(R))]))
        for i in range(len(R)):
            ctx.prove("table entry of an appended class is the backend's answer for this phase and that class",
                      ctx.eq(m.PSDXalpha[p][ncls + i, 0], ctx.uf("xa_" + str(names[p]), m.pData.temperature[0], want_g[i], rng=(0.01, 0.2))))


def psd_update_recompute_by_phase(ctx, nph=2, ncls=2, grow=(True, False)):
    """real _updateParticleSizeDistribution: when the grid of ANY phase changed (here: only the phases marked in `grow` get classes
    appended) the growth rates are recomputed from the backend for the new grid, whatever the position of that phase in the list"""
    m, info = mk_kwn(ctx, nph, 2, ncls, hist=1)
    for p in range(nph):
        m.precipitateParameters[p]._gamma = 0.1
        m.PBM[p].originalBins = 4; m.PBM[p].maxBins = 10 * ncls; m.PBM[p].minBins = 2
        m.PBM[p].getDissolutionIndex = lambda *a, **k: 0
    calls = []

    def fake_growth(Y):
        k = len(calls)
        out = [ctx.reals("regrown%d_%d" % (k, p), m.PBM[p].bins + 1, (0.1, 1.0)) for p in range(nph)]
        for p in range(nph):
            ctx.assume(out[p][0] > 0)        # see below: keeps the dissolution re-mesh out of this harness
        calls.append(out)
        return out, Y
    m._growthRate = fake_growth
    m.growth = [ctx.reals("old_growth%d" % p, ncls + 1, (0.1, 1.0)) for p in range(nph)]
    m.pData.drivingForce = ctx.reals("dG", (1, nph), (0.1, 1.0))
    for p in range(nph):
        ctx.assume(m.pData.drivingForce[0, p] > 0)
        ctx.assume(m.growth[p][0] > 0)          # not every boundary shrinking: the dissolution re-mesh is not the subject here
    m.constraints.minRadius = 0.0
    x = []
    for p in range(nph):
        xp = ctx.reals("x%d" % p, ncls, (1.5, 4.0))
        for i in range(ncls):
            ctx.assume(xp[i] >= 0)
        if grow[p]:
            ctx.assume(xp[ncls - 1] > 1)
        else:
            ctx.assume(xp[ncls - 1] <= 1)
        x.append(xp)
    m._updateParticleSizeDistribution(ctx.real("t", (0.1, 1.0)), x)
    changed = [p for p in range(nph) if grow[p]]
    ctx.prove("the phases marked to grow got classes appended, the others did not", all(m.PBM[p].bins == ncls + (1 if grow[p] else 0) for p in range(nph)))
    if changed:
        ctx.prove("growth rates were recomputed after the grid change", len(calls) >= 1)
        if calls:
            last = calls[-1]
            for p in range(nph):
                ctx.prove("growth array of every phase follows its grid", np.shape(m.growth[p]) == (m.PBM[p].bins + 1,))
                if np.shape(m.growth[p]) == (m.PBM[p].bins + 1,) and np.shape(last[p]) == np.shape(m.growth[p]):
                    ctx.prove("growth in use after the update is the recomputed one (not the zero placeholder / the old grid's)",
                              ctx.all([ctx.eq(m.growth[p][i], last[p][i]) for i in range(m.PBM[p].bins + 1)]))


def aspect_callback_by_phase(ctx, nph=2, ncls=2, calc=(True, True)):
    """real _setupAspectRatio: a phase whose aspect ratio is computed from the strain energy interpolates ITS OWN table,
    wherever it is listed (the per-phase callback must not bind the loop variable late)"""
    m, info = mk_kwn(ctx, nph, 1, ncls, hist=1)
    tables = []
    for p in range(nph):
        pp = m.precipitateParameters[p]
        pp._gamma = 0.1
        pp.calculateAspectRatio = bool(calc[p])
        tab = ctx.reals("eqAR_%s" % m.phases[p], ncls + 1, (1.0, 3.0))
        for i in range(ncls + 1):
            ctx.assume(tab[i] >= 1)
        tables.append(tab)
        pp.strainEnergy.eqAR_bySearch = (lambda t: (lambda Rsph, gamma, shp: t))(tab)     # the search itself is C16's subject
        if calc[p]:
            pp.shapeFactor.setPrecipitateShape("needle", 1)
    m._setupAspectRatio()
    for p in range(nph):
        b = m.PBM[p].PSDbounds
        if calc[p]:
            for i in range(ncls + 1):
                ctx.prove("stored table of the phase is the one computed for it", ctx.eq(m.eqAspectRatio[p][i], tables[p][i]))
                ctx.prove("aspect ratio of the phase at its own class boundary comes from its own table",
                          ctx.eq(np.atleast_1d(m.precipitateParameters[p].shapeFactor.aspectRatio(b[i]))[0], tables[p][i]))
        else:
            ctx.prove("phase with a fixed aspect ratio keeps it", ctx.all([ctx.eq(m.eqAspectRatio[p][i], 1.0) for i in range(ncls + 1)]))


EXTRA = [
    Harness("C11.psd_update_recompute_by_phase", psd_update_recompute_by_phase, functions=[PrecipitateModel._updateParticleSizeDistribution],
            assumptions=["multicomponent (2 solutes); _growthRate stubbed: fresh symbolic growth arrays per call; driving forces > 0"],
            bounds={"phases": "nph", "classes": "ncls"},
            params={"quick": [{"nph": 2, "ncls": 2, "grow": [True, False]}, {"nph": 2, "ncls": 2, "grow": [False, True]}],
                    "thorough": [{"nph": 3, "ncls": 2, "grow": [True, False, False]}, {"nph": 3, "ncls": 2, "grow": [False, True, False]}, {"nph": 2, "ncls": 2, "grow": [True, True]}]}),
    Harness("C11.aspect_callback_by_phase", aspect_callback_by_phase, functions=[PrecipitateModel._setupAspectRatio, PrecipitateModel._interpolateAspectRatio],
            assumptions=["strainEnergy.eqAR_bySearch stubbed: returns a symbolic table per phase (>= 1)"], bounds={"phases": "nph", "classes": "ncls"},
            params={"quick": [{"nph": 2, "ncls": 2, "calc": [True, True]}, {"nph": 2, "ncls": 2, "calc": [True, False]}],
                    "thorough": [{"nph": 3, "ncls": 2, "calc": [True, False, True]}, {"nph": 3, "ncls": 3, "calc": [True, True, True]}]}),
    Harness("C11.psd_append_by_phase", psd_append_by_phase, functions=[PrecipitateModel._updateParticleSizeDistribution],
            assumptions=["binary system, two precipitate phases with different interfacial energies; last class of every phase populated so classes are appended; no re-mesh"],
            stubs=["therm.getInterfacialComposition: uninterpreted function of (phase name, T, Gibbs-Thomson energy)", "_growthRate: zeros (not the subject)"],
            bounds={"phases": 2, "classes": "ncls"},
            params={"quick": [{"nph": 2, "ncls": 2}], "thorough": [{"nph": 3, "ncls": 2}, {"nph": 2, "ncls": 3}]}),
]
