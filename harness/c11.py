"""C11 -- results are equivariant under reordering of elements and of phases.

Phase order.  Two *real* PrecipitateModel objects are built from the same symbolic per-phase data, one listing the
phases in the reference order, one in a permuted order; the real step-size rules (Constraints.computeDTfrom*, getDt),
the nucleation-site competition (_calcNucleationSites) and the mass balance (_calcMassBalance) are executed on both and
must give the same dt / matrix composition and the per-phase results merely permuted.  Equal dt and equal per-phase step
functions give "same time grid, permuted histories" by induction over the steps.

Element order.  Element names are Python strings (dict keys, list.index, argsort), so the orders are enumerated; every
value is symbolic.  The pycalphad side is replaced by uninterpreted functions of the element *names*, laid out in
alphabetical order as pycalphad does, whose arguments are the conditions keyed by name.  The real re-ordering code is
executed for the reference order and for a permuted order (composition permuted accordingly) and must return in slot i
the value that belongs to the user's i-th element.
"""
import itertools
import numpy as np
from vk.run import Harness
from kawin.precipitation.KWNEuler import PrecipitateModel
import copy
from kawin.precipitation.PrecipitationParameters import Constraints, PrecipitationData, PrecipitateParameters, MatrixParameters
from kawin.precipitation.PopulationBalance import PopulationBalanceModel as PBM
from kawin.precipitation.parameters import Nucleation as NUC

# =====================================================================================================================
#  Part 1: phase order
# =====================================================================================================================

SITES = {"bulk": NUC.BulkDescription, "disl": NUC.DislocationDescription, "gb": NUC.GrainBoundaryDescription,
         "edge": NUC.GrainEdgeDescription, "corner": NUC.GrainCornerDescription}


def phase_inputs(ctx, P, n, E=1, N=2):
    """symbolic per-phase data, indexed by the phase identity k (not by the position in a model)"""
    D = []
    for k in range(P):
        d = {}
        t = "p%d_" % k
        d["b0"] = ctx.real(t + "rmin", (0.5, 1.0)); d["w"] = ctx.real(t + "dr", (0.1, 0.5))
        ctx.assume(d["b0"] > 0); ctx.assume(d["w"] > 0)
        d["psd"] = ctx.reals(t + "psd", n, (0.0, 5.0))
        for i in range(n):
            ctx.assume(d["psd"][i] >= 0)
        d["growth"] = ctx.reals(t + "growth", n + 1, (-1.0, 1.0))
        d["VmB"] = ctx.real(t + "VmBeta", (0.5, 2.0)); ctx.assume(d["VmB"] > 0)
        d["areaF"] = ctx.real(t + "areaFactor", (1.0, 12.0)); d["volF"] = ctx.real(t + "volumeFactor", (1.0, 4.0))
        d["gbRem"] = ctx.real(t + "gbRemoval", (0.0, 3.0)); d["GBk"] = ctx.real(t + "GBk", (0.0, 0.8))
        ctx.assume(d["areaF"] > 0); ctx.assume(d["volF"] > 0); ctx.assume(d["GBk"] >= 0); ctx.assume(d["GBk"] < 1)
        for nm, rg in (("nucRate", (0.0, 3.0)), ("Rcrit", (0.0, 2.0)), ("dG", (-1.0, 1.0)), ("Rnuc", (0.1, 2.0)),
                       ("volFracPrev", (0.0, 0.3))):
            d[nm] = ctx.reals(t + nm, N, rg)
        d["xbeta"] = ctx.reals(t + "xbeta", (n + 1, E), (0.0, 1.0))
        d["fconcPrev"] = ctx.reals(t + "fconcPrev", E, (0.0, 0.1))
        d["x"] = ctx.reals(t + "xnew", n, (0.0, 5.0))
        D.append(d)
    return D


# a pristine real PrecipitateParameters object, built once on plain numpy (its constructor sets up Lebedev quadrature
# tables for the strain energy, ~0.3 s each through the symbolic layer); models get deep copies of it
_PROTO_PP = PrecipitateParameters("proto")


def new_pp(name):
    pp = copy.deepcopy(_PROTO_PP)
    pp.name = pp.phase = str(name)
    return pp


def mk_pbm(d, n):
    pbm = PBM(1e-10, 1e-9, n, 1, 10 * n)
    pbm.min = d["b0"]; pbm.max = d["b0"] + n * d["w"]; pbm.bins = n
    pbm.reset(False)
    pbm.PSD = d["psd"].copy()
    return pbm


def mk_model(ctx, D, order, n, sh, elements=("A",), sites=None, parents=None, diss=None, N=2, infinite=None):
    """a real PrecipitateModel (no thermodynamics) whose phases are listed in `order` (a tuple of phase identities)"""
    m = PrecipitateModel(precipitateParameters=[new_pp("PH%d" % k) for k in order], elements=list(elements))
    pos = {k: p for p, k in enumerate(order)}
    m.matrixParameters.volume.Vm = sh["VmA"]
    ns = m.matrixParameters.nucleationSites
    ns._bulkN0, ns._dislocationN0, ns._GBareaN0, ns._GBedgeN0, ns._GBcornerN0 = sh["N0"]
    ns._compositionDependentBulkN0 = False
    pd = PrecipitationData(m.phases, m.elements, N)
    pd.time = sh["time"].copy(); pd.temperature = sh["temperature"].copy()
    pd.composition = np.array([sh["x0"]] * N)
    for p, k in enumerate(order):
        d = D[k]
        m.PBM[p] = mk_pbm(d, n)
        pp = m.precipitateParameters[p]
        pp.volume.Vm = d["VmB"]
        if sites is not None:
            pp.nucleation._description = SITES[sites[k]]()
        nb = pp.nucleation
        nb._areaFactor, nb._volumeFactor, nb._gbRemoval, nb._GBk = d["areaF"], d["volF"], d["gbRem"], d["GBk"]
        if parents is not None:
            pp.parentPhases = [pos[j] for j in parents[k]]
        if infinite is not None:
            pp.infinitePrecipitateDiffusion = infinite[k]
        if diss is not None:
            m.dissolutionIndex[p] = diss[k]
        for i in range(N):
            pd.nucRate[i, p] = d["nucRate"][i]; pd.Rcrit[i, p] = d["Rcrit"][i]; pd.drivingForce[i, p] = d["dG"][i]
            pd.Rnuc[i, p] = d["Rnuc"][i]; pd.volFrac[i, p] = d["volFracPrev"][i]
            pd.fconc[i, p] = d["fconcPrev"]
    m.growth = [D[k]["growth"].copy() for k in order]
    m.PSDXbeta = [D[k]["xbeta"].copy() for k in order]
    m.pData = pd
    m.finalTime = sh["finalTime"]
    return m


def shared_inputs(ctx, N, E=1, iso=None):
    sh = {}
    sh["VmA"] = ctx.real("VmAlpha", (0.5, 2.0)); ctx.assume(sh["VmA"] > 0)
    sh["N0"] = [ctx.real("N0_%s" % s, (5.0, 50.0)) for s in ("bulk", "disl", "gbarea", "gbedge", "gbcorner")]
    inc = ctx.reals("time_increment", N, (0.05, 1.0))
    for i in range(N):
        ctx.assume(inc[i] > 0)
    t = 0.0 * inc
    for i in range(N):
        t[i] = inc[i] if i == 0 else t[i - 1] + inc[i]
    sh["time"] = t
    T = ctx.reals("temperature", N, (300.0, 900.0))
    if iso is True and N > 1:
        for i in range(1, N):
            T[i] = T[0]
    sh["temperature"] = T
    sh["x0"] = ctx.reals("x0", E, (0.05, 0.3))
    sh["finalTime"] = ctx.real("finalTime", (5.0, 50.0))
    ctx.assume(sh["finalTime"] > t[N - 1])
    return sh


def _perms(P, which):
    ident = tuple(range(P))
    return [s for s in itertools.permutations(range(P)) if s != ident] if which == "all" else [tuple(which)]


def dt_rule(ctx, rule="volume", P=3, n=2, N=2, sigma="all", iso=None, diss=None):
    """one step-size rule of Constraints, called the way getDt calls it: same dt for every listing order of the phases"""
    D = phase_inputs(ctx, P, n, N=N)
    sh = shared_inputs(ctx, N, iso=iso)
    dtMax = sh["finalTime"] - sh["time"][N - 1]
    dtPrev = 0.01 if N == 1 else sh["time"][N - 1] - sh["time"][N - 2]

    def call(order):
        m = mk_model(ctx, D, order, n, sh, N=N, diss=diss)
        c, pd = m.constraints, m.pData
        if rule == "psd":
            return c.computeDTfromPSD(pd.n, pd.temperature, m.PBM, m.growth, m.dissolutionIndex, m.phases, dtMax)
        if rule == "nucleation":
            return c.computeDTfromNucleationRate(pd.n, pd.nucRate, m.phases, dtPrev, dtMax)
        if rule == "rcrit":
            return c.computeDTfromRcrit(pd.n, pd.Rcrit, pd.drivingForce, m.phases, dtPrev, dtMax)
        if rule == "volume":
            VmB = [m.precipitateParameters[p].volume.Vm for p in range(len(m.phases))]
            nuc = [m.precipitateParameters[p].nucleation for p in range(len(m.phases))]
            return c.computeDTfromVolume(pd.n, pd.nucRate, pd.Rnuc, m.PBM, m.growth, sh["VmA"], VmB, nuc, m.phases, dtMax)
        raise ValueError(rule)
    ref = call(tuple(range(P)))
    ctx.observe("dt", ref)
    for s in _perms(P, sigma):
        ctx.prove("%s step limit does not depend on the order of the phases" % rule, ctx.eq(call(s), ref))


def get_dt(ctx, P=2, n=2, N=2, sigma="all", checks=("psd", "nucleation", "temperature", "rcrit", "volume"), iso=None, diss=None):
    """PrecipitateModel.getDt (all step-size rules together): same dt for every listing order of the phases"""
    D = phase_inputs(ctx, P, n, N=N)
    sh = shared_inputs(ctx, N, iso=iso)

    def call(order):
        m = mk_model(ctx, D, order, n, sh, N=N, diss=diss)
        c = m.constraints
        c.checkPSD = "psd" in checks; c.checkNucleation = "nucleation" in checks; c.checkTemperature = "temperature" in checks
        c.checkRcrit = "rcrit" in checks; c.checkVolumePre = "volume" in checks
        return m.getDt(None)
    ref = call(tuple(range(P)))
    ctx.observe("dt", ref)
    for s in _perms(P, sigma):
        ctx.prove("getDt does not depend on the order of the phases", ctx.eq(call(s), ref))


def nuc_sites(ctx, sites=("bulk", "bulk", "gb"), parents=((), (0,), ()), n=2, sigma="all"):
    """_calcNucleationSites: the available sites of a phase (competition with phases of the same site type, sites on
    parent precipitates) do not depend on where the phase is listed"""
    P = len(sites)
    D = phase_inputs(ctx, P, n, N=1)
    sh = shared_inputs(ctx, 1)
    ident = tuple(range(P))

    def call(order):
        m = mk_model(ctx, D, order, n, sh, sites=sites, parents=parents, N=1)
        x = [D[k]["x"].copy() for k in order]
        return {k: m._calcNucleationSites(sh["time"][0], x, p) for p, k in enumerate(order)}
    ref = call(ident)
    ctx.observe("sites", [ref[k] for k in range(P)])
    for s in _perms(P, sigma):
        got = call(s)
        for k in range(P):
            ctx.prove("nucleation sites of a phase do not depend on the order of the phases", ctx.eq(got[k], ref[k]))


def mass_balance(ctx, P=2, n=2, E=1, sigma="all", infinite=(True, True, True)):
    """_calcMassBalance: same matrix composition; per-phase density, mean radius, volume fraction, fconc permuted"""
    D = phase_inputs(ctx, P, n, E=E, N=1)
    sh = shared_inputs(ctx, 1, E=E)
    els = tuple("E%d" % e for e in range(E))
    ident = tuple(range(P))

    def call(order):
        m = mk_model(ctx, D, order, n, sh, elements=els, N=1, infinite=infinite)
        x = [D[k]["x"].copy() for k in order]
        Y = PrecipitationData(m.phases, m.elements, 1)
        Y.composition[0] = m.pData.composition[0]
        Y = m._calcMassBalance(sh["time"][0], x, Y)
        return Y
    ref = call(ident)
    ctx.observe("composition", ref.composition[0]); ctx.observe("volFrac", ref.volFrac[0]); ctx.observe("Ravg", ref.Ravg[0])
    for s in _perms(P, sigma):
        Y = call(s)
        for e in range(E):
            ctx.prove("matrix composition does not depend on the order of the phases", ctx.eq(Y.composition[0, e], ref.composition[0, e]))
        for p, k in enumerate(s):
            for nm in ("precipitateDensity", "Ravg", "ARavg", "volFrac"):
                ctx.prove("per-phase %s is permuted with the phases" % nm, ctx.eq(getattr(Y, nm)[0, p], getattr(ref, nm)[0, k]))
            for e in range(E):
                ctx.prove("per-phase fconc is permuted with the phases", ctx.eq(Y.fconc[0, p, e], ref.fconc[0, k, e]))



def process_x(ctx, P=3, n=3, sigma="all", rdf=(0, 1, 2)):
    """PrecipitateModel._processX (classes at or below the driving-force limit index and below minRadius are emptied):
    every phase is treated by its own limit, wherever it is listed"""
    D = phase_inputs(ctx, P, n, N=1)
    sh = shared_inputs(ctx, 1)
    rmin = ctx.real("minRadius", (0.5, 1.5))

    def call(order):
        m = mk_model(ctx, D, order, n, sh, N=1)
        m.constraints.minRadius = rmin
        for p, k in enumerate(order):
            m.RdrivingForceIndex[p] = rdf[k]
        x = [D[k]["x"].copy() for k in order]
        m._processX(x)
        return {k: x[p] for p, k in enumerate(order)}
    ident = tuple(range(P))
    ref = call(ident)
    for k in range(P):
        ctx.observe("x%d" % k, ref[k])
    for s_ in _perms(P, sigma):
        got = call(s_)
        for k in range(P):
            for i in range(n):
                ctx.prove("size distribution of a phase after _processX does not depend on where the phase is listed", ctx.eq(got[k][i], ref[k][i]))


# =====================================================================================================================
#  Part 2: element order
# =====================================================================================================================
import importlib, types, sys
if hasattr(sys, "set_int_max_str_digits"):
    sys.set_int_max_str_digits(0)      # z3 models of nested quotients can carry very long rationals
from pycalphad import variables as v
from vk import symnp
TH = importlib.import_module("kawin.thermo.Thermodynamics")
MT = importlib.import_module("kawin.thermo.MultiTherm")
MOBM = importlib.import_module("kawin.thermo.Mobility")
DP = importlib.import_module("kawin.diffusion.DiffusionParameters")
HP = importlib.import_module("kawin.diffusion.HomogenizationParameters")
SPM = importlib.import_module("kawin.diffusion.SinglePhase")
DIF = importlib.import_module("kawin.diffusion.Diffusion")
GT, MCT = TH.GeneralThermodynamics, MT.MulticomponentThermodynamics


def _minor_rank(a):
    """exact rank of a small symbolic matrix (largest non-vanishing minor); forks on the determinants"""
    from vk.symnp import plain, to_obj
    p = plain(to_obj(a)); n, m = p.shape

    def det(rows, cols):
        if len(rows) == 1:
            return p[rows[0], cols[0]]
        return sum(((-1) ** j) * p[rows[0], cols[j]] * det(rows[1:], cols[:j] + cols[j + 1:]) for j in range(len(cols)))
    for k in range(min(n, m), 0, -1):
        for rows in itertools.combinations(range(n), k):
            for cols in itertools.combinations(range(m), k):
                if bool(det(list(rows), list(cols)) != 0):
                    return k
    return 0


_orig_rank = symnp.f_matrix_rank


def _f_matrix_rank(a, *args, **kw):
    # facade gap: numpy.linalg.matrix_rank on symbolic data.  Modelled exactly (real arithmetic, no SVD tolerance).
    if symnp.has_sym(a):
        return _minor_rank(a)
    return _orig_rank(a, *args, **kw)


symnp.f_matrix_rank = _f_matrix_rank
symnp.FUNCS["linalg.matrix_rank"] = _f_matrix_rank


class _PhaseRecord:
    def __init__(self, phase, names):
        self.phase_name = phase
        self.nonvacant_elements = list(names)                 # pycalphad: alphabetical
        self.state_variables = [v.GE, v.N, v.P, v.T]         # pycalphad: alphabetical
        self.phase_dof = len(names); self.num_internal_cons = 1


class _CompSet:
    """what kawin reads from a pycalphad CompositionSet: X (alphabetical), NP, dof, phase_record"""

    def __init__(self, be, phase, tag, rec, args):
        u = lambda nm, rng=(0.1, 2.0): be.ctx.uf(nm, *args, rng=rng)
        self.phase_record = _PhaseRecord(phase, be.names)
        self.Xn = {a: u("X<%s|%s>%s" % (phase, tag, a), (0.05, 0.45)) for a in be.names}
        self.X = [self.Xn[a] for a in be.names]
        self.NP = u("NP<%s|%s>" % (phase, tag), (0.2, 0.8))
        for q in self.X + [self.NP]:
            be.ctx.assume(q > 0, "backend contract: mole fractions and phase amounts of the sets it returns are positive")
        self.dof = np.array([rec["GE"], 1.0, 101325.0, rec["T"]] + self.X)
        self.rec, self.args, self.tag, self.phase = rec, args, tag, phase


class Backend:
    """the pycalphad side: every array is laid out in alphabetical element order, every value is an uninterpreted function
    (named after phase and element *names*) of the conditions keyed by element name"""

    def __init__(self, ctx, ref, solutes, phases):
        self.ctx, self.ref = ctx, ref
        self.names = sorted([ref] + list(solutes)); self.sol = sorted(solutes); self.phases = list(phases)
        self.calls = []
        self.corr = None

    def canon(self, conds, kind, phases):
        X = {a: conds[v.X(a)] for a in self.names if v.X(a) in conds}
        MU = {a: conds[v.MU(a)] for a in self.names if v.MU(a) in conds}
        rec = {"kind": kind, "phases": list(phases), "X": X, "MU": MU, "T": conds[v.T], "GE": conds.get(v.GE, 0.0), "nkeys": len(conds)}
        self.calls.append(rec)
        return rec, [X[a] for a in sorted(X)] + [MU[a] for a in sorted(MU)] + [rec["T"], rec["GE"]]

    # --- pycalphad entry points as kawin calls them
    def local_equilibrium(self, dbf, comps, phases, conds, models, phase_records, composition_sets=None):
        rec, args = self.canon(conds, "local", phases)
        tag = "loc:" + "+".join(phases)
        mu = np.array([self.ctx.uf("MU<%s>%s" % (tag, a), *args, rng=(-2.0, -0.1)) for a in self.names])
        res = types.SimpleNamespace(chemical_potentials=mu, x=np.array([self.ctx.uf("GEsol<%s>" % tag, *args, rng=(-1.0, 1.0))]))
        rec["sets"] = [_CompSet(self, ph, tag, rec, args) for ph in phases]
        rec["mu"] = {a: mu[i] for i, a in enumerate(self.names)}
        return res, rec["sets"]

    def Workspace(self, dbf, comps, phases, conds, models=None, phase_record_factory=None, calc_opts=None):
        rec, args = self.canon(conds, "global", phases)
        tag = "eq:" + "+".join(phases)
        mu = [self.ctx.uf("MU<%s>%s" % (tag, a), *args, rng=(-2.0, -0.1)) for a in self.names]
        rec["mu"] = {a: mu[i] for i, a in enumerate(self.names)}
        rec["sets"] = [_CompSet(self, ph, tag, rec, args) for ph in reversed(list(phases))]     # stable phases, in pycalphad's own order
        return types.SimpleNamespace(eq=types.SimpleNamespace(MU=np.array([[mu]])), get_composition_sets=lambda: list(rec["sets"]))

    def _mat(self, what, cs, refElement):
        s = [a for a in cs.phase_record.nonvacant_elements if a != refElement]
        m = np.array([[self.ctx.uf("%s<%s|%s|n=%s>%s,%s" % (what, cs.phase, cs.tag, refElement, a, b), *cs.args,
                                   rng=((1.0, 2.0) if a == b else (0.05, 0.3))) for b in s] for a in s])
        if what == "Dnkj":
            for i in range(len(s)):
                self.ctx.assume(m[i, i] > 0, "backend contract: diagonal interdiffusivities are positive")
        return m

    def inverseMobility(self, chemical_potentials, composition_set, refElement, mobility_callables, mobility_correction=None,
                        returnOther=True, vacancy_poor_interstitial_sublattice=False, parameters={}, diffusivity_correction=None):
        return (self._mat("Dnkj", composition_set, refElement), self._mat("dMudX", composition_set, refElement),
                self._mat("invMob", composition_set, refElement))

    def dMudX(self, chemical_potentials, composition_set, refElement):
        return self._mat("dMudX", composition_set, refElement)

    def mobfun(self, phase, el):
        def f(dof):
            m = self.ctx.uf("MOB<%s>%s" % (phase, el), *[d for d in dof], rng=(0.1, 2.0))
            self.ctx.assume(m > 0, "backend contract: atomic mobilities are positive")
            return m
        return f

    def sampling(self, x, T, mu, precPhase, local_phase_sampling_conditions=None):
        """stands in for GeneralThermodynamics._getPrecCompositionSetSamplingDF (pycalphad point sampling)"""
        args = [m for m in mu] + [T]
        rec = {"kind": "sampling", "phases": [precPhase], "X": {}, "MU": {}, "T": T, "GE": 1.0, "nkeys": 0}
        cs = _CompSet(self, precPhase, "smp", rec, args)
        rec["sets"] = [cs]; self.calls.append(rec)
        return self.ctx.uf("DGsmp<%s>" % precPhase, *args, rng=(-1.0, 1.0)), cs


class _Patched:
    def __init__(self, be):
        self.tab = [(TH, "Workspace", be.Workspace), (TH, "local_equilibrium", be.local_equilibrium), (MT, "local_equilibrium", be.local_equilibrium),
                    (TH, "inverseMobility", be.inverseMobility), (TH, "inverseMobility_from_diffusivity", be.inverseMobility),
                    (MT, "inverseMobility", be.inverseMobility), (MT, "inverseMobility_from_diffusivity", be.inverseMobility),
                    (TH, "dMudX", be.dMudX), (MT, "dMudX", be.dMudX)]
        self.saved = []

    def __enter__(self):
        for m, n, f in self.tab:
            self.saved.append((m, n, m.__dict__[n])); setattr(m, n, f)
        return self

    def __exit__(self, *exc):
        for m, n, f in self.saved:
            setattr(m, n, f)
        return False


class _Records:
    models = None

    def __getitem__(self, k):
        return ("phase_record", k)


def mk_therm(ctx, be, user, phases=("MATRIX", "PREC"), method="tangent"):
    """a real MulticomponentThermodynamics object without a database: exactly the attributes __init__ would have set"""
    th = object.__new__(MCT)
    th.db = None
    th.elements = list(user) + ["VA"]
    th.numElements = len(user)
    th._parameters = {}
    th.phases = list(phases)
    th.vacancyPoorInterstitialSublattice = {}
    th.models = {p: ("model", p) for p in phases}
    th.orderedPhase = {p: False for p in phases[1:]}
    th.phase_records = _Records()
    th.sampling_pDens, th.pDens = 2000, 500
    th.mobCallables = {p: {a: be.mobfun(p, a) for a in be.names} for p in phases}
    th.diffCallables = {p: None for p in phases}
    th.mobility_correction = dict(be.corr)
    th.setDrivingForceMethod(method)
    th._curvature_outputs = {p: MT.CurvatureOutput() for p in phases[1:]}
    MCT.clearCache(th)
    th._getPrecCompositionSetSamplingDF = be.sampling
    return th


def el_setup(ctx, ref, solutes, phases=("MATRIX", "PREC")):
    be = Backend(ctx, ref, solutes, phases)
    xval = {a: ctx.real("x_" + a, (0.05, 0.25)) for a in be.sol}
    T = ctx.real("T", (500.0, 1200.0)); ctx.assume(T > 0)
    be.corr = {a: ctx.real("mobility_correction_" + a, (0.5, 2.0)) for a in be.names}
    for a in be.names:
        ctx.assume(be.corr[a] > 0)
    be.corr["VA"] = 1
    return be, xval, T


def el_orders(solutes, which="all"):
    base = tuple(sorted(solutes))
    if which == "all":
        return [base] + [s for s in itertools.permutations(base) if s != base]
    if which == "cycle":          # one rotation (for 3 names a 3-cycle: distinguishes a permutation from its inverse) and one swap
        rot = base[1:] + base[:1]
        swp = (base[1], base[0]) + base[2:]
        return [base, rot] + ([swp] if swp != rot else [])
    return [base, tuple(which)]


def check_inputs(ctx, be, xval, T, start=0):
    """input side of equivariance: every backend query made so far carries, under each element *name*, that element's composition"""
    for rec in be.calls[start:]:
        if rec["X"]:
            ctx.prove("backend is asked for exactly the solute compositions, each under its own element name",
                      ctx.all([sorted(rec["X"]) == be.sol] + [ctx.eq(rec["X"][a], xval[a]) for a in rec["X"] if a in xval]))
        if rec["kind"] != "sampling":
            ctx.prove("backend is asked at the requested temperature", ctx.eq(rec["T"], T))


def _sc(x):
    """0-d array -> scalar (plain numpy hands back 0-d arrays where the symbolic layer hands back scalars)"""
    return x[()] if (hasattr(x, "ndim") and x.ndim == 0 and hasattr(x, "item")) else x


def same_by_name(ctx, what, got, ref):
    for k in sorted(ref, key=repr):
        name = "%s [%s]" % (what, k if isinstance(k, str) else k[0])
        if got[k] is None or ref[k] is None:
            ctx.prove(name, got[k] is None and ref[k] is None)
        else:
            ctx.prove(name, ctx.eq(got[k], ref[k]))


def diffusivity(ctx, ref="FE", solutes=("CR", "NI"), kind="tracer", sigma="all"):
    """getTracerDiffusivity / getInterdiffusivity: slot i (i,j) holds the value of the user's i-th element (pair)"""
    be, xval, T = el_setup(ctx, ref, solutes)
    first = None
    for user_sol in el_orders(solutes, sigma):
        user = [ref] + list(user_sol)
        th = mk_therm(ctx, be, user)
        x = np.array([xval[a] for a in user_sol])
        n0 = len(be.calls)
        with _Patched(be):
            if kind == "tracer":
                out = th.getTracerDiffusivity(x, T)
                got = {a: out[i] for i, a in enumerate(user)}
            else:
                out = th.getInterdiffusivity(x, T)
                got = {(a, b): out[i, j] for i, a in enumerate(user_sol) for j, b in enumerate(user_sol)}
                cs = be.calls[-1]["sets"][0]
                D = be._mat("Dnkj", cs, ref)
                for i, a in enumerate(user_sol):
                    for j, b in enumerate(user_sol):
                        ctx.prove("interdiffusivity[i,j] is the backend value of the element pair (user i, user j)",
                                  ctx.eq(out[i, j], D[be.sol.index(a), be.sol.index(b)]))
        check_inputs(ctx, be, xval, T, n0)
        if first is None:
            first = got
            ctx.observe(kind, out)
        else:
            same_by_name(ctx, "%s diffusivity is permuted with the elements and otherwise unchanged" % kind, got, first)


def driving_force(ctx, ref="FE", solutes=("CR", "NI"), method="tangent", sigma="all"):
    """getDrivingForce (all four methods): same driving force, precipitate composition slot i = user's i-th solute"""
    be, xval, T = el_setup(ctx, ref, solutes)
    first = None
    for user_sol in el_orders(solutes, sigma):
        user = [ref] + list(user_sol)
        th = mk_therm(ctx, be, user, method=method)
        x = np.array([xval[a] for a in user_sol])
        n0 = len(be.calls)
        with _Patched(be):
            dg, comp = th.getDrivingForce(x, T, precPhase="PREC")
        check_inputs(ctx, be, xval, T, n0)
        for i, a in enumerate(user_sol):
            ctx.prove("the composition array handed to getDrivingForce still holds, in slot i, the user's i-th solute (nothing else changes)", ctx.eq(x[i], xval[a]))
        comp = np.atleast_1d(comp)
        ctx.prove("precipitate composition has one slot per solute", len(comp) == len(user_sol))
        # the precipitate composition set the result was read from: the last PREC set the backend handed out
        src = [c for r in be.calls[n0:] for c in r["sets"] if c.phase == "PREC"][-1]
        for i, a in enumerate(user_sol):
            ctx.prove("driving-force precipitate composition slot i is a backend composition of the user's i-th solute",
                      ctx.any([ctx.eq(comp[i], c.Xn[a]) for r in be.calls[n0:] for c in r["sets"] if c.phase == "PREC"]))
        got = {a: comp[i] for i, a in enumerate(user_sol)}
        dg = _sc(dg)
        got["dG"] = dg
        if first is None:
            first = got
            ctx.observe("dg", dg); ctx.observe("comp", comp)
        else:
            same_by_name(ctx, "driving force unchanged and precipitate composition permuted with the elements", got, first)


def interfacial(ctx, ref="FE", solutes=("CR", "NI"), sigma="all", ng=2):
    """MulticomponentThermodynamics.getInterfacialComposition: slot i = composition of the user's i-th element"""
    be, xval, T = el_setup(ctx, ref, solutes)
    g = ctx.reals("gExtra", ng, (0.0, 2.0))
    first = None
    for user_sol in el_orders(solutes, sigma):
        user = [ref] + list(user_sol)
        th = mk_therm(ctx, be, user)
        x = np.array([xval[a] for a in user_sol])
        n0 = len(be.calls)
        with _Patched(be):
            ca, cb = th.getInterfacialComposition(x, T, g, precPhase="PREC")
        check_inputs(ctx, be, xval, T, n0)
        ca = np.atleast_2d(ca); cb = np.atleast_2d(cb)
        got = {}
        for k in range(ng):
            sets = {c.phase: c for c in be.calls[n0 + k]["sets"]}
            for i, a in enumerate(user):
                ctx.prove("interfacial matrix composition slot i belongs to the user's i-th element", ctx.eq(ca[k, i], sets["MATRIX"].Xn[a]))
                ctx.prove("interfacial precipitate composition slot i belongs to the user's i-th element", ctx.eq(cb[k, i], sets["PREC"].Xn[a]))
                got[("a", k, a)] = ca[k, i]; got[("b", k, a)] = cb[k, i]
        if first is None:
            first = got
            ctx.observe("ca", ca); ctx.observe("cb", cb)
        else:
            same_by_name(ctx, "interfacial compositions are permuted with the elements and otherwise unchanged", got, first)


def growth(ctx, ref="FE", solutes=("CR", "NI"), sigma="all", nr=1):
    """curvatureFactor / getGrowthAndInterfacialComposition / impingementFactor: growth rate, mc, beta unchanged; dc, Gba,
    equilibrium and interfacial compositions permuted with the solutes"""
    be, xval, T = el_setup(ctx, ref, solutes)
    dG = ctx.real("dG", (0.1, 2.0)); R = ctx.reals("R", nr, (0.5, 2.0)); gE = ctx.reals("gExtra", nr, (0.0, 1.0))
    for i in range(nr):
        ctx.assume(R[i] > 0)
    first = None
    for user_sol in el_orders(solutes, sigma):
        user = [ref] + list(user_sol)
        th = mk_therm(ctx, be, user)
        th._compset_cache_curvature = {}
        x = np.array([xval[a] for a in user_sol])
        n0 = len(be.calls)
        with _Patched(be):
            out = th.getGrowthAndInterfacialComposition(x, T, dG, R, gE, precPhase="PREC", removeCache=True)
            beta = th.impingementFactor(x, T, precPhase="PREC", removeCache=True)
        check_inputs(ctx, be, xval, T, n0)
        cv = th._curvature_outputs["PREC"]
        sets = {c.phase: c for c in be.calls[n0]["sets"]}
        got = {"mc": cv.mc, "beta": cv.beta, "beta2": beta}
        gr = np.atleast_1d(out.growth_rate); ca = np.atleast_2d(out.c_alpha); cb = np.atleast_2d(out.c_beta)
        cea = np.atleast_1d(out.c_eq_alpha); ceb = np.atleast_1d(out.c_eq_beta)
        for i, a in enumerate(user_sol):
            ctx.prove("equilibrium matrix composition slot i belongs to the user's i-th solute", ctx.eq(cea[i], sets["MATRIX"].Xn[a]))
            ctx.prove("equilibrium precipitate composition slot i belongs to the user's i-th solute", ctx.eq(ceb[i], sets["PREC"].Xn[a]))
            got[("dc", a)] = cv.dc[i]
            for k in range(nr):
                got[("ca", k, a)] = ca[k, i]; got[("cb", k, a)] = cb[k, i]
            for j, b in enumerate(user_sol):
                got[("gba", a, b)] = cv.gba[i, j]
        for k in range(nr):
            got[("growth", k)] = gr[k]
        if first is None:
            first = got
            ctx.observe("growth", gr); ctx.observe("ca", ca); ctx.observe("cb", cb); ctx.observe("dc", cv.dc)
        else:
            same_by_name(ctx, "growth rate / mc / beta unchanged; dc, Gba, compositions permuted with the elements", got, first)


def mobility(ctx, ref="FE", solutes=("C", "NI"), sigma="all", homog="wiener upper"):
    """computeMobility and computeHomogenizationFunction: per-element mobilities and chemical potentials in the user's order"""
    be, xval, T = el_setup(ctx, ref, solutes, phases=("MATRIX", "PREC"))
    first = None
    for user_sol in el_orders(solutes, sigma):
        user = [ref] + list(user_sol)
        th = mk_therm(ctx, be, user)
        x = np.array([xval[a] for a in user_sol])
        n0 = len(be.calls)
        hp = HP.HomogenizationParameters(homog)
        with _Patched(be):
            md = DP.computeMobility(th, x, T, None)
            avg, mu2 = HP.computeHomogenizationFunction(th, x, T, hp, None)
        check_inputs(ctx, be, xval, T, n0)
        rec = be.calls[n0]
        got = {}
        # by-name oracle: (mobility of element e) x (u-fraction of element e), the u-fraction taken over the substitutional
        # elements, i.e. those not named in kawin's `interstitials` list -- the names decide, not the slots
        for p, cs in enumerate(rec["sets"]):
            ctx.prove("phases are reported in the backend's order", str(md.phases[0][p]) == cs.phase)
            with _Patched(be):
                mob_alpha = MOBM.mobility_from_composition_set(cs, th.mobCallables[cs.phase], th.mobility_correction)
            usum = sum(cs.Xn[a] for a in be.names if a not in MOBM.interstitials)
            for i, a in enumerate(user):
                ctx.prove("mobility slot i = mobility of the user's i-th element times its u-fraction (interstitials, by name, left out of the substitutional sum)",
                          ctx.eq(md.mobility[0][p, i] * usum, mob_alpha[be.names.index(a)] * cs.Xn[a]))
        for i, a in enumerate(user):
            ctx.prove("chemical potential slot i belongs to the user's i-th element", ctx.eq(md.chemical_potentials[0][i], rec["mu"][a]))
            got[("mu", a)] = mu2[i]; got[("avg", a)] = avg[i]
            for p, ph in enumerate(md.phases[0]):
                got[("mob", str(ph), a)] = md.mobility[0][p, i]
        for p, ph in enumerate(md.phases[0]):
            got[("frac", str(ph))] = md.phase_fractions[0][p]
        if first is None:
            first = got
            ctx.observe("mob", md.mobility[0]); ctx.observe("avg", avg)
        else:
            same_by_name(ctx, "mobilities, chemical potentials, homogenised mobility are permuted with the elements", got, first)


def profile(ctx, ref="FE", solutes=("CR", "NI"), sigma="all", N=3):
    """SinglePhaseModel: initial profile (by element name), boundary conditions (by element name), fluxes -> dx/dt rows are
    permuted with the elements; the stable time step is unchanged"""
    be, xval, T = el_setup(ctx, ref, solutes, phases=("MATRIX",))
    left = {a: ctx.real("left_" + a, (0.05, 0.2)) for a in be.sol}; right = {a: ctx.real("right_" + a, (0.05, 0.2)) for a in be.sol}
    bcv = {a: ctx.real("bc_" + a, (-0.5, 0.5)) for a in be.sol}
    for a in be.sol:
        for q in (left[a], right[a]):
            ctx.assume(q > 0.01); ctx.assume(q < 0.3)
    first = None
    for user_sol in el_orders(solutes, sigma):
        user = [ref] + list(user_sol)
        th = mk_therm(ctx, be, user, phases=("MATRIX",))
        m = SPM.SinglePhaseModel([0.0, 1.0], N, user, ["MATRIX"], thermodynamics=th, record=False)
        m.hashTable.enableCaching(False)
        m.setTemperature(T)
        for k, a in enumerate(be.sol):       # parameters are given per element *name*, in an order unrelated to the listing
            m.setCompositionStep(left[a], right[a], 0.4, a)
            if k % 2 == 0:
                m.setBC(DP.BoundaryConditions.FLUX_BC, bcv[a], DP.BoundaryConditions.COMPOSITION_BC, right[a], a)
            else:
                m.setBC(DP.BoundaryConditions.COMPOSITION_BC, left[a], DP.BoundaryConditions.FLUX_BC, bcv[a], a)
        with _Patched(be):
            m.setup()
            t, X = m.getCurrentX()
            d = m.getdXdt(t, X)[0]
            dt = m.getDt(d)
        got = {"dt": dt}
        for i, a in enumerate(user_sol):
            for j in range(N):
                got[("x", a, j)] = m.x[i, j]; got[("dxdt", a, j)] = d[i, j]
        if first is None:
            first = got
            ctx.observe("x", m.x); ctx.observe("dxdt", d); ctx.observe("dt", dt)
        else:
            same_by_name(ctx, "initial profile and dx/dt rows are permuted with the elements; time step unchanged", got, first)


def site_defaults(ctx, solutes=("AL", "CR"), sigma="all", first="composition", density="default", site="bulk"):
    """default nucleation-site densities derived from the initial composition (real setInitialComposition /
    setVolumeAlpha -> MatrixParameters.update -> NucleationSiteParameters.setBulkDensityFromComposition, and the lazily
    computed dislocation / grain-boundary / edge / corner densities): the same for every listing order of the solutes;
    also through the real _calcNucleationSites of an empty distribution"""
    from kawin.precipitation.parameters.Volume import VolumeParameter
    sol = sorted(solutes)
    xval = {a: ctx.real("x0_" + a, (0.02, 0.2)) for a in sol}
    for a in sol:
        ctx.assume(xval[a] > 0)
    Vm = ctx.real("VmAlpha", (0.5, 2.0)); ctx.assume(Vm > 0)
    gs = ctx.real("grainSize", (10.0, 200.0)); ar = ctx.real("grainAspectRatio", (1.0, 3.0)); dd = ctx.real("dislocationDensity", (1.0, 9.0))
    ctx.assume(gs > 0); ctx.assume(ar > 0); ctx.assume(dd > 0)
    first_got = None
    for user in el_orders(sol, sigma):
        m = PrecipitateModel(precipitateParameters=[new_pp("PREC")], elements=list(user))
        x0 = np.array([xval[a] for a in user])
        steps = {"composition": lambda: m.setInitialComposition(x0),
                 "volume": lambda: m.setVolumeAlpha(Vm, VolumeParameter.MOLAR_VOLUME, 4),
                 "density": (lambda: m.setNucleationDensity(gs, ar, dd)) if density == "set" else (lambda: None)}
        order = {"composition": ("composition", "volume", "density"), "volume": ("volume", "composition", "density"),
                 "density": ("density", "volume", "composition")}[first]
        for st in order:
            steps[st]()
        m.setNucleationSite(site)
        ns = m.matrixParameters.nucleationSites
        got = {"bulkN0": ns.bulkN0, "dislocationN0": ns.dislocationN0, "GBareaN0": ns.GBareaN0, "GBedgeN0": ns.GBedgeN0, "GBcornerN0": ns.GBcornerN0}
        ctx.prove("the bulk site density was derived from the composition (none was supplied)", ns._compositionDependentBulkN0 is True and got["bulkN0"] is not None)
        # what the model uses: available sites of an empty size distribution
        pbm = m.PBM[0]
        got["available sites (empty distribution)"] = m._calcNucleationSites(0.0, [0.0 * Vm * pbm.PSD], 0)
        if first_got is None:
            first_got = got
            for k in sorted(got):
                ctx.observe(k, got[k])
        else:
            for k in sorted(got):
                ctx.prove("default nucleation site density is the same for every listing order of the solutes [%s]" % k, ctx.eq(got[k], first_got[k]))


def constructor_lists(ctx, ref="NI", solutes=("AL", "CR"), ordered=True, nobj=2):
    """the real GeneralThermodynamics.__init__ (-> _buildThermoModels, _forceDisorder, _buildMobilityModels) on a stand-in
    database with pycalphad's Model / PhaseRecordFactory replaced by recorders: the caller's lists of elements and phases
    are unchanged afterwards, and objects built from the same lists for the other solute orders see the same matrix and
    precipitate roles"""
    from harness.c10_extra import _Database, _Phase
    mat, prec = "FCC_A1", "FCC_L12"
    db = _Database()
    hints = {"ordered_phase": prec, "disordered_phase": mat} if ordered else {}
    db.phases[mat] = _Phase(mat, hints); db.phases[prec] = _Phase(prec, hints)
    vals = ctx.reals("param", 3, (0.5, 2.0))
    for i, (ph, t) in enumerate(((mat, "G"), (mat, "MQ"), (prec, "G"))):
        db._parameters.insert({"phase_name": ph, "parameter_type": t, "parameter_order": 0, "constituent_array": ((ref,) + tuple(solutes), ("VA",)),
                               "diffusing_species": ref if t == "MQ" else None, "parameter": vals[i]})
    ctx.observe("param", vals)
    built = []

    class _Model:
        def __init__(self, dbf, comps, phase, parameters=None):
            built.append((type(self).__name__, tuple(comps), phase)); self.phase = phase

    class _Extra(_Model): pass
    class _Mob(_Model): pass

    class _Fun:
        func = staticmethod(lambda dof: 0.0)

    class _PRF:
        def __init__(self, dbf, comps, state_variables, models, parameters=None):
            self.models = models; self.comps = list(comps)

        def __getitem__(self, phase):
            return types.SimpleNamespace(nonvacant_elements=sorted(set(self.comps) - {"VA"}))

        def get_phase_property(self, phase, name, include_grad=False, include_hess=False):
            return _Fun()
    phases = [mat, prec]                 # ONE list object, handed to every constructor (as a script that loops over solute orders does)
    phases0 = list(phases)
    tab = [(TH, "Model", _Model), (TH, "ExtraGibbsModel", _Extra), (TH, "MobilityModel", _Mob), (TH, "PhaseRecordFactory", _PRF)]
    saved = [(m_, n_, m_.__dict__[n_]) for m_, n_, _ in tab]
    first = None
    try:
        for m_, n_, f_ in tab:
            setattr(m_, n_, f_)
        for user_sol in el_orders(solutes, "all")[:nobj]:
            elements = [ref] + list(user_sol)
            elements0 = list(elements)
            del built[:]
            th = MCT(db, elements, phases, drivingForceMethod="tangent")
            ctx.prove("the caller's list of phases is unchanged by the constructor", phases == phases0)
            ctx.prove("the caller's list of elements is unchanged by the constructor", elements == elements0)
            roles = {"matrix": th.phases[0], "precipitates": tuple(th.phases[1:]), "ordered": tuple(sorted(th.orderedPhase.items())),
                     "models": tuple(sorted((b[0], b[2]) for b in built)), "mobility phases": tuple(sorted(p_ for p_ in th.mobCallables if th.mobCallables[p_] is not None))}
            ctx.prove("the object lists the user's elements in the user's order (+ VA)", th.elements == elements0 + ["VA"] and all(b[1] == tuple(elements0 + ["VA"]) for b in built))
            ctx.prove("matrix phase is the disordered copy exactly when the precipitate is its ordered form",
                      th.phases[0] == (("DIS_" + mat) if ordered else mat) and th.orderedPhase == {prec: bool(ordered)})
            if first is None:
                first = roles
            else:
                for k in sorted(roles):
                    ctx.prove("an object built from the same lists for another solute order sees the same matrix / precipitate roles [%s]" % k, roles[k] == first[k])
    finally:
        for m_, n_, f_ in saved:
            setattr(m_, n_, f_)


_NAMESETS = [("AL", ["CR", "NI"]), ("FE", ["CR", "NI"]), ("ZR", ["CR", "NI"]), ("AL", ["CR", "NB", "TI"]), ("MO", ["CR", "NB", "TI"]), ("ZR", ["C", "NB", "TI"])]
_FE = [GT._getConditions, GT._setupSubModels, GT.getLocalEq, GT.getEq, GT.getInterdiffusivity, GT._interdiffusivitySingle, GT.getTracerDiffusivity,
       GT._tracerDiffusivitySingle, GT.getDrivingForce, GT._getDrivingForceSampling, GT._getDrivingForceApprox, GT._getDrivingForceCurvature,
       GT._getDrivingForceTangent, GT._getCompositionSetsForDF, GT._getCompositionSetsEq, MCT.getInterfacialComposition, MCT._interfacialComposition,
       MCT._curvatureFactorFromEq, MCT.curvatureFactor, MCT.getGrowthAndInterfacialComposition, MCT.impingementFactor, MT._growthRateOutputFromCurvature,
       MOBM.tracer_diffusivity, MOBM.mobility_from_composition_set, MOBM.x_to_u_frac, DP._computeSingleMobility, DP.computeMobility,
       HP.computeHomogenizationFunction, DP.CompositionProfile.buildProfile, DP.BoundaryConditions.applyBoundaryConditionsToInitialProfile,
       DP.BoundaryConditions.applyBoundaryConditionsToFluxes, DIF.DiffusionModel.setup, DIF.DiffusionModel.getdXdt, SPM.SinglePhaseModel._getFluxes]
_AE = ["pycalphad lays its arrays out in alphabetical element order (documented contract) and is itself independent of the listing order: "
       "its results are deterministic functions of the conditions keyed by element name",
       "the reference element is listed first and VA last (what GeneralThermodynamics.__init__ establishes)",
       "backend contracts: mole fractions and phase amounts of returned composition sets > 0, atomic mobilities > 0, diagonal interdiffusivities > 0; "
       "T > 0, mobility correction factors > 0 (divisors of the u-fraction, impingement and von Neumann time-step formulas are then non-zero)",
       "where a parameter set lists one rotation (+ one swap) instead of all orders: these generate all orders, and each claim holds for all inputs"]
_SE = ["pycalphad Workspace / kawin.thermo.LocalEquilibrium.local_equilibrium: uninterpreted functions of (phase, element name; conditions by name)",
       "kawin.thermo.Mobility.inverseMobility[_from_diffusivity], FreeEnergyHessian.dMudX: uninterpreted matrices over the alphabetically ordered non-reference elements",
       "mobility callables of the database: uninterpreted functions of the composition set's degrees of freedom",
       "GeneralThermodynamics._getPrecCompositionSetSamplingDF (pycalphad point sampling): uninterpreted"]
_BE = {"solutes": "2 (both orders) and 3 (all 6 orders, or a 3-cycle + a swap where noted in the parameters); reference element sorting first / in the middle / last",
       "phases": "matrix + one precipitate", "conditions": "one (x, T) point per call; 1-2 radii / Gibbs-Thomson values"}

_FP = [Constraints.computeDTfromPSD, Constraints.computeDTfromNucleationRate, Constraints.computeDTfromTemperature,
       Constraints.computeDTfromRcrit, Constraints.computeDTfromVolume, PrecipitateModel.getDt, PrecipitateModel._calcNucleationSites,
       PrecipitateModel._calcMassBalance, PBM.getDTEuler, PBM.MomentFromN, PBM.WeightedMomentFromN]
_AP = ["where a parameter set lists a single permutation instead of all: a 3-cycle and a transposition generate all orders, and each claim holds for all inputs",
       "per-phase size grids rmin + i*dr with rmin, dr > 0; populations >= 0; molar volumes > 0; area/volume factors > 0",
       "recorded time stamps strictly increase, finalTime > current time (C05)",
       "growth rates, nucleation rates, critical radii, driving forces, radii, temperatures: arbitrary reals",
       "real arithmetic: sums over phases are order independent up to rounding"]

HARNESSES = [
    Harness("C11.dt_rule", dt_rule, functions=_FP, assumptions=_AP, bounds={"phases": "P (all P! orders)", "size classes": "n", "history rows": "N"},
            opts={"max_paths": 3000}, budget={"quick": 150.0, "thorough": 1500.0},
            params={"quick": [{"rule": "volume", "P": 3, "n": 2, "N": 2}, {"rule": "volume", "P": 2, "n": 3, "N": 1},
                              {"rule": "nucleation", "P": 3, "n": 2, "N": 2}, {"rule": "nucleation", "P": 3, "n": 2, "N": 1},
                              {"rule": "rcrit", "P": 3, "n": 2, "N": 2}, {"rule": "psd", "P": 3, "n": 2, "N": 2, "iso": True, "diss": [0, 1, 0]},
                              {"rule": "psd", "P": 2, "n": 2, "N": 2, "diss": [1, 0]}],
                    "thorough": [{"rule": r, "P": 3, "n": 3, "N": N} for r in ("volume", "nucleation", "rcrit") for N in (1, 2)]
                                + [{"rule": "psd", "P": 3, "n": 2, "N": 2, "diss": [1, 0, 1]}, {"rule": "psd", "P": 2, "n": 3, "N": 2, "iso": True, "diss": [2, 0]}]}),
    Harness("C11.get_dt", get_dt, functions=_FP, assumptions=_AP, bounds={"phases": "P", "size classes": "n"},
            opts={"max_paths": 3000, "branch_timeout_ms": 400}, budget={"quick": 150.0, "thorough": 1500.0},
            params={"quick": [{"P": 2, "n": 2, "N": 2, "checks": ["volume", "temperature", "rcrit"]},
                              {"P": 2, "n": 2, "N": 2, "checks": ["psd", "nucleation"], "iso": True, "diss": [0, 1]},
                              {"P": 2, "n": 2, "N": 1}, {"P": 3, "n": 2, "N": 2, "checks": ["volume", "temperature"]}],
                    "thorough": [{"P": 3, "n": 2, "N": 2, "checks": ["rcrit", "temperature"]}, {"P": 3, "n": 3, "N": 2, "checks": ["volume", "temperature"]},
                                 {"P": 3, "n": 2, "N": 1, "checks": ["nucleation", "temperature"]},
                                 {"P": 2, "n": 2, "N": 2, "checks": ["psd", "rcrit", "temperature"], "iso": True, "diss": [0, 1]},
                                 {"P": 2, "n": 2, "N": 2, "checks": ["volume", "nucleation"]}]}),
    Harness("C11.nuc_sites", nuc_sites, functions=_FP, assumptions=_AP, bounds={"phases": "len(sites)"},
            params={"quick": [{"sites": ["bulk", "bulk", "gb"], "parents": [[], [0], []]},
                              {"sites": ["gb", "disl", "gb"], "parents": [[], [], [1]]},
                              {"sites": ["edge", "corner", "edge"], "parents": [[1], [], [0, 1]]},
                              {"sites": ["corner", "disl", "disl"], "parents": [[2], [], []]}],
                    "thorough": [{"sites": list(s), "parents": [[], [0], [0, 1]]} for s in itertools.product(("bulk", "disl", "gb", "edge", "corner"), repeat=3)][::9]}),
    Harness("C11.mass_balance", mass_balance, functions=_FP, assumptions=_AP, bounds={"phases": "P", "elements": "E", "size classes": "n"},
            opts={"max_paths": 3000}, budget={"quick": 150.0, "thorough": 1500.0},
            params={"quick": [{"P": 3, "n": 2, "E": 1, "sigma": [1, 2, 0]}, {"P": 3, "n": 2, "E": 1, "sigma": [1, 0, 2], "infinite": [True, False, True]},
                              {"P": 2, "n": 2, "E": 2, "infinite": [False, True, True]}],
                    "thorough": [{"P": 3, "n": 3, "E": 1}, {"P": 3, "n": 2, "E": 2, "infinite": [True, False, True]}]}),
    # ---------------------------------------------------------------- element order
    Harness("C11.diffusivity", diffusivity, functions=_FE, assumptions=_AE, stubs=_SE, bounds=_BE,
            params={"quick": [{"ref": "FE", "solutes": ["CR", "NI"], "kind": "tracer"}, {"ref": "ZR", "solutes": ["CR", "NI"], "kind": "tracer"},
                              {"ref": "AL", "solutes": ["CR", "NI"], "kind": "inter"}, {"ref": "MO", "solutes": ["CR", "NB", "TI"], "kind": "inter"},
                              {"ref": "MO", "solutes": ["CR", "NB", "TI"], "kind": "tracer"}],
                    "thorough": [{"ref": r, "solutes": so, "kind": k} for k in ("tracer", "inter") for r, so in _NAMESETS]}),
    Harness("C11.driving_force", driving_force, functions=_FE, assumptions=_AE, stubs=_SE, bounds=_BE,
            params={"quick": [{"ref": "FE", "solutes": ["CR", "NI"], "method": "tangent"}, {"ref": "AL", "solutes": ["CR", "NI"], "method": "approximate"}]
                             + [{"ref": r, "solutes": so, "method": me} for me in ("tangent", "sampling", "approximate", "curvature")
                                for r, so in (("ZR", ["CR", "NI"]), ("MO", ["CR", "NB", "TI"]))],
                    "thorough": [{"ref": r, "solutes": so, "method": me} for me in ("tangent", "sampling", "approximate", "curvature") for r, so in _NAMESETS]}),
    Harness("C11.interfacial", interfacial, functions=_FE, assumptions=_AE, stubs=_SE, bounds=_BE,
            params={"quick": [{"ref": "FE", "solutes": ["CR", "NI"]}, {"ref": "ZR", "solutes": ["CR", "NI"], "ng": 1}],
                    "thorough": [{"ref": r, "solutes": so} for r, so in _NAMESETS]}),
    Harness("C11.growth", growth, functions=_FE, assumptions=_AE + ["numpy.linalg.matrix_rank modelled exactly (rank by non-vanishing minors, no SVD tolerance)"],
            stubs=_SE, bounds=_BE, opts={"ob_timeout": 30.0, "branch_timeout_ms": 250}, budget={"quick": 150.0, "thorough": 1500.0},
            params={"quick": [{"ref": "FE", "solutes": ["CR", "NI"]}, {"ref": "ZR", "solutes": ["CR", "NI"], "nr": 2},
                              {"ref": "MO", "solutes": ["CR", "NB", "TI"], "sigma": ["NB", "TI", "CR"]}],
                    "thorough": [{"ref": r, "solutes": so} for r, so in _NAMESETS]}),
    Harness("C11.mobility", mobility, functions=_FE, assumptions=_AE, stubs=_SE, bounds=_BE,
            params={"quick": [{"ref": "FE", "solutes": ["C", "NI"]}, {"ref": "ZR", "solutes": ["CR", "NI"], "homog": "wiener lower"},
                              {"ref": "FE", "solutes": ["CR", "N"]}, {"ref": "FE", "solutes": ["CR", "MN", "N"], "sigma": "cycle", "_opts": {"ob_timeout": 60.0}}],
                    "thorough": [dict({"ref": r, "solutes": so, "homog": h}, **({"sigma": "cycle", "_opts": {"ob_timeout": 60.0}} if len(so) > 2 else {}))
                                 for h in ("wiener upper", "labyrinth") for r, so in _NAMESETS]
                                + [{"ref": "FE", "solutes": ["CR", "N"], "homog": "wiener lower"}, {"ref": "NI", "solutes": ["B", "CR", "H"], "sigma": "cycle", "_opts": {"ob_timeout": 60.0}},
                                   {"ref": "FE", "solutes": ["CR", "MN", "N"], "_opts": {"ob_timeout": 60.0}}]}),
    Harness("C11.process_x", process_x, functions=[PrecipitateModel._processX], assumptions=_AP + ["minRadius symbolic; driving-force limit index per phase a parameter"],
            bounds={"phases": "P (all orders)", "size classes": "n"},
            params={"quick": [{"P": 2, "n": 3, "rdf": [1, 0]}, {"P": 3, "n": 3, "rdf": [0, 1, 2]}, {"P": 3, "n": 2, "rdf": [0, 0, 0]}],
                    "thorough": [{"P": 3, "n": 4, "rdf": [2, 0, 1]}, {"P": 3, "n": 4, "rdf": [0, 3, 1]}]}),
    Harness("C11.constructor_lists", constructor_lists,
            functions=[GT.__init__, GT._buildThermoModels, GT._forceDisorder, GT._buildMobilityModels, GT.setDrivingForceMethod, MCT.__init__, MCT.clearCache],
            assumptions=["database: stand-in with phases (name, model_hints) and a parameter table searched with the real tinydb queries"],
            stubs=["pycalphad Model / ExtraGibbsModel / MobilityModel / PhaseRecordFactory: recorders of (elements, phase) they are built for"],
            bounds={"objects built from the same lists": "nobj", "solutes": "2-3"},
            params={"quick": [{"ordered": True}, {"ordered": False}, {"ordered": True, "solutes": ["AL", "CR", "TI"], "nobj": 3}],
                    "thorough": [{"ordered": o, "solutes": so, "nobj": n_} for o in (True, False) for so, n_ in ((["AL", "CR"], 2), (["AL", "CR", "TI"], 6))]}),
    Harness("C11.site_defaults", site_defaults,
            functions=[PrecipitateModel.setInitialComposition, PrecipitateModel.setVolumeAlpha, PrecipitateModel.setNucleationDensity, PrecipitateModel.setNucleationSite,
                       MatrixParameters.update, NUC.NucleationSiteParameters.setBulkDensityFromComposition, NUC.NucleationSiteParameters.setNucleationDensity,
                       NUC.NucleationSiteParameters.dislocationSites, NUC.NucleationSiteParameters.grainBoundarySites, NUC.NucleationSiteParameters.grainEdgeSites,
                       NUC.NucleationSiteParameters.grainCornerSites, PrecipitateModel._calcNucleationSites],
            assumptions=["initial solute compositions > 0, matrix molar volume > 0, grain size / aspect ratio / dislocation density > 0 (all symbolic)",
                         "no bulk site density supplied by the user (kawin derives it from the initial composition)"],
            bounds={"solutes": "2 (both orders) and 3 (all 6 orders)", "call orders": "composition first / volume first / site parameters first"},
            params={"quick": [{"solutes": ["AL", "CR"], "first": "composition"}, {"solutes": ["AL", "CR"], "first": "volume", "density": "set"},
                              {"solutes": ["AL", "CR", "TI"], "first": "density", "density": "set"}, {"solutes": ["AL", "CR", "TI"], "first": "volume", "site": "dislocations"}],
                    "thorough": [{"solutes": so, "first": f, "density": d, "site": si} for so in (["AL", "CR"], ["AL", "CR", "TI"]) for f in ("composition", "volume", "density")
                                 for d in ("default", "set") for si in ("bulk", "dislocations")]}),
    Harness("C11.profile", profile, functions=_FE, assumptions=_AE + ["initial compositions in (0.01, 0.3) (above minComposition, sum below 1)"],
            stubs=_SE, bounds=dict(_BE, nodes="N (3 for two solutes; 2 for three solutes, where the time-step claim over 3 nodes did not finish)"),
            budget={"quick": 90.0, "thorough": 900.0},
            params={"quick": [{"ref": "FE", "solutes": ["CR", "NI"], "N": 3}],
                    "thorough": [dict({"ref": r, "solutes": so}, **({"N": 2, "sigma": "cycle", "_opts": {"ob_timeout": 60.0}} if len(so) > 2 else {"N": 3}))
                                 for r, so in _NAMESETS]}),
]

from harness.c11_extra import EXTRA as _EXTRA
HARNESSES = HARNESSES + _EXTRA
