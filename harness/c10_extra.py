"""C10 (extra) -- Python glue of FreeEnergyHessian.dMudX / partialdMudX around the (stubbed) bordered-Hessian solve:
row k of dMudX is (d mu_k/dx - d mu_ref/dx) for the k-th non-reference element in alphabetical order, whatever the
alphabetical position of the reference element (first, middle, last)."""
import numpy as np
from vk.run import Harness
from kawin.thermo import FreeEnergyHessian as FEH


class _PR:
    def __init__(self, els, dof, ncons):
        self.nonvacant_elements = list(els); self.phase_dof = dof; self.num_internal_cons = ncons


class _CS:
    def __init__(self, els, dof, ncons):
        self.phase_record = _PR(els, dof, ncons)


def dmudx_rows(ctx, els=("AL", "CR", "NI"), ref="CR", dof=3, ncons=1):
    n = len(els)
    i0 = dof + ncons + 1
    ddx = ctx.reals("ddx", (i0 + n, n - 1), (-2.0, 2.0))
    cs = _CS(els, dof, ncons)
    old_t, old_p = FEH.totalddx, FEH.partialddx
    FEH.totalddx = lambda mu, c, r: ddx
    FEH.partialddx = lambda mu, c: ddx
    try:
        d = FEH.dMudX(np.zeros(n), cs, ref)
        pd = FEH.partialdMudX(np.zeros(n), cs)
    finally:
        FEH.totalddx, FEH.partialddx = old_t, old_p
    ctx.observe("dmudx", d)
    ctx.prove("dMudX is (n-1) x (n-1)", np.shape(d) == (n - 1, n - 1))
    r = list(els).index(ref)
    nonref = [k for k in range(n) if k != r]
    for c, k in enumerate(nonref):
        for j in range(n - 1):
            ctx.prove("row of dMudX = derivative row of that (alphabetical, non-reference) element minus the reference element's row",
                      ctx.eq(d[c, j], ddx[i0 + k, j] - ddx[i0 + r, j]))
    ctx.prove("partialdMudX returns the element rows of the solve", np.shape(pd) == (n, n - 1) and ctx.all([ctx.eq(pd[k, j], ddx[i0 + k, j]) for k in range(n) for j in range(n - 1)]))


EXTRA = [
    Harness("C10.dmudx_rows", dmudx_rows, functions=[FEH.dMudX, FEH.partialdMudX],
            assumptions=["the bordered-Hessian solve (totalddx/partialddx) is an arbitrary symbolic matrix: only the row bookkeeping around it is decided"],
            stubs=["FreeEnergyHessian.totalddx / partialddx: symbolic matrix", "composition set: phase_record with nonvacant_elements, phase_dof, num_internal_cons"],
            bounds={"components": "2-4", "reference position": "first / middle / last"},
            params={"quick": [{"els": ["AL", "CR", "NI"], "ref": r} for r in ("AL", "CR", "NI")] + [{"els": ["AL", "NI"], "ref": "NI", "dof": 2}, {"els": ["AL", "CR", "FE", "NI"], "ref": "FE", "dof": 4}],
                    "thorough": [{"els": ["AL", "CR", "FE", "NI"], "ref": r, "dof": 5, "ncons": 2} for r in ("AL", "CR", "FE", "NI")]}),
]
