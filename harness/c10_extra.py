"""C10 (extra) -- Python glue of FreeEnergyHessian.dMudX / partialdMudX around the (stubbed) bordered-Hessian solve:
row k of dMudX is (d mu_k/dx - d mu_ref/dx) for the k-th non-reference element in alphabetical order, whatever the
alphabetical position of the reference element (first, middle, last)."""
import numpy as np
from vk.run import Harness
from kawin.thermo import FreeEnergyHessian as FEH


class _PR:
    def __init__(self, els, dof, ncons):
        self.nonvacant_elements = list(els); self.phase_dof = dof; self.num_internal_cons = ncons


class _CS:
    def __init__(self, els, dof, ncons):
        self.phase_record = _PR(els, dof, ncons)


def dmudx_rows(ctx, els=("AL", "CR", "NI"), ref="CR", dof=3, ncons=1):
    n = len(els)
    i0 = dof + ncons + 1
    ddx = ctx.reals("ddx", (i0 + n, n - 1), (-2.0, 2.0))
    cs = _CS(els, dof, ncons)
    old_t, old_p = FEH.totalddx, FEH.partialddx
    FEH.totalddx = lambda mu, c, r: ddx
    FEH.partialddx = lambda mu, c: ddx
    try:
        d = FEH.dMudX(np.zeros(n), cs, ref)
        pd = FEH.partialdMudX(np.zeros(n), cs)
    finally:
        FEH.totalddx, FEH.partialddx = old_t, old_p
    ctx.observe("dmudx", d)
    ctx.prove("dMudX is (n-1) x (n-1)", np.shape(d) == (n - 1, n - 1))
    r = list(els).index(ref)
    nonref = [k for k in range(n) if k != r]
    for c, k in enumerate(nonref):
        for j in range(n - 1):
            ctx.prove("row of dMudX = derivative row of that (alphabetical, non-reference) element minus the reference element's row",
                      ctx.eq(d[c, j], ddx[i0 + k, j] - ddx[i0 + r, j]))
    ctx.prove("partialdMudX returns the element rows of the solve", np.shape(pd) == (n, n - 1) and ctx.all([ctx.eq(pd[k, j], ddx[i0 + k, j]) for k in range(n) for j in range(n - 1)]))


# ----------------------------------------------------------------------------------------------------------------------
# the solve itself: inverse of the bordered Hessian with the documented fallback

def _structurally_diagonal(a):
    n = a.shape[0]
    return all(isinstance(a[i, j], (int, float)) and a[i, j] == 0 for i in range(n) for j in range(n) if i != j)


def _det3(a):
    n = a.shape[0]
    if n == 1:
        return a[0, 0]
    if n == 2:
        return a[0, 0] * a[1, 1] - a[0, 1] * a[1, 0]
    return (a[0, 0] * (a[1, 1] * a[2, 2] - a[1, 2] * a[2, 1]) - a[0, 1] * (a[1, 0] * a[2, 2] - a[1, 2] * a[2, 0])
            + a[0, 2] * (a[1, 0] * a[2, 1] - a[1, 1] * a[2, 0]))


def _exact_inverse(a, pseudo):
    """exact-arithmetic np.linalg.inv (raises LinAlgError iff singular) / np.linalg.pinv (Moore-Penrose) for the two
    matrix families of this harness: structurally diagonal of any size, or non-singular up to 3 x 3"""
    from vk import symnp
    from vk.core import FacadeMissing
    import numpy as _rnp
    p = _rnp.asarray(a, dtype=object)
    n = p.shape[0]
    if _structurally_diagonal(p):
        out = _rnp.empty((n, n), dtype=object); out.fill(0.0)
        for i in range(n):
            if bool(p[i, i] == 0):
                if not pseudo:
                    raise _rnp.linalg.LinAlgError("Singular matrix")
            else:
                out[i, i] = 1.0 / p[i, i]
        return out.view(symnp.SymArray)
    if n <= 3:
        if bool(_det3(p) == 0):
            if not pseudo:
                raise _rnp.linalg.LinAlgError("Singular matrix")
            raise FacadeMissing("pseudo-inverse of a singular non-diagonal symbolic matrix")
        return symnp.inv_cofactor(p.view(symnp.SymArray))
    raise FacadeMissing("inverse of a symbolic %d x %d non-diagonal matrix" % (n, n))


class _LinalgWithPinv:
    def __init__(self, base):
        self._base = base

    def __getattr__(self, name):
        if name == "pinv":
            return lambda a, *r, **k: _exact_inverse(a, True)
        return getattr(self._base, name)


class _NpWithPinv:
    """the facade as seen by kawin.thermo.FreeEnergyHessian, plus an exact Moore-Penrose model for linalg.pinv (the
    facade has none; the unmodified code never calls it)"""

    def __init__(self, base):
        self.__dict__["_base"] = base
        self.__dict__["linalg"] = _LinalgWithPinv(base.linalg)

    def __getattr__(self, name):
        return getattr(self._base, name)


def solve_fallback(ctx, fn="partial", kind="general", ref="NI", zero_at=0):
    """partialddx / totalddx = inverse(bordered Hessian) times the composition right-hand side when the Hessian is
    non-singular, and -- the fallback documented in the source ("if curvature is undefined, then assume inverse is 0")
    -- all zeros when the Hessian is singular (never a pseudo-inverse solution)"""
    els = ["AL", "NI"] if not (kind == "general" and fn == "partial") else ["AL"]
    n = len(els)
    dof, ncons = (0, 0) if kind == "general" else (2, 1)
    size = dof + ncons + n + 1
    i0 = dof + ncons + 1
    if kind == "general":
        # partial: arbitrary 2 x 2 (one component);  total: 3 x 3 lower-triangular (two components)
        H = ctx.reals("H", (size, size), (-2.0, 2.0))
        if size == 3:
            H = H.copy()
            for i in range(size):
                for j in range(i + 1, size):
                    H[i, j] = 0.0
        ctx.assume(_det3(H) != 0, "non-singular Hessian")
    else:
        H = np.zeros((size, size))
        if kind == "diag":
            d = ctx.reals("h", size, (0.5, 2.0))
            for i in range(size):
                if i != zero_at:
                    ctx.assume(d[i] != 0)
                    H[i, i] = d[i]
    cs = _CS(els, dof, ncons)
    cs.phase_record.num_statevars = 3
    old_h, old_np = FEH.hessian, FEH.__dict__["np"]
    FEH.hessian = lambda mu, c: H
    if ctx.mode != "concrete":
        FEH.__dict__["np"] = _NpWithPinv(old_np)
    try:
        mu = np.zeros(n)
        r = FEH.partialddx(mu, cs) if fn == "partial" else FEH.totalddx(mu, cs, ref)
    finally:
        FEH.hessian = old_h; FEH.__dict__["np"] = old_np
    ctx.observe("ddx", r)
    # right-hand side written from the docstrings: d/dx_A partial = unit change of component A; total = A minus reference
    cols = n if fn == "partial" else n - 1
    b = [[0.0] * cols for _ in range(size)]
    if fn == "partial":
        for A in range(n):
            b[i0 + A][A] = -1.0
    else:
        c = 0
        for A in range(n):
            if els[A] != ref:
                b[i0 + A][c] = -1.0; c += 1
            else:
                b[i0 + A] = [1.0] * cols
    ctx.prove("shape of the derivative array", np.shape(r) == (size, cols))
    if kind == "general":
        for i in range(size):
            for j in range(cols):
                ctx.prove("non-singular Hessian: result solves the bordered system H r = b", ctx.eq(sum(H[i, k] * r[k, j] for k in range(size)), b[i][j], atol=1e-9))
    else:
        ctx.prove("singular Hessian: result is the documented fallback, all zeros",
                  ctx.all([ctx.eq(r[i, j], 0.0, atol=0.0) for i in range(size) for j in range(cols)]))


def _rhs(fn, els, ref, size, i0):
    n = len(els)
    cols = n if fn == "partial" else n - 1
    b = [[0.0] * cols for _ in range(size)]
    if fn == "partial":
        for A in range(n):
            b[i0 + A][A] = -1.0
    else:
        c = 0
        for A in range(n):
            if els[A] != ref:
                b[i0 + A][c] = -1.0; c += 1
            else:
                b[i0 + A] = [1.0] * cols
    return b, cols


def solve_reuse(ctx, seq=("partial", "partial"), kinds=("diag", "diag"), ref="NI", zero_at=1):
    """the same composition-set OBJECT is evaluated twice while its content changed in between (pycalphad's solver updates
    the cached composition set in place when the next state point is computed with removeCache=False; the temperature
    changed too): the second partialddx / totalddx / dMudX result belongs to the SECOND state -- it solves the bordered
    system of the second Hessian (all zeros if that one is singular) and equals an evaluation on a fresh object"""
    els = ["AL", "NI"]; n = 2
    general = "general" in kinds
    dof, ncons = (0, 0) if general else (2, 1)
    size = dof + ncons + n + 1
    i0 = dof + ncons + 1

    def mk(kind, tag):
        if kind == "general":                      # lower-triangular 3 x 3, non-singular
            H = ctx.reals(tag + "H", (size, size), (0.5, 2.0)).copy()
            for i in range(size):
                for j in range(i + 1, size):
                    H[i, j] = 0.0
            ctx.assume(_det3(H) != 0, "non-singular Hessian")
            return H
        H = np.zeros((size, size))
        d = ctx.reals(tag + "h", size, (0.5, 2.0))
        for i in range(size):
            if not (kind == "singular" and i == zero_at):
                ctx.assume(d[i] != 0)
                H[i, i] = d[i]
        return H
    Hs = [mk(kinds[0], "first_"), mk(kinds[1], "second_")]
    mus = [ctx.reals("mu_first", n, (-1.0, 1.0)), ctx.reals("mu_second", n, (-1.0, 1.0))]
    cs = _CS(els, dof, ncons)
    cs.phase_record.num_statevars = 3
    cs.state = 0                                   # which state the (one) object currently holds
    fresh = _CS(els, dof, ncons); fresh.phase_record.num_statevars = 3; fresh.state = 1
    old_h, old_np = FEH.hessian, FEH.__dict__["np"]
    FEH.hessian = lambda mu, c: Hs[c.state]
    if ctx.mode != "concrete":
        FEH.__dict__["np"] = _NpWithPinv(old_np)

    def call(fn, c, mu):
        if fn == "partial":
            return FEH.partialddx(mu, c)
        if fn == "total":
            return FEH.totalddx(mu, c, ref)
        return FEH.dMudX(mu, c, ref)
    try:
        call(seq[0], cs, mus[0])                   # first state point
        cs.state = 1                               # the solver moved the same object on to the next state point
        r = call(seq[1], cs, mus[1])
        rf = call(seq[1], fresh, mus[1])           # a new object holding the second state
    finally:
        FEH.hessian = old_h; FEH.__dict__["np"] = old_np
    ctx.observe("second", r)
    H = Hs[1]
    ctx.prove("second evaluation on the re-used object equals an evaluation on a fresh object holding the second state",
              np.shape(r) == np.shape(rf) and ctx.all([ctx.eq(r[i], rf[i], atol=1e-12) for i in np.ndindex(*np.shape(r))]))
    if seq[1] in ("partial", "total"):
        b, cols = _rhs(seq[1], els, ref, size, i0)
        if kinds[1] == "singular":
            ctx.prove("second evaluation on the re-used object: singular second Hessian gives the documented zeros",
                      ctx.all([ctx.eq(r[i, j], 0.0, atol=0.0) for i in range(size) for j in range(cols)]))
        else:
            for i in range(size):
                for j in range(cols):
                    ctx.prove("second evaluation on the re-used object solves the bordered system of the SECOND Hessian",
                              ctx.eq(sum(H[i, k] * r[k, j] for k in range(size)), b[i][j], atol=1e-9))


# ----------------------------------------------------------------------------------------------------------------------
# two thermodynamics objects built from one Database object (ordered precipitate -> DIS_<matrix> phase)

class _Phase:
    def __init__(self, name, hints):
        self.name = name; self.model_hints = dict(hints); self.constituents = [["AL", "CR", "NI"], ["VA"]]; self.sublattices = [1.0, 1.0]


class _Params(list):
    """pycalphad Database._parameters (a tinydb table): only insert() is used"""

    def insert(self, doc):
        self.append(dict(doc))
        return len(self)


class _Database:
    """stand-in for pycalphad.Database: phases dict, _parameters table, search(query) with the real tinydb query"""

    def __init__(self):
        self.phases = {}
        self._parameters = _Params()

    def search(self, query):
        return [p for p in self._parameters if query(p)]


def shared_database(ctx, nG=2, nMQ=2, objects=2, other=True):
    """GeneralThermodynamics._forceDisorder for `objects` thermodynamics objects built one after the other from the SAME
    database object: afterwards the disordered copy DIS_<matrix> holds every parameter of the matrix phase exactly once
    per parameter type (same count, same sum of the -- symbolic -- parameter values), i.e. the second object sees the
    same free-energy and mobility description as the first"""
    from kawin.thermo.Thermodynamics import GeneralThermodynamics
    db = _Database()
    mat, prec = "FCC_A1", "FCC_L12"
    hints = {"ordered_phase": prec, "disordered_phase": mat}
    db.phases[mat] = _Phase(mat, hints); db.phases[prec] = _Phase(prec, hints)
    types = [("G", nG), ("MQ", nMQ)]
    k = 0
    for t, cnt in types:
        for i in range(cnt):
            db._parameters.insert({"phase_name": mat, "parameter_type": t, "parameter_order": i, "constituent_array": (("AL", "NI"), ("VA",)),
                                   "diffusing_species": "NI" if t == "MQ" else None, "parameter": ctx.real("p_%s%d" % (t, i), (0.5, 2.0))})
            k += 1
    if other:
        db._parameters.insert({"phase_name": prec, "parameter_type": "G", "parameter_order": 0, "constituent_array": (("AL",), ("NI",)),
                               "diffusing_species": None, "parameter": ctx.real("p_prec", (0.5, 2.0))})
    parent0 = [dict(p) for p in db._parameters]

    def summary(phase):
        out = {}
        for t, _ in types:
            ps = [p for p in db._parameters if p["phase_name"] == phase and p["parameter_type"] == t]
            out[t] = (len(ps), sum((p["parameter"] for p in ps), 0.0 * parent0[0]["parameter"]))
        return out
    want = summary(mat)
    for o in range(objects):
        th = object.__new__(GeneralThermodynamics)
        th.db = db
        th.phases = [mat, prec]
        th._forceDisorder(th.phases[0])
        tag = "object %d: " % (o + 1) if o < objects - 1 else "last object: "
        dis = "DIS_" + mat
        ctx.prove(tag + "matrix phase of the object is the disordered copy", th.phases[0] == dis and dis in db.phases and db.phases[dis].name == dis)
        ctx.prove(tag + "disordered copy carries no order/disorder hints, the matrix phase keeps its own",
                  "ordered_phase" not in db.phases[dis].model_hints and "disordered_phase" not in db.phases[dis].model_hints
                  and db.phases[mat].model_hints == hints and db.phases[mat].name == mat)
        got = summary(dis)
        for t, _ in types:
            ctx.observe("%ssum_%s" % (tag, t), got[t][1])
            ctx.prove(tag + "disordered copy holds each %s parameter of the matrix phase exactly once (count)" % t, got[t][0] == want[t][0])
            ctx.prove(tag + "disordered copy holds each %s parameter of the matrix phase exactly once (sum of values)" % t, ctx.eq(got[t][1], want[t][1]))
        now = summary(mat)
        ctx.prove(tag + "parameters of the matrix phase itself untouched",
                  all(now[t][0] == want[t][0] for t, _ in types) and [p for p in db._parameters if p["phase_name"] in (mat, prec)] == parent0)


def _solve_hook(a):
    from vk import core, symnp
    return _exact_inverse(a, False)


EXTRA = [
    Harness("C10.dmudx_rows", dmudx_rows, functions=[FEH.dMudX, FEH.partialdMudX],
            assumptions=["the bordered-Hessian solve (totalddx/partialddx) is an arbitrary symbolic matrix: only the row bookkeeping around it is decided"],
            stubs=["FreeEnergyHessian.totalddx / partialddx: symbolic matrix", "composition set: phase_record with nonvacant_elements, phase_dof, num_internal_cons"],
            bounds={"components": "2-4", "reference position": "first / middle / last"},
            params={"quick": [{"els": ["AL", "CR", "NI"], "ref": r} for r in ("AL", "CR", "NI")] + [{"els": ["AL", "NI"], "ref": "NI", "dof": 2}, {"els": ["AL", "CR", "FE", "NI"], "ref": "FE", "dof": 4}],
                    "thorough": [{"els": ["AL", "CR", "FE", "NI"], "ref": r, "dof": 5, "ncons": 2} for r in ("AL", "CR", "FE", "NI")]}),
    Harness("C10.solve_reuse", solve_reuse, functions=[FEH.partialddx, FEH.totalddx, FEH.dMudX], opts={"inv_hook": _solve_hook},
            assumptions=["exact arithmetic; Hessian families: diagonal 6 x 6 (non-singular or with one structural zero) and non-singular lower-triangular 3 x 3",
                         "the two states have unrelated Hessians and chemical potentials (composition and temperature both changed)"],
            stubs=["FreeEnergyHessian.hessian: symbolic matrix depending on the state the composition-set object currently holds",
                   "np.linalg.inv: exact inverse, LinAlgError iff singular", "composition set: one object whose content is replaced between the calls"],
            bounds={"components": 2, "evaluations on the same object": 2},
            params={"quick": [{"seq": ["partial", "partial"], "kinds": ["diag", "diag"]}, {"seq": ["total", "total"], "kinds": ["general", "general"], "ref": "AL"},
                              {"seq": ["partial", "total"], "kinds": ["diag", "diag"]}, {"seq": ["total", "dMudX"], "kinds": ["diag", "diag"], "ref": "AL"},
                              {"seq": ["partial", "partial"], "kinds": ["diag", "singular"]}, {"seq": ["total", "partial"], "kinds": ["singular", "diag"]}],
                    "thorough": [{"seq": [a, b], "kinds": [k1, k2], "ref": r} for a in ("partial", "total", "dMudX") for b in ("partial", "total", "dMudX")
                                 for k1, k2 in (("diag", "diag"), ("diag", "singular"), ("singular", "diag"), ("general", "general")) for r in ("AL", "NI")]}),
    Harness("C10.shared_database", shared_database, functions=[__import__("kawin.thermo.Thermodynamics", fromlist=["x"]).GeneralThermodynamics._forceDisorder],
            assumptions=["parameter values are arbitrary positive reals (positive only so that a doubled sum differs from the single one)"],
            stubs=["pycalphad Database: phases dict (name, model_hints), _parameters table with insert(), search(query) evaluating the real tinydb query on the entries"],
            bounds={"parameters per type": "nG, nMQ", "objects sharing the database": "objects"},
            params={"quick": [{"nG": 2, "nMQ": 2, "objects": 1}, {"nG": 2, "nMQ": 2, "objects": 2}, {"nG": 1, "nMQ": 3, "objects": 3, "other": False}],
                    "thorough": [{"nG": g, "nMQ": q, "objects": o} for g in (1, 3) for q in (1, 3) for o in (1, 2, 3)]}),
    Harness("C10.solve_fallback", solve_fallback, functions=[FEH.partialddx, FEH.totalddx], opts={"inv_hook": _solve_hook},
            assumptions=["exact arithmetic: np.linalg.inv raises LinAlgError exactly for singular matrices; conditioning / rcond effects of "
                         "floating-point solves are NOT covered",
                         "Hessian families: arbitrary non-singular 2 x 2 / lower-triangular 3 x 3 (no internal degrees of freedom), and diagonal 6 x 6 with one structural zero, or all zero"],
            stubs=["FreeEnergyHessian.hessian: symbolic matrix", "np.linalg.inv: exact inverse (cofactors / diagonal), LinAlgError iff singular",
                   "np.linalg.pinv (not used by the unmodified code): exact Moore-Penrose inverse for the same families",
                   "composition set: phase_record with nonvacant_elements, phase_dof, num_internal_cons"],
            bounds={"components": "1-2", "matrix size": "2-3 (non-singular), 6 (diagonal)"},
            params={"quick": [{"fn": "partial", "kind": "general"}, {"fn": "total", "kind": "general", "ref": "AL"},
                              {"fn": "partial", "kind": "diag", "zero_at": 0}, {"fn": "partial", "kind": "diag", "zero_at": 3},
                              {"fn": "partial", "kind": "diag", "zero_at": 5}, {"fn": "total", "kind": "diag", "zero_at": 1},
                              {"fn": "partial", "kind": "zero"}],
                    "thorough": [{"fn": f, "kind": "general", "ref": r} for f in ("partial", "total") for r in ("AL", "NI")] +
                                [{"fn": f, "kind": "diag", "zero_at": z, "ref": "NI"} for f in ("partial", "total") for z in range(6)] +
                                [{"fn": f, "kind": "zero"} for f in ("partial", "total")]}),
]
