"""C02 -- reported precipitate statistics are moments of the size distribution.

moments          : density / mean radius / volume fraction written by the real _calcMassBalance equal the zeroth moment, the
                   first/zeroth ratio and the scaled third moment of the distribution handed in (threshold branch included),
                   also right after the grid has been moved while keeping the class count (stale-radius caches).
transport_count  : one real Euler update (getdXdtEuler, correctdXdtEuler through the KWN model hooks and DESolver._updateX):
                   the number density grows by at most nucRate*dt; the only loss is through the smallest class; nothing enters
                   through the top of the grid.
update_truncates : UpdatePBMEuler only removes (classes below one particle), never adds.
"""
import numpy as np
from vk.run import Harness
from harness.kwn_common import mk_kwn, radii, mk_grid
from kawin.precipitation.KWNEuler import PrecipitateModel
from kawin.precipitation.KWNBase import PrecipitateBase
from kawin.precipitation.PopulationBalance import PopulationBalanceModel as PBM
from kawin.solver.Solver import DESolver, SolverType
from harness import c08 as _c08


def moments(ctx, nph=1, nel=1, ncls=2, regrid=False):
    m, info = mk_kwn(ctx, nph, nel, ncls, hist=1)
    x = [ctx.reals("x%d" % p, ncls, (0.0, 0.3)) for p in range(nph)]
    for p in range(nph):
        for i in range(ncls):
            ctx.assume(x[p][i] >= 0)
    if regrid:
        # evaluate the statistics once, then move every grid (same number of classes) and evaluate again
        Y0 = m._calcMassBalance(0.0, x, m.pData.copySlice(0))
        for p in range(nph):
            b0, w = mk_grid(ctx, m.PBM[p], ncls, "p%d_new" % p)
            info["b0"][p] = b0; info["w"][p] = w
            m.PBM[p].PSD = info["psd_prev"][p]
    Y = m._calcMassBalance(0.0, x, m.pData.copySlice(0))
    ctx.observe("density", Y.precipitateDensity[0]); ctx.observe("Ravg", Y.Ravg[0]); ctx.observe("volFrac", Y.volFrac[0])
    for p in range(nph):
        r = radii(info, p, ncls)
        n0 = sum(x[p][i] for i in range(ncls)); m1 = sum(x[p][i] * r[i] for i in range(ncls)); m3 = sum(x[p][i] * r[i] ** 3 for i in range(ncls))
        empty = n0 < info["minDens"]
        ctx.prove("number density is the zeroth moment", ctx.eq(Y.precipitateDensity[0, p], n0))
        ctx.prove("mean radius is first/zeroth moment (0 below the density threshold)",
                  ctx.all([ctx.implies(empty, ctx.eq(Y.Ravg[0, p], 0.0)), ctx.implies(ctx.neg(empty), ctx.eq(Y.Ravg[0, p] * n0, m1))]))
        raw = info["ratio"][p] * info["vf"][p] * m3
        ctx.prove("volume fraction is the scaled third moment capped at 1 (0 below the density threshold)",
                  ctx.all([ctx.implies(empty, ctx.eq(Y.volFrac[0, p], 0.0)),
                           ctx.implies(ctx.neg(empty), ctx.eq(Y.volFrac[0, p], ctx.ite(raw <= 1, raw, 1.0 + 0.0 * raw)))]))
        ctx.prove("mean aspect ratio of spheres is 1 (0 below the threshold)",
                  ctx.all([ctx.implies(empty, ctx.eq(Y.ARavg[0, p], 0.0)), ctx.implies(ctx.neg(empty), ctx.eq(Y.ARavg[0, p], 1.0))]))
        ctx.prove("statistics lie in their ranges", ctx.all([ctx.le(0.0, Y.volFrac[0, p]), ctx.le(Y.volFrac[0, p], 1.0), ctx.le(0.0, Y.Ravg[0, p]), ctx.le(0.0, Y.precipitateDensity[0, p])]))


def transport_count(ctx, ncls=3, kind="euler"):
    m, info = mk_kwn(ctx, 1, 1, ncls, hist=1)
    pbm = m.PBM[0]
    x = ctx.reals("x", ncls, (0.0, 5.0))
    for i in range(ncls):
        ctx.assume(x[i] >= 0)
    g = ctx.reals("growth", ncls + 1, (-1.0, 1.0))
    nuc = ctx.real("nucRate", (0.0, 2.0)); rn = ctx.real("Rnuc", (0.2, 2.5)); dt = ctx.real("dt", (0.05, 1.0))
    ctx.assume(nuc >= 0); ctx.assume(dt > 0); ctx.assume(dt < 1e29)
    Y = m.pData.copySlice(0)
    Y.nucRate = np.array([[nuc]]) if ctx.mode == "concrete" else Y.nucRate
    Y.nucRate[0, 0] = nuc; Y.Rnuc[0, 0] = rn
    m._currY = Y
    m.growth = [g]
    # real model hooks, real solver update
    s = DESolver(SolverType.EXPLICITEULER)
    s.setdXdtFunctions(lambda t, X: m._getdXdt(t, X, m._currY, m.growth), m.correctdXdt, lambda d: dt, m.flattenX, m.unflattenX)
    s._dtmin = 0.0; s._dtmax = 1e30; s._X0 = [x]
    xs = [x[i] * 1 for i in range(ncls)]
    flat, dtu = s.iterator(s._getdXdt, 0.0, m.flattenX([x]), s._updateX)
    new = m.unflattenX(flat, [x])[0]
    ctx.observe("new", new)
    tot_old = sum(xs); tot_new = sum(new[i] for i in range(ncls))
    ctx.prove("number density grows by at most nucRate*dt", ctx.le(tot_new, tot_old + nuc * dt))
    ctx.prove("nothing enters or leaves through the top of the grid except outward growth", ctx.le(0.0, pbm._netFlux[ncls]))
    ctx.prove("the smallest class only loses particles through its lower face", ctx.le(pbm._netFlux[0], 0.0))
    ctx.prove("change of the number density = nucleation - loss through the smallest class - growth out of the largest class",
              ctx.eq(tot_new - tot_old, dt * (nuc + pbm._netFlux[0] - pbm._netFlux[ncls])))
    nz = ctx.eq(nuc, 0.0, rtol=0.0)
    ctx.prove("with zero nucleation rate the number density never increases", ctx.implies(nz, ctx.le(tot_new, tot_old)))
    ctx.prove("state handed to the iterator is not modified", ctx.all([ctx.eq(x[i], xs[i]) for i in range(ncls)]))
    # the update that follows (classes below one particle are removed) must not create particles either
    single_face = ctx.all([ctx.any([g[i] >= 0, g[i + 1] <= 0]) for i in range(ncls)])     # no class loses through both faces
    newl = [new[i] * 1 for i in range(ncls)]
    pbm.UpdatePBMEuler(ctx.real("t_upd", (0.1, 1.0)), new)
    tot_upd = sum(pbm.PSD[i] for i in range(ncls))
    ctx.prove("no class that loses through one face only becomes negative", ctx.implies(single_face, ctx.all([ctx.le(0.0, newl[i]) for i in range(ncls)])))
    ctx.prove("recorded number density after the update grows by at most nucRate*dt (no class loses through both faces)",
              ctx.implies(single_face, ctx.le(tot_upd, tot_old + nuc * dt)))
    ctx.prove("recorded number density after the update grows by at most nucRate*dt (a class loses through both faces beyond its content)",
              ctx.implies(ctx.neg(single_face), ctx.le(tot_upd, tot_old + nuc * dt)))


def update_truncates(ctx, ncls=3):
    m, info = mk_kwn(ctx, 1, 1, ncls, hist=1)
    pbm = m.PBM[0]
    newN = ctx.reals("newN", ncls, (0.0, 4.0))
    for i in range(ncls):
        ctx.assume(newN[i] >= 0)
    given = [newN[i] * 1 for i in range(ncls)]
    pbm.UpdatePBMEuler(ctx.real("t", (0.0, 1.0)), newN)
    ctx.observe("psd", pbm.PSD)
    ctx.prove("update never adds particles", ctx.le(sum(pbm.PSD[i] for i in range(ncls)), sum(given)))
    for i in range(ncls):
        ctx.prove("stored class = given class, or removed because it held less than one particle",
                  ctx.any([ctx.eq(pbm.PSD[i], given[i]), ctx.all([ctx.eq(pbm.PSD[i], 0.0), ctx.lt(given[i], 1.0)])]))


def pbm_per_phase(ctx, nph=2, how="all", default=False):
    """each phase's statistics are moments of THAT phase's distribution: after the real setPBMParameters (for all phases at once, or
    phase by phase) -- or with the default grids of the constructor -- writing the distribution / extending the grid of one phase leaves
    the distributions and grids of the other phases alone"""
    from harness.kwn_common import PH, EL
    m = PrecipitateModel(phases=PH[:nph], elements=EL[:1])
    if not default:
        if how == "all":
            m.setPBMParameters(1.0, 2.0, 4, 2, 8, True, None)
        elif how == "named_all":
            m.setPBMParameters(1.0, 2.0, 4, 2, 8, True, "all")
        else:
            for p in range(nph):
                m.setPBMParameters(1.0, 2.0, 4, 2, 8, True, PH[p])
    nb = m.PBM[0].bins
    xs = []
    for p in range(nph):
        x = ctx.reals("N_%s" % PH[p], m.PBM[p].bins, (1.5, 4.0))
        for i in range(len(x)):
            ctx.assume(x[i] > 1)
        xs.append(x)
    t = ctx.real("t", (0.1, 1.0))
    for p in range(nph):
        m.PBM[p].UpdatePBMEuler(t, xs[p])
    for p in range(nph):
        ctx.prove("phase keeps the distribution written to it, whatever was written to the other phases afterwards",
                  len(m.PBM[p].PSD) == len(xs[p]) and bool(ctx.all([ctx.eq(m.PBM[p].PSD[i], xs[p][i]) for i in range(len(xs[p]))])))
        ctx.prove("number density of the phase is the zeroth moment of its own distribution",
                  ctx.eq(m.PBM[p].ZeroMoment(), sum(xs[p][i] for i in range(len(xs[p])))))
    m.PBM[0].addSizeClasses(1)
    for p in range(1, nph):
        ctx.prove("extending the grid of one phase leaves the grid of the others alone", m.PBM[p].bins == nb and len(m.PBM[p].PSD) == nb and len(m.PBM[p].PSDbounds) == nb + 1)


def remesh_count(ctx, n=2, nb=2):
    """a step on which the size classes are re-meshed (real changeSizeClasses on an arbitrary valid state, new grid covering the old one):
    the zeroth moment -- the reported number density -- does not increase (there is no nucleation in a re-mesh)"""
    pbm, b0, w, psd = _c08.mk_state(ctx, n)
    cmin = ctx.real("cMin", (0.3, 1.0)); cmax = ctx.real("cMax", (1.5, 3.0))
    ctx.assume(cmin > 0); ctx.assume(cmin <= b0); ctx.assume(cmax >= b0 + n * w)
    before = sum(psd[i] for i in range(n))
    pbm.changeSizeClasses(cmin, cmax, nb)
    after = sum(pbm.PSD[i] for i in range(pbm.bins))
    ctx.prove("number density does not increase on a re-mesh that covers the populated range", ctx.le(after, before))


def psd_update_every_phase(ctx, **kw):
    """as C03.update_psd_faults (imported lazily: c03 imports c02): after the size-distribution update of a step EVERY phase's stored distribution,
    grid, tables and PSD record were brought up to date, also when an earlier-listed phase was reset -- the statistics appended for the step are
    moments of a distribution the model really holds"""
    from harness import c03
    return c03.update_psd_faults(ctx, **kw)


_F = [PrecipitateModel._calcMassBalance, PBM.ZeroMomentFromN, PBM.MomentFromN, PBM.ThirdMomentFromN, PBM.WeightedMomentFromN, PBM.getdXdtEuler,
      PBM.correctdXdtEuler, PBM.UpdatePBMEuler, PrecipitateModel._getdXdt, PrecipitateModel._correctdXdt, PrecipitateBase.correctdXdt, DESolver._updateX, DESolver._getdXdt]
_A = ["real arithmetic", "populations >= 0, uniform grids, molar volumes and volume factor > 0", "spherical shape factor (aspect ratio 1)"]
HARNESSES = [
    Harness("C02.pbm_per_phase", pbm_per_phase, functions=[PrecipitateModel.setPBMParameters, PrecipitateModel._resetArrays, PBM.UpdatePBMEuler, PBM.addSizeClasses, PBM.ZeroMoment],
            assumptions=["populations > 1 (nothing is truncated)"], bounds={"phases": "nph"},
            params={"quick": [{"nph": 2, "how": "all"}, {"nph": 2, "how": "each"}, {"nph": 2, "default": True}],
                    "thorough": [{"nph": 3, "how": h} for h in ("all", "named_all", "each")] + [{"nph": 3, "default": True}]}),
    Harness("C02.fixed_grid_extends", _c08.op_adjust, functions=[PBM.adjustSizeClassesEuler, PBM.addSizeClasses],
            assumptions=["as C08.op_adjust with adaptive binning off: a filled last class still gets classes appended, so growing particles do not leave through the top of the grid (the number density would fall without dissolution)"],
            opts={"ob_timeout": 30.0}, params={"quick": [{"n": 3, "orig": 4, "minb": 2, "maxb": 3, "adaptive": False, "diss": True}, {"n": 2, "orig": 4, "minb": 2, "maxb": 3, "adaptive": False, "diss": False}],
                                              "thorough": [{"n": 4, "orig": 8, "minb": 2, "maxb": 3, "adaptive": False, "diss": True}]}),
    Harness("C02.psd_update_every_phase", psd_update_every_phase, functions=[PrecipitateModel._updateParticleSizeDistribution],
            assumptions=["as C03.update_psd_faults, two phases, PSD recording on, the first-listed phase may be reset (negative driving force, no equilibrium)"],
            opts={"ob_timeout": 30.0}, budget={"quick": 150.0, "thorough": 600.0},
            params={"quick": [{"nph": 2, "ncls": 2, "nel": 2, "mode": "append", "recording": True}], "thorough": [{"nph": 3, "ncls": 2, "nel": 2, "mode": "append", "recording": True, "_shards": 4}]}),
    Harness("C02.remesh_count", remesh_count, functions=[PBM.changeSizeClasses, PBM.ThirdMoment],
            assumptions=["arbitrary valid state (uniform grid, populations >= 0); the new grid covers the old one"], opts={"ob_timeout": 40.0, "max_paths": 200},
            budget={"quick": 90.0, "thorough": 600.0}, params={"quick": [{"n": 2, "nb": 2}], "thorough": [{"n": 3, "nb": 2}, {"n": 2, "nb": 3}]}),
    Harness("C02.moments", moments, functions=_F, assumptions=_A, bounds={"phases": "nph", "classes": "ncls"}, opts={"ob_timeout": 40.0},
            params={"quick": [{"nph": 1, "nel": 1, "ncls": 2}, {"nph": 2, "nel": 1, "ncls": 3}, {"nph": 1, "nel": 1, "ncls": 2, "regrid": True}],
                    "thorough": [{"nph": 2, "nel": 2, "ncls": 4}, {"nph": 3, "nel": 1, "ncls": 3}, {"nph": 2, "nel": 1, "ncls": 3, "regrid": True}]}),
    Harness("C02.transport_count", transport_count, functions=_F, assumptions=_A + ["nucRate >= 0, dt > 0; growth field and nucleation radius unconstrained"],
            bounds={"classes": "ncls"},
            params={"quick": [{"ncls": 2}, {"ncls": 3, "_shards": 2}], "thorough": [{"ncls": 4, "_shards": 16}]}),
    Harness("C02.update_truncates", update_truncates, functions=_F, assumptions=_A, params={"quick": [{"ncls": 3}], "thorough": [{"ncls": 5}]}),
]


def stats_of_stored(ctx, ncls=3, nel=2, rdf=0):
    """one post-processing sequence of the real model on a symbolic state vector -- _processX, _calcMassBalance, _updateParticleSizeDistribution, in the
    order PrecipitateBase.postProcess runs them -- with a symbolic minimum radius: the statistics written for the step are the moments of the
    distribution the model holds after the step (classes below minRadius / the driving-force limit are cleared in BOTH places, or the reported
    density counts particles that are in no size class of the stored distribution)"""
    from harness import c03
    m, info = mk_kwn(ctx, 1, nel, ncls, hist=1)
    m.therm = c03.MultiStub(ctx, nel, [False] * 3)
    m.removeCache = False
    m.precipitateParameters[0]._gamma = 0.1
    m.PBM[0].originalBins = 4; m.PBM[0].maxBins = 10 * ncls; m.PBM[0].minBins = 1
    m.PBM[0].getDissolutionIndex = lambda *a, **k: 0
    m.growth = [ctx.reals("prev_growth", ncls + 1, (-1.0, 1.0))]
    ctx.assume(m.growth[0][0] > 0)
    m.pData.drivingForce = ctx.reals("dG", (1, 1), (0.0, 1.0)); ctx.assume(m.pData.drivingForce[0, 0] >= 0)
    m.RdrivingForceIndex = np.array([rdf], dtype=np.int32)
    m.constraints.minRadius = ctx.real("minRadius", (0.0, 4.0)); ctx.assume(m.constraints.minRadius >= 0)
    # populations are 0 or > 1 per class (the documented one-particle truncation is not the subject here); nothing in the last class: the grid is not extended
    y = ctx.reals("y0", ncls, (0.0, 3.0)); filled = [ctx.boolean("filled%d" % i) for i in range(ncls)]
    x0 = np.empty(ncls, dtype=object)
    for i in range(ncls):
        ctx.assume(y[i] > 0)
        x0[i] = (y[i] + 1.0) if (i < ncls - 1 and bool(filled[i])) else 0.0 * y[i]
    x = [x0 if ctx.mode != "concrete" else x0.astype(float)]
    t = ctx.real("t", (0.1, 1.0))
    m._processX(x)
    Y = m._calcMassBalance(t, x, m.pData.copySlice(0))
    m._updateParticleSizeDistribution(t, x)
    ctx.observe("reported density", Y.precipitateDensity[0, 0])
    if m.PBM[0].bins != ncls:
        return
    r = radii(info, 0, ncls)
    stored = m.PBM[0].PSD
    n0 = sum(stored[i] for i in range(ncls)); m1 = sum(stored[i] * r[i] for i in range(ncls))
    ctx.prove("reported number density is the zeroth moment of the distribution held after the step", ctx.eq(Y.precipitateDensity[0, 0], n0))
    ctx.prove("reported mean radius is first/zeroth moment of the distribution held after the step",
              ctx.implies(n0 > info["minDens"], ctx.eq(Y.Ravg[0, 0] * n0, m1)))
    for i in range(ncls):
        ctx.prove("no stored class below the minimum radius holds particles", ctx.implies(r[i] < m.constraints.minRadius, ctx.eq(stored[i], 0.0)))


HARNESSES.append(
    Harness("C02.stats_of_stored", stats_of_stored, functions=[PrecipitateModel._processX, PrecipitateModel._calcMassBalance, PrecipitateModel._updateParticleSizeDistribution, PBM.UpdatePBMEuler],
            assumptions=_A + ["multicomponent, one phase; populations are 0 or > 1 per class (the one-particle truncation is C02.update_truncates); last class empty and not all growth rates negative (grid unchanged; paths where it changes are skipped)",
                              "minRadius symbolic >= 0; driving-force index concrete (rdf)"],
            bounds={"classes": "ncls"}, opts={"ob_timeout": 30.0}, budget={"quick": 90.0, "thorough": 600.0},
            params={"quick": [{"ncls": 3, "nel": 2, "rdf": 0}], "thorough": [{"ncls": 4, "nel": 2, "rdf": 0}, {"ncls": 4, "nel": 1 + 1, "rdf": 1}, {"ncls": 5, "nel": 3, "rdf": 0}]}))
