"""C03 -- precipitation runs are well formed for every configuration and survive backend faults (unit level).

faults_multi  : real _growthRateMulti/_singleGrowthMulti with a backend stub that answers or returns None according to symbolic
                fault bits, for symbolic driving-force signs and densities: no internal error, outputs of the documented shapes,
                the documented fall-back (previous growth rate and previous equilibrium compositions) is what is returned.
faults_binary : real _createLookupBinary/_growthRateBinary with the interfacial-composition stub reporting 'unstable' (sentinel -1 /
                None) for a prefix of the size classes: no internal error, table shapes follow the grid.
getdt         : real getDt with the real Constraints.computeDTfrom*: positive, finite (every divisor non-zero), the minimum of the
                constraint steps, at most max(remaining time, 1.001*previous step).
record_grid   : UpdatePBMEuler with PSD recording on, adaptive and fixed grids: no internal error, aligned records.
fromdict      : fromDict(toDict()) leaves all recorded histories aligned and n consistent.
"""
import numpy as np
from vk.run import Harness
from harness.kwn_common import mk_kwn, mk_grid, radii
from kawin.precipitation.KWNEuler import PrecipitateModel
from kawin.precipitation.KWNBase import PrecipitateBase
from kawin.precipitation.PopulationBalance import PopulationBalanceModel as PBM
from kawin.precipitation.PrecipitationParameters import PrecipitationData, Constraints
from harness import c07 as _c07
from harness import c01 as _c01
from harness import c08 as _c08
from harness import c02 as _c02
from harness import c15 as _c15
from harness import c05 as _c05


class MultiStub:
    """stands in for MulticomponentThermodynamics: answers with fresh symbolic arrays or with None (fault)"""
    numElements = 3

    def __init__(self, ctx, nel, faults):
        self.ctx, self.nel, self.faults, self.calls = ctx, nel, faults, []

    def getGrowthAndInterfacialComposition(self, x, T, dG, R, gExtra, precPhase=None, removeCache=False, searchDir=None):
        k = len(self.calls)
        n = len(R)
        self.calls.append((precPhase, n))
        if bool(self.faults[k]):
            return None
        c = self.ctx
        return (c.reals("be%d_growth" % k, n, (-1.0, 1.0)), c.reals("be%d_xA" % k, (n, self.nel), (0.01, 0.2)), c.reals("be%d_xB" % k, (n, self.nel), (0.2, 0.8)),
                c.reals("be%d_xEqA" % k, self.nel, (0.01, 0.2)), c.reals("be%d_xEqB" % k, self.nel, (0.2, 0.8)))


def faults_multi(ctx, nph=2, ncls=2, nel=2, have_growth=True, no_tables=False):
    m, info = mk_kwn(ctx, nph, nel, ncls, hist=1)
    if no_tables:       # the state setup() leaves behind when none of its backend calls converged
        m.PSDXalpha = [None for _ in range(nph)]; m.PSDXbeta = [None for _ in range(nph)]
    faults = [ctx.boolean("fault%d" % k) for k in range(nph)]
    m.therm = MultiStub(ctx, nel, faults)
    m.removeCache = False
    for p in range(nph):
        m.precipitateParameters[p]._gamma = 0.1
    prev_growth = [ctx.reals("prev_growth%d" % p, ncls + 1, (-1.0, 1.0)) for p in range(nph)]
    if have_growth:
        m.growth = [g for g in prev_growth]
    m.pData.xEqAlpha = ctx.reals("rec_xEqA", (1, nph, nel), (0.01, 0.2)); m.pData.xEqBeta = ctx.reals("rec_xEqB", (1, nph, nel), (0.2, 0.8))
    old_tabs = None if no_tables else [([[m.PSDXalpha[p][i, e] * 1 for e in range(nel)] for i in range(ncls + 1)],
                                           [[m.PSDXbeta[p][i, e] * 1 for e in range(nel)] for i in range(ncls + 1)]) for p in range(nph)]
    Y = m.pData.copySlice(0)
    Y.drivingForce = ctx.reals("dG", (1, nph), (-1.0, 1.0)); Y.precipitateDensity = ctx.reals("dens", (1, nph), (0.0, 2.0))
    Y.temperature = ctx.reals("T", 1, (500.0, 900.0))
    for p in range(nph):
        ctx.assume(Y.precipitateDensity[0, p] >= 0)
    dGs = [Y.drivingForce[0, p] * 1 for p in range(nph)]; dens = [Y.precipitateDensity[0, p] * 1 for p in range(nph)]
    growth, Y2 = m._growthRateMulti(Y)
    ctx.prove("one growth array per phase", len(growth) == nph)
    for p in range(nph):
        ctx.prove("growth array covers every class boundary", np.shape(growth[p]) == (ncls + 1,))
        ctx.observe("growth%d" % p, growth[p])
    ctx.prove("equilibrium composition blocks have the documented shape", np.shape(Y2.xEqAlpha) == (1, nph, nel) and np.shape(Y2.xEqBeta) == (1, nph, nel))
    for p in range(nph):
        if no_tables and bool(ctx.all([dGs[p] < 0, dens[p] <= 0])):
            continue        # phase skipped (no precipitates, negative driving force): nothing reads its table
        ctx.prove("interfacial composition tables follow the grid", np.shape(m.PSDXalpha[p]) == (ncls + 1, nel) and np.shape(m.PSDXbeta[p]) == (ncls + 1, nel))
    if no_tables:
        # the step that follows books the precipitates' solute with these tables: no internal error
        xs = [ctx.reals("newN%d" % p, ncls, (2.0, 4.0)) for p in range(nph)]
        for p in range(nph):
            for i in range(ncls):
                ctx.assume(xs[p][i] > 1)
        ok_tables = all(m.PSDXbeta[p] is not None for p in range(nph) if not bool(ctx.all([dGs[p] < 0, dens[p] <= 0])))
        if all(m.PSDXbeta[p] is not None for p in range(nph)) or not ok_tables:
            Y3 = m._calcMassBalance(ctx.real("t_next", (0.1, 1.0)), xs, m.pData.copySlice(0))
            ctx.prove("mass balance after the faulty start completes", np.shape(Y3.fconc) == (1, nph, nel))
    # which backend call belongs to which phase (phases that are skipped do not call the backend)
    k = 0
    for p in range(nph):
        skipped = bool(ctx.all([dGs[p] < 0, dens[p] <= 0]))
        if skipped:
            ctx.prove("dissolved phase with negative driving force: zero growth, zero equilibrium compositions",
                      ctx.all([ctx.eq(growth[p][i], 0.0) for i in range(ncls + 1)] + [ctx.eq(Y2.xEqAlpha[0, p, e], 0.0) for e in range(nel)]))
            continue
        failed = bool(faults[k]); k += 1
        if failed and not bool(dGs[p] < 0):
            ctx.prove("backend fault with non-negative driving force: previous growth rate is reused",
                      ctx.all([ctx.eq(growth[p][i], prev_growth[p][i]) for i in range(ncls + 1)]))
            if old_tabs is not None and np.shape(m.PSDXbeta[p]) == (ncls + 1, nel):
                ctx.prove("backend fault with non-negative driving force: the interfacial composition tables keep their last valid values",
                          ctx.all([ctx.eq(m.PSDXalpha[p][i, e], old_tabs[p][0][i][e]) for i in range(ncls + 1) for e in range(nel)] +
                                  [ctx.eq(m.PSDXbeta[p][i, e], old_tabs[p][1][i][e]) for i in range(ncls + 1) for e in range(nel)]))
            ctx.prove("backend fault with non-negative driving force: previous equilibrium compositions are kept",
                      ctx.all([ctx.eq(Y2.xEqAlpha[0, p, e], m.pData.xEqAlpha[0, p, e]) for e in range(nel)] + [ctx.eq(Y2.xEqBeta[0, p, e], m.pData.xEqBeta[0, p, e]) for e in range(nel)]))
        if failed and bool(dGs[p] < 0):
            ctx.prove("backend fault with negative driving force: phase is reset (zero growth)", ctx.all([ctx.eq(growth[p][i], 0.0) for i in range(ncls + 1)]))


def setup_faults(ctx, nph=1, ncls=2, nel=2):
    """real PrecipitateModel.setup() (multicomponent branch) with a backend whose every call may fail"""
    m, info = mk_kwn(ctx, nph, nel, ncls, hist=1)
    nb = 2 * nph
    faults = [ctx.boolean("fault%d" % k) for k in range(nb)]
    stub = MultiStub(ctx, nel, faults)
    orig = stub.getGrowthAndInterfacialComposition
    stub.getGrowthAndInterfacialComposition = lambda x, T, dG, R, gE, **kw: orig(x, T, dG, np.atleast_1d(R), gE, **kw)
    m.therm = stub
    m.removeCache = False
    for p in range(nph):
        m.precipitateParameters[p]._gamma = 0.1
    m.matrixParameters._initComposition = info["x0"]
    m.temperatureParameters.setIsothermalTemperature(ctx.real("T", (500.0, 900.0)))

    def nuc(t, xx, Y):
        Y.drivingForce = ctx.reals("dG", (1, nph), (-1.0, 1.0))
        return Y
    m._calcNucleationRate = nuc
    m.setup()
    ctx.prove("setup completes and marks the model as set up", m._isSetup is True)
    ctx.prove("one growth array per phase, covering every class boundary", len(m.growth) == nph and all(np.shape(g) == (ncls + 1,) for g in m.growth))
    ctx.prove("initial record holds the alloy composition", ctx.all([ctx.eq(m.pData.composition[0, e], info["x0"][e]) for e in range(nel)]))
    ctx.prove("histories have one aligned record", all(len(getattr(m.pData, a)) == 1 for a in PrecipitationData.ATTRIBUTES))


def update_psd_faults(ctx, nph=1, ncls=2, nel=2, remesh=False, mode="any", recording=False):
    """real _updateParticleSizeDistribution (multicomponent) when the grid is extended / re-meshed and the backend call that follows
    fails: growth arrays and composition tables keep following the grid, the tables continue from the last valid values (they are what the
    next mass balance books the precipitates' solute with), and the PSD record stays aligned with the steps.
    mode: "any" grid symbolic, every branch of the automatic adjustment open; "append" the last class is filled and not every boundary
    shrinks (classes are appended); "remesh" concrete grid, more classes than maxBins (re-mesh: the table is interpolated)"""
    m, info = mk_kwn(ctx, nph, nel, ncls, hist=1)
    faults = [ctx.boolean("fault%d" % k) for k in range(3 * nph)]
    m.therm = MultiStub(ctx, nel, faults)
    m.removeCache = False
    remesh = remesh or mode == "remesh"
    for p in range(nph):
        m.precipitateParameters[p]._gamma = 0.1
        m.PBM[p].originalBins = 4
        m.PBM[p].maxBins = (ncls + 1) if remesh else 10 * ncls
        m.PBM[p].minBins = 2
        m.PBM[p].getDissolutionIndex = lambda *a, **k: 0      # C07.diss_index; its cubic comparisons only slow path exploration down here
        if mode == "remesh":
            m.PBM[p].min, m.PBM[p].max = 1.0, 1.0 + 0.5 * ncls      # concrete grid: the interpolation onto the new grid is then branch-free
            m.PBM[p].reset(False)
            m.PBM[p].PSD = info["psd_prev"][p]
        if recording:
            m.PBM[p].enableRecording()
    m.growth = [ctx.reals("prev_growth%d" % p, ncls + 1, (-1.0, 1.0)) for p in range(nph)]
    m.pData.drivingForce = ctx.reals("dG", (1, nph), (-1.0, 1.0)); m.pData.precipitateDensity = ctx.reals("dens", (1, nph), (0.5, 2.0))
    m.pData.xEqAlpha = ctx.reals("rec_xEqA", (1, nph, nel), (0.01, 0.2)); m.pData.xEqBeta = ctx.reals("rec_xEqB", (1, nph, nel), (0.2, 0.8))
    for p in range(nph):
        if not recording:
            ctx.assume(m.pData.drivingForce[0, p] >= 0)
        ctx.assume(m.pData.precipitateDensity[0, p] > 0)
    if recording:
        for p in range(nph):
            for e in range(nel):
                m.pData.xEqAlpha[0, p, e] = 0.0     # with a negative driving force this is the "phase was reset" marker
    m.constraints.minRadius = 0.0
    x = [ctx.reals("x%d" % p, ncls, (0.0, 4.0)) for p in range(nph)]
    for p in range(nph):
        for i in range(ncls):
            ctx.assume(x[p][i] >= 0)
        if mode in ("append", "remesh"):
            ctx.assume(x[p][ncls - 1] > 1); ctx.assume(m.growth[p][0] > 0)
    old_tab = [(np.array([[m.PSDXalpha[p][i, e] * 1 for e in range(nel)] for i in range(ncls + 1)], dtype=object),
                np.array([[m.PSDXbeta[p][i, e] * 1 for e in range(nel)] for i in range(ncls + 1)], dtype=object)) for p in range(nph)]
    t = ctx.real("t", (0.1, 1.0))
    m._updateParticleSizeDistribution(t, x)
    for p in range(nph):
        nb = m.PBM[p].bins
        ctx.prove("growth array follows the (possibly changed) grid", np.shape(m.growth[p]) == (nb + 1,))
        ctx.prove("interfacial composition tables follow the (possibly changed) grid", np.shape(m.PSDXalpha[p]) == (nb + 1, nel) and np.shape(m.PSDXbeta[p]) == (nb + 1, nel))
        ctx.prove("distribution follows the grid", len(m.PBM[p].PSD) == nb)
        if recording:
            ctx.prove("PSD record has one entry for this step, whatever happened to the phase",
                      len(m.PBM[p]._recordedTime) == 2 and bool(ctx.eq(m.PBM[p]._recordedTime[-1], t)))
    if mode in ("append", "remesh") and not recording and np.shape(m.PSDXbeta[0]) == (m.PBM[0].bins + 1, nel):
        # which backend call refreshed the tables: phase 0's grid change triggers one _growthRate (a call per phase); with one phase that is call 0
        calls = m.therm.calls
        ctx.prove("the grid changed and the growth rates were recomputed", m.PBM[0].bins != ncls and len(calls) >= nph)
        if nph == 1 and len(calls) >= 1 and m.PBM[0].bins != ncls:
            nb = m.PBM[0].bins
            if bool(faults[len(calls) - 1]):
                oa, ob = old_tab[0]
                if mode == "append":
                    ctx.prove("refresh failed after classes were appended: existing classes keep their last valid interfacial compositions",
                              ctx.all([ctx.eq(m.PSDXalpha[0][i, e], oa[i, e]) for i in range(ncls + 1) for e in range(nel)] +
                                      [ctx.eq(m.PSDXbeta[0][i, e], ob[i, e]) for i in range(ncls + 1) for e in range(nel)]))
                    ctx.prove("refresh failed after classes were appended: new classes continue from the largest previous class",
                              ctx.all([ctx.eq(m.PSDXbeta[0][i, e], ob[ncls, e]) for i in range(ncls + 1, nb + 1) for e in range(nel)]))
                else:
                    for e in range(nel):
                        lo = ctx.ite(ob[0, e] <= ob[1, e], ob[0, e], ob[1, e]); hi = ctx.ite(ob[0, e] <= ob[1, e], ob[1, e], ob[0, e])
                        for i in range(2, ncls + 1):
                            lo = ctx.ite(lo <= ob[i, e], lo, ob[i, e]); hi = ctx.ite(hi <= ob[i, e], ob[i, e], hi)
                        ctx.prove("refresh failed after a re-mesh: the table continues from the last valid values (between their extremes), it is not forgotten",
                                  ctx.all([ctx.all([ctx.le(lo, m.PSDXbeta[0][i, e]), ctx.le(m.PSDXbeta[0][i, e], hi)]) for i in range(nb + 1)]))


def sites_any_grids(ctx, **kw):
    """as C14.sites_compete (imported lazily): the nucleation-site bookkeeping works when the phases have different numbers of size classes
    (per-phase grids, or the adaptive grid extending one phase only): no internal error"""
    from harness import c14
    return c14.sites_compete(ctx, **kw)


def update_psd_binary_reset(ctx, ncls=2, calcAR=False):
    """real _updateParticleSizeDistribution (binary) on the step on which the phase is reset (negative driving force, no equilibrium) while
    its grid has another class count than the original one: everything defined per size class follows the reset grid -- tables, growth,
    equilibrium aspect ratios -- and the growth-rate guard is closed (no growth is computed from the zeroed table)"""
    m, info = mk_kwn(ctx, 1, 1, ncls, hist=1)
    pp = m.precipitateParameters[0]
    pp._gamma = 0.1; pp.nucleation._gamma = 0.1
    m.PBM[0].originalBins = ncls + 2; m.PBM[0].originalMin = 1.0; m.PBM[0].originalMax = 2.0
    m.PBM[0].maxBins = 10 * ncls; m.PBM[0].minBins = 2
    m.PBM[0].getDissolutionIndex = lambda *a, **k: 0

    class Th:
        numElements = 2

        def getInterdiffusivity(s, x, T, removeCache=False):
            return ctx.real("D", (0.1, 2.0))
    m.therm = Th()
    m.removeCache = False
    m.matrixParameters.effectiveDiffusion.isEnabled = False
    m.RdrivingForceIndex = np.zeros(1, dtype=np.int32)          # left over from the smaller table
    m.growth = [ctx.reals("prev_growth", ncls + 1, (-1.0, 1.0))]
    m.pData.drivingForce = ctx.reals("dG", (1, 1), (-1.0, -0.1)); ctx.assume(m.pData.drivingForce[0, 0] < 0)
    m.pData.temperature = ctx.reals("T", 1, (500.0, 900.0))
    m.pData.xEqAlpha = np.zeros((1, 1, 1)); m.pData.xEqBeta = np.zeros((1, 1, 1))
    m.constraints.minRadius = 0.0
    m.dTemp = 0
    x = [ctx.reals("x0", ncls, (0.0, 4.0))]
    for i in range(ncls):
        ctx.assume(x[0][i] >= 0)
    m._updateParticleSizeDistribution(ctx.real("t", (0.1, 1.0)), x)
    nb = m.PBM[0].bins
    ctx.prove("the phase was reset to the original grid", nb == ncls + 2 and len(m.PBM[0].PSD) == nb)
    ctx.prove("tables and growth follow the reset grid", len(m.PSDXalpha[0]) == nb + 1 and len(m.PSDXbeta[0]) == nb + 1 and np.shape(m.growth[0]) == (nb + 1,))
    ctx.prove("equilibrium aspect ratios follow the reset grid", len(m.eqAspectRatio[0]) == nb + 1)
    ctx.prove("the growth-rate guard is closed: the index of the smallest stable class points past the (zeroed) table",
              int(m.RdrivingForceIndex[0]) + 1 >= len(m.PSDXalpha[0]))
    Y = m.pData.copySlice(0)
    Y.composition = ctx.reals("Ycomp", (1, 1), (0.01, 0.3))
    g = m._singleGrowthBinary(0, Y)
    ctx.prove("growth rate after the reset is zero on every class boundary (defined)", np.shape(g) == (nb + 1,) and bool(ctx.all([ctx.eq(g[i], 0.0) for i in range(nb + 1)])))


def update_psd_binary_faults(ctx, ncls=2):
    """real _updateParticleSizeDistribution (binary): classes are appended and the backend answers the "no result" sentinel -1 for some
    of the new classes (symbolic bits): the lookup table holds no sentinel afterwards, the failed classes continue from the last valid class,
    and the growth rate computed from the table is defined"""
    m, info = mk_kwn(ctx, 1, 1, ncls, hist=1)
    pp = m.precipitateParameters[0]
    pp._gamma = 0.1; pp.nucleation._gamma = 0.1
    m.PBM[0].originalBins = 4; m.PBM[0].maxBins = 10 * ncls; m.PBM[0].minBins = 2
    m.PBM[0].getDissolutionIndex = lambda *a, **k: 0
    asked = []

    class Th:
        numElements = 2

        def getInterfacialComposition(s, T, gExtra=0, precPhase=None):
            n = len(np.atleast_1d(gExtra))
            k = len(asked); asked.append(n)
            xa = ctx.reals("new%d_xA" % k, n, (0.01, 0.2)); xb = ctx.reals("new%d_xB" % k, n, (0.2, 0.8))
            for i in range(n):
                ctx.assume(xa[i] > 0); ctx.assume(xb[i] > xa[i])
                if ctx.boolean("new%d_failed%d" % (k, i)):
                    xa[i] = -1.0; xb[i] = -1.0
            return xa, xb

        def getInterdiffusivity(s, x, T, removeCache=False):
            return ctx.real("D_%d" % len(asked), (0.1, 2.0))
    m.therm = Th()
    m.removeCache = False
    m.matrixParameters.effectiveDiffusion.isEnabled = False
    m.RdrivingForceIndex = np.zeros(1, dtype=np.int32)
    for i in range(ncls + 1):       # the table in force is valid
        ctx.assume(m.PSDXalpha[0][i, 0] > 0); ctx.assume(m.PSDXbeta[0][i, 0] > m.PSDXalpha[0][i, 0])
    old = [(m.PSDXalpha[0][i, 0] * 1, m.PSDXbeta[0][i, 0] * 1) for i in range(ncls + 1)]
    m.growth = [ctx.reals("prev_growth", ncls + 1, (0.1, 1.0))]
    ctx.assume(m.growth[0][0] > 0)
    m.pData.drivingForce = ctx.reals("dG", (1, 1), (0.1, 1.0)); ctx.assume(m.pData.drivingForce[0, 0] > 0)
    m.pData.temperature = ctx.reals("T", 1, (500.0, 900.0))
    m.pData.xEqAlpha = ctx.reals("rec_xEqA", (1, 1, 1), (0.01, 0.2)); m.pData.xEqBeta = ctx.reals("rec_xEqB", (1, 1, 1), (0.2, 0.8))
    m.constraints.minRadius = 0.0
    m.dTemp = 0
    x = [ctx.reals("x0", ncls, (1.5, 4.0))]
    for i in range(ncls):
        ctx.assume(x[0][i] > 1)
    m._updateParticleSizeDistribution(ctx.real("t", (0.1, 1.0)), x)
    nb = m.PBM[0].bins
    ctx.prove("classes were appended and the table follows the grid", nb == ncls + 1 and np.shape(m.PSDXalpha[0]) == (nb + 1, 1) and np.shape(m.PSDXbeta[0]) == (nb + 1, 1))
    if nb == ncls + 1 and np.shape(m.PSDXalpha[0]) == (nb + 1, 1):
        ctx.prove("no sentinel is left in the lookup table", ctx.all([ctx.all([m.PSDXalpha[0][i, 0] > 0, m.PSDXbeta[0][i, 0] > 0]) for i in range(nb + 1)]))
        ctx.prove("classes that existed before keep their table entries", ctx.all([ctx.all([ctx.eq(m.PSDXalpha[0][i, 0], old[i][0]), ctx.eq(m.PSDXbeta[0][i, 0], old[i][1])]) for i in range(ncls)]))
        ctx.prove("growth array follows the grid", np.shape(m.growth[0]) == (nb + 1,))


class BinStub:
    numElements = 2

    def __init__(self, ctx, unstable_upto, planar_fault, holes=()):
        self.ctx, self.k, self.planar_fault, self.n, self.nd, self.holes = ctx, unstable_upto, planar_fault, 0, 0, tuple(holes)

    def getInterfacialComposition(self, T, gExtra=0, precPhase=None):
        self.n += 1
        c = self.ctx
        if np.ndim(gExtra) == 0:
            if self.planar_fault == "none":
                return None, None
            if self.planar_fault == "sentinel":
                return -1, -1
            return c.real("planar_xA_%d" % self.n, (0.01, 0.1)), c.real("planar_xB_%d" % self.n, (0.2, 0.8))
        n = len(gExtra)
        xa = c.reals("tab%d_xA" % self.n, n, (0.01, 0.2)); xb = c.reals("tab%d_xB" % self.n, n, (0.2, 0.8))
        for i in range(n):
            c.assume(xa[i] > 0)
        for i in range(min(self.k, n)):
            xa[i] = -1; xb[i] = -1
        for h in self.holes:            # a failed calculation for a larger, stable class
            if h < n:
                xa[h] = -1; xb[h] = -1
        return xa, xb

    def getInterdiffusivity(self, x, T, removeCache=False):
        self.nd += 1
        return self.ctx.real("D_%d" % self.nd, (0.1, 2.0))


def faults_binary(ctx, nph=1, ncls=3, k=1, planar="ok", refresh=True, hole=None):
    m, info = mk_kwn(ctx, nph, 1, ncls, hist=1)
    m.therm = BinStub(ctx, k, planar, holes=() if hole is None else (hole,))
    m.removeCache = False
    m.matrixParameters.effectiveDiffusion.isEnabled = False    # 252-point interpolation table: not the subject here (C12 covers it with a small table)
    for p in range(nph):
        m.precipitateParameters[p]._gamma = 0.1
    T0 = ctx.real("T_recorded", (500.0, 900.0)); T1 = ctx.real("T_now", (500.0, 900.0))
    m.pData.temperature = ctx.reals("Thist", 1, (500.0, 900.0)); m.pData.temperature[0] = T0
    m.pData.xEqAlpha = ctx.reals("rec_xEqA", (1, nph, 1), (0.01, 0.2)); m.pData.xEqBeta = ctx.reals("rec_xEqB", (1, nph, 1), (0.2, 0.8))
    m.constraints.maxTempChange = ctx.real("maxTempChange", (0.5, 2.0)); ctx.assume(m.constraints.maxTempChange > 0)
    m.dTemp = 0
    if refresh:
        ctx.assume(ctx.any([T1 - T0 > m.constraints.maxTempChange, T0 - T1 > m.constraints.maxTempChange]))
    else:
        ctx.assume(ctx.all([T1 - T0 <= m.constraints.maxTempChange, T0 - T1 <= m.constraints.maxTempChange]))
        m._createLookupBinary(T0)
    Y = m.pData.copySlice(0)
    Y.temperature = ctx.reals("Ynow", 1, (500.0, 900.0)); Y.temperature[0] = T1
    Y.composition = ctx.reals("Ycomp", (1, 1), (0.01, 0.3))
    growth, Y2 = m._growthRateBinary(Y)
    ctx.prove("one growth array per phase", len(growth) == nph)
    for p in range(nph):
        ctx.prove("growth array covers every class boundary", np.shape(growth[p]) == (ncls + 1,))
        ctx.prove("lookup tables follow the grid", np.shape(m.PSDXalpha[p]) == (ncls + 1, 1) and np.shape(m.PSDXbeta[p]) == (ncls + 1, 1))
        idx = int(m.RdrivingForceIndex[p])
        ctx.prove("unstable-class index inside the grid", 0 <= idx <= ncls)
        if k <= ncls:
            ctx.prove("unstable-class index is the last class boundary reported unstable", idx == max(k - 1, 0))
            ctx.prove("no sentinel value is left in the tables", ctx.all([ctx.neg(ctx.eq(m.PSDXalpha[p][i, 0], -1.0, rtol=0.0)) for i in range(ncls + 1)]))
        else:
            ctx.prove("every class unstable: tables are zeroed and growth is zero",
                      ctx.all([ctx.eq(m.PSDXalpha[p][i, 0], 0.0) for i in range(ncls + 1)] + [ctx.eq(growth[p][i], 0.0) for i in range(ncls + 1)]))
    ctx.prove("equilibrium composition blocks have the documented shape", np.shape(Y2.xEqAlpha)[-2:] == (nph, 1))


def getdt(ctx, nph=1, ncls=2, hist=2):
    m, info = mk_kwn(ctx, nph, 1, ncls, hist=hist)
    d = m.pData
    if hist > 1:
        for i in range(1, hist):
            ctx.assume(d.time[i - 1] < d.time[i])
        ctx.assume(d.time[0] >= 0)
    d.temperature = ctx.reals("Thist", hist, (500.0, 900.0))
    d.nucRate = ctx.reals("nucRate", (hist, nph), (0.0, 3.0)); d.Rnuc = ctx.reals("Rnuc", (hist, nph), (0.0, 2.0))
    d.Rcrit = ctx.reals("Rcrit", (hist, nph), (0.0, 2.0)); d.drivingForce = ctx.reals("dGs", (hist, nph), (-1.0, 1.0))
    for i in range(hist):
        for p in range(nph):
            ctx.assume(d.nucRate[i, p] >= 0); ctx.assume(d.Rnuc[i, p] >= 0); ctx.assume(d.Rcrit[i, p] >= 0)
    m.growth = [ctx.reals("growth%d" % p, ncls + 1, (-1.0, 1.0)) for p in range(nph)]
    m.dissolutionIndex = np.zeros(nph, dtype=np.int32)
    for p in range(nph):
        m.PBM[p].PSD = info["psd_prev"][p]
    tf = ctx.real("finalTime", (3.0, 5.0)); ctx.assume(tf > d.time[d.n])
    m.finalTime = tf
    c = m.constraints
    for name, rng in (("maxNucleationRateChange", (0.1, 0.9)), ("minNucleationRate", (1e-3, 1e-2)), ("maxNonIsothermalDT", (0.5, 2.0)), ("maxRcritChange", (0.005, 0.05)),
                      ("maxVolumeChange", (1e-3, 1e-2)), ("dtScale", (1e-3, 1e-2))):
        v = ctx.real(name, rng); ctx.assume(v > 0); setattr(c, name, v)
    dt = m.getDt(None)
    ctx.observe("dt", dt)
    dtPrev = (d.time[d.n] - d.time[d.n - 1]) if d.n > 0 else 0.01
    rem = tf - d.time[d.n]
    prop = (1 + c.dtScale) * dtPrev
    ctx.prove("proposed step is positive", ctx.lt(0.0, dt))
    ctx.prove("proposed step <= max(remaining time, slowly increased previous step)", ctx.le(dt, ctx.ite(rem >= prop, rem, prop)))
    ctx.safe("every divisor / logarithm argument in the step-size constraints is well defined")


def record_grid(ctx, ncls=2, adaptive=True, steps=2):
    pbm = PBM(1e-10, 1e-9, ncls, 1, 2 * ncls)
    pbm.setAdaptiveBinSize(adaptive)
    b0, w = mk_grid(ctx, pbm, ncls, "g_")
    pbm.originalBins = 4
    pbm.enableRecording()
    for s in range(steps):
        newN = ctx.reals("newN%d" % s, pbm.bins, (0.0, 4.0))
        for i in range(pbm.bins):
            ctx.assume(newN[i] >= 0)
        pbm.UpdatePBMEuler(ctx.real("t%d" % s, (0.1, 1.0)), newN)
        pbm.adjustSizeClassesEuler(False)
        ctx.prove("one record per update", len(pbm._recordedTime) == s + 2 and pbm._recordedPSD.shape[0] == s + 2 and pbm._recordedBins.shape[0] == s + 2)
        ctx.prove("recorded rows are wide enough for the grid", pbm._recordedPSD.shape[1] >= len(newN) and pbm._recordedBins.shape[1] >= len(newN) + 1)
        ctx.prove("recorded populations are non-negative", ctx.all([ctx.le(0.0, pbm._recordedPSD[-1][i]) for i in range(len(newN))]))


def fromdict(ctx, nph=2, nel=1, hist=2):
    m, info = mk_kwn(ctx, nph, nel, 2, hist=hist)
    data = m.pData.toDict()
    d2 = PrecipitationData(m.phases, m.elements)
    d2.fromDict(data)
    ctx.prove("all histories have the same length after reload", all(len(getattr(d2, a)) == hist for a in PrecipitationData.ATTRIBUTES))
    ctx.prove("step index points to the last record", d2.n == hist - 1)
    d2.appendToArrays(m.pData.copySlice(hist - 1))
    ctx.prove("all histories stay aligned after an append", all(len(getattr(d2, a)) == hist + 1 for a in PrecipitationData.ATTRIBUTES) and d2.n == hist)


_F = [PrecipitateModel._growthRateMulti, PrecipitateModel._singleGrowthMulti, PrecipitateModel._createLookupBinary, PrecipitateModel._growthRateBinary,
      PrecipitateModel._singleGrowthBinary, PrecipitateModel.getDt, Constraints.computeDTfromPSD, Constraints.computeDTfromNucleationRate,
      Constraints.computeDTfromTemperature, Constraints.computeDTfromRcrit, Constraints.computeDTfromVolume, PBM.getDTEuler, PBM.record, PBM.UpdatePBMEuler,
      PrecipitationData.fromDict, PrecipitationData.toDict, PrecipitationData.appendToArrays]
_A = ["real arithmetic; finiteness of values that come out of pycalphad is outside the claim",
      "fault schedule: each backend call independently answers or fails (symbolic bits)",
      "a previous growth rate exists (the model completed setup) unless the harness says first call"]
HARNESSES = [
    Harness("C03.faults_multi", faults_multi, functions=_F, assumptions=_A, stubs=["therm.getGrowthAndInterfacialComposition: fresh symbolic arrays of the documented shapes, or None per fault bit"],
            bounds={"phases": "nph", "classes": "ncls", "solutes": "nel"},
            params={"quick": [{"nph": 1, "ncls": 2, "nel": 2}, {"nph": 2, "ncls": 2, "nel": 2}, {"nph": 1, "ncls": 2, "nel": 2, "no_tables": True}],
                    "thorough": [{"nph": 3, "ncls": 3, "nel": 2}, {"nph": 2, "ncls": 2, "nel": 3}, {"nph": 2, "ncls": 2, "nel": 2, "no_tables": True}]}),
    Harness("C03.setup_faults", setup_faults, functions=_F + [PrecipitateModel.setup, PrecipitateBase.setup], assumptions=_A[:2] + ["the very first backend calls (made by setup()) may fail: no previous growth rate exists yet"],
            stubs=["as C03.faults_multi; _calcNucleationRate writes a symbolic driving force"],
            params={"quick": [{"nph": 1, "ncls": 2, "nel": 2}, {"nph": 2, "ncls": 2, "nel": 2}], "thorough": [{"nph": 3, "ncls": 3, "nel": 2}]}),
    Harness("C03.update_psd_faults", update_psd_faults, functions=_F + [PrecipitateModel._updateParticleSizeDistribution, PBM.adjustSizeClassesEuler, PrecipitateModel._getdXdt],
            assumptions=_A + ["driving force >= 0 and precipitates present (the re-binning branch)"], stubs=["as C03.faults_multi"],
            opts={"ob_timeout": 30.0}, budget={"quick": 150.0, "thorough": 600.0},
            params={"quick": [{"nph": 1, "ncls": 2, "nel": 2, "mode": "append"}, {"nph": 1, "ncls": 2, "nel": 2, "mode": "remesh"}, {"nph": 1, "ncls": 2, "nel": 2, "mode": "append", "recording": True},
                              {"nph": 2, "ncls": 2, "nel": 2, "mode": "append", "recording": True}],
                    "thorough": [{"nph": 2, "ncls": 2, "nel": 2, "mode": "append", "_shards": 8}, {"nph": 1, "ncls": 3, "nel": 2, "mode": "append"},
                                 {"nph": 1, "ncls": 3, "nel": 2, "mode": "remesh"}, {"nph": 2, "ncls": 2, "nel": 2, "mode": "append", "recording": True, "_shards": 4}]}),
            # (a fully symbolic grid -- mode "any" -- makes the interpolation of the tables onto a re-meshed grid branch on non-linear comparisons the solvers do not
            #  decide within minutes; the re-mesh case is therefore explored on concrete grids only, mode "remesh")
    Harness("C03.update_psd_binary_reset", update_psd_binary_reset, functions=_F + [PrecipitateModel._updateParticleSizeDistribution, PrecipitateModel._singleGrowthBinary],
            assumptions=_A + ["the grid in force has another class count than the original grid (it was re-meshed before); negative driving force and zero equilibrium compositions (the reset condition)"],
            params={"quick": [{"ncls": 2}], "thorough": [{"ncls": 3}]}),
    Harness("C03.update_psd_binary_faults", update_psd_binary_faults, functions=_F + [PrecipitateModel._updateParticleSizeDistribution, PBM.adjustSizeClassesEuler],
            assumptions=_A + ["the table in force is valid (positive compositions); the last class is filled so that classes are appended"],
            stubs=["therm.getInterfacialComposition: fresh symbolic values, -1 for the appended classes whose symbolic fault bit is set"],
            opts={"ob_timeout": 30.0}, budget={"quick": 120.0, "thorough": 600.0},
            params={"quick": [{"ncls": 2}], "thorough": [{"ncls": 3}]}),
    Harness("C03.transport_any_radius", _c07.nuc_class, functions=[PBM.getdXdtEuler, PBM.correctdXdtEuler],
            assumptions=["as C07.nuc_class: the nucleation radius is unconstrained (inside, below or above the grid); no internal error on any path"],
            params={"quick": [{"n": 2}], "thorough": [{"n": 3}]}),
    Harness("C03.remesh_nonneg", _c08.op_adjust, functions=[PBM.adjustSizeClassesEuler, PBM.changeSizeClasses, PBM.addSizeClasses],
            assumptions=["as C08.op_adjust: the automatic grid adjustment a run performs every step leaves populations defined and non-negative, also for an empty distribution"],
            opts={"ob_timeout": 30.0}, budget={"quick": 150.0, "thorough": 900.0},
            params={"quick": [{"n": 2, "orig": 4, "minb": 2, "maxb": 2, "adaptive": True, "diss": False}],
                    "thorough": [{"n": 3, "orig": 4, "minb": 2, "maxb": 3, "adaptive": True, "diss": True}]}),
    Harness("C03.later_solve_calls_end_at_their_own_end_time", _c05.entry_twice, functions=[],
            assumptions=["as C05.entry_twice: a second solve() on the same model runs from the model's current time to current time + simTime (the duration is a delta, not an absolute end time)"],
            params={"quick": [{"kind": "euler"}], "thorough": [{"kind": "rk4"}]}),
    Harness("C03.sites_any_grids", sites_any_grids, functions=[PrecipitateModel._calcNucleationSites],
            assumptions=["as C14.sites_compete with a different class count per phase"],
            params={"quick": [{"site": "bulk", "nph": 2, "p": 0, "q": 1, "nbs": [2, 3]}, {"site": "dislocations", "nph": 2, "p": 1, "q": 0, "nbs": [2, 3]}],
                    "thorough": [{"site": st, "nph": 2, "p": 0, "q": 1, "nbs": [2, 3]} for st in ("bulk", "dislocations", "grain boundaries", "grain edges", "grain corners")]}),
    Harness("C03.phases_own_grids", _c02.pbm_per_phase, functions=[PrecipitateModel._resetArrays, PrecipitateModel.setPBMParameters, PBM.UpdatePBMEuler, PBM.addSizeClasses],
            assumptions=["as C02.pbm_per_phase: every phase has its own size-class object (default grids and setPBMParameters), so that one phase extending its grid cannot leave another with arrays of the wrong length"],
            params={"quick": [{"nph": 2, "default": True}], "thorough": [{"nph": 3, "default": True}, {"nph": 3, "how": "all"}]}),
    Harness("C03.kinetic_factor_at_ratio_1", _c15.unit, functions=[],
            assumptions=["as C15.unit: shape factors are defined (equal to 1) at aspect ratio 1 for the non-spherical shapes: a radius-dependent aspect ratio that is 1 for small particles must not produce NaN growth rates"],
            params={"quick": [{"shape": s, "fn": "kineticFactor"} for s in ("needle", "plate")], "thorough": [{"shape": s, "fn": f} for s in ("needle", "plate") for f in ("kineticFactor", "thermoFactor", "eqRadiusFactor")]}),
    Harness("C03.composition_clamp", _c01.mass_balance, functions=[PrecipitateModel._calcMassBalance],
            assumptions=["as C01.mass_balance: the recorded matrix composition is the balanced one, or the minimum composition when the balance is negative"],
            params={"quick": [{"nph": 1, "nel": 2, "ncls": 2, "infinite": True}], "thorough": [{"nph": 2, "nel": 2, "ncls": 2, "infinite": True}]}),
    Harness("C03.faults_binary", faults_binary, functions=_F, assumptions=_A,
            stubs=["therm.getInterfacialComposition: sentinel -1 for the first k class boundaries, positive symbolic values above; planar query may return None or -1",
                   "therm.getInterdiffusivity: fresh symbolic value"],
            bounds={"classes": "ncls", "unstable boundaries": "k"},
            opts={"max_paths": 1500}, budget={"quick": 170.0, "thorough": 1500.0},
            params={"quick": [{"ncls": 2, "k": 0}, {"ncls": 3, "k": 2}, {"ncls": 2, "k": 3, "planar": "none"}, {"ncls": 2, "k": 1, "planar": "sentinel", "refresh": False},
                              {"ncls": 2, "k": 3, "refresh": False}, {"ncls": 3, "k": 1, "hole": 2}, {"ncls": 3, "k": 0, "hole": 3}],
                    "thorough": [{"ncls": 4, "k": 1, "hole": 3}, {"ncls": 4, "k": 2, "hole": 4}] + [{"nph": nph, "ncls": 3, "k": k, "planar": pl, "refresh": rf} for nph in (1, 2) for k in (0, 1, 3, 4) for pl in ("ok", "none", "sentinel") for rf in (True, False)]}),
    Harness("C03.getdt", getdt, functions=_F, assumptions=_A + ["recorded quantities finite, rates/radii >= 0, constraint parameters > 0, finalTime > current time"],
            bounds={"phases": "nph", "classes": "ncls", "history": "hist"}, opts={"max_paths": 3000, "ob_timeout": 30.0}, budget={"quick": 150.0, "thorough": 1200.0},
            params={"quick": [{"nph": 1, "ncls": 2, "hist": 1}, {"nph": 1, "ncls": 2, "hist": 2, "_shards": 4}], "thorough": [{"nph": 2, "ncls": 2, "hist": 2}, {"nph": 1, "ncls": 3, "hist": 3}]}),
    Harness("C03.record_grid", record_grid, functions=_F, assumptions=_A,
            params={"quick": [{"ncls": 2, "adaptive": True}, {"ncls": 2, "adaptive": False}], "thorough": [{"ncls": 3, "adaptive": True, "steps": 3}, {"ncls": 3, "adaptive": False, "steps": 3}]}),
    Harness("C03.fromdict", fromdict, functions=_F, assumptions=_A, params={"quick": [{"nph": 2, "nel": 1, "hist": 2}], "thorough": [{"nph": 3, "nel": 2, "hist": 4}]}),
]
