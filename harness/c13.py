"""C13 -- temperature schedules are followed faithfully.

Real objects: both TemperatureParameters classes (precipitation / diffusion), PrecipitateModel (binary, no thermodynamics
attached; a tagging stub stands in for the CALPHAD backend) and SinglePhaseModel.  Symbolic: the schedule (constant,
break points in hours / kelvin, or an uninterpreted function of time), the query / step times, the state of the binary
lookup table (temperature it was built at, accumulator dTemp, last recorded temperature) and maxTempChange.

Tagging device for the lookup-table clauses: the backend stub returns *the temperature it was asked at* as the
interfacial / equilibrium composition, so every table entry and every recorded xEq value carries the temperature at
which it was computed; the real code treats these values opaquely (only `!= -1` / `is None` tests, which T > 0 decides).
"""
import numpy as np
import numpy as _rnp                       # never replaced by the facade (used inside the facade addition)
from vk.run import Harness
from vk import symnp, core
from kawin.precipitation.KWNEuler import PrecipitateModel
from kawin.precipitation.KWNBase import PrecipitateBase
from kawin.precipitation.PrecipitationParameters import TemperatureParameters as PrecTP, PrecipitationData, Constraints
from kawin.diffusion.DiffusionParameters import TemperatureParameters as DiffTP
from kawin.diffusion.SinglePhase import SinglePhaseModel
from kawin.diffusion.Diffusion import DiffusionModel
import sys as _sys

KWNBASE_MOD = _sys.modules["kawin.precipitation.KWNBase"]
# setTemperatureParameters prints its arguments when given break points: silence it (print is not the subject)
_sys.modules["kawin.precipitation.PrecipitationParameters"].print = lambda *a, **k: None


# --------------------------------------------------------------------------- facade addition: interp with left / right
def _interp_lr(x, xp, fp, left=None, right=None, period=None):
    """numpy.interp incl. the `left` / `right` arguments (kawin passes fp[0], fp[-1]); numpy semantics for increasing xp:
    x < xp[0] -> left, x > xp[-1] -> right, xp[j] <= x < xp[j+1] -> slope*(x - xp[j]) + fp[j], x == xp[-1] -> fp[-1]"""
    if period is not None:
        raise core.FacadeMissing("interp with period")
    if left is None and right is None:
        return symnp.f_interp(x, xp, fp)
    if not (symnp.has_sym(x) or symnp.has_sym(xp) or symnp.has_sym(fp) or symnp.has_sym(left) or symnp.has_sym(right)):
        fl = lambda a: symnp.to_float(symnp.plain(symnp.to_obj(a)))
        return symnp.wrap_num(_rnp.interp(fl(x) if isinstance(x, (_rnp.ndarray, list, tuple)) else float(x), fl(xp), fl(fp),
                                        None if left is None else float(left), None if right is None else float(right)))
    xs = list(symnp.plain(symnp.to_obj(xp)).ravel()); fs = list(symnp.plain(symnp.to_obj(fp)).ravel())
    n = len(xs)
    if n == 0:
        raise ValueError("array of sample points is empty")
    L = core.SymReal.lift

    def one(v):
        if bool(L(v) < xs[0]):
            return fs[0] if left is None else left
        if bool(L(v) > xs[-1]):
            return fs[-1] if right is None else right
        if n == 1 or bool(L(v) == xs[-1]):
            return fs[-1]
        for j in range(n - 1):
            if j == n - 2 or bool(L(v) < xs[j + 1]):
                slope = (fs[j + 1] - fs[j]) / (xs[j + 1] - xs[j])
                return slope * (v - xs[j]) + fs[j]
    scalar = not isinstance(x, (_rnp.ndarray, list, tuple)) or (isinstance(x, _rnp.ndarray) and x.ndim == 0)
    xa = symnp.to_obj(x)
    out = _rnp.empty(xa.shape, dtype=object)
    for idx in _rnp.ndindex(*xa.shape):
        out[idx] = one(symnp.plain(xa)[idx])
    return out[()] if scalar else out.view(symnp.SymArray)


symnp.FUNCS["interp"] = _interp_lr


# --------------------------------------------------------------------------- schedules
KINDS = ("const", "array2", "array3", "func")


def mk_schedule(ctx, kind, tag="", as_array=False):
    """symbolic user schedule: returns (args for the kawin API, reference T_ref(t) from the property text, isothermal?)"""
    if kind == "const":
        T0 = ctx.real(tag + "T0", (300.0, 900.0))
        ctx.assume(T0 > 0)
        return (T0,), (lambda t: T0 + 0.0 * t), True
    if kind == "func":
        def f(t):
            v = ctx.uf(tag + "Tfun", t, rng=(300.0, 900.0))
            ctx.assume(v > 0, "temperatures are positive (kelvin)")
            return v
        return (f,), f, False
    n = int(kind[5:])
    h0 = ctx.real(tag + "h0", (-0.5, 0.5))
    gaps = [ctx.real(tag + "dh%d" % i, (0.2, 2.0)) for i in range(n - 1)]
    for g in gaps:
        ctx.assume(g > 0, "break-point hours strictly increase")
    hs = [h0]
    for g in gaps:
        hs.append(hs[-1] + g)
    Ks = [ctx.real(tag + "K%d" % i, (300.0, 900.0)) for i in range(n)]
    for k in Ks:
        ctx.assume(k > 0)

    def ref(t):
        # piece-wise linear in hours, end values held outside the break points
        th = t / 3600
        r = Ks[n - 1] + 0.0 * th
        for i in reversed(range(n - 1)):
            seg = Ks[i] + (Ks[i + 1] - Ks[i]) * (th - hs[i]) / (hs[i + 1] - hs[i])
            r = ctx.ite(th < hs[i + 1], seg, r)
        return ctx.ite(th <= hs[0], Ks[0] + 0.0 * th, r)
    if as_array:
        return (np.array(hs), np.array(Ks)), ref, False
    return (list(hs), list(Ks)), ref, False


def seconds(ctx, name, hours=(-1.0, 5.0)):
    """a symbolic time in seconds, drawn in hours (any real; keeps solver witnesses at the scale of the break points)"""
    return 3600 * ctx.real(name + "_h", hours)


def diff_args(kind, args):
    """the diffusion API takes f(z, t); wrap the time-only schedule function"""
    if kind == "func":
        f = args[0]
        return (lambda z, t: np.array([f(t) for _ in range(len(z))]),)
    return args


# --------------------------------------------------------------------------- 1. schedule evaluation
def interp(ctx, cls="prec", kind="array3", via="ctor", as_array=False):
    """T(t) of a TemperatureParameters object equals the user schedule at t, for every real t:
    constant -> the constant; function -> the function applied to t; break points -> piece-wise linear in t/3600"""
    args, ref, iso = mk_schedule(ctx, kind, as_array=as_array)
    t = seconds(ctx, "t")
    if cls == "prec":
        tp = PrecTP(*args) if via == "ctor" else PrecTP()
        if via == "setter":
            tp.setTemperatureParameters(*args)
        got = tp(t)
        ctx.observe("T", got)
        ctx.prove("T(t) equals the schedule at t", ctx.eq(got, ref(t)))
    else:
        dargs = diff_args(kind, args)
        tp = DiffTP(*dargs) if via == "ctor" else DiffTP()
        if via == "setter":
            {"const": tp.setIsothermalTemperature, "func": tp.setTemperatureFunction}.get(kind, tp.setTemperatureArray)(*dargs)
        z = np.linspace(0.0, 1.0, 3)
        got = tp(z, t)
        ctx.observe("T", got)
        ctx.prove("one temperature per node", len(got) == len(z))
        for i in range(min(len(z), len(got))):
            ctx.prove("T(z_i, t) equals the schedule at t", ctx.eq(got[i], ref(t)))


def eval_order(ctx, cls="prec", kind="array3", via="ctor", nq=2):
    """the schedule is a function of time only: evaluating one parameter object at arbitrary times in arbitrary order
    (later queries may lie before earlier ones: a second run after reset(), an object handed to a second model) gives
    the schedule at each time"""
    args, ref, iso = mk_schedule(ctx, kind)
    ts = [seconds(ctx, "t%d" % (i + 1)) for i in range(nq)]
    for t in ts:
        ref(t)
    if cls == "prec":
        tp = PrecTP(*args) if via in ("ctor", "model") else PrecTP()
        if via == "setter":
            tp.setTemperatureParameters(*args)
        elif via == "model":
            tp = _prec_model(tp).temperatureParameters
        got = [tp(t) for t in ts]
        ctx.observe("T", got)
        for i in range(nq):
            ctx.prove("T(t) equals the schedule at t whatever was evaluated before [query %d]" % (i + 1), ctx.eq(got[i], ref(ts[i])))
    else:
        dargs = diff_args(kind, args)
        tp = DiffTP(*dargs) if via == "ctor" else DiffTP()
        if via == "setter":
            {"const": tp.setIsothermalTemperature, "func": tp.setTemperatureFunction}.get(kind, tp.setTemperatureArray)(*dargs)
        z = np.linspace(0.0, 1.0, 2)
        got = [tp(z, t) for t in ts]
        ctx.observe("T", [list(g) for g in got])
        for i in range(nq):
            ctx.prove("T(z, t) equals the schedule at t whatever was evaluated before [query %d]" % (i + 1),
                      ctx.all([len(got[i]) == len(z)] + [ctx.eq(got[i][j], ref(ts[i])) for j in range(min(len(z), len(got[i])))]))


def arg_purity(ctx, cls="diff", kind="array3", via="setter", as_array=True):
    """the (hours, kelvin) sequences handed to a schedule setter / constructor are not modified, so the same arguments
    describe the same schedule for a second object; both objects follow the schedule"""
    args, ref, iso = mk_schedule(ctx, kind, as_array=as_array)
    hs0 = [args[0][i] * 1 for i in range(len(args[0]))]; Ks0 = [args[1][i] * 1 for i in range(len(args[1]))]
    t = seconds(ctx, "t")
    objs = []
    for k in range(2):
        if cls == "prec":
            tp = PrecTP(*args) if via == "ctor" else PrecTP()
            if via == "setter":
                tp.setTemperatureArray(*args)
            elif via == "model":
                tp = _prec_model(); tp.setTemperature(*args); tp = tp.temperatureParameters
        else:
            tp = DiffTP(*args) if via == "ctor" else DiffTP()
            if via == "setter":
                tp.setTemperatureArray(*args)
            elif via == "model":
                mdl = SinglePhaseModel([0.0, 1.0], 3, ["A", "B"], ["ALPHA"]); mdl.setTemperatureArray(*args); tp = mdl.temperatureParameters
        objs.append(tp)
        ctx.prove("the caller's hours and kelvin sequences are not modified [object %d]" % (k + 1),
                  ctx.all([len(args[0]) == len(hs0), len(args[1]) == len(Ks0)] + [ctx.eq(args[0][i], hs0[i]) for i in range(min(len(hs0), len(args[0])))] +
                          [ctx.eq(args[1][i], Ks0[i]) for i in range(min(len(Ks0), len(args[1])))]))
    z = np.linspace(0.0, 1.0, 2)
    for k, tp in enumerate(objs):
        got = tp(t) if cls == "prec" else tp(z, t)[0]
        ctx.observe("T%d" % (k + 1), got)
        ctx.prove("object built from the same arguments follows the schedule [object %d]" % (k + 1), ctx.eq(got, ref(t)))


# --------------------------------------------------------------------------- 2. constructor == setter
def _prec_model(tp=None):
    return PrecipitateModel(phases=["beta"], elements=["A"], temperatureParameters=tp)


def ctor_vs_setter(ctx, model="prec", kind="array2", prev="const"):
    """the same schedule through the constructor parameter object and through the model's setter (also after another
    schedule had been set before): same T(t) for every t, same isothermal flag"""
    args, ref, iso = mk_schedule(ctx, kind)
    pargs, _, _ = mk_schedule(ctx, prev, tag="p_")
    t = seconds(ctx, "t")
    if model == "prec":
        a = _prec_model(PrecTP(*args))
        b = _prec_model(); b.setTemperature(*args)
        c = _prec_model(PrecTP(*pargs)); c.setTemperature(*args)
        d = _prec_model(); d.setTemperature(*pargs); d.setTemperature(*args)
        tpe = PrecTP(*pargs); e = _prec_model(tpe); fill_object(tpe, kind, args)
        tpf = PrecTP(*pargs); f = _prec_model(tpf); _prec_model(tpf).setTemperature(*args)
        ms = [a, b, c, d, e, f]
        Ts = [m.temperatureParameters(t) for m in ms]
        ctx.observe("T", Ts)
        for m, T, nm in zip(ms, Ts, ("constructor", "setter", "constructor(other) then setter", "setter(other) then setter",
                                     "constructor object filled afterwards", "shared object set through a sibling model")):
            ctx.prove("T(t) equals the schedule at t [%s]" % nm, ctx.eq(T, ref(t)))
            ctx.prove("same isothermal / non-isothermal flag as through the plain setter [%s]" % nm,
                      bool(m.temperatureParameters._isIsothermal) == bool(b.temperatureParameters._isIsothermal))
        ctx.prove("constructor and setter agree on T(t)", ctx.all([ctx.eq(Ts[0], Ts[i]) for i in range(1, len(Ts))]))
    else:
        dargs, dpargs = diff_args(kind, args), diff_args(prev, pargs)

        def setter(m, k, a_):
            {"const": m.setTemperature, "func": m.setTemperatureFunction}.get(k, m.setTemperatureArray)(*a_)
        mk = lambda tp=None: SinglePhaseModel([0.0, 1.0], 3, ["A", "B"], ["ALPHA"], temperatureParameters=tp)
        a = mk(DiffTP(*dargs))
        b = mk(); setter(b, kind, dargs)
        c = mk(DiffTP(*dpargs)); setter(c, kind, dargs)
        ms = [a, b, c]
        Ts = [m.temperatureParameters(m.z, t) for m in ms]
        ctx.observe("T", [list(x) for x in Ts])
        for T, nm in zip(Ts, ("constructor", "setter", "constructor(other) then setter")):
            ctx.prove("one temperature per node [%s]" % nm, len(T) == 3)
            ctx.prove("T(z, t) equals the schedule at t [%s]" % nm, ctx.all([ctx.eq(T[i], ref(t)) for i in range(min(3, len(T)))]))


# --------------------------------------------------------------------------- backend stub (tagging)
class TagTherm:
    """stands in for BinaryThermodynamics: compositions returned are the temperature they were asked at"""
    numElements = 2

    def __init__(self, log):
        self.log = log

    def getInterfacialComposition(self, T, gExtra=0, precPhase=None):
        self.log.append(T)
        if np.ndim(gExtra) == 0:
            return T * 1, T * 1
        return np.array([T * 1 for _ in range(len(gExtra))]), np.array([T * 1 for _ in range(len(gExtra))])


def mk_binary(ctx, tp, bins=3, maxBins=8, stub_growth=True, nph=1):
    """real binary PrecipitateModel with a small grid, concrete material parameters, tagging backend;
    `used` receives (T, [table tags]) every time a growth rate is computed from the lookup table"""
    log, used = [], []
    m = PrecipitateModel(phases=["beta", "gamma", "delta"][:nph], elements=["A"], temperatureParameters=tp)
    m.setPBMParameters(cMin=1e-10, cMax=1e-9, bins=bins, minBins=2, maxBins=maxBins)
    m.setThermodynamics(TagTherm(log))
    m.matrixParameters.volume.setVolume(1e-5, "VM", 4)
    for q in range(nph):
        m.precipitateParameters[q].volume.setVolume(1e-5, "VM", 4)
        m.precipitateParameters[q].gamma = 0.1
    m.matrixParameters.initComposition = 0.05
    # not the subject here (C01 / C14 / C12): mass balance, nucleation and the growth-rate formula
    m._calcMassBalance = lambda t, x, Y: Y
    m._calcNucleationRate = lambda t, x, Y: Y

    def growth_stub(p, Y):
        used.append((Y.temperature[0], [m.PSDXalpha[p][i, 0] * 1 for i in range(len(m.PSDXalpha[p]))],
                     [m.PSDXbeta[p][i, 0] * 1 for i in range(len(m.PSDXbeta[p]))]))
        return np.zeros(m.PBM[p].bins + 1)
    if stub_growth:
        m._singleGrowthBinary = growth_stub
    m._getdXdt = lambda t, x, Y, growth: [np.zeros(m.PBM[q].bins) for q in range(nph)]
    return m, log, used


def within(ctx, a, b, tol):
    """|a - b| <= tol"""
    return ctx.all([ctx.le(a - b, tol), ctx.le(b - a, tol)])


# --------------------------------------------------------------------------- 3. recorded temperature
def step_times(ctx, steps):
    """start time (any real) and positive step sizes; all inputs are created before the first obligation"""
    t0 = seconds(ctx, "t0", (-0.5, 0.5))
    dts = [seconds(ctx, "dt%d" % k, (0.2, 1.5)) for k in range(steps)]
    for dt in dts:
        ctx.assume(dt > 0, "time advances")
    return t0, dts


def touch_schedule(ref, t0, dts, stages):
    """evaluate the reference schedule at every time the run will visit, before the first obligation (an uninterpreted
    schedule function creates its value and the positivity assumption on first use; assumptions are not retroactive)"""
    tprev = t0
    ref(t0)
    for dt in dts:
        for s in stages:
            ref(tprev + s * dt)
        tprev = tprev + dt
        ref(tprev)


def recorded_T(ctx, kind="array2", steps=2, stages=()):
    """setup records T(time[0]); every step (preProcess, getdXdt at the old time [and at intermediate stage times],
    postProcess at the new time) appends the new time and the schedule evaluated at it"""
    args, ref, iso = mk_schedule(ctx, kind)
    tp = PrecTP(*args)
    m, log, used = mk_binary(ctx, tp)
    t0, dts = step_times(ctx, steps)
    touch_schedule(ref, t0, dts, stages)
    m.pData.time[0] = t0
    m.setup()
    # the table refresh during the steps is the subject of C13.lookup_*: keep its branching out of this harness
    m._growthRate = lambda Y: ([np.zeros(m.PBM[0].bins + 1)], Y)
    ctx.observe("T0", m.pData.temperature[0])
    ctx.prove("setup records the schedule at the start time", ctx.eq(m.pData.temperature[0], ref(t0)))
    ctx.prove("setup builds the lookup table", len(log) >= 1)
    ctx.prove("setup builds the lookup table at the recorded start temperature", ctx.all([ctx.eq(x, ref(t0)) for x in log]))
    tprev = t0
    for k in range(steps):
        dt = dts[k]
        tn = tprev + dt
        x = [m.PBM[0].PSD * 1]
        m.preProcess()
        m.getdXdt(tprev, x)
        for s in stages:
            m.getdXdt(tprev + s * dt, x)
        xn, stop = m.postProcess(tn, x)
        n = m.pData.n
        ctx.prove("one entry appended per step", n == k + 1 and len(m.pData.time) == k + 2 and len(m.pData.temperature) == k + 2)
        ctx.observe("T%d" % (k + 1), m.pData.temperature[n])
        ctx.prove("recorded time is the step's time", ctx.eq(m.pData.time[n], tn))
        ctx.prove("recorded temperature is the schedule at the step's time", ctx.eq(m.pData.temperature[n], ref(tn)))
        ctx.prove("earlier records untouched", ctx.eq(m.pData.temperature[0], ref(t0)))
        tprev = tn


def recorded_T_restage(ctx, kind="const", kind2="const", steps=1, steps2=1, stages=()):
    """staged heat treatment on one model without reset(): `steps` recorded steps under one schedule, then the real
    setTemperature with another schedule and `steps2` more real step sequences: every appended temperature is the
    schedule in force evaluated at the step's time, and the lookup table in use follows it"""
    args, ref, iso = mk_schedule(ctx, kind)
    args2, ref2, iso2 = mk_schedule(ctx, kind2, tag="n_")
    m, log, used = mk_binary(ctx, PrecTP(*args))
    mx = ctx.real("maxTempChange", (50.0, 400.0))
    ctx.assume(mx >= 0)
    m.constraints.maxTempChange = mx
    t0, dts = step_times(ctx, steps + steps2)
    touch_schedule(ref, t0, dts[:steps], stages)
    tsw = t0
    for dt in dts[:steps]:
        tsw = tsw + dt
    touch_schedule(ref2, tsw, dts[steps:], stages)
    m.pData.time[0] = t0
    m.setup()
    ctx.prove("setup records the schedule at the start time", ctx.eq(m.pData.temperature[0], ref(t0)))
    tprev = t0
    for k in range(steps + steps2):
        if k == steps:
            m.setTemperature(*args2)
        cur = ref if k < steps else ref2
        what = "first schedule" if k < steps else "after setTemperature"
        dt = dts[k]
        tn = tprev + dt
        del used[:]
        x = [m.PBM[0].PSD * 1]
        m.preProcess()
        m.getdXdt(tprev, x)
        for s in stages:
            m.getdXdt(tprev + s * dt, x)
        m.postProcess(tn, x)
        n = m.pData.n
        ctx.prove("one entry appended per step", n == k + 1 and len(m.pData.temperature) == k + 2)
        ctx.observe("T%d" % (k + 1), m.pData.temperature[n])
        ctx.prove("recorded time is the step's time [%s]" % what, ctx.eq(m.pData.time[n], tn))
        ctx.prove("recorded temperature is the schedule in force at the step's time [%s]" % what, ctx.eq(m.pData.temperature[n], cur(tn)))
        if not stages:
            prove_uses(ctx, used, mx, "staged run, %s" % what)
            ctx.prove("recorded equilibrium compositions were computed within maxTempChange of the recorded temperature [staged run, %s]" % what,
                      ctx.all([within(ctx, m.pData.temperature[n], m.pData.xEqAlpha[n, 0, 0], mx), within(ctx, m.pData.temperature[n], m.pData.xEqBeta[n, 0, 0], mx)]))
        tprev = tn
    ctx.prove("records of the first stage untouched", ctx.eq(m.pData.temperature[0], ref(t0)))


# --------------------------------------------------------------------------- 4. binary lookup table: inductive step
def set_table_state(ctx, m, bins, Tt, Tl, Tfirst):
    """put the real model into the state 'two recorded steps; table built at Tt, last recorded temperature Tl,
    accumulator consistent' (the first record is unrelated: built and recorded at Tfirst)"""
    m._isSetup = True
    m.pData.reset(2)
    n = m.pData.n
    nph = len(m.phases)
    m.pData.temperature[0] = Tfirst
    m.pData.temperature[n] = Tl
    for q in range(nph):
        m.pData.xEqAlpha[0, q, 0] = Tfirst * 1
        m.pData.xEqBeta[0, q, 0] = Tfirst * 1
        m.pData.xEqAlpha[n, q, 0] = Tt * 1
        m.pData.xEqBeta[n, q, 0] = Tt * 1
        m.pData.drivingForce[n, q] = 1.0
    m.PSDXalpha = [np.array([[Tt * 1] for _ in range(bins + 1)]) for q in range(nph)]
    m.PSDXbeta = [np.array([[Tt * 1] for _ in range(bins + 1)]) for q in range(nph)]
    m.growth = [np.zeros(bins + 1) for q in range(nph)]
    m.dTemp = Tl - Tt


def table_state_inputs(ctx):
    Tn = ctx.real("T_now", (500.0, 503.0)); Tl = ctx.real("T_last", (500.0, 501.5)); Tt = ctx.real("T_table", (500.0, 501.5))
    mx = ctx.real("maxTempChange", (1.5, 3.0)); Tf = ctx.real("T_first", (400.0, 600.0))
    for v in (Tn, Tl, Tt, Tf):
        ctx.assume(v > 0, "temperatures are positive (kelvin)")
    ctx.assume(mx >= 0)
    ctx.assume(ctx.all([Tl - Tt <= mx, Tt - Tl <= mx]), "invariant: the table was built within maxTempChange of the last recorded temperature")
    return Tn, Tl, Tt, mx, Tf


def prove_uses(ctx, used, mx, what):
    for (Tu, ta, tb) in used:
        ctx.prove("interfacial compositions in use were computed within maxTempChange of the current temperature [%s]" % what,
                  ctx.all([within(ctx, Tu, x, mx) for x in ta + tb]))


def prove_invariant(ctx, m, Tlast, mx, what):
    tags = [m.PSDXalpha[0][i, 0] for i in range(len(m.PSDXalpha[0]))] + [m.PSDXbeta[0][i, 0] for i in range(len(m.PSDXbeta[0]))]
    ctx.prove("table has one entry per class boundary [%s]" % what, len(m.PSDXalpha[0]) == m.PBM[0].bins + 1 and len(m.PSDXbeta[0]) == m.PBM[0].bins + 1)
    ctx.prove("accumulator equals current temperature minus the temperature every table entry was computed at [%s]" % what,
              ctx.all([ctx.eq(m.dTemp, Tlast - x) for x in tags]))
    ctx.prove("accumulated change within maxTempChange [%s]" % what, ctx.all([ctx.le(m.dTemp, mx), ctx.le(-m.dTemp, mx)]))


def lookup_refresh(ctx, bins=3):
    """one call of the real _growthRateBinary from an arbitrary consistent state with an arbitrary new temperature:
    the table and the equilibrium compositions used for this step were computed within maxTempChange of the new
    temperature, and the state is consistent again (so the statement holds at every step of every run)"""
    Tn, Tl, Tt, mx, Tf = table_state_inputs(ctx)
    m, log, used = mk_binary(ctx, PrecTP(Tn), bins=bins)
    m.constraints.maxTempChange = mx
    set_table_state(ctx, m, bins, Tt, Tl, Tf)
    Y = m.pData.copySlice(m.pData.n)
    Y.temperature = np.array([Tn])
    growth, Y2 = m._growthRateBinary(Y)
    ctx.observe("dTemp", m.dTemp)
    ctx.observe("xEqAlpha", Y2.xEqAlpha[0, 0, 0])
    ctx.observe("table", m.PSDXalpha[0][:, 0])
    ctx.prove("growth rate computed once from the table", len(used) == 1)
    prove_uses(ctx, used, mx, "step")
    ctx.prove("growth rate computed at the current temperature", ctx.all([ctx.eq(u[0], Tn) for u in used]))
    ctx.prove("equilibrium compositions of the step were computed within maxTempChange of the current temperature",
              ctx.all([within(ctx, Tn, Y2.xEqAlpha[0, 0, 0], mx), within(ctx, Tn, Y2.xEqBeta[0, 0, 0], mx)]))
    ctx.prove("equilibrium compositions of the step belong to the table in use",
              ctx.all([ctx.eq(Y2.xEqAlpha[0, 0, 0], m.PSDXalpha[0][0, 0]), ctx.eq(Y2.xEqBeta[0, 0, 0], m.PSDXbeta[0][0, 0])]))
    prove_invariant(ctx, m, Tn, mx, "after the step")


# --------------------------------------------------------------------------- 5. bounded histories from setup
def lookup_history(ctx, steps=3, stages=()):
    """real setup, then `steps` steps (preProcess, getdXdt, postProcess incl. the real size-class update) under a schedule
    whose temperature at each step is arbitrary: at every use the table is within maxTempChange of the temperature"""
    args, ref, iso = mk_schedule(ctx, "func")
    m, log, used = mk_binary(ctx, PrecTP(*args))
    mx = ctx.real("maxTempChange", (50.0, 400.0))
    ctx.assume(mx >= 0)
    m.constraints.maxTempChange = mx
    t0, dts = step_times(ctx, steps)
    touch_schedule(ref, t0, dts, stages)
    m.pData.time[0] = t0
    m.setup()
    prove_uses(ctx, used, mx, "setup")
    prove_invariant(ctx, m, ref(t0), mx, "after setup")
    tprev = t0
    for k in range(steps):
        dt = dts[k]
        tn = tprev + dt
        del used[:]
        x = [m.PBM[0].PSD * 1]
        m.preProcess()
        m.getdXdt(tprev, x)
        for s in stages:
            m.getdXdt(tprev + s * dt, x)
        m.postProcess(tn, x)
        n = m.pData.n
        ctx.observe("T%d" % (k + 1), m.pData.temperature[n])
        ctx.observe("xEq%d" % (k + 1), m.pData.xEqAlpha[n, 0, 0])
        ctx.prove("growth rate was computed during the step", len(used) >= 1)
        prove_uses(ctx, used, mx, "steps")
        ctx.prove("recorded equilibrium compositions were computed within maxTempChange of the recorded temperature",
                  ctx.all([within(ctx, m.pData.temperature[n], m.pData.xEqAlpha[n, 0, 0], mx), within(ctx, m.pData.temperature[n], m.pData.xEqBeta[n, 0, 0], mx)]))
        tprev = tn


# --------------------------------------------------------------------------- 6. the other operation that touches the table
def lookup_remesh(ctx, mode="resize", after=2, bins=4, nph=1):
    """real _updateParticleSizeDistribution when the grid of the first phase changes (classes appended / grid resized;
    further binary phases keep their grid) from an arbitrary consistent state, followed by growth-rate evaluations at
    arbitrary new temperatures: the tables of all phases stay within maxTempChange of the temperature"""
    Tn, Tl, Tt, mx, Tf = table_state_inputs(ctx)
    Tnext = [Tn] + [ctx.real("T_now%d" % (k + 1), (500.0, 503.0)) for k in range(1, after)]
    for v in Tnext:
        ctx.assume(v > 0, "temperatures are positive (kelvin)")
    m, log, used = mk_binary(ctx, PrecTP(Tn), bins=bins, maxBins={"resize": bins, "append": 2 * bins, "none": 2 * bins}[mode], nph=nph)
    m.constraints.maxTempChange = mx
    set_table_state(ctx, m, bins, Tt, Tl, Tf)
    x = [np.array([0.0] * (bins - 2) + [3.0, 5.0 if mode != "none" else 0.0])] + [np.array([0.0] * (bins - 2) + [3.0, 0.0]) for q in range(1, nph)]
    tl = seconds(ctx, "t_last", (0.0, 1.0))
    m.pData.time[m.pData.n] = tl
    m._updateParticleSizeDistribution(tl, x)
    ctx.prove("grid changed as intended by the harness", m.PBM[0].bins == {"resize": 2, "append": bins + bins // 4, "none": bins}[mode]
              and all(m.PBM[q].bins == bins for q in range(1, nph)))
    prove_uses(ctx, used, mx, "re-mesh")
    ctx.prove("growth rate re-computed at the recorded temperature", ctx.all([ctx.eq(u[0], Tl) for u in used]))
    ctx.observe("table", m.PSDXalpha[0][:, 0])
    ctx.observe("dTemp", m.dTemp)
    ctx.prove("table has one entry per class boundary [after re-mesh]",
              all(len(m.PSDXalpha[q]) == m.PBM[q].bins + 1 and len(m.PSDXbeta[q]) == m.PBM[q].bins + 1 for q in range(nph)))
    Tprev = Tl
    for k in range(after):
        Tk = Tnext[k]
        del used[:]
        Y = m.pData.copySlice(m.pData.n)
        Y.time = np.array([tl + (k + 1.0)])
        Y.temperature = np.array([Tk])
        growth, Y2 = m._growthRateBinary(Y)
        prove_uses(ctx, used, mx, "steps after re-mesh")
        ctx.prove("growth rate of every phase computed from its table", len(used) == nph)
        ctx.prove("equilibrium compositions were computed within maxTempChange of the current temperature [steps after re-mesh]",
                  ctx.all([within(ctx, Tk, Y2.xEqAlpha[0, q, 0], mx) for q in range(nph)] + [within(ctx, Tk, Y2.xEqBeta[0, q, 0], mx) for q in range(nph)]))
        m._appendArrays(Y2)


# --------------------------------------------------------------------------- 6b. a second run after reset()
def lookup_after_reset(ctx, after=2, bins=3):
    """a model left in an arbitrary consistent state by a previous run (non-zero accumulated change), then the real
    reset() and the real setup() at an arbitrary start temperature, then growth-rate evaluations at arbitrary
    temperatures: the table of the new run is within maxTempChange of the temperature at every use"""
    Tn, Tl, Tt, mx, Tf = table_state_inputs(ctx)
    Ts = ctx.real("T_restart", (500.0, 501.0))
    Tnext = [Tn] + [ctx.real("T_now%d" % (k + 1), (500.0, 503.0)) for k in range(1, after)]
    for v in [Ts] + Tnext:
        ctx.assume(v > 0, "temperatures are positive (kelvin)")
    t0 = seconds(ctx, "t0", (0.0, 1.0))
    m, log, used = mk_binary(ctx, PrecTP(Ts), bins=bins)
    m.constraints.maxTempChange = mx
    set_table_state(ctx, m, bins, Tt, Tl, Tf)
    m.reset()
    m.setPBMParameters(cMin=1e-10, cMax=1e-9, bins=bins, minBins=2, maxBins=8)     # reset() re-creates default grids
    m.pData.time[0] = t0
    del used[:]
    m.setup()
    ctx.observe("dTemp", m.dTemp)
    ctx.observe("T0", m.pData.temperature[0])
    ctx.prove("one record after reset and setup", m.pData.n == 0 and len(m.pData.temperature) == 1)
    ctx.prove("setup records the schedule at the start time", ctx.eq(m.pData.temperature[0], Ts))
    prove_uses(ctx, used, mx, "setup after reset")
    prove_invariant(ctx, m, Ts, mx, "after reset and setup")
    for k in range(after):
        Tk = Tnext[k]
        del used[:]
        Y = m.pData.copySlice(m.pData.n)
        Y.time = np.array([t0 + (k + 1.0)])
        Y.temperature = np.array([Tk])
        growth, Y2 = m._growthRateBinary(Y)
        prove_uses(ctx, used, mx, "steps after reset")
        ctx.prove("equilibrium compositions were computed within maxTempChange of the current temperature [steps after reset]",
                  ctx.all([within(ctx, Tk, Y2.xEqAlpha[0, 0, 0], mx), within(ctx, Tk, Y2.xEqBeta[0, 0, 0], mx)]))
        m._appendArrays(Y2)


# --------------------------------------------------------------------------- 7. incubation treatment
class _NucStub:
    """stands in for the module kawin.precipitation.NucleationRate inside KWNBase while _calcNucleationRate runs
    (the nucleation formulas are C14's subject); records which incubation function is selected and with what"""

    def __init__(self, ctx, calls):
        self.ctx, self.calls = ctx, calls

    def volumetricDrivingForce(self, therm, x, T, precipitate, aspectRatio=1, removeCache=False):
        return 1.0, 1.0e8, None

    def nucleationBarrier(self, volDG, precipitate, aspectRatio=1):
        return 1.0e-9, 1.0e-19

    def betaBinary1(self, therm, x, T, Rcrit, matrix, precipitate, removeCache=False):
        return 2.0

    def betaBinary2(self, therm, x, T, Rcrit, matrix, precipitate, xEqAlpha=None, xEqBeta=None, removeCache=False):
        self.beta2 = getattr(self, "beta2", []) + [(T, xEqAlpha, xEqBeta)]
        return 2.0

    def zeldovich(self, T, Rcrit, precipitate):
        return 0.05

    def incubationTime(self, beta, Z, matrix):
        self.calls.append(("isothermal",))
        return 1.0

    def incubationTimeNonIsothermal(self, Z, currBeta, currTime, currTemp, betas, times, temperatures, matrix):
        self.calls.append(("non-isothermal", currTime, currTemp, times, temperatures))
        return 1.0

    def nucleationRate(self, Z, beta, Gcrit, T, tau, time=np.inf):
        return 1.0

    def nucleationRadius(self, T, Rcrit, precipitate):
        return 1.1e-9


def fill_object(tp, kind, args):
    """set the schedule on the parameter object itself (not through a model)"""
    {"const": tp.setIsothermalTemperature, "func": tp.setTemperatureFunction}.get(kind, tp.setTemperatureArray)(*args)


def incubation(ctx, kind="array2", prev="const"):
    """the real _calcNucleationRate selects the same (isothermal / non-isothermal) incubation time -- the one of the
    schedule in force when the nucleation rate is evaluated -- whichever way the schedule reached the model (constructor
    parameter object, setter, either after another schedule, parameter object filled after construction, object shared
    with a sibling model whose setter is used); the non-isothermal one receives the current time, the step's temperature
    and the recorded history"""
    args, ref, iso = mk_schedule(ctx, kind)
    pargs, _, _ = mk_schedule(ctx, prev, tag="p_")
    t = seconds(ctx, "t", (0.01, 5.0))
    ctx.assume(t > 0)
    routes = ("setter", "constructor", "constructor(other) then setter", "setter(other) then setter",
              "constructor object filled afterwards", "shared object set through a sibling model")
    sel = {}
    for nm in routes:
        if nm == "constructor object filled afterwards":
            tp = PrecTP(*pargs)
            m, log, used = mk_binary(ctx, tp)
            fill_object(tp, kind, args)
        elif nm == "shared object set through a sibling model":
            tp = PrecTP(*pargs)
            m, log, used = mk_binary(ctx, tp)
            sibling = PrecipitateModel(phases=["beta"], elements=["A"], temperatureParameters=tp)
            sibling.setTemperature(*args)
        elif nm == "constructor":
            m, log, used = mk_binary(ctx, PrecTP(*args))
        elif nm == "setter":
            m, log, used = mk_binary(ctx, None); m.setTemperature(*args)
        elif nm == "constructor(other) then setter":
            m, log, used = mk_binary(ctx, PrecTP(*pargs)); m.setTemperature(*args)
        else:
            m, log, used = mk_binary(ctx, None); m.setTemperature(*pargs); m.setTemperature(*args)
        del m._calcNucleationRate            # the real method again
        m._calcNucleationSites = lambda t, x, p: 1.0
        Y = m.pData.copySlice(0)
        Y.time = np.array([t])
        Tin = m.temperatureParameters(t)
        Y.temperature = np.array([Tin])
        calls = []
        saved = KWNBASE_MOD.nucfuncs
        KWNBASE_MOD.nucfuncs = _NucStub(ctx, calls)
        try:
            Y = m._calcNucleationRate(t, [m.PBM[0].PSD], Y)
        finally:
            KWNBASE_MOD.nucfuncs = saved
        ctx.prove("incubation time evaluated once [%s]" % nm, len(calls) == 1)
        sel[nm] = calls[0][0] if calls else None
        ctx.prove("same isothermal / non-isothermal incubation treatment as through the plain setter [%s]" % nm, sel[nm] == sel["setter"])
        if calls and calls[0][0] == "non-isothermal":
            _, ct, cT, times, temps = calls[0]
            ctx.prove("non-isothermal incubation gets the current time and the step's temperature [%s]" % nm,
                      ctx.all([ctx.eq(ct, t), ctx.eq(cT, Tin)]))
            ctx.prove("non-isothermal incubation gets the recorded history [%s]" % nm, times is m.pData.time and temps is m.pData.temperature)
        ctx.observe("nucRate[%s]" % nm, Y.nucRate[0, 0])


# --------------------------------------------------------------------------- 7b. step limit for a changing temperature
def dt_temperature(ctx, through="constraints"):
    """the step proposed after a step that changed the temperature by more than maxNonIsothermalDT would, at the last
    step's rate |dT|/dtPrev, change it by at most maxNonIsothermalDT -- heating and cooling; otherwise the limit is dtMax"""
    Tp = ctx.real("T_prev", (500.0, 510.0)); Tc = ctx.real("T_curr", (495.0, 515.0))
    dtPrev = ctx.real("dtPrev", (0.5, 5.0)); dtMax = ctx.real("dtMax", (0.5, 50.0)); mt = ctx.real("maxNonIsothermalDT", (0.5, 3.0))
    for v in (dtPrev, dtMax, mt):
        ctx.assume(v > 0)
    change = ctx.ite(Tc >= Tp, Tc - Tp, Tp - Tc)          # |dT| of the last step, heating or cooling
    big = change > mt
    if through == "constraints":
        c = Constraints()
        c.maxNonIsothermalDT = mt
        dt = c.computeDTfromTemperature(1, np.array([Tp, Tc]), dtPrev, dtMax)
        ctx.observe("dt", dt)
        ctx.prove("temperature change at the last step's rate stays within maxNonIsothermalDT (heating and cooling)",
                  ctx.implies(big, ctx.le(dt * change, mt * dtPrev)))
        ctx.prove("no limit when the last step changed the temperature by at most maxNonIsothermalDT", ctx.implies(ctx.neg(big), ctx.eq(dt, dtMax)))
        dt0 = c.computeDTfromTemperature(0, np.array([Tp, Tc]), dtPrev, dtMax)
        ctx.prove("no limit before the first step", ctx.eq(dt0, dtMax))
    else:
        m, log, used = mk_binary(ctx, PrecTP(Tc))
        m.constraints.maxNonIsothermalDT = mt
        t1 = ctx.real("t_prev", (0.0, 10.0))
        set_table_state(ctx, m, 3, Tc, Tc, Tp)
        m.pData.temperature[0] = Tp
        m.pData.temperature[1] = Tc
        m.pData.time[0] = t1
        m.pData.time[1] = t1 + dtPrev
        m.finalTime = t1 + dtPrev + dtMax
        dt = m.getDt(None)
        ctx.observe("dt", dt)
        eff = ctx.ite(dt <= dtMax, dt, dtMax)              # the solver never steps past the end time (C05)
        ctx.prove("step taken after getDt: temperature change at the last step's rate stays within maxNonIsothermalDT (heating and cooling)",
                  ctx.implies(big, ctx.le(eff * change, mt * dtPrev)))
        ctx.prove("getDt proposes a positive step", ctx.lt(0.0 * dt, dt))


# --------------------------------------------------------------------------- 7c. what the mass balance / nucleation rate read
def lookup_in_mass_balance(ctx, bins=3):
    """the real _calculateDependentTerms at a new step time from an arbitrary consistent state: the interfacial-composition
    table read by the real _calcMassBalance and the equilibrium compositions handed to the impingement rate
    (setBetaBinary(2)) by the real _calcNucleationRate were computed within maxTempChange of the step's temperature"""
    Tn, Tl, Tt, mx, Tf = table_state_inputs(ctx)
    tl = seconds(ctx, "t_last", (0.0, 1.0)); dt = seconds(ctx, "dt", (0.1, 1.0))
    ctx.assume(tl > 0); ctx.assume(dt > 0)
    sched = lambda t: Tn                                    # schedule: the new temperature at the new step time
    m, log, used = mk_binary(ctx, PrecTP(sched), bins=bins)
    m.constraints.maxTempChange = mx
    m.setBetaBinary(2)
    set_table_state(ctx, m, bins, Tt, Tl, Tf)
    m.pData.time[0] = 0.0 * tl
    m.pData.time[1] = tl
    m.pData.composition[0] = 0.05
    m.pData.composition[1] = 0.05
    read_mb, calls = [], []
    del m._calcMassBalance
    del m._calcNucleationRate                               # the real methods again
    real_mb = m._calcMassBalance

    def mass_balance(t, x, Y):
        read_mb.append((Y.temperature[0], [m.PSDXbeta[0][i, 0] * 1 for i in range(len(m.PSDXbeta[0]))]))
        return real_mb(t, x, Y)
    m._calcMassBalance = mass_balance
    m._calcNucleationSites = lambda t, x, p: 1.0
    stub = _NucStub(ctx, calls)
    x = [np.array([0.0] + [2.0 + i for i in range(bins - 1)])]
    saved = KWNBASE_MOD.nucfuncs
    KWNBASE_MOD.nucfuncs = stub
    try:
        m.preProcess()
        m._calculateDependentTerms(tl, x)                   # start of the step: copies the last record
        m._calculateDependentTerms(tl + dt, x)              # the new step
    finally:
        KWNBASE_MOD.nucfuncs = saved
    Y = m._currY
    ctx.observe("T_step", Y.temperature[0])
    ctx.observe("fconc", Y.fconc[0, 0, 0])
    beta2 = getattr(stub, "beta2", [])
    ctx.prove("step evaluated at the schedule's temperature", ctx.eq(Y.temperature[0], Tn))
    ctx.prove("mass balance, impingement rate and growth rate evaluated once for the step", len(read_mb) == 1 and len(beta2) == 1 and len(used) == 1)
    for (T, tags) in read_mb:
        ctx.prove("interfacial compositions read by the mass balance were computed within maxTempChange of the step's temperature",
                  ctx.all([ctx.eq(T, Tn)] + [within(ctx, T, g, mx) for g in tags]))
    for (T, xa, xb) in beta2:
        ctx.prove("equilibrium compositions read by the nucleation rate were computed within maxTempChange of the step's temperature",
                  ctx.all([ctx.eq(T, Tn), within(ctx, T, xa[0, 0] if np.ndim(xa) == 2 else xa[0], mx), within(ctx, T, xb[0, 0] if np.ndim(xb) == 2 else xb[0], mx)]))
    prove_uses(ctx, used, mx, "growth rate of the step")


# --------------------------------------------------------------------------- 8. diffusion model
class _DiffTherm:
    def __init__(self, log):
        self.log = log

    def getInterdiffusivity(self, x, T, removeCache=True, phase=None):
        self.log.append(T)
        return 1.0e-14

    def clearCache(self):
        pass


def diffusion_T(ctx, kind="array2", via="ctor"):
    """the real SinglePhaseModel evaluates the backend, at every node, at the schedule's temperature of the time it is
    given (getdXdt(t, x)) -- schedule supplied through the constructor parameter object or through the model's setters"""
    from kawin.diffusion.DiffusionParameters import BoundaryConditions as BC
    args, ref, iso = mk_schedule(ctx, kind)
    dargs = diff_args(kind, args)
    N = 3
    if via == "ctor":
        m = SinglePhaseModel([0.0, 1.0], N, ["A", "B"], ["ALPHA"], temperatureParameters=DiffTP(*dargs))
    else:
        m = SinglePhaseModel([0.0, 1.0], N, ["A", "B"], ["ALPHA"])
        {"const": m.setTemperature, "func": m.setTemperatureFunction}.get(kind, m.setTemperatureArray)(*dargs)
    log = []
    m.setThermodynamics(_DiffTherm(log))
    m.hashTable.enableCaching(False)
    for side in (BC.LEFT, BC.RIGHT):
        m.boundaryConditions.setBoundaryCondition(side, BC.FLUX_BC, 0.0, "B")
    m.x = np.array([[0.1, 0.2, 0.3]])
    t = seconds(ctx, "t")
    d = m.getdXdt(t, [m.x])
    ctx.observe("T_used", log)
    ctx.prove("backend evaluated once per node", len(log) == N)
    ctx.prove("every node evaluated at the schedule's temperature of the given time", ctx.all([ctx.eq(T, ref(t)) for T in log]))


_FT = [PrecTP.__init__, PrecTP.setTemperatureParameters, PrecTP.setIsothermalTemperature, PrecTP.setTemperatureArray,
       PrecTP.setTemperatureFunction, PrecTP.__call__, DiffTP.__init__, DiffTP.setIsothermalTemperature, DiffTP.setTemperatureArray,
       DiffTP.setTemperatureFunction, DiffTP.__call__]
_FM = _FT + [PrecipitateBase.setTemperature, DiffusionModel.setTemperature, DiffusionModel.setTemperatureArray, DiffusionModel.setTemperatureFunction]
_FR = _FT + [PrecipitateBase.setup, PrecipitateModel.setup, PrecipitateBase.preProcess, PrecipitateBase.getdXdt, PrecipitateBase._calculateDependentTerms,
             PrecipitateBase.postProcess, PrecipitateBase._appendArrays, PrecipitationData.appendToArrays, PrecipitationData.copySlice,
             PrecipitationData.setSlice, PrecipitateModel._growthRate, PrecipitateModel._growthRateBinary, PrecipitateModel._createLookupBinary,
             PrecipitateModel._updateParticleSizeDistribution, PrecipitateModel._processX]
_A_SCHED = ["break-point hours strictly increase (numpy.interp is unspecified otherwise); 1-5 break points; kelvin values > 0",
            "a schedule function is an arbitrary deterministic function of time with positive values (uninterpreted)",
            "query / step times are arbitrary reals (positive step sizes); real arithmetic"]
_A_TABLE = ["temperatures > 0 (the backend sentinel -1 / None is C03's subject); maxTempChange >= 0",
            "inductive steps start from any state with: every table entry and the last recorded xEq built at one temperature T_table, "
            "dTemp = T_last - T_table, |dTemp| <= maxTempChange (established by setup, shown in C13.lookup_history)",
            "one growth-rate evaluation per recorded step (explicit Euler iterator) except in C13.lookup_stages"]
_S_TAG = ["C13.recorded_T: model._growthRate stubbed after setup (the refresh logic is checked in C13.lookup_*)", "BinaryThermodynamics replaced by a tagging stub: getInterfacialComposition(T, ...) returns T itself, so every table entry / xEq value carries the temperature it was computed at",
          "model._calcMassBalance, model._calcNucleationRate (except C13.incubation), model._singleGrowthBinary (records the table it reads), model._getdXdt: stubs on the instance (subjects of C01/C14/C12/C07)",
          "print inside kawin.precipitation.PrecipitationParameters: no-op"]
_cvs = [("const", "array2"), ("array2", "const"), ("func", "const"), ("array3", "func")]
_allk = ("const", "array1", "array2", "array3", "array4", "func")
HARNESSES = [
    Harness("C13.interp", interp, functions=_FT, assumptions=_A_SCHED, bounds={"break points": "2-3 (quick), 1-5 (thorough)", "diffusion nodes": 3},
            stubs=["facade: numpy.interp with left/right supplied by harness/c13.py (_interp_lr), validated against numpy on random inputs"],
            params={"quick": [dict(cls=c, kind=k, via=v) for c in ("prec", "diff") for k in KINDS for v in ("ctor", "setter")],
                    "thorough": [dict(cls=c, kind=k, via=v, as_array=a) for c in ("prec", "diff") for k in ("array1", "array2", "array3", "array4", "array5")
                                 for v in ("ctor", "setter") for a in (False, True)]}),
    Harness("C13.eval_order", eval_order, functions=_FT, assumptions=_A_SCHED, budget={"quick": 120.0, "thorough": 1200.0},
            bounds={"break points": "3-4 (quick), 3-5 (thorough)", "queries on one object": "2 (quick), 3 (thorough), in any order"},
            params={"quick": [dict(cls="prec", kind="array3", via="ctor"), dict(cls="prec", kind="array4", via="setter"), dict(cls="prec", kind="const", via="ctor"),
                              dict(cls="prec", kind="func", via="setter"), dict(cls="diff", kind="array3", via="ctor"), dict(cls="diff", kind="func", via="setter"),
                              dict(cls="diff", kind="const", via="setter")],
                    "thorough": [dict(cls=c, kind=k, via=v, nq=(2 if k == "array4" else 3)) for c in ("prec", "diff") for k in ("const", "array3", "array4", "func") for v in ("ctor", "setter")] +
                                [dict(cls="prec", kind="array5", via="ctor", nq=2), dict(cls="prec", kind="array3", via="model", nq=3)]}),
    Harness("C13.arg_purity", arg_purity, functions=_FM, assumptions=_A_SCHED,
            bounds={"break points": "2-3 (quick), 2-4 (thorough)", "objects built from one pair of sequences": 2, "sequence type": "list / float ndarray"},
            params={"quick": [dict(cls=c, kind=k, via=v, as_array=a) for c, k, v, a in (("diff", "array3", "setter", True), ("diff", "array2", "ctor", True), ("diff", "array2", "model", True),
                                                                                       ("diff", "array2", "setter", False), ("prec", "array3", "setter", True), ("prec", "array2", "ctor", True),
                                                                                       ("prec", "array2", "model", False))],
                    "thorough": [dict(cls=c, kind=k, via=v, as_array=a) for c in ("diff", "prec") for k in ("array2", "array4") for v in ("ctor", "setter", "model") for a in (True, False)]}),
    Harness("C13.ctor_vs_setter", ctor_vs_setter, functions=_FM, assumptions=_A_SCHED,
            bounds={"routes": "constructor object / setter / constructor(other kind) then setter / setter(other kind) then setter / constructor object filled afterwards / object shared with a sibling model whose setter is used"},
            params={"quick": [dict(model=mo, kind=k, prev=p) for mo in ("prec", "diff") for k, p in _cvs],
                    "thorough": [dict(model=mo, kind=k, prev=p) for mo in ("prec", "diff") for k in _allk for p in ("const", "array2", "func") if p != k]}),
    Harness("C13.recorded_T", recorded_T, functions=_FR, assumptions=_A_SCHED, stubs=_S_TAG, budget={"quick": 120.0, "thorough": 1200.0},
            bounds={"steps": "<= 2 (quick), <= 3 (thorough)", "intermediate stage evaluations per step": "0-3", "size classes": 3, "phases": 1},
            params={"quick": [dict(kind="array2", steps=2), dict(kind="const", steps=1), dict(kind="func", steps=2, stages=(0.5,))],
                    "thorough": [dict(kind="array3", steps=2), dict(kind="array2", steps=3), dict(kind="const", steps=3, stages=(0.5, 0.5, 1.0)),
                                 dict(kind="func", steps=3, stages=(0.5, 0.5, 1.0)), dict(kind="array2", steps=2, stages=(0.5, 0.5, 1.0)),
                                 dict(kind="array4", steps=2)]}),
    Harness("C13.recorded_T_restage", recorded_T_restage, functions=_FR + [PrecipitateBase.setTemperature], assumptions=_A_SCHED + _A_TABLE[:1], stubs=_S_TAG[1:],
            budget={"quick": 120.0, "thorough": 1200.0},
            bounds={"steps before / after the schedule change": "1 / 1 (quick), <= 2 / 2 (thorough)", "size classes": 3, "phases": 1},
            params={"quick": [dict(kind="const", kind2="const"), dict(kind="const", kind2="array2"), dict(kind="array2", kind2="const"),
                              dict(kind="const", kind2="const", stages=(0.5,))],
                    "thorough": [dict(kind=k1, kind2=k2, steps=2, steps2=2) for k1, k2 in (("const", "const"), ("func", "const"), ("const", "func"))] +
                                [dict(kind="const", kind2="array3"), dict(kind="array2", kind2="array2"), dict(kind="const", kind2="const", steps2=2, stages=(0.5, 0.5, 1.0))]}),
    Harness("C13.lookup_refresh", lookup_refresh, functions=_FR, assumptions=_A_TABLE, stubs=_S_TAG, bounds={"size classes": "bins", "phases": 1},
            params={"quick": [dict(bins=3)], "thorough": [dict(bins=3), dict(bins=8)]}),
    Harness("C13.lookup_history", lookup_history, functions=_FR, assumptions=_A_TABLE + _A_SCHED[1:], stubs=_S_TAG, budget={"quick": 120.0, "thorough": 1200.0},
            bounds={"steps from setup": "3 (quick), 6 (thorough)", "size classes": 3},
            params={"quick": [dict(steps=3)], "thorough": [dict(steps=6)]}),
    Harness("C13.lookup_stages", lookup_history, functions=_FR, assumptions=_A_TABLE + _A_SCHED[1:], stubs=_S_TAG, budget={"quick": 120.0, "thorough": 1200.0},
            bounds={"steps from setup": 2, "intermediate stage evaluations per step (RK4-like)": "1 (quick), 1-2 (thorough)"},
            params={"quick": [dict(steps=2, stages=(0.5,))], "thorough": [dict(steps=3, stages=(0.5,)), dict(steps=2, stages=(0.5, 1.0))]}),
    Harness("C13.lookup_remesh", lookup_remesh, functions=_FR, assumptions=_A_TABLE, stubs=_S_TAG,
            bounds={"size classes": "4 -> 2 / 5 / 4 (quick), 8 -> 2 / 10 / 8 (thorough)", "steps after the re-mesh": "2 (quick), 3 (thorough)", "binary phases": "1-2 (quick), 1-3 (thorough); the first one is re-meshed"},
            params={"quick": [dict(mode="none"), dict(mode="resize"), dict(mode="append"), dict(mode="resize", nph=2), dict(mode="append", nph=2)],
                    "thorough": [dict(mode=mo, after=3, bins=8) for mo in ("none", "resize", "append")] +
                                [dict(mode=mo, after=2, bins=4, nph=n_) for mo in ("none", "resize", "append") for n_ in (2, 3)]}),
    Harness("C13.lookup_after_reset", lookup_after_reset, functions=_FR + [PrecipitateBase.reset, PrecipitateModel.reset, PrecipitateModel.setPBMParameters],
            assumptions=_A_TABLE + ["between reset() and setup() the user sets the size grid again (reset re-creates default grids) and may set the start time"],
            stubs=_S_TAG, bounds={"size classes": "3 (quick), 6 (thorough)", "steps after the restart": "2 (quick), 3 (thorough)"},
            params={"quick": [dict(after=2, bins=3)], "thorough": [dict(after=3, bins=6)]}),
    Harness("C13.incubation", incubation, functions=_FM + [PrecipitateBase._calcNucleationRate], assumptions=_A_SCHED + ["driving force > 0, impingement != 0 (the branch that reaches the incubation time)"],
            stubs=_S_TAG + ["module kawin.precipitation.NucleationRate as seen from KWNBase replaced by a recording stub while _calcNucleationRate runs; model._calcNucleationSites -> 1"],
            params={"quick": [dict(kind=k, prev=p) for k, p in (("const", "array2"), ("array2", "const"), ("func", "const"), ("const", "func"))],
                    "thorough": [dict(kind=k, prev=p) for k in ("const", "array2", "array3", "func") for p in ("const", "array2", "func") if p != k]}),
    Harness("C13.dt_temperature", dt_temperature, functions=[Constraints.computeDTfromTemperature, PrecipitateModel.getDt, Constraints.computeDTfromPSD,
                                                             Constraints.computeDTfromNucleationRate, Constraints.computeDTfromRcrit, Constraints.computeDTfromVolume],
            assumptions=["dtPrev, dtMax, maxNonIsothermalDT > 0; checkTemperature on (default); recorded temperatures of the last two steps arbitrary",
                         "through getDt: no particles, zero growth / nucleation rate (the other step limits return dtMax); the step actually taken is min(getDt, dtMax) (C05)"],
            stubs=_S_TAG[1:], bounds={"phases": 1, "size classes": 3},
            params={"quick": [dict(through="constraints"), dict(through="getDt")], "thorough": [dict(through="constraints"), dict(through="getDt")]}),
    Harness("C13.diffusion_T", diffusion_T, functions=_FM + [SinglePhaseModel._getFluxes, DiffusionModel.getdXdt], assumptions=_A_SCHED,
            stubs=["GeneralThermodynamics.getInterdiffusivity: records the temperature it is asked at, returns a constant", "composition cache switched off (C09's subject)"],
            bounds={"nodes": 3, "solutes": 1},
            params={"quick": [dict(kind=k, via=v) for k in KINDS for v in ("ctor", "setter")],
                    "thorough": [dict(kind=k, via=v) for k in _allk for v in ("ctor", "setter")]}),
]


# known finding (both obligations listed in known_findings.json): the refresh happens after the mass balance and the nucleation rate
HARNESSES += [
    Harness("C13.lookup_in_mass_balance", lookup_in_mass_balance, functions=_FR + [PrecipitateModel._calcMassBalance, PrecipitateBase._calcNucleationRate],
            assumptions=_A_TABLE + ["setBetaBinary(2) (the impingement rate that reads the equilibrium compositions); particles present in 2+ size classes"],
            stubs=_S_TAG + ["module kawin.precipitation.NucleationRate as seen from KWNBase replaced by a recording stub; model._calcNucleationSites -> 1",
                            "model._calcMassBalance wrapped: records the table it is about to read, then runs the real method"],
            bounds={"size classes": "bins", "phases": 1},
            params={"quick": [dict(bins=3)], "thorough": [dict(bins=3), dict(bins=6)]}),
]
# harnesses whose obligations are violated on the unchanged tree and are not (yet) listed as known findings:
# run them with  VK_PENDING=1 ./vcheck C13 --only <id>
PENDING = []
import os as _os
if _os.environ.get("VK_PENDING"):
    HARNESSES = HARNESSES + PENDING
