"""C16 -- elastic strain energy (narrow claim).

Decided on the real ElasticFactors code: tensor-rank conversions round-trip (conv_roundtrip); _ohm_quickInverse is the
two-sided inverse of symmetric 3x3 stacks and equals the numpy route (quick_inverse, inverse_agree); moduliToC for the 15
modulus pairs: isotropic compliance of an (E, nu, G) triple that reproduces the inputs, and round trip through the returned
stiffness (moduli, moduli_zero); isotropic sphere closed form through the spherical approximation (iso_sphere) and through
Dijkl/Sijmn/all four Eshelby energy formulas with the exact surface integral in place of the quadrature, incl. the textbook
Eshelby tensor (eshelby_sphere); rotation/stiffness setter order and textbook rotation (setter_order); invariance of an
isotropic stiffness under O(3) (rot_iso); Sijmn and the homogeneous-inclusion energy against the textbook formula for
arbitrary D, quadratic/volume scaling, 6x6 = 4th rank and Bohm -> homogeneous for aligned cubic crystals and diagonal
eigenstrain (energy_form); Dijkl invariant under uniform scaling, additive over nodes, inversion routine handed the symmetric
C_iklj n_k n_l (dijkl).  KNOWN FINDING isolated in energy_shear: with shear components (non-diagonal eigenstrain or rotated
cubic matrix) the 6x6 routines and invert4rankTensor drop Voigt factors and the formulations disagree.
Outside: Lebedev exactness, non-negativity, aspect-ratio searches, anisotropic Eshelby components.
"""
import itertools
import numpy as np
from vk.run import Harness
from kawin.precipitation.parameters.ElasticFactors import (
    convert2To4rankTensor, convert4To2rankTensor, convertVecTo2rankTensor, convert2rankToVec, invert4rankTensor,
    rotateRank2Tensor, rotateRank4Tensor, elasticConstantToC, moduliToC, StrainEnergy, StrainEnergyParameters,
    SphericalEnergyDescription, EllipsoidalEnergyDescription, ConstantEnergyDescription, CuboidalEnergyDescription)


def _f_fill_diagonal(a, val, wrap=False):
    """np.fill_diagonal on an object array: numpy's own flat-stride assignment works on any dtype (in place, returns None)"""
    import numpy as _rnp
    from vk import symnp
    _rnp.fill_diagonal(symnp.plain(a), symnp.plain(symnp.to_obj(val)) if isinstance(val, (_rnp.ndarray, list, tuple)) else val, wrap)


from vk import symnp as _symnp
_symnp.FUNCS.setdefault("fill_diagonal", _f_fill_diagonal)

R3 = range(3)
IDX4 = list(itertools.product(R3, R3, R3, R3))
VOIGT = [(0, 0), (1, 1), (2, 2), (1, 2), (0, 2), (0, 1)]


# ------------------------------------------------------------------------------------------------ conversions

def conv_roundtrip(ctx, which="2to4"):
    """tensor-rank conversions round-trip"""
    if which == "2to4":
        c = ctx.reals("c", (6, 6), (-2.0, 2.0))
        c4 = convert2To4rankTensor(c)
        back = convert4To2rankTensor(c4)
        ctx.observe("c4", c4)
        ctx.prove("shape", np.shape(c4) == (3, 3, 3, 3) and np.shape(back) == (6, 6))
        ctx.prove("convert4To2(convert2To4(c)) = c", ctx.all([ctx.eq(back[i, j], c[i, j]) for i in range(6) for j in range(6)]))
        # the 4th-rank image carries the Voigt entries at every index permutation allowed by the minor symmetries
        ctx.prove("c4[ij,kl] = c[V(ij),V(kl)] with minor symmetries",
                  ctx.all([ctx.eq(c4[a, b, k, l], c[I, J]) for I, (i, j) in enumerate(VOIGT) for J, (k0, l0) in enumerate(VOIGT)
                           for (a, b) in ((i, j), (j, i)) for (k, l) in ((k0, l0), (l0, k0))]))
    elif which == "4to2":
        # free 4th-rank tensor with the minor symmetries: one symbol per (Voigt, Voigt) pair
        free = ctx.reals("t", (6, 6), (-2.0, 2.0))
        vm = {frozenset(p): I for I, p in enumerate(VOIGT)}
        c4 = np.zeros((3, 3, 3, 3))
        for (i, j, k, l) in IDX4:
            c4[i, j, k, l] = free[vm[frozenset((i, j))], vm[frozenset((k, l))]]
        c2 = convert4To2rankTensor(c4)
        back = convert2To4rankTensor(c2)
        ctx.observe("c2", c2)
        ctx.prove("convert2To4(convert4To2(c4)) = c4 for c4 with minor symmetries",
                  ctx.all([ctx.eq(back[i, j, k, l], c4[i, j, k, l]) for (i, j, k, l) in IDX4]))
    elif which == "vec":
        v = ctx.reals("v", 6, (-2.0, 2.0))
        e = convertVecTo2rankTensor(v)
        back = convert2rankToVec(e)
        ctx.observe("e", e)
        ctx.prove("vec -> tensor is symmetric", ctx.all([ctx.eq(e[i, j], e[j, i]) for i in R3 for j in R3]))
        ctx.prove("tensor entries are the Voigt entries", ctx.all([ctx.eq(e[i, j], v[I]) for I, (i, j) in enumerate(VOIGT)]))
        ctx.prove("convert2rankToVec(convertVecTo2rankTensor(v)) = v", ctx.all([ctx.eq(back[i], v[i]) for i in range(6)]))
        s = ctx.reals("s", 6, (-2.0, 2.0))
        sym = convertVecTo2rankTensor(s)      # an arbitrary symmetric tensor
        again = convertVecTo2rankTensor(convert2rankToVec(sym))
        ctx.prove("convertVecTo2rankTensor(convert2rankToVec(e)) = e for symmetric e", ctx.all([ctx.eq(again[i, j], sym[i, j]) for i in R3 for j in R3]))


# ------------------------------------------------------------------------------------------------ 3x3 inversion routines

def _sym33(ctx, name, lo=-2.0, hi=2.0, n=None):
    """symmetric 3x3 (or 3x3xn) matrix with 6 free entries per slice"""
    if n is None:
        v = ctx.reals(name, 6, (lo, hi))
        return np.array([[v[0], v[5], v[4]], [v[5], v[1], v[3]], [v[4], v[3], v[2]]])
    v = ctx.reals(name, (6, n), (lo, hi))
    return np.array([[v[0], v[5], v[4]], [v[5], v[1], v[3]], [v[4], v[3], v[2]]])


def _det3(m):
    return (m[0][0] * (m[1][1] * m[2][2] - m[1][2] * m[2][1]) - m[0][1] * (m[1][0] * m[2][2] - m[1][2] * m[2][0])
            + m[0][2] * (m[1][0] * m[2][1] - m[1][1] * m[2][0]))


def _ell():
    """a real EllipsoidalEnergyDescription without the (concrete) 5810-node table: exactly the attributes __init__ sets"""
    d = object.__new__(EllipsoidalEnergyDescription)
    d.setOhmInverseFunction()
    return d


def quick_inverse(ctx, n=1):
    """_ohm_quickInverse(m) is the two-sided inverse of every symmetric non-singular 3x3 m (batch shape (3,3,n));
    hence it agrees with any other inversion routine"""
    d = _ell()
    m = _sym33(ctx, "m", n=n)
    for k in range(n):
        det = _det3([[m[i, j, k] for j in R3] for i in R3])
        ctx.assume(ctx.neg(ctx.eq(det, 0.0, rtol=0.0)), "non-singular")
        if ctx.mode == "concrete":
            ctx.assume(abs(det) > 1e-2, "well conditioned sample")
    inv = d._ohm_inverse(m)
    ctx.observe("inv", inv)
    ctx.prove("shape kept", np.shape(inv) == (3, 3, n))
    for k in range(n):
        for i in R3:
            ctx.prove("inv . m = I", ctx.all([ctx.eq(sum(inv[i, l, k] * m[l, j, k] for l in R3), 1.0 if i == j else 0.0, atol=1e-7) for j in R3]))
            ctx.prove("m . inv = I", ctx.all([ctx.eq(sum(m[i, l, k] * inv[l, j, k] for l in R3), 1.0 if i == j else 0.0, atol=1e-7) for j in R3]))


def inverse_agree(ctx, n=2):
    """the 'quick' and the 'numpy' inversion routine return the same (3,3,n) array for symmetric non-singular slices
    (np.linalg.inv modelled as the exact inverse)"""
    d = _ell()
    m = _sym33(ctx, "m", n=n)
    for k in range(n):
        det = _det3([[m[i, j, k] for j in R3] for i in R3])
        ctx.assume(ctx.neg(ctx.eq(det, 0.0, rtol=0.0)), "non-singular")
        if ctx.mode == "concrete":
            ctx.assume(abs(det) > 1e-2, "well conditioned sample")
    d.setOhmInverseFunction("quick")
    q = d._ohm_inverse(m)
    d.setOhmInverseFunction("numpy")
    p = d._ohm_inverse(m)
    ctx.observe("quick", q); ctx.observe("numpy", p)
    ctx.prove("same shape", np.shape(q) == np.shape(p) == (3, 3, n))
    for k in range(n):
        for i in R3:
            ctx.prove("quick inverse = numpy inverse", ctx.all([ctx.eq(q[i, j, k], p[i, j, k], atol=1e-9) for j in R3]))
    bad = False
    try:
        d.setOhmInverseFunction("other")
    except ValueError:
        bad = True
    ctx.prove("unknown method name rejected", bad)


def _batch_inv(a):
    """np.linalg.inv on a stack (..., 3, 3) of symbolic matrices: exact cofactor inverse of every slice"""
    from vk import symnp
    a = symnp.to_obj(a)
    if a.ndim == 2:
        return symnp.inv_cofactor(a)
    out = np.zeros(a.shape)
    for idx in np.ndindex(*a.shape[:-2]):
        out[idx] = symnp.inv_cofactor(a[idx])
    return out


# ------------------------------------------------------------------------------------------------ elastic moduli

def _is_zero(x):
    from vk import core
    return (not core.is_sym(x)) and float(x) == 0.0


def _block_inv(a):
    """np.linalg.inv of a symbolic square matrix whose *syntactic* zero pattern is block diagonal (after a symmetric
    permutation) with blocks of size <= 3: exact cofactor inverse of each block.  Stacks (..., n, n) slice by slice."""
    from vk import symnp, core
    a = symnp.to_obj(a)
    if a.ndim > 2:
        out = np.zeros(a.shape)
        for idx in np.ndindex(*a.shape[:-2]):
            out[idx] = _block_inv(a[idx])
        return out
    n = a.shape[0]
    p = symnp.plain(a)
    comp = list(range(n))

    def find(i):
        while comp[i] != i:
            i = comp[i]
        return i
    for i in range(n):
        for j in range(n):
            if i != j and not _is_zero(p[i, j]):
                comp[find(i)] = find(j)
    blocks = {}
    for i in range(n):
        blocks.setdefault(find(i), []).append(i)
    out = np.zeros((n, n))
    for idx in blocks.values():
        if len(idx) > 3:
            raise core.FacadeMissing("linalg.inv: irreducible symbolic block of size %d" % len(idx))
        inv = _adj_inv([[p[i, j] for j in idx] for i in idx])
        for r, i in enumerate(idx):
            for c, j in enumerate(idx):
                out[i, j] = inv[r][c]
    return out


_SEEN = []


def _capturing_inv(a):
    _SEEN.append(a.copy())
    return _block_inv(a)


def _adj_inv(m):
    """exact inverse of a 1x1 / 2x2 / 3x3 block as adjugate * (1/det): one reciprocal per block"""
    n = len(m)
    if n == 1:
        return [[1.0 / m[0][0]]]
    if n == 2:
        adj = [[m[1][1], -m[0][1]], [-m[1][0], m[0][0]]]
        det = m[0][0] * m[1][1] - m[0][1] * m[1][0]
    else:
        cof = [[None] * 3 for _ in R3]
        for i in R3:
            for j in R3:
                r = [k for k in R3 if k != i]; s = [k for k in R3 if k != j]
                mn = m[r[0]][s[0]] * m[r[1]][s[1]] - m[r[0]][s[1]] * m[r[1]][s[0]]
                cof[i][j] = mn if (i + j) % 2 == 0 else -mn
        adj = [[cof[j][i] for j in R3] for i in R3]
        det = m[0][0] * cof[0][0] + m[0][1] * cof[0][1] + m[0][2] * cof[0][2]
    rdet = 1.0 / det
    return [[adj[i][j] * rdet for j in range(n)] for i in range(n)]


MODULI = ("E", "nu", "G", "lam", "K", "M")
PAIRS = [p for p in itertools.combinations(MODULI, 2)]
ZERO_PAIRS = [p for p in PAIRS if ("nu" in p) != ("lam" in p)]      # (nu, lam) = (0, 0) does not determine a solid


def _moduli_inputs(ctx, pair, allow_zero=False):
    """two symbolic moduli of the given kinds, constrained to describe a mechanically stable isotropic solid
    (E, G, K, M > 0, -1 < nu < 1/2) and to be non-zero"""
    rng = {"E": (1.0, 3.0), "nu": (0.05, 0.45), "G": (0.5, 1.5), "lam": (0.2, 2.0), "K": (1.0, 3.0), "M": (2.0, 5.0)}
    v = {k: ctx.real(k, rng[k]) for k in pair}
    for k in pair:
        if k == "nu":
            ctx.assume(v[k] > -1); ctx.assume(2 * v[k] < 1)
        elif k != "lam":
            ctx.assume(v[k] > 0)
        if k in ("nu", "lam") and not allow_zero:
            ctx.assume(ctx.neg(ctx.eq(v[k], 0.0, rtol=0.0)), "a modulus equal to zero counts as 'not given' (see C16.moduli_zero)")
    g = v.get
    if pair == ("E", "G"): ctx.assume(g("E") < 3 * g("G"))
    if pair == ("E", "K"): ctx.assume(g("E") < 9 * g("K"))
    if pair == ("E", "M"): ctx.assume(g("E") <= g("M"))
    if pair == ("nu", "lam"): ctx.assume(g("nu") * g("lam") > 0)
    if pair == ("G", "lam"): ctx.assume(3 * g("lam") > -2 * g("G"))
    if pair == ("G", "M"): ctx.assume(3 * g("M") > 4 * g("G"))
    if pair == ("lam", "K"): ctx.assume(g("lam") < g("K"))
    if pair == ("lam", "M"):
        ctx.assume(g("lam") < g("M")); ctx.assume(2 * g("lam") > -g("M"))
    if pair == ("K", "M"): ctx.assume(g("K") < g("M"))
    return v


def _textbook(kind, E, nu, G):
    """textbook isotropic relations: each modulus from (E, nu, G)"""
    if kind == "E": return E
    if kind == "nu": return nu
    if kind == "G": return G
    if kind == "lam": return E * nu / ((1 + nu) * (1 - 2 * nu))
    if kind == "K": return E / (3 * (1 - 2 * nu))
    if kind == "M": return E * (1 - nu) / ((1 + nu) * (1 - 2 * nu))


def moduli_zero(ctx, pair=("E", "nu")):
    """as C16.moduli, but a Poisson ratio / Lame parameter equal to zero is an admissible input (nu = 0 <=> lam = 0)"""
    moduli(ctx, pair, full=True, allow_zero=True)


def moduli(ctx, pair=("E", "nu"), full=False, allow_zero=False):
    """moduliToC: the compliance matrix handed to the final inversion is the isotropic compliance of an (E, nu, G) triple
    that reproduces both inputs through the textbook relations and satisfies G = E/(2(1+nu)); with `full` the returned
    stiffness is isotropic and gives back the two inputs (round trip)"""
    pair = tuple(pair)
    v = _moduli_inputs(ctx, pair, allow_zero)
    del _SEEN[:]
    c = moduliToC(**v)
    # concrete runs go through the real np.linalg.inv: the matrix that was inverted is recovered from the result
    seen = [np.linalg.inv(c)] if ctx.mode == "concrete" else list(_SEEN)
    ctx.prove("exactly one matrix inverted", len(seen) == 1 and np.shape(seen[0]) == (6, 6))
    if len(seen) != 1:
        return
    s = seen[0]
    ctx.observe("s", s)
    zero = 0.0 * s[0, 0]
    ctx.prove("compliance has the isotropic pattern",
              ctx.all([ctx.eq(s[i, j], s[0, 0] if i == j < 3 else s[3, 3] if i == j else s[0, 1] if (i < 3 and j < 3) else zero, atol=1e-300)
                       for i in range(6) for j in range(6)]))
    E1 = 1 / s[0, 0]; G1 = 1 / s[3, 3]; nu1 = -s[0, 1] * E1
    ctx.prove("G = E / (2 (1 + nu))", ctx.eq(2 * G1 * (1 + nu1), E1))
    for k in pair:
        ctx.prove("input %s reproduced by the derived (E, nu, G)" % k, ctx.eq(_textbook(k, E1, nu1, G1), v[k]))
    if full:
        ctx.observe("c", c)
        c11, c12, c44 = c[0, 0], c[0, 1], c[3, 3]
        ctx.prove("stiffness has the cubic pattern",
                  ctx.all([ctx.eq(c[i, j], c11 if i == j < 3 else c44 if i == j else c12 if (i < 3 and j < 3) else zero, atol=1e-9)
                           for i in range(6) for j in range(6)]))
        ctx.prove("stiffness is isotropic: c11 - c12 = 2 c44", ctx.eq(c11 - c12, 2 * c44))
        back = {"G": c44, "lam": c12, "M": c11, "K": (c11 + 2 * c12) / 3, "E": c44 * (3 * c12 + 2 * c44) / (c12 + c44), "nu": c12 / (2 * (c12 + c44))}
        for k in pair:
            ctx.prove("round trip: %s recovered from the stiffness" % k, ctx.eq(back[k], v[k]))


def moduli_from_solid(ctx, pair=("E", "nu"), nu_sign="any"):
    """the other direction of the round trip: an isotropic solid (E, nu) -> the two moduli of the given kinds (textbook
    relations) -> moduliToC -> the stiffness of that same solid"""
    pair = tuple(pair)
    E = ctx.real("E", (1.0, 3.0)); nu = ctx.real("nu", (0.05, 0.45) if nu_sign != "negative" else (-0.6, -0.05))
    ctx.assume(E > 0); ctx.assume(nu > -1); ctx.assume(2 * nu < 1)
    if nu_sign == "nonnegative":
        ctx.assume(nu >= 0)
    elif nu_sign == "negative":
        ctx.assume(nu < 0)
    if pair == ("nu", "lam"):
        ctx.assume(ctx.neg(ctx.eq(nu, 0.0, rtol=0.0)), "(nu, lam) = (0, 0) does not determine a solid")
    G = E / (2 * (1 + nu))
    v = {k: _textbook(k, E, nu, G) for k in pair}
    del _SEEN[:]
    c = moduliToC(**v)
    ctx.observe("c", c)
    den = (1 + nu) * (1 - 2 * nu)
    ref = {"c11": E * (1 - nu) / den, "c12": E * nu / den, "c44": G}
    ctx.prove("moduliToC(moduli of the solid) is the stiffness of the solid",
              ctx.all([ctx.eq(c[0, 0], ref["c11"]), ctx.eq(c[0, 1], ref["c12"]), ctx.eq(c[3, 3], ref["c44"])]))



# ------------------------------------------------------------------------------------------------ isotropic sphere

def iso_sphere(ctx, via="constants", eig="scalar"):
    """isotropic matrix, spherical particle: StrainEnergy.compute gives 2G(1+nu)/(1-nu) eps^2 V  (V = 4/3 pi R^3)"""
    G = ctx.real("G", (0.5, 2.0)); nu = ctx.real("nu", (0.05, 0.45)); eps = ctx.real("eps", (-0.05, 0.05)); R = ctx.real("R", (0.5, 2.0))
    ctx.assume(G > 0); ctx.assume(nu > -1); ctx.assume(2 * nu < 1); ctx.assume(R > 0)
    se = StrainEnergy()
    if via == "constants":
        lam = 2 * G * nu / (1 - 2 * nu)           # textbook Lame parameter
        se.setElasticConstants(lam + 2 * G, lam, G)
    elif via == "tensor":
        lam = 2 * G * nu / (1 - 2 * nu)
        se.setElasticTensor(elasticConstantToC(lam + 2 * G, lam, G))
    else:
        ctx.assume(ctx.neg(ctx.eq(nu, 0.0, rtol=0.0)), "nu = 0 counts as 'not given' (see C16.moduli_zero)")
        se.setModuli(G=G, nu=nu)
    ctx.prove("elastic constants switch the description from constant to the spherical approximation", isinstance(se.description, SphericalEnergyDescription)
              and type(se.description) is SphericalEnergyDescription)
    if eig == "scalar":
        se.setEigenstrain(eps)
    elif eig == "vector":
        se.setEigenstrain([eps, eps, eps])
    else:
        z = 0.0 * eps
        se.setEigenstrain([[eps, z, z], [z, eps, z], [z, z, eps]])
    u = se.compute([R, R, R]) * 1      # (0-d array on plain numpy)
    ctx.observe("u", u)
    V = 4 * np.pi / 3 * R ** 3
    ctx.prove("E = 2G(1+nu)/(1-nu) eps^2 V", ctx.eq(u, 2 * G * (1 + nu) / (1 - nu) * eps ** 2 * V))
    # the description object computes the same through its own entry point, for an array of radii as well
    u2 = se.compute(np.array([[R, R, R], [2 * R, 2 * R, 2 * R]]))
    ctx.prove("array of radii -> array of energies", np.shape(u2) == (2,))
    ctx.prove("energy scales with the cube of the radius", ctx.eq(u2[1], 8 * u2[0]))
    ctx.prove("first entry equals the single-radius result", ctx.eq(u2[0], u))


# ------------------------------------------------------------------------------------------------ objects do not share state

def instances_independent(ctx, form="scalar"):
    """StrainEnergy objects are independent: configuring a second object does not change the first one's energy, a scalar
    eigenstrain replaces an earlier full tensor completely, and an object that never received an eigenstrain has none
    (eigenstrains concrete, isotropic sphere: closed form 2G(1+nu)/(1-nu) eps^2 V per object)"""
    G = ctx.real("G", (0.5, 2.0)); nu = ctx.real("nu", (0.05, 0.45)); R = ctx.real("R", (0.5, 2.0))
    ctx.assume(G > 0); ctx.assume(nu > -1); ctx.assume(2 * nu < 1); ctx.assume(R > 0)
    lam = 2 * G * nu / (1 - 2 * nu)
    eA, eB = 0.01, 0.02
    mk = lambda e: e if form == "scalar" else [e, e, e]
    a = StrainEnergy(); a.setElasticConstants(lam + 2 * G, lam, G); a.setEigenstrain(mk(eA))
    b = StrainEnergy(); b.setElasticConstants(lam + 2 * G, lam, G); b.setEigenstrain(mk(eB))
    c = StrainEnergy(); c.setElasticConstants(lam + 2 * G, lam, G)
    c.setEigenstrain([[0.01, 0.003, 0.001], [0.003, 0.01, 0.002], [0.001, 0.002, 0.02]])
    c.setEigenstrain(mk(eA))
    fresh = StrainEnergy()
    rr = [R, R, R]
    ua, ub, uc = a.compute(rr) * 1, b.compute(rr) * 1, c.compute(rr) * 1
    ctx.observe("ua", ua); ctx.observe("ub", ub)
    V = 4 * np.pi / 3 * R ** 3
    closed = lambda e: 2 * G * (1 + nu) / (1 - nu) * e ** 2 * V
    ctx.prove("energy of object A equals the closed form with ITS eigenstrain after object B was configured", ctx.eq(ua, closed(eA)))
    ctx.prove("energy of object B equals the closed form with its eigenstrain", ctx.eq(ub, closed(eB)))
    ctx.prove("E_B / E_A = 4", ctx.eq(ub, 4 * ua))
    ea, eb, ec, ef = (np.array(x.params.eigenstrain) for x in (a, b, c, fresh))
    ctx.prove("stored eigenstrain of A is eps_A * identity", all(float(ea[i, j]) == (eA if i == j else 0.0) for i in R3 for j in R3))
    ctx.prove("stored eigenstrain of B is eps_B * identity", all(float(eb[i, j]) == (eB if i == j else 0.0) for i in R3 for j in R3))
    ctx.prove("scalar eigenstrain after a full tensor leaves no off-diagonal component", all(float(ec[i, j]) == (eA if i == j else 0.0) for i in R3 for j in R3))
    ctx.prove("energy after tensor-then-scalar equals the scalar one", ctx.eq(uc, closed(eA)))
    ctx.prove("an object that never received an eigenstrain has zero eigenstrain", all(float(ef[i, j]) == 0.0 for i in R3 for j in R3))
    ctx.prove("objects do not share their parameter record", a.params is not b.params and a.params.eigenstrain is not b.params.eigenstrain)


def instances_by_name(ctx, name="sphere"):
    """objects whose shape was chosen BY NAME ('sphere', 'cube', 'constant') own their description: the earlier object still
    computes with ITS stiffness and eigenstrain after a later one was created and configured"""
    Ga = ctx.real("Ga", (0.5, 2.0)); nua = ctx.real("nua", (0.05, 0.45)); Gb = ctx.real("Gb", (0.5, 2.0)); nub = ctx.real("nub", (0.05, 0.45))
    R = ctx.real("R", (0.5, 2.0))
    for (G, nu) in ((Ga, nua), (Gb, nub)):
        ctx.assume(G > 0); ctx.assume(nu > -1); ctx.assume(2 * nu < 1)
    ctx.assume(R > 0)
    eA, eB = 0.01, 0.03
    rr = [R, R, R]
    V = 4 * np.pi / 3 * R ** 3
    closed = lambda G, nu, e: 2 * G * (1 + nu) / (1 - nu) * e ** 2 * V
    lam = lambda G, nu: 2 * G * nu / (1 - 2 * nu)
    if name == "constant":
        a = StrainEnergy("constant"); b = StrainEnergy("constant"); c = StrainEnergy()
        objs = (a, b, c)
    else:
        a = StrainEnergy(name); a.setElasticConstants(lam(Ga, nua) + 2 * Ga, lam(Ga, nua), Ga); a.setEigenstrain(eA)
        first = a.compute(rr) * 1
        b = StrainEnergy(name); b.setElasticConstants(lam(Gb, nub) + 2 * Gb, lam(Gb, nub), Gb); b.setEigenstrain(eB)
        c = StrainEnergy(); c.setShape(name)
        ua, ub = a.compute(rr) * 1, b.compute(rr) * 1
        ctx.observe("ua", ua); ctx.observe("ub", ub)
        # for an isotropic matrix the cubic-anisotropy terms of Khachaturyan's formula vanish: cube and sphere share the closed form
        ctx.prove("earlier object: energy equals the closed form of ITS stiffness and eigenstrain after the later object was configured", ctx.eq(ua, closed(Ga, nua, eA)))
        ctx.prove("earlier object: energy unchanged by creating the later object", ctx.eq(ua, first))
        ctx.prove("later object: energy equals the closed form of its stiffness and eigenstrain", ctx.eq(ub, closed(Gb, nub, eB)))
        a.setEigenstrain(2 * eA)
        ctx.prove("earlier object reacts to its own eigenstrain: doubled -> energy x 4", ctx.eq(a.compute(rr) * 1, 4 * first))
        ctx.prove("later object unaffected by the earlier object's new eigenstrain", ctx.eq(b.compute(rr) * 1, ub))
        objs = (a, b, c)
    want = {"sphere": SphericalEnergyDescription, "cube": CuboidalEnergyDescription, "constant": ConstantEnergyDescription}[name]
    ctx.prove("description has the named type", all(type(o.description) is want for o in objs))
    ctx.prove("every object's description reads that object's own parameter record", all(o.description.params is o.params for o in objs))
    ctx.prove("objects do not share a description object", len({id(o.description) for o in objs}) == len(objs))
    if name == "constant":
        a.setConstantElasticEnergy(5.0); b.setConstantElasticEnergy(7.0)
        ua, ub = a.compute(rr) * 1, b.compute(rr) * 1
        ctx.observe("ua", ua)
        ctx.prove("constant energy: earlier object keeps its own value", ctx.all([ctx.eq(ua, 5.0 * V), ctx.eq(ub, 7.0 * V)]))
        ctx.prove("an untouched object has zero constant energy", ctx.eq(c.compute(rr) * 1, 0.0 * V, atol=1e-300))


# ------------------------------------------------------------------------------------------------ the phi/theta grid option

def grid_nodes(ctx, phiInt=2, thetaInt=3, sym=True):
    """real setIntegrationIntervals (concrete small interval counts, phiInt != thetaInt): the nodes are the centres of the
    phiInt x thetaInt equal cells of [0, phi_max] x [0, theta_max], each combination once, weight sin(theta), and
    8 dA sum(w) is the midpoint-rule value of the sphere area 4 pi (exact trigonometric sum)"""
    import math
    d = _ell()
    d.setIntegrationIntervals(phiInt, thetaInt, assumeSymmetric=sym)
    phiMax, thMax = (math.pi / 2, math.pi / 2) if sym else (2 * math.pi, math.pi)
    dphi, dth = phiMax / phiInt, thMax / thetaInt
    phi = [float(x) for x in np.array(d.midPhiGrid).ravel()]; th = [float(x) for x in np.array(d.midThetaGrid).ravel()]
    w = [float(x) for x in np.array(d.midWeights).ravel()]
    ctx.observe("phi", phi); ctx.observe("theta", th); ctx.observe("dA", float(d.dA))
    close = lambda x, y: abs(x - y) <= 1e-12 * max(1.0, abs(x), abs(y))
    ctx.prove("one node per cell", len(phi) == len(th) == len(w) == phiInt * thetaInt)
    cells = sorted((round(p / dphi - 0.5), round(t / dth - 0.5)) for p, t in zip(phi, th))
    ctx.prove("every (phi cell, theta cell) combination occurs exactly once", cells == sorted((i, j) for i in range(phiInt) for j in range(thetaInt)))
    ctx.prove("phi nodes are the centres of equal sub-intervals of [0, phi_max]", all(close(p, (round(p / dphi - 0.5) + 0.5) * dphi) for p in phi))
    ctx.prove("theta nodes are the centres of equal sub-intervals of [0, theta_max]", all(close(t, (round(t / dth - 0.5) + 0.5) * dth) for t in th))
    ctx.prove("nodes stay inside the integration domain", all(0 < p < phiMax for p in phi) and all(0 < t < thMax for t in th))
    ctx.prove("weights are sin(theta)", all(close(x, math.sin(t)) for x, t in zip(w, th)))
    ctx.prove("dA is the cell area (1/8 of it over the full sphere, sphInt multiplies by 8)", close(float(d.dA), dphi * dth * (1.0 if sym else 0.125)))
    total = 8 * float(d.dA) * sum(w)
    exact_mid = (8 if sym else 1) * phiMax * dth * math.sin(thMax / 2) ** 2 / math.sin(dth / 2)     # sum_j sin((j + 1/2) h) = sin^2(n h / 2) / sin(h / 2)
    ctx.prove("8 dA sum(w) is the midpoint-rule value of the sphere area", close(total, exact_mid))
    ctx.prove("... which is 4 pi up to the midpoint-rule error", abs(total - 4 * math.pi) <= 4 * math.pi * dth ** 2 / 12)
    s = ctx.real("s", (0.5, 2.0))      # the harness has no symbolic input of its own; a trivial one keeps the vacuity twin meaningful
    ctx.prove("(solver witness)", ctx.eq(s + s, 2 * s))


def grid_octant(ctx, n=12):
    """KNOWN FINDING: with the default assumeSymmetric=True the grid option integrates one octant
    and multiplies by 8; the components of D that are odd in a direction cosine do not vanish over one octant"""
    import math
    G, nu, eps = 57.1e9, 0.33, 0.01
    res = {}
    for sym in (True, False):
        se = StrainEnergy("ellipsoid"); se.setElasticConstants(2 * G * (1 - nu) / (1 - 2 * nu), 2 * G * nu / (1 - 2 * nu), G); se.setEigenstrain(eps)
        d = se.description
        d.setIntegrationIntervals(n if sym else 4 * n, n if sym else 2 * n, assumeSymmetric=sym)
        r = np.array([4e-9, 4e-9, 4e-9])
        S = d.Sijmn(d.Dijkl(r, se.params.cMatrix_4th))
        se.setElasticConsantsPrecipitate(2 * 2 * G * (1 - 0.2) / (1 - 0.4), 2 * 2 * G * 0.2 / (1 - 0.4), 2 * G)
        res[sym] = (S, float(se.compute(r)))
    S = res[True][0]
    odd = [(i, j, k, l) for (i, j, k, l) in IDX4 if any((i, j, k, l).count(v) % 2 for v in R3)]
    ctx.observe("S1211", float(S[0, 1, 0, 0])); ctx.observe("Einhom", res[True][1])
    ctx.prove("full-sphere grid: components of the Eshelby tensor that are odd in an index vanish (textbook 0)", all(abs(float(res[False][0][q])) < 1e-6 for q in odd))
    ctx.prove("symmetric (default) grid: components of the Eshelby tensor that are odd in an index vanish (textbook 0)", all(abs(float(S[q])) < 1e-6 for q in odd))
    ctx.prove("symmetric (default) grid: inhomogeneous-sphere energy agrees with the full-sphere grid within 2 %", abs(res[True][1] / res[False][1] - 1) < 0.02)
    s = ctx.real("s", (0.5, 2.0))
    ctx.prove("(solver witness)", ctx.eq(s + s, 2 * s))


def applied_stress_order(ctx, orders="few"):
    """the stored applied stress is the rotation of the stress the user supplied, whatever the order and number of setter
    calls (update() used to rotate the STORED value again on every call)"""
    a = ctx.real("ra", (-1.0, 1.0)); b = ctx.real("rb", (-1.0, 1.0))
    zero, one = 0.0 * a, 1.0 + 0.0 * a
    Rm = [[a, -b, zero], [b, a, zero], [zero, zero, one]]
    sg = ctx.reals("sig", 6, (0.5, 2.0))
    ctx.assume(sg[0] > 0); ctx.assume(sg[2] > 0); ctx.assume(a > 0); ctx.assume(b > 0)
    sig = [[sg[0], sg[5], sg[4]], [sg[5], sg[1], sg[3]], [sg[4], sg[3], sg[2]]]
    c11 = ctx.real("c11", (2.0, 3.0)); c12 = ctx.real("c12", (0.5, 1.5)); c44 = ctx.real("c44", (0.5, 1.5))
    ctx.assume(c12 > 0); ctx.assume(c44 > 0); ctx.assume(c11 > c12)
    objs = []
    few = (("R", "A", "M", "P"), ("R", "A", "P", "M"), ("A", "M", "R", "P"), ("M", "R", "A", "P"), ("A", "R", "M", "P"), ("M", "A", "R", "P"))
    for perm in (few if orders == "few" else list(itertools.permutations(("R", "A", "M", "P")))):
        se = StrainEnergy()
        for op in perm:
            if op == "A": se.setAppliedStress(sig)
            elif op == "R": se.setRotationMatrix(Rm)
            elif op == "M": se.setElasticConstants(c11, c12, c44)
            else: se.setElasticConsantsPrecipitate(c11 + 1, c12, c44)
        objs.append((",".join(perm), se))
    ref = np.array(objs[0][1].params.appliedStress)
    ctx.observe("stress", ref)
    # textbook rotation of a 2nd-rank tensor: sigma'_ij = R_ik R_jl sigma_kl
    ctx.prove("stored applied stress is R sigma R^T of the supplied stress",
              ctx.all([ctx.eq(ref[i, j], sum(Rm[i][k] * Rm[j][l] * sig[k][l] for k in R3 for l in R3), atol=1e-12) for i in R3 for j in R3]))
    for name, se in objs[1:]:
        x = np.array(se.params.appliedStress)
        ctx.prove("every order: same stored applied stress", ctx.all([ctx.eq(x[i, j], ref[i, j], atol=1e-12) for i in R3 for j in R3]), note=name)


def _cut_inv(a):
    """np.linalg.inv cut: the result (applied strain) is not examined"""
    return np.zeros(np.shape(a))


# ------------------------------------------------------------------------------------------------ rotations and setter order

def _rot_ref(R, c4):
    """textbook rotation of a 4th-rank tensor T'_ijkl = R_im R_jn R_ko R_lp T_mnop (skipping structural zeros of T)"""
    from vk import core
    nz = [(m, n, o, p) for (m, n, o, p) in IDX4 if core.is_sym(c4[m, n, o, p]) or float(c4[m, n, o, p]) != 0.0]
    out = {}
    for (i, j, k, l) in IDX4:
        out[i, j, k, l] = sum((R[i, m] * R[j, n] * R[k, o] * R[l, p] * c4[m, n, o, p] for (m, n, o, p) in nz), 0.0 * R[0, 0])
    return out


def _same_params(ctx, tag, a, b, names=("cMatrix_4th", "cMatrix_2nd", "cPrec_4th", "cPrec_2nd"), desc_of=None):
    for nm in names:
        x, y = getattr(a.params, nm), getattr(b.params, nm)
        ctx.prove("%s: same shape of %s" % (tag, nm), np.shape(x) == np.shape(y))
        ctx.prove("%s: same %s" % (tag, nm), ctx.all([ctx.eq(x[idx], y[idx], atol=1e-12) for idx in np.ndindex(*np.shape(x))]))
    da, db = desc_of if desc_of is not None else (a, b)
    ctx.prove("%s: same description type" % tag, type(da.description) is type(db.description))


def setter_order(ctx, target="matrix", shape="default"):
    """rotation and stiffness may be supplied in either order: the stored (rotated) tensors are the same, and they are the
    textbook rotation of the supplied stiffness"""
    R = ctx.reals("R", (3, 3), (-1.0, 1.0))
    c11 = ctx.real("c11", (2.0, 3.0)); c12 = ctx.real("c12", (0.5, 1.5)); c44 = ctx.real("c44", (0.5, 1.5))
    ctx.assume(c11 > 0); ctx.assume(c44 > 0)

    def mk():
        se = StrainEnergy()
        if shape == "ellipsoid":
            se.setEllipsoidal()
        return se
    if target == "matrix":
        a = mk(); a.setRotationMatrix(R); a.setElasticConstants(c11, c12, c44)
        b = mk(); b.setElasticConstants(c11, c12, c44); b.setRotationMatrix(R)
        c = mk(); c.setRotationMatrix(R); c.setElasticTensor(elasticConstantToC(c11, c12, c44))
        _same_params(ctx, "rotation first / stiffness first", a, b)
        _same_params(ctx, "constants / 6x6 tensor", a, c)
        ref = _rot_ref(R, convert2To4rankTensor(elasticConstantToC(c11, c12, c44)))
        ctx.observe("c4", b.params.cMatrix_4th)
        for i in R3:
            ctx.prove("stored matrix tensor is the textbook rotation of the supplied stiffness",
                      ctx.all([ctx.eq(b.params.cMatrix_4th[i, j, k, l], ref[i, j, k, l], atol=1e-12) for j in R3 for k in R3 for l in R3]))
        ctx.prove("6x6 form is the Voigt image of the 4th-rank form",
                  ctx.all([ctx.eq(b.params.cMatrix_2nd[I, J], b.params.cMatrix_4th[i, j, k, l]) for I, (i, j) in enumerate(VOIGT) for J, (k, l) in enumerate(VOIGT)]))
        ctx.prove("precipitate defaults to the matrix tensor", ctx.all([ctx.eq(b.params.cPrec_4th[idx], b.params.cMatrix_4th[idx]) for idx in IDX4]))
    else:
        p11 = ctx.real("p11", (2.0, 3.0)); p12 = ctx.real("p12", (0.5, 1.5)); p44 = ctx.real("p44", (0.5, 1.5))
        ctx.assume(p11 > 0); ctx.assume(p44 > 0)
        seqs = {
            "m,R,p": ("m", "R", "p"), "m,p,R": ("m", "p", "R"), "R,p,m": ("R", "p", "m"), "p,R,m": ("p", "R", "m"), "p,m,R": ("p", "m", "R"),
        }
        objs = {}
        for name, seq in seqs.items():
            se = mk()
            for op in seq:
                if op == "m": se.setElasticConstants(c11, c12, c44)
                elif op == "p": se.setElasticConsantsPrecipitate(p11, p12, p44)
                else: se.setRotationPrecipitate(R)
            objs[name] = se
        base = objs["m,R,p"]
        for name in list(seqs)[1:]:
            _same_params(ctx, "order %s vs m,R,p" % name, base, objs[name])
        ref = _rot_ref(R, convert2To4rankTensor(elasticConstantToC(p11, p12, p44)))
        last = objs["m,p,R"]
        ctx.observe("p4", last.params.cPrec_4th)
        for i in R3:
            ctx.prove("stored precipitate tensor is the textbook rotation of the supplied stiffness",
                      ctx.all([ctx.eq(last.params.cPrec_4th[i, j, k, l], ref[i, j, k, l], atol=1e-12) for j in R3 for k in R3 for l in R3]))
        um = convert2To4rankTensor(elasticConstantToC(c11, c12, c44))
        ctx.prove("matrix tensor untouched by the precipitate rotation", ctx.all([ctx.eq(last.params.cMatrix_4th[idx], um[idx]) for idx in IDX4]))


# ------------------------------------------------------------------------------------------------ every order of the configuration calls

def _perm_list(ops, limit=None):
    ps = list(itertools.permutations(ops))
    return ps if limit is None else ps[:limit]


def config_order(ctx, shape="ellipsoid", setters="constants", ops=("S", "M", "P", "Rp"), extra=("Rm", "E")):
    """a user may supply shape choice, matrix stiffness, precipitate stiffness, rotation(s) and eigenstrain in any order: the
    description in use is the chosen shape and the stored (rotated) tensors and the eigenstrain are the same for every order.
    All permutations of `ops`; the calls in `extra` are inserted at a position that varies with the permutation."""
    a = ctx.real("ra", (-1.0, 1.0)); b = ctx.real("rb", (-1.0, 1.0)); c = ctx.real("rc", (-1.0, 1.0)); d_ = ctx.real("rd", (-1.0, 1.0))
    zero, one = 0.0 * a, 1.0 + 0.0 * a
    Rm = [[a, -b, zero], [b, a, zero], [zero, zero, one]]          # matrix axes: about z (entries arbitrary reals)
    Rp = [[one, zero, zero], [zero, c, -d_], [zero, d_, c]]        # precipitate axes: about x
    eps = ctx.reals("e", 3, (-0.05, 0.05))
    if setters == "moduli":
        Gm = ctx.real("Gm", (0.5, 2.0)); num = ctx.real("num", (0.05, 0.45)); Ep = ctx.real("Ep", (1.0, 3.0)); Kp = ctx.real("Kp", (1.0, 3.0))
        ctx.assume(Gm > 0); ctx.assume(num > 0); ctx.assume(2 * num < 1); ctx.assume(Ep > 0); ctx.assume(Kp > 0); ctx.assume(Ep < 9 * Kp)
    else:
        c11 = ctx.real("c11", (2.0, 3.0)); c12 = ctx.real("c12", (0.5, 1.5)); c44 = ctx.real("c44", (0.5, 1.5))
        p11 = ctx.real("p11", (2.0, 3.0)); p12 = ctx.real("p12", (0.5, 1.5)); p44 = ctx.real("p44", (0.5, 1.5))
        ctx.assume(c11 > 0); ctx.assume(c44 > 0); ctx.assume(p11 > 0); ctx.assume(p44 > 0)
    want = {"ellipsoid": EllipsoidalEnergyDescription, "cuboidal": CuboidalEnergyDescription, "spherical": SphericalEnergyDescription,
            "ctor-ellipsoid": EllipsoidalEnergyDescription, "ctor-plate": EllipsoidalEnergyDescription, "ctor-cube": CuboidalEnergyDescription}[shape]

    def apply(se, op, n):
        if op == "S":
            {"ellipsoid": se.setEllipsoidal, "cuboidal": se.setCuboidal, "spherical": se.setSpherical}[shape]()
        elif op == "M":
            if setters == "moduli":
                se.setModuli(G=Gm, nu=num)
            elif setters == "tensor" or (setters == "mixed" and n % 2 == 0):
                se.setElasticTensor(elasticConstantToC(c11, c12, c44))
            else:
                se.setElasticConstants(c11, c12, c44)
        elif op == "P":
            if setters == "moduli":
                se.setModuliPrecipitate(E=Ep, K=Kp)
            elif setters == "tensor" or (setters == "mixed" and n % 3 == 0):
                se.setElasticTensorPrecipitate(elasticConstantToC(p11, p12, p44))
            else:
                se.setElasticConsantsPrecipitate(p11, p12, p44)
        elif op == "Rm":
            se.setRotationMatrix(Rm)
        elif op == "Rp":
            se.setRotationPrecipitate(Rp)
        elif op == "E":
            se.setEigenstrain([eps[0], eps[1], eps[2]])

    ctor = {"ctor-ellipsoid": "ellipsoid", "ctor-plate": "plate", "ctor-cube": "cube"}.get(shape)
    perms = [p for p in itertools.permutations(ops) if ctor is None or p[0] == "S"]
    objs = []
    for n, perm in enumerate(perms):
        seq = list(perm)
        for q, x in enumerate(extra):
            seq.insert((n + 2 * q) % (len(seq) + 1), x)
        if ctor is not None:
            seq = [x for x in seq if x != "S"]
            se = StrainEnergy(ctor)
        else:
            se = StrainEnergy()
        for x in seq:
            apply(se, x, n)
        objs.append((",".join(seq), se))
    ctx.prove("orders explored", len(objs) >= 2)
    name0, ref = objs[0]
    ctx.observe("cM", ref.params.cMatrix_4th); ctx.observe("cP", ref.params.cPrec_4th)
    for name, se in objs:
        ctx.prove("every order: the description in use is the chosen shape", type(se.description) is want, note=name)
        ctx.prove("every order: the description reads the object's own parameter record", se.description.params is se.params, note=name)
    for name, se in objs[1:]:
        for nm in ("cMatrix_4th", "cMatrix_2nd", "cPrec_4th", "cPrec_2nd", "eigenstrain"):
            x, y = np.array(getattr(ref.params, nm)), np.array(getattr(se.params, nm))
            ok = np.shape(x) == np.shape(y)
            ctx.prove("every order: same stored %s" % nm,
                      ctx.all([ctx.eq(x[idx], y[idx], atol=1e-12) for idx in np.ndindex(*np.shape(x))]) if ok else False, note="%s vs %s" % (name, name0))
    # the precipitate tensor is really the precipitate's (not the matrix default) and differs from it structurally
    ctx.prove("precipitate tensor is its own array", ref.params.cPrec_4th is not ref.params.cMatrix_4th)


def _quat_matrix(w, x, y, z):
    """textbook rotation matrix of the quaternion (w, x, y, z), not normalised: Q Q^T = |q|^4 I; every proper rotation
    is Q(q) for a unit quaternion"""
    return np.array([[w * w + x * x - y * y - z * z, 2 * (x * y - w * z), 2 * (x * z + w * y)],
                     [2 * (x * y + w * z), w * w - x * x + y * y - z * z, 2 * (y * z - w * x)],
                     [2 * (x * z - w * y), 2 * (y * z + w * x), w * w - x * x - y * y + z * z]])


def rot_iso(ctx, order="after", improper=False):
    """isotropic matrix: the stored stiffness does not depend on the orientation of the matrix axes, hence neither does any
    energy computed from it.  Shown as the polynomial identity rotate(Q(q), C_iso) = |q|^8 C_iso for the quaternion
    parametrisation Q(q) of the rotations (|q| = 1: orthogonal R, C unchanged)"""
    q = ctx.reals("q", 4, (-1.0, 1.0))
    n2 = sum(q[i] * q[i] for i in range(4))
    R = _quat_matrix(q[0], q[1], q[2], q[3])
    if improper:
        R = -R
    lam = ctx.real("lam", (0.5, 1.5)); G = ctx.real("G", (0.5, 1.5))
    ctx.assume(G > 0)
    a = StrainEnergy(); a.setElasticConstants(lam + 2 * G, lam, G)
    b = StrainEnergy()
    if order == "after":
        b.setElasticConstants(lam + 2 * G, lam, G); b.setRotationMatrix(R)
    else:
        b.setRotationMatrix(R); b.setElasticConstants(lam + 2 * G, lam, G)
    ctx.observe("c4", b.params.cMatrix_4th)
    n8 = n2 * n2 * n2 * n2
    d = lambda i, j: 1.0 if i == j else 0.0
    for i in R3:
        for j in R3:
            ctx.prove("isotropic stiffness invariant under rotation: rotate(Q(q), C) = |q|^8 C",
                      ctx.all([ctx.eq(b.params.cMatrix_4th[i, j, k, l], n8 * a.params.cMatrix_4th[i, j, k, l], atol=1e-9) for k in R3 for l in R3]))
            ctx.prove("unrotated tensor is lam d_ij d_kl + G (d_ik d_jl + d_il d_jk)",
                      ctx.all([ctx.eq(a.params.cMatrix_4th[i, j, k, l], lam * d(i, j) * d(k, l) + G * (d(i, k) * d(j, l) + d(i, l) * d(j, k)), atol=1e-12) for k in R3 for l in R3]))
    ctx.prove("6x6 form invariant as well", ctx.all([ctx.eq(b.params.cMatrix_2nd[I, J], n8 * a.params.cMatrix_2nd[I, J], atol=1e-9) for I in range(6) for J in range(6)]))


# ------------------------------------------------------------------------------------------------ Eshelby energy: algebraic structure

def _simplified(a):
    """entry-wise z3.simplify of a symbolic matrix (x - x -> 0, 0*y -> 0): exposes the structural zero pattern"""
    import z3
    from vk import symnp, core
    a = symnp.to_obj(a).copy()
    p = symnp.plain(a)
    for idx in np.ndindex(*p.shape):
        e = p[idx]
        if isinstance(e, core.SymReal):
            t = z3.simplify(e.t, som=True)
            if z3.is_rational_value(t):
                p[idx] = float(core.z3num_to_frac(t))
            elif t.get_id() != e.t.get_id():
                p[idx] = core.SymReal(t, min(e.sz, 8))
    return a


def _exact_inv(a):
    """model of np.linalg.inv for the symbolic runs: exact inverse of a matrix that is block diagonal (blocks <= 3) after
    entry-wise simplification"""
    _SEEN.append(a.copy())
    return _block_inv(_simplified(a))


def _fixed_D():
    """a concrete D with the same mirror-symmetry pattern (dyadic sample values): used where the solver has to FIND a
    counterexample, which it cannot do within the time limit with 21 more unknowns"""
    D = np.zeros((3, 3, 3, 3))
    for (i, j, k, l) in IDX4:
        if all((i, j, k, l).count(v) % 2 == 0 for v in R3):
            D[i, j, k, l] = ((7 * i + 5 * j + 3 * k + 2 * l) % 9 - 4.5) / 8.0
    return D


def _ortho_D(ctx, name="D"):
    """opaque D_ijkl with the mirror-symmetry pattern of an axis-aligned ellipsoid in an axis-aligned cubic/orthotropic
    matrix: entries in which some index value occurs an odd number of times vanish (21 free entries)"""
    D = np.zeros((3, 3, 3, 3))
    for (i, j, k, l) in IDX4:
        if all((i, j, k, l).count(v) % 2 == 0 for v in R3):
            D[i, j, k, l] = ctx.real("%s%d%d%d%d" % (name, i, j, k, l), (-1.0, 1.0))
    return D


def _eig(ctx, kind, name="e"):
    if kind == "fixed":
        v = [0.015625, -0.03125, 0.046875]
        return v, lambda t: [t * x for x in v]
    if kind == "diag":
        v = ctx.reals(name, 3, (-0.05, 0.05))
        return [v[0], v[1], v[2]], lambda t: [t * v[0], t * v[1], t * v[2]]
    v = ctx.reals(name, 6, (-0.05, 0.05))
    m = lambda t: [[t * v[0], t * v[5], t * v[4]], [t * v[5], t * v[1], t * v[3]], [t * v[4], t * v[3], t * v[2]]]
    return m(1), m


ALL_CLAIMS = ("textbook", "compute", "volume", "quadratic", "rank_ell", "rank_bohm", "homog4", "homog6")


def _energy_core(ctx, prec, eig, dpat, claims, rot):
    c11 = ctx.real("c11", (2.0, 3.0)); c12 = ctx.real("c12", (0.5, 1.5)); c44 = ctx.real("c44", (0.5, 1.5))
    ctx.assume(c11 > 0); ctx.assume(c44 > 0); ctx.assume(c11 > c12); ctx.assume(c11 + 2 * c12 > 0)      # positive definite cubic stiffness
    r = ctx.reals("r", 3, (0.5, 2.0)); s = ctx.real("s", (0.5, 2.0)); t = ctx.real("t", (-2.0, 2.0))
    for i in R3:
        ctx.assume(r[i] > 0)
    ctx.assume(s > 0)
    e1, escaled = _eig(ctx, eig)
    D = _ortho_D(ctx) if dpat == "ortho" else _fixed_D() if dpat == "fixed" else ctx.reals("D", (3, 3, 3, 3), (-1.0, 1.0))
    se = StrainEnergy()
    se.setEllipsoidal()
    if rot:
        # proper rotation about the z axis by an arbitrary angle: normalised quaternion (w, 0, 0, z)
        w = ctx.real("qw", (0.3, 1.0)); z = ctx.real("qz", (0.3, 1.0))
        ctx.assume(w * w + z * z > 0)
        n = w * w + z * z
        cs, sn, zero = (w * w - z * z) / n, 2 * w * z / n, 0.0 * w
        se.setRotationMatrix([[cs, -sn, zero], [sn, cs, zero], [zero, zero, 1.0 + zero]])
    se.setElasticConstants(c11, c12, c44)
    if prec == "other":
        p11 = ctx.real("p11", (2.0, 3.0)); p12 = ctx.real("p12", (0.5, 1.5)); p44 = ctx.real("p44", (0.5, 1.5))
        ctx.assume(p11 > 0); ctx.assume(p44 > 0); ctx.assume(p11 > p12); ctx.assume(p11 + 2 * p12 > 0)
        se.setElasticConsantsPrecipitate(p11, p12, p44)
    elif prec == "equal":
        se.setElasticConsantsPrecipitate(c11, c12, c44)
    se.setEigenstrain(e1)
    d = se.description
    ctx.prove("ellipsoidal description in use", type(d) is EllipsoidalEnergyDescription and d.params is se.params)
    calls = []

    def Dstub(radius, c4):
        calls.append((radius, c4))
        return D
    d.Dijkl = Dstub
    fs = {"ellipsoid(4th)": d.strainEnergyEllipsoid, "ellipsoid(6x6)": d.strainEnergyEllipsoid2ndRank}
    if any(c in claims for c in ("compute", "rank_bohm", "homog4", "homog6")):
        fs.update({"bohm(4th)": d.strainEnergyBohm, "bohm(6x6)": d.strainEnergyBohm2ndRank})
    rr = np.array([r[0], r[1], r[2]])
    base = {k: f(rr) for k, f in fs.items()}
    for k in fs:
        ctx.observe(k, base[k])
    ctx.prove("quadrature asked for the matrix tensor", all(c4 is se.params.cMatrix_4th for (_, c4) in calls))
    if "textbook" in claims:
        # Eshelby tensor from D (Mura): S_ijmn = -1/2 C_lkmn (D_iklj + D_jkli); homogeneous inclusion: sigma = C (S eps - eps),
        # E = -1/2 V sigma_ij eps_ij, V = 4/3 pi r1 r2 r3
        C4 = se.params.cMatrix_4th
        from vk import core
        nzC = [(a, b, m, n) for (a, b, m, n) in IDX4 if core.is_sym(C4[a, b, m, n]) or float(C4[a, b, m, n]) != 0.0]
        Sref = {}
        for (i, j, m, n) in IDX4:
            Sref[i, j, m, n] = -0.5 * sum((C4[l, k_, m, n] * (D[i, k_, l, j] + D[j, k_, l, i]) for (l, k_, m_, n_) in nzC if (m_, n_) == (m, n)), 0.0 * c11)
        S = d.Sijmn(D)
        ctx.observe("S", S)
        for i in R3:
            for j in R3:
                ctx.prove("Sijmn(D) is -1/2 C_lkmn (D_iklj + D_jkli)", ctx.all([ctx.eq(S[i, j, m, n], Sref[i, j, m, n], atol=1e-12) for m in R3 for n in R3]))
        E = np.array(se.params.eigenstrain)
        X = {(k_, l): sum((Sref[k_, l, m, n] * E[m, n] for m in R3 for n in R3), 0.0 * c11) - E[k_, l] for k_ in R3 for l in R3}
        sig = {(i, j): sum((C4[i, j, k_, l] * X[k_, l] for (i_, j_, k_, l) in nzC if (i_, j_) == (i, j)), 0.0 * c11) for i in R3 for j in R3}
        V = 4 * np.pi / 3 * (r[0] * r[1] * r[2])
        ctx.prove("ellipsoid(4th) is the homogeneous-inclusion energy -1/2 V sigma_ij eps_ij with sigma = C (S eps - eps)",
                  ctx.eq(base["ellipsoid(4th)"], -0.5 * V * sum((sig[i, j] * E[i, j] for i in R3 for j in R3), 0.0 * c11)))
    if "compute" in claims:
        rec = []
        orig = d.strainEnergyBohm

        def spy(radius):
            v = orig(radius)
            rec.append(v)
            return v
        d.strainEnergyBohm = spy
        u = se.compute(rr) * 1
        del d.strainEnergyBohm
        ctx.prove("StrainEnergy.compute evaluates Bohm's formula (the general, two-stiffness one) exactly once", len(rec) == 1)
        ctx.prove("StrainEnergy.compute returns Bohm's energy", ctx.eq(u, base["bohm(4th)"]) if len(rec) == 1 else False)
    if "volume" in claims:
        big = {k: f(s * rr) for k, f in fs.items()}
        for k in fs:
            ctx.prove("%s: E(s r) = s^3 E(r) for the same D" % k, ctx.eq(big[k], s * s * s * base[k]))
    if "quadratic" in claims:
        se.setEigenstrain(escaled(t))
        quad = {k: f(rr) for k, f in fs.items()}
        for k in fs:
            ctx.prove("%s: E(t eps) = t^2 E(eps)" % k, ctx.eq(quad[k], t * t * base[k]))
        se.setEigenstrain(e1)
    if "rank_ell" in claims:
        ctx.prove("ellipsoid: 6x6 and 4th-rank formulations agree", ctx.eq(base["ellipsoid(6x6)"], base["ellipsoid(4th)"]))
    if "rank_bohm" in claims:
        ctx.prove("bohm: 6x6 and 4th-rank formulations agree", ctx.eq(base["bohm(6x6)"], base["bohm(4th)"]))
    if "homog4" in claims and prec != "other":
        ctx.prove("bohm(4th) reduces to the homogeneous-inclusion energy", ctx.eq(base["bohm(4th)"], base["ellipsoid(4th)"]))
    if "homog6" in claims and prec != "other":
        ctx.prove("bohm(6x6) reduces to the homogeneous-inclusion energy", ctx.eq(base["bohm(6x6)"], base["ellipsoid(6x6)"]))


def energy_form(ctx, prec="same", claims=ALL_CLAIMS, general=False, fixed=False):
    """real strainEnergyEllipsoid / Ellipsoid2ndRank / Bohm / Bohm2ndRank and Sijmn on an opaque D (the quadrature result),
    aligned cubic crystal(s), eigenstrain diagonal in the crystal axes: energy is quadratic in the eigenstrain, proportional
    to the volume (cube of a uniform scaling), the 6x6 and 4th-rank formulations agree, and Bohm's formula reduces to the
    homogeneous-inclusion result when both stiffnesses coincide"""
    if fixed:
        # same clauses on one concrete D and eigenstrain, stiffnesses symbolic (6 unknowns): a cheap search space for counterexamples
        _energy_core(ctx, prec, "fixed", "fixed", tuple(claims), False)
    elif general:
        # the 4th-rank homogeneous formulation against the textbook for any symmetric eigenstrain, any D, matrix rotated about z
        _energy_core(ctx, prec, "full", "free", ("textbook",), True)
    else:
        _energy_core(ctx, prec, "diag", "ortho", tuple(claims), False)


def energy_shear(ctx, case="shear"):
    """the same agreement clauses where a shear component takes part (eigenstrain with off-diagonal entries, or a cubic matrix
    rotated about z): KNOWN to fail -- the 6x6 routines contract Voigt rows without the factor 2 on shear entries and
    invert4rankTensor is not the 4th-rank inverse on shear components"""
    if case == "shear":
        _energy_core(ctx, "same", "full", "ortho", ("rank_ell", "rank_bohm", "homog4"), False)
    else:
        _energy_core(ctx, "same", "diag", "free", ("rank_ell",), True)


# ------------------------------------------------------------------------------------------------ the quadrature sum itself

def dijkl(ctx, k=1, what="scale"):
    """real Dijkl / sphInt on k quadrature nodes with symbolic angles and weights: the result is unchanged by a uniform
    scaling of the semi-axes (so the energy scales with the volume), and does not depend on the 3x3 inversion routine"""
    c11 = ctx.real("c11", (2.0, 3.0)); c12 = ctx.real("c12", (0.5, 1.5)); c44 = ctx.real("c44", (0.5, 1.5))
    ctx.assume(c11 > 0); ctx.assume(c44 > 0); ctx.assume(c11 > c12); ctx.assume(c11 + 2 * c12 > 0)
    r = ctx.reals("r", 3, (0.5, 2.0)); s = ctx.real("s", (0.5, 2.0))
    for i in R3:
        ctx.assume(r[i] > 0)
    ctx.assume(s > 0)
    se = StrainEnergy()
    se.setEllipsoidal()
    se.setElasticConstants(c11, c12, c44)
    d = se.description
    # state of the integrator: k nodes (the Lebedev table is replaced by symbolic nodes)
    d.midPhiGrid = ctx.reals("phi", k, (0.1, 1.4)); d.midThetaGrid = ctx.reals("theta", k, (0.1, 1.4)); d.midWeights = ctx.reals("w", k, (0.1, 1.0))
    c4 = se.params.cMatrix_4th
    rr = np.array([r[0], r[1], r[2]])
    D0 = d.Dijkl(rr, c4)
    ctx.observe("D", D0)
    ctx.prove("D is a 3x3x3x3 array", np.shape(D0) == (3, 3, 3, 3))
    if what == "scale":
        D1 = d.Dijkl(s * rr, c4)
        for i in R3:
            for j in R3:
                ctx.prove("Dijkl(s r) = Dijkl(r)", ctx.all([ctx.eq(D1[i, j, k_, l], D0[i, j, k_, l]) for k_ in R3 for l in R3]))
    elif what == "additive":
        # the quadrature is a plain sum over its nodes: with Dijkl(s r) = Dijkl(r) for ONE arbitrary node this gives the
        # scaling invariance for any number of nodes
        phi, theta, w = d.midPhiGrid, d.midThetaGrid, d.midWeights
        parts = []
        for q in range(k):
            d.midPhiGrid, d.midThetaGrid, d.midWeights = phi[q:q + 1], theta[q:q + 1], w[q:q + 1]
            parts.append(d.Dijkl(rr, c4))
        d.midPhiGrid, d.midThetaGrid, d.midWeights = phi, theta, w
        for i in R3:
            for j in R3:
                ctx.prove("Dijkl over k nodes = sum of the single-node results",
                          ctx.all([ctx.eq(D0[i, j, k_, l], sum(pt[i, j, k_, l] for pt in parts), atol=1e-12) for k_ in R3 for l in R3]))
    else:
        # what the configured inversion routine is handed: the symmetric Christoffel matrices C_iklj n_k n_l of the nodes
        seen = []
        orig = d._ohm_inverse

        def recorder(m):
            seen.append(m)
            return orig(m)
        d._ohm_inverse = recorder
        d.Dijkl(rr, c4)
        ctx.prove("inversion routine called once with a (3,3,k) array", len(seen) == 1 and np.shape(seen[0]) == (3, 3, k))
        if len(seen) == 1 and np.shape(seen[0]) == (3, 3, k):
            m = seen[0]
            ctx.observe("ohm_arg", m)
            for q in range(k):
                th, ph = d.midThetaGrid[q], d.midPhiGrid[q]
                n = [np.sin(th) * np.cos(ph), np.sin(th) * np.sin(ph), np.cos(th)]
                ctx.prove("argument is symmetric", ctx.all([ctx.eq(m[i, j, q], m[j, i, q]) for i in R3 for j in R3]))
                ctx.prove("argument is C_iklj n_k n_l with n the unit normal of the node",
                          ctx.all([ctx.eq(m[i, j, q], sum(c4[i, a_, b_, j] * n[a_] * n[b_] for a_ in R3 for b_ in R3), atol=1e-12) for i in R3 for j in R3]))


# ------------------------------------------------------------------------------------------------ isotropic sphere through Eshelby's tensor

def eshelby_sphere(ctx, via="constants"):
    """isotropic matrix, sphere, quadrature replaced by the exact value of the surface integral: the real Dijkl/Sijmn give
    the textbook Eshelby tensor and every energy formulation gives 2G(1+nu)/(1-nu) eps^2 V"""
    G = ctx.real("G", (0.5, 2.0)); nu = ctx.real("nu", (0.05, 0.45)); eps = ctx.real("eps", (-0.05, 0.05)); R = ctx.real("R", (0.5, 2.0))
    ctx.assume(G > 0); ctx.assume(nu > -1); ctx.assume(2 * nu < 1); ctx.assume(R > 0)
    lam = 2 * G * nu / (1 - 2 * nu)
    se = StrainEnergy()
    se.setEllipsoidal()
    if via == "constants":
        se.setElasticConstants(lam + 2 * G, lam, G)
    else:
        ctx.assume(ctx.neg(ctx.eq(nu, 0.0, rtol=0.0)))
        se.setModuli(G=G, nu=nu)
    se.setEigenstrain(eps)
    d = se.description
    dl = lambda i, j: 1.0 if i == j else 0.0
    # exact surface integral of ohm_ij n_k n_l / beta^3 over the unit sphere for an isotropic medium and beta = R:
    # ohm_ij = (delta_ij - n_i n_j / (2 (1 - nu))) / G, <n_k n_l> = delta_kl / 3, <n_i n_j n_k n_l> = (dd + dd + dd) / 15
    T = np.zeros((3, 3, 3, 3))
    for (i, j, k, l) in IDX4:
        iso4 = dl(i, j) * dl(k, l) + dl(i, k) * dl(j, l) + dl(i, l) * dl(j, k)
        if iso4 != 0:
            T[i, j, k, l] = 4 * np.pi / (R * R * R) * (10 * (1 - nu) * dl(i, j) * dl(k, l) - iso4) / (30 * (1 - nu) * G)
    d.sphInt = lambda radius, c4: T
    rr = np.array([R, R, R])
    S = d.Sijmn(d.Dijkl(rr, se.params.cMatrix_4th))
    ctx.observe("S", S)
    k15 = 15 * (1 - nu)
    ref = lambda i, j, k, l: (5 * nu - 1) / k15 * dl(i, j) * dl(k, l) + (4 - 5 * nu) / k15 * (dl(i, k) * dl(j, l) + dl(i, l) * dl(j, k))
    for i in R3:
        for j in R3:
            ctx.prove("Eshelby tensor of the sphere has its textbook components",
                      ctx.all([ctx.eq(S[i, j, k, l], ref(i, j, k, l), atol=1e-12) for k in R3 for l in R3]))
    V = 4 * np.pi / 3 * R ** 3
    closed = 2 * G * (1 + nu) / (1 - nu) * eps ** 2 * V
    fs = {"ellipsoid(4th)": d.strainEnergyEllipsoid, "ellipsoid(6x6)": d.strainEnergyEllipsoid2ndRank,
          "bohm(4th)": d.strainEnergyBohm, "bohm(6x6)": d.strainEnergyBohm2ndRank, "compute": lambda r_: se.compute(r_) * 1}
    for k, f in fs.items():
        u = f(rr)
        ctx.observe(k, u)
        ctx.prove("%s: E = 2G(1+nu)/(1-nu) eps^2 V" % k, ctx.eq(u, closed))


_F_CONV = [convert2To4rankTensor, convert4To2rankTensor, convertVecTo2rankTensor, convert2rankToVec]
_E = EllipsoidalEnergyDescription
_SE = StrainEnergy
_F_SE = [_SE.__init__, _SE.setShape, _SE.update, _SE.compute, _SE.setEigenstrain, _SE.setElasticConstants, _SE.setElasticTensor, _SE.setModuli,
         _SE.setRotationMatrix, _SE.setRotationPrecipitate, _SE.setElasticConsantsPrecipitate, _SE.setElasticTensorPrecipitate,
         rotateRank4Tensor, rotateRank2Tensor, convert2To4rankTensor, convert4To2rankTensor]
_F_ELL = [_E.Sijmn, _E._multiply, _E._strainEnergy, _E.strainEnergyEllipsoid, _E.strainEnergyEllipsoid2ndRank, _E.strainEnergyBohm,
          _E.strainEnergyBohm2ndRank, _E.computeStrainEnergy, invert4rankTensor]
_F_INV = [_E._ohm_quickInverse, _E._ohm_npinv, _E.setOhmInverseFunction]

HARNESSES = [
    Harness("C16.conv_roundtrip", conv_roundtrip, functions=_F_CONV,
            assumptions=["4th-rank inputs of convert4To2 have the minor symmetries c_ijkl = c_jikl = c_ijlk"],
            bounds={"entries": "all 36 / 6 entries symbolic"},
            params={"quick": [{"which": "2to4"}, {"which": "4to2"}, {"which": "vec"}], "thorough": [{"which": "2to4"}, {"which": "4to2"}, {"which": "vec"}]}),
    Harness("C16.quick_inverse", quick_inverse, functions=_F_INV,
            assumptions=["m symmetric (C_iklj n_k n_l is symmetric for a stiffness with major symmetry), det m != 0"],
            bounds={"batch": "n slices, all 6 entries of each symbolic"},
            params={"quick": [{"n": 1}, {"n": 2}], "thorough": [{"n": 3}]}),
    Harness("C16.inverse_agree", inverse_agree, functions=_F_INV,
            assumptions=["m symmetric, det m != 0"], stubs=["np.linalg.inv on a (n,3,3) stack: exact (cofactor) inverse of each slice"],
            opts={"inv_hook": _batch_inv},
            params={"quick": [{"n": 1}, {"n": 2}], "thorough": [{"n": 3}]}),
    Harness("C16.moduli", moduli, functions=[moduliToC], opts={"inv_hook": _capturing_inv, "ob_timeout": 30.0},
            assumptions=["inputs describe a mechanically stable isotropic solid: E, G, K, M > 0, -1 < nu < 1/2 (expressed on the two given moduli)",
                         "nu != 0 and lam != 0 (a zero modulus is indistinguishable from 'not given'; covered by C16.moduli_zero)"],
            stubs=["np.linalg.inv(6x6): captured (cut); continuation uses the exact inverse of the block-diagonal matrix (3x3 cofactor blocks)"],
            params={"quick": [{"pair": list(p), "full": True} for p in PAIRS], "thorough": [{"pair": list(p), "full": True} for p in PAIRS]}),
    Harness("C16.moduli_zero", moduli_zero, functions=[moduliToC], opts={"inv_hook": _capturing_inv, "ob_timeout": 30.0},
            assumptions=["as C16.moduli, with nu = 0 / lam = 0 admitted"], stubs=["np.linalg.inv(6x6): exact inverse of the block-diagonal compliance"],
            params={"quick": [{"pair": list(p)} for p in ZERO_PAIRS], "thorough": [{"pair": list(p)} for p in ZERO_PAIRS]}),
    Harness("C16.moduli_from_solid", moduli_from_solid, functions=[moduliToC], opts={"inv_hook": _capturing_inv, "ob_timeout": 30.0},
            assumptions=["solid: E > 0, -1 < nu < 1/2; for the pair (E, M) additionally nu >= 0 (two solids, one with nu < 0 and one with nu > 0, share every (E, M) with E < M; moduliToC returns the nu > 0 one: see PENDING C16.moduli_from_solid_EM)"],
            stubs=["np.linalg.inv(6x6): exact inverse of the block-diagonal compliance"],
            params={"quick": [{"pair": list(p), "nu_sign": "nonnegative" if p == ("E", "M") else "any"} for p in PAIRS],
                    "thorough": [{"pair": list(p), "nu_sign": "nonnegative" if p == ("E", "M") else "any"} for p in PAIRS]}),
    Harness("C16.iso_sphere", iso_sphere, functions=_F_SE + [SphericalEnergyDescription._Khachaturyan, SphericalEnergyDescription.computeStrainEnergy, moduliToC, elasticConstantToC],
            opts={"inv_hook": _capturing_inv, "ob_timeout": 30.0},
            assumptions=["G > 0, -1 < nu < 1/2, R > 0; eigenstrain is dilatational (eps * identity)"],
            stubs=["np.linalg.inv(6x6) in moduliToC: exact inverse of the block-diagonal compliance"],
            params={"quick": [{"via": "constants", "eig": "scalar"}, {"via": "moduli", "eig": "vector"}, {"via": "tensor", "eig": "matrix"}],
                    "thorough": [{"via": v, "eig": e} for v in ("constants", "moduli", "tensor") for e in ("scalar", "vector", "matrix")]}),
    Harness("C16.instances_independent", instances_independent, functions=_F_SE + [SphericalEnergyDescription._Khachaturyan],
            assumptions=["G > 0, -1 < nu < 1/2, R > 0 symbolic; eigenstrains concrete (0.01, 0.02, and a full tensor followed by 0.01)"],
            params={"quick": [{"form": "scalar"}, {"form": "vector"}], "thorough": [{"form": "scalar"}, {"form": "vector"}]}),
    Harness("C16.instances_by_name", instances_by_name, functions=_F_SE + [SphericalEnergyDescription._Khachaturyan, SphericalEnergyDescription.computeStrainEnergy,
                                                                      CuboidalEnergyDescription.computeStrainEnergy, ConstantEnergyDescription.computeStrainEnergy, _SE.setConstantElasticEnergy],
            assumptions=["two isotropic matrices (Ga, nua), (Gb, nub) symbolic, R > 0; eigenstrains 0.01 and 0.03 concrete"],
            params={"quick": [{"name": "sphere"}, {"name": "cube"}, {"name": "constant"}], "thorough": [{"name": "sphere"}, {"name": "cube"}, {"name": "constant"}]}),
    Harness("C16.grid_nodes", grid_nodes, functions=[_E.setIntegrationIntervals],
            assumptions=["interval counts are concrete small integers; node positions compared to 1e-12 (doubles)"],
            params={"quick": [{"phiInt": 2, "thetaInt": 3, "sym": True}, {"phiInt": 5, "thetaInt": 2, "sym": True}, {"phiInt": 3, "thetaInt": 3, "sym": False}, {"phiInt": 4, "thetaInt": 3, "sym": False},
                              {"phiInt": 6, "thetaInt": 3, "sym": False}],
                    "thorough": [{"phiInt": p_, "thetaInt": t_, "sym": s_} for p_ in (1, 2, 3, 7) for t_ in (1, 2, 4, 5) for s_ in (True, False)]}),
    Harness("C16.grid_octant", grid_octant, functions=[_E.setIntegrationIntervals, _E.sphInt, _E.Dijkl, _E.Sijmn, _E.strainEnergyBohm],
            assumptions=["isotropic matrix G = 57.1 GPa, nu = 0.33, sphere of 4 nm, precipitate twice as stiff; 12 x 12 octant grid vs 48 x 24 full-sphere grid (concrete numbers)"],
            params={"quick": [{"n": 12}], "thorough": [{"n": 12}]}),
    Harness("C16.applied_stress_order", applied_stress_order, functions=_F_SE + [_SE.setAppliedStress, _SE._computeAppliedStrain], opts={"name_threshold": 10 ** 6, "inv_hook": _cut_inv}, validate=1,
            bounds={"orders": "quick 6 orders, thorough all 24 orders of (applied stress, matrix rotation, matrix stiffness, precipitate stiffness), one to three update() calls"},
            assumptions=["symmetric applied stress (sig_11 > 0), rotation about z with arbitrary entries, cubic stiffness"], stubs=["np.linalg.inv in _computeAppliedStrain: cut (applied strain not examined)"],
            params={"quick": [{"orders": "few"}], "thorough": [{"orders": "all"}]}),
    Harness("C16.setter_order", setter_order, functions=_F_SE + [elasticConstantToC], opts={"ob_timeout": 30.0, "name_threshold": 10 ** 6},
            assumptions=["R arbitrary real 3x3 (orthogonality not needed for this clause); cubic stiffness c11, c44 > 0"],
            params={"quick": [{"target": "matrix"}, {"target": "prec"}, {"target": "matrix", "shape": "ellipsoid"}],
                    "thorough": [{"target": "matrix"}, {"target": "prec"}, {"target": "matrix", "shape": "ellipsoid"}, {"target": "prec", "shape": "ellipsoid"}]}),
    Harness("C16.config_order", config_order, functions=_F_SE + [_SE.setEllipsoidal, _SE.setCuboidal, _SE.setSpherical, _SE.setModuliPrecipitate, elasticConstantToC, moduliToC],
            opts={"ob_timeout": 30.0, "name_threshold": 10 ** 6, "inv_hook": _capturing_inv}, validate=1,
            assumptions=["shape choice is a non-constant shape (a constant energy chosen before the stiffness is replaced by the sphere by design)",
                         "rotation matrices [[a,-b,0],[b,a,0],[0,0,1]] (matrix) and [[1,0,0],[0,c,-d],[0,d,c]] (precipitate) with arbitrary real entries; cubic or isotropic stiffness"],
            stubs=["np.linalg.inv(6x6) in moduliToC: exact inverse of the block-diagonal compliance"],
            bounds={"orders": "all permutations of (shape, matrix stiffness, precipitate stiffness, precipitate rotation); matrix rotation and eigenstrain inserted at varying positions; thorough: all permutations of five calls"},
            params={"quick": [{"shape": "ellipsoid", "setters": "mixed"}, {"shape": "cuboidal", "setters": "moduli"}, {"shape": "ctor-plate", "setters": "constants"}],
                    "thorough": [{"shape": "ellipsoid", "setters": "mixed", "ops": ["S", "M", "P", "Rp", "Rm"], "extra": ["E"]}, {"shape": "cuboidal", "setters": "moduli"},
                                 {"shape": "spherical", "setters": "tensor"}, {"shape": "ctor-plate", "setters": "constants"}, {"shape": "ctor-cube", "setters": "mixed"},
                                 {"shape": "ctor-ellipsoid", "setters": "moduli"}]}),
    Harness("C16.rot_iso", rot_iso, functions=_F_SE + [elasticConstantToC], opts={"ob_timeout": 40.0, "name_threshold": 10 ** 6},
            assumptions=["R = +-Q(q), the quaternion parametrisation of O(3) (orthogonal iff |q| = 1); isotropic stiffness c11 = lam + 2G, c12 = lam, c44 = G"],
            params={"quick": [{"order": "after"}, {"order": "before", "improper": True}],
                    "thorough": [{"order": o, "improper": i} for o in ("after", "before") for i in (False, True)]}),
    Harness("C16.energy_form", energy_form, functions=_F_SE + _F_ELL, opts={"ob_timeout": 40.0, "name_threshold": 10 ** 6, "inv_hook": _exact_inv, "fast_first": False},
            assumptions=["positive-definite cubic stiffness, axes of matrix, precipitate and ellipsoid aligned (no rotation)", "eigenstrain diagonal in these axes",
                         "D (result of the quadrature) opaque with the mirror-symmetry pattern of this configuration; D(s r) = D(r) (shown in C16.dijkl)"],
            stubs=["EllipsoidalEnergyDescription.Dijkl: returns the opaque D", "np.linalg.inv(6x6): exact inverse (block diagonal after simplification)"],
            params={"quick": [{"prec": "same", "claims": ["textbook"]}, {"prec": "same", "general": True}, {"prec": "same", "claims": ["compute", "volume", "rank_ell", "rank_bohm"]}, {"prec": "same", "claims": ["quadratic"]}, {"prec": "same", "claims": ["homog4", "homog6"]},
                              {"prec": "equal", "claims": ["homog4", "homog6", "compute"]},
                              {"prec": "other", "claims": ["compute", "volume", "rank_ell", "rank_bohm"]}, {"prec": "other", "claims": ["quadratic"]},
                              {"prec": "other", "claims": ["rank_bohm"], "fixed": True}],
                    "thorough": [dict(ps, _opts={"ob_timeout": 150.0}) for pr in ("same", "equal", "other") for ps in (
                                     {"prec": pr, "claims": ["textbook", "compute", "volume"]}, {"prec": pr, "claims": ["rank_ell", "rank_bohm"]},
                                     {"prec": pr, "claims": ["quadratic"]}, {"prec": pr, "claims": ["homog4", "homog6"]}) if not (pr == "other" and "homog4" in ps["claims"])]
                                + [{"prec": "same", "general": True}, {"prec": "other", "claims": ["rank_bohm", "rank_ell", "compute"], "fixed": True}]}),
    Harness("C16.energy_shear", energy_shear, functions=_F_SE + _F_ELL, opts={"ob_timeout": 40.0, "name_threshold": 10 ** 6, "inv_hook": _exact_inv, "fast_first": False},
            assumptions=["as C16.energy_form but with a symmetric eigenstrain with shear components (case shear), or with the cubic matrix rotated about z and an arbitrary D (case rot)"],
            stubs=["EllipsoidalEnergyDescription.Dijkl: returns the opaque D", "np.linalg.inv(6x6): exact inverse (block diagonal after simplification)"],
            params={"quick": [{"case": "shear"}, {"case": "rot"}], "thorough": [{"case": "shear"}, {"case": "rot"}]}),
    Harness("C16.dijkl", dijkl, functions=_F_SE + [_E.Dijkl, _E.sphInt, _E._n, _E._beta, _E._ohm_quickInverse, _E._ohm_npinv], opts={"ob_timeout": 40.0, "inv_hook": _exact_inv},
            assumptions=["positive-definite cubic stiffness, semi-axes > 0, scaling s > 0", "sin/cos uninterpreted with sin^2 + cos^2 = 1"],
            stubs=["Lebedev node table replaced by k nodes with symbolic angles and weights (state of the integrator)", "np.linalg.inv on a (k,3,3) stack: exact inverse"],
            bounds={"quadrature nodes": "scaling: one arbitrary node + additivity over k nodes; argument of the inversion: k nodes"},
            params={"quick": [{"k": 1, "what": "scale"}, {"k": 2, "what": "additive"}, {"k": 2, "what": "ohm_arg"}], "thorough": [{"k": 1, "what": "scale"}, {"k": 3, "what": "additive"}, {"k": 3, "what": "ohm_arg"}]}),
    Harness("C16.eshelby_sphere", eshelby_sphere, functions=_F_SE + _F_ELL + [_E.Dijkl, moduliToC], opts={"ob_timeout": 40.0, "inv_hook": _exact_inv, "name_threshold": 10 ** 6, "fast_first": False},
            assumptions=["G > 0, -1 < nu < 1/2, R > 0, dilatational eigenstrain", "the quadrature is exact (sphInt returns the exact surface integral for the isotropic sphere)"],
            stubs=["EllipsoidalEnergyDescription.sphInt: exact value of the integral (textbook isotropic Green function moments)", "np.linalg.inv(6x6): exact inverse"],
            params={"quick": [{"via": "constants"}], "thorough": [{"via": "constants"}, {"via": "moduli"}]}),
]

# harnesses that are violated on the unchanged tree wait here (not part of ./vcheck) until the code is repaired or the finding is listed;
# run them with  VK_PENDING=1 ./vcheck C16 --only <id>
# C16.moduli_from_solid_EM stays here for the record: it is NOT a violation of the property as stated (the pair-quantified
# direction moduli -> stiffness -> moduli holds exactly, see C16.moduli); only the solid-quantified direction is ambiguous for (E, M).
PENDING = [
    Harness("C16.moduli_from_solid_EM", lambda ctx, nu_sign="negative": moduli_from_solid(ctx, ("E", "M"), nu_sign), functions=[moduliToC],
            opts={"inv_hook": _capturing_inv, "ob_timeout": 30.0},
            assumptions=["solid with E > 0 and -1 < nu < 0; its (E, M) pair handed to moduliToC"],
            doc="an auxetic solid (nu < 0) is not recovered from its (E, M) pair: moduliToC always takes the nu > 0 root of the quadratic",
            params={"quick": [{"nu_sign": "negative"}], "thorough": [{"nu_sign": "negative"}]}),
]
import os as _os
if _os.environ.get("VK_PENDING"):
    HARNESSES = HARNESSES + PENDING

from harness.c16_extra import EXTRA as _EXTRA
HARNESSES = HARNESSES + _EXTRA
