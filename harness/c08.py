"""C08 -- size-class grid operations stay consistent and conserve particle volume.

One inductive step per operation from an arbitrary symbolic state satisfying the representation invariant
RI: bins = len(PSD) = len(PSDsize) = len(PSDbounds)-1, PSDbounds[i] = min + i*(max-min)/bins, 0 < min < max,
PSDsize midpoints, PSD >= 0.  Plus bounded histories from reset() as a cross-check of RI's adequacy.
"""
import itertools, contextlib, io
import numpy as np
from vk.run import Harness
from kawin.precipitation.PopulationBalance import PopulationBalanceModel as PBM


def mk_state(ctx, n, orig=4, minb=2, maxb=6, tag=""):
    """real PBM object put into an arbitrary RI state with n classes"""
    pbm = PBM(1e-10, 1e-9, orig, minb, maxb)
    b0 = ctx.real(tag + "min", (0.5, 1.0)); w = ctx.real(tag + "w", (0.1, 0.5))
    ctx.assume(b0 > 0); ctx.assume(w > 0)
    pbm.min = b0; pbm.max = b0 + n * w; pbm.bins = n
    pbm.reset(False)
    psd = ctx.reals(tag + "N", n, (0.0, 5.0))
    for i in range(n):
        ctx.assume(psd[i] >= 0)
    pbm.PSD = psd
    return pbm, b0, w, psd


def prove_ri(ctx, pbm, tag):
    n = pbm.bins
    ctx.prove(tag + ":RI lengths", isinstance(n, (int, np.integer)) and len(pbm.PSD) == n and len(pbm.PSDsize) == n and len(pbm.PSDbounds) == n + 1)
    if not (len(pbm.PSD) == n and len(pbm.PSDsize) == n and len(pbm.PSDbounds) == n + 1):
        return
    ctx.prove(tag + ":RI 0<min<max", ctx.all([ctx.lt(0.0 * pbm.min, pbm.min), ctx.lt(pbm.min, pbm.max)]))
    ctx.prove(tag + ":RI bounds are min + i*(max-min)/bins",
              ctx.all([ctx.eq(pbm.PSDbounds[i], pbm.min + i * (pbm.max - pbm.min) / n) for i in range(n + 1)]))
    ctx.prove(tag + ":RI bounds strictly increase", ctx.all([ctx.lt(pbm.PSDbounds[i], pbm.PSDbounds[i + 1]) for i in range(n)]))
    ctx.prove(tag + ":RI centres are midpoints", ctx.all([ctx.eq(pbm.PSDsize[i], 0.5 * (pbm.PSDbounds[i] + pbm.PSDbounds[i + 1])) for i in range(n)]))
    ctx.prove(tag + ":RI populations non-negative", ctx.all([ctx.le(0.0 * pbm.min, pbm.PSD[i]) for i in range(n)]))


def m3(pbm):
    return sum(pbm.PSD[i] * pbm.PSDsize[i] ** 3 for i in range(len(pbm.PSD)))


def op_reset(ctx, n=3, keep=False):
    pbm, b0, w, psd = mk_state(ctx, n)
    omin, omax, ob = pbm.originalMin, pbm.originalMax, pbm.originalBins
    pbm.reset(not keep)
    prove_ri(ctx, pbm, "reset")
    ctx.prove("reset:all classes empty", ctx.all([ctx.eq(pbm.PSD[i], 0.0) for i in range(pbm.bins)]))
    if not keep:
        ctx.prove("reset:initial grid restored", pbm.bins == ob and float(pbm.min) == omin and float(pbm.max) == omax)
    else:
        ctx.prove("reset:grid kept", ctx.all([pbm.bins == n, ctx.eq(pbm.min, b0), ctx.eq(pbm.max, b0 + n * w)]))


def op_add(ctx, n=3, k=1):
    pbm, b0, w, psd = mk_state(ctx, n)
    oldb = [pbm.PSDbounds[i] * 1 for i in range(n + 1)]; oldc = [pbm.PSDsize[i] * 1 for i in range(n)]; oldp = [psd[i] * 1 for i in range(n)]
    pbm.addSizeClasses(k)
    ctx.observe("bounds", pbm.PSDbounds)
    prove_ri(ctx, pbm, "add")
    ctx.prove("add:class count", pbm.bins == n + k)
    ctx.prove("add:existing boundaries untouched", ctx.all([ctx.eq(pbm.PSDbounds[i], oldb[i]) for i in range(n + 1)]))
    ctx.prove("add:existing centres untouched", ctx.all([ctx.eq(pbm.PSDsize[i], oldc[i]) for i in range(n)]))
    ctx.prove("add:existing populations untouched", ctx.all([ctx.eq(pbm.PSD[i], oldp[i]) for i in range(n)]))
    ctx.prove("add:new classes empty", ctx.all([ctx.eq(pbm.PSD[i], 0.0) for i in range(n, n + k)]))
    ctx.prove("add:same class width", ctx.eq(pbm.PSDbounds[n + k] - pbm.PSDbounds[n + k - 1], w))


def op_change(ctx, n=2, nb=2):
    pbm, b0, w, psd = mk_state(ctx, n)
    cmin = ctx.real("cMin", (0.3, 1.2)); cmax = ctx.real("cMax", (0.8, 3.0))
    ctx.assume(cmin > 0)
    old = m3(pbm)
    oldb = [pbm.PSDbounds[i] * 1 for i in range(n + 1)]; oldc = [pbm.PSDsize[i] * 1 for i in range(n)]; oldp = [psd[i] * 1 for i in range(n)]
    pbm.changeSizeClasses(cmin, cmax, nb)
    ctx.observe("psd", pbm.PSD)
    prove_ri(ctx, pbm, "change")
    ctx.prove("change:class count", pbm.bins == nb)
    ctx.prove("change:min", ctx.eq(pbm.min, cmin))
    nmax = ctx.ite(10 * cmin >= cmax, 10 * cmin, cmax)
    ctx.prove("change:max = max(10*cMin, cMax)", ctx.eq(pbm.max, nmax))
    new = m3(pbm)
    # independent reference from the documentation: interpolate the number *density* linearly between the old class
    # centres (held constant outside them), multiply by the new class widths, rescale to the old third moment
    wn = (nmax - cmin) / nb
    newc = [cmin + (i + 0.5) * wn for i in range(nb)]
    dens = np.interp(np.array(newc), np.array(oldc), np.array([oldp[i] / w for i in range(n)]))
    raw = [dens[i] * wn for i in range(nb)]
    newV = sum(raw[i] * newc[i] ** 3 for i in range(nb))
    nonempty = ctx.neg(ctx.eq(newV, 0.0, rtol=0.0))
    ctx.prove("change:populations are the rescaled interpolant when the interpolant is non-empty",
              ctx.implies(nonempty, ctx.all([ctx.eq(pbm.PSD[i] * newV, raw[i] * old) for i in range(nb)])))
    ctx.prove("change:third moment preserved when the interpolated distribution is non-empty", ctx.implies(nonempty, ctx.eq(new, old)))
    ctx.prove("change:emptied only when the interpolated distribution is empty",
              ctx.implies(ctx.neg(nonempty), ctx.all([ctx.eq(pbm.PSD[i], 0.0) for i in range(nb)])))
    # the property as stated: volume is preserved whenever the new grid covers the populated range
    covers = ctx.all([ctx.implies(oldp[i] > 0, ctx.all([cmin <= oldb[i], oldb[i + 1] <= nmax])) for i in range(n)])
    ctx.prove("change:third moment preserved when the new grid covers the populated range but no new centre sees it",
              ctx.implies(ctx.all([covers, ctx.neg(nonempty)]), ctx.eq(new, old)))


def op_change_reset(ctx, n=2, nb=3):
    pbm, b0, w, psd = mk_state(ctx, n)
    cmin = ctx.real("cMin", (0.3, 1.2)); cmax = ctx.real("cMax", (0.8, 3.0))
    ctx.assume(cmin > 0)
    pbm.changeSizeClasses(cmin, cmax, nb, resetPSD=True)
    prove_ri(ctx, pbm, "change_reset")
    ctx.prove("change_reset:empty", ctx.all([ctx.eq(pbm.PSD[i], 0.0) for i in range(pbm.bins)]))


def op_adjust(ctx, n=4, orig=4, minb=2, maxb=4, adaptive=True, diss=False):
    pbm, b0, w, psd = mk_state(ctx, n, orig, minb, maxb)
    pbm._adaptiveBinSize = adaptive
    old = m3(pbm)
    oldn = n
    change, newIdx = pbm.adjustSizeClassesEuler(diss)
    prove_ri(ctx, pbm, "adjust")
    if adaptive:
        ctx.prove("adjust:adaptive binning keeps bins <= maxBins", pbm.bins <= pbm.maxBins)
    ctx.prove("adjust:third moment preserved or distribution emptied",
              ctx.any([ctx.eq(m3(pbm), old), ctx.all([ctx.eq(pbm.PSD[i], 0.0) for i in range(pbm.bins)])]))
    ctx.prove("adjust:change flag reports a grid change", bool(change) == (pbm.bins != oldn or newIdx is not None or bool(change)))
    if newIdx is not None:
        ctx.prove("adjust:newIndices is the old class count (classes were appended)", newIdx == oldn and pbm.bins == oldn + int(orig / 4))
    if bool(psd[n - 1] > 1):
        # documented: classes are still appended when the last class fills, adaptive binning or not (without it only the re-mesh is off)
        ctx.prove("adjust:a filled last class gets classes appended (adaptive or not)", bool(change) and (newIdx is not None or (adaptive and pbm.bins != oldn + int(orig / 4))))
        if not adaptive:
            ctx.prove("adjust:fixed class width: the grid is extended by originalBins/4 classes of the same width",
                      newIdx == oldn and pbm.bins == oldn + int(orig / 4) and bool(ctx.eq(pbm.max, b0 + (n + int(orig / 4)) * w)))
    if not change:
        ctx.prove("adjust:no change leaves the grid alone", ctx.all([pbm.bins == oldn, ctx.eq(pbm.min, b0), ctx.eq(pbm.max, b0 + n * w)]))


def op_update(ctx, n=3):
    pbm, b0, w, psd = mk_state(ctx, n)
    newN = ctx.reals("newN", n, (-1.0, 4.0))
    given = [newN[i] * 1 for i in range(n)]
    pbm.UpdatePBMEuler(ctx.real("time", (0.0, 5.0)), newN)
    ctx.observe("psd", pbm.PSD)
    prove_ri(ctx, pbm, "update")
    for i in range(n):
        ctx.prove("update:class is empty or holds at least one particle", ctx.any([ctx.eq(pbm.PSD[i], 0.0), ctx.le(1.0, pbm.PSD[i])]))
        ctx.prove("update:only removes classes below one", ctx.any([ctx.eq(pbm.PSD[i], given[i]), ctx.all([ctx.eq(pbm.PSD[i], 0.0), ctx.lt(given[i], 1.0)])]))


def op_backup_revert(ctx, n=2, k=1):
    pbm, b0, w, psd = mk_state(ctx, n)
    sb = [pbm.PSDbounds[i] * 1 for i in range(n + 1)]; sp = [psd[i] * 1 for i in range(n)]
    pbm.createBackup()
    # arbitrary work in between: the grid is extended and the populations overwritten
    pbm.addSizeClasses(k)
    scr = ctx.reals("scratch", n + k, (0.0, 3.0))
    for i in range(n + k):
        pbm.PSD[i] = scr[i]
    pbm.PSDbounds[0] = pbm.PSDbounds[0] + 0.0
    pbm.revert()
    prove_ri(ctx, pbm, "revert")
    ctx.prove("revert:class count restored", pbm.bins == n)
    ctx.prove("revert:boundaries restored", ctx.all([ctx.eq(pbm.PSDbounds[i], sb[i]) for i in range(n + 1)]))
    ctx.prove("revert:populations restored", ctx.all([ctx.eq(pbm.PSD[i], sp[i]) for i in range(n)]))
    ctx.prove("revert:min/max restored", ctx.all([ctx.eq(pbm.min, b0), ctx.eq(pbm.max, b0 + n * w)]))


def op_backup_isolated(ctx, n=2):
    """the backup is a copy: later in-place changes of the live arrays do not leak into it"""
    pbm, b0, w, psd = mk_state(ctx, n)
    sp = [psd[i] * 1 for i in range(n)]; sb = [pbm.PSDbounds[i] * 1 for i in range(n + 1)]
    pbm.createBackup()
    scr = ctx.reals("scratch", n, (0.0, 3.0))
    for i in range(n):
        pbm.PSD[i] = scr[i]
    pbm.PSDbounds[n] = pbm.PSDbounds[n] + 1.0
    pbm.revert()
    prove_ri(ctx, pbm, "revert_inplace")
    ctx.prove("revert_inplace:populations restored", ctx.all([ctx.eq(pbm.PSD[i], sp[i]) for i in range(n)]))
    ctx.prove("revert_inplace:boundaries restored", ctx.all([ctx.eq(pbm.PSDbounds[i], sb[i]) for i in range(n + 1)]))


def moment_purity(ctx, n=3):
    """every ...FromN(N, ...) function equals the reference sum over N and the grid, whatever self.PSD holds"""
    pbm, b0, w, psd = mk_state(ctx, n)
    N = ctx.reals("Narg", n, (0.0, 5.0)); wt = ctx.reals("wt", n, (0.0, 2.0))
    r = [b0 + (i + 0.5) * w for i in range(n)]
    ref = lambda k, weights=None: [N[i] * r[i] ** k * (weights[i] if weights is not None else 1.0) for i in range(n)]
    cum = lambda xs: [sum(xs[:i + 1]) for i in range(len(xs))]
    for k, fn in ((0, pbm.ZeroMomentFromN), (1, pbm.FirstMomentFromN), (2, pbm.SecondMomentFromN), (3, pbm.ThirdMomentFromN)):
        ctx.prove("moment:%s is sum N r^%d" % (fn.__name__, k), ctx.eq(fn(N), sum(ref(k))))
    ctx.prove("moment:MomentFromN", ctx.eq(pbm.MomentFromN(N, 2), sum(ref(2))))
    ctx.prove("moment:WeightedMomentFromN", ctx.eq(pbm.WeightedMomentFromN(N, 3, wt), sum(ref(3, wt))))
    cm = pbm.CumulativeMomentFromN(N, 3); cwm = pbm.CumulativeWeightedMomentFromN(N, 1, wt)
    ctx.observe("cm", cm); ctx.observe("cwm", cwm)
    c3 = cum(ref(3)); c1w = cum(ref(1, wt))
    ctx.prove("moment:CumulativeMomentFromN", ctx.all([ctx.eq(cm[i], c3[i]) for i in range(n)]))
    ctx.prove("moment:CumulativeWeightedMomentFromN", ctx.all([ctx.eq(cwm[i], c1w[i]) for i in range(n)]))
    # the self.PSD-based variants agree with the FromN variants on self.PSD
    ctx.prove("moment:ThirdMoment uses PSD", ctx.eq(pbm.ThirdMoment(), pbm.ThirdMomentFromN(psd)))
    ctx.prove("moment:WeightedMoment uses PSD", ctx.eq(pbm.WeightedMoment(2, wt), pbm.WeightedMomentFromN(psd, 2, wt)))
    cw = pbm.CumulativeWeightedMoment(1, wt) if hasattr(pbm, "CumulativeWeightedMoment") else None
    if cw is not None:
        ref2 = cum([psd[i] * r[i] * wt[i] for i in range(n)])
        ctx.prove("moment:CumulativeWeightedMoment uses PSD", ctx.all([ctx.eq(cw[i], ref2[i]) for i in range(n)]))
    # N handed in is not modified
    ctx.prove("moment:argument not modified", ctx.all([ctx.eq(N[i], ctx.values[("Narg[%d]" % i)]) if ctx.mode == "concrete" else True for i in range(n)]))


OPS = ("add", "change", "adjust", "update", "reset", "backup", "revert")


def hist(ctx, seq=("add", "change", "adjust"), orig=4, minb=2, maxb=5):
    """a bounded history from a freshly constructed model: RI after every operation"""
    cmin = ctx.real("c0min", (0.5, 1.0)); cmax = ctx.real("c0max", (2.0, 12.0))
    ctx.assume(cmin > 0)
    pbm = PBM(cmin, cmax, orig, minb, maxb)
    prove_ri(ctx, pbm, "h0:init")
    for s, op in enumerate(seq):
        tag = "h%d:%s" % (s + 1, op)
        if op == "add":
            n0 = pbm.bins
            oldb = [pbm.PSDbounds[i] * 1 for i in range(n0 + 1)]; oldp = [pbm.PSD[i] * 1 for i in range(n0)]
            pbm.addSizeClasses(1)
            if pbm.bins == n0 + 1 and len(pbm.PSDbounds) == n0 + 2 and len(pbm.PSD) == n0 + 1:
                ctx.prove(tag + ":existing boundaries untouched", ctx.all([ctx.eq(pbm.PSDbounds[i], oldb[i]) for i in range(n0 + 1)]))
                ctx.prove(tag + ":existing populations untouched", ctx.all([ctx.eq(pbm.PSD[i], oldp[i]) for i in range(n0)]))
        elif op == "change":
            a = ctx.real("s%d_cMin" % s, (0.3, 1.2)); b = ctx.real("s%d_cMax" % s, (0.8, 3.0)); ctx.assume(a > 0)
            pbm.changeSizeClasses(a, b, minb + 1)
        elif op == "adjust":
            pbm.adjustSizeClassesEuler(s % 2 == 0)
        elif op == "update":
            nn = ctx.reals("s%d_newN" % s, pbm.bins, (-1.0, 4.0))
            pbm.UpdatePBMEuler(0.0, nn)
        elif op == "reset":
            pbm.reset()
        elif op == "backup":
            pbm.createBackup()
        elif op == "revert":
            if not np.shape(pbm._prevPSD) == np.shape(pbm.PSD) and not any(o == "backup" for o in seq[:s]):
                continue
            if not any(o == "backup" for o in seq[:s]):
                continue    # revert without a backup is not a valid history (reset() leaves an all-zero placeholder)
            pbm.revert()
        prove_ri(ctx, pbm, tag)
        if pbm._adaptiveBinSize and op == "adjust":
            ctx.prove(tag + ":bins <= maxBins", pbm.bins <= pbm.maxBins)


def op_load(ctx, bins=(2, 3), where="in12", then=None, cur=2):
    """load (setPSDtoRecordedTime) from a recorded history written by the real record(): the loaded state satisfies RI, equals the
    record when the time is a recorded one, and a following extension leaves the loaded classes untouched"""
    pbm = PBM(1.0, 2.0, 4, 2, 4)           # initial grid 1, 1.25, .., 2: exactly representable, so the t = 0 placeholder loads without rounding
    pbm.enableRecording()
    recs, times = [], []
    tprev = 0.0
    for k, nb in enumerate(bins):
        b0 = ctx.real("r%d_min" % k, (0.5, 1.0)); w = ctx.real("r%d_w" % k, (0.1, 0.5))
        ctx.assume(b0 > 0); ctx.assume(w > 0)
        pbm.min = b0; pbm.max = b0 + nb * w; pbm.bins = nb
        pbm.reset(False)
        psd = ctx.reals("r%d_N" % k, nb, (0.0, 5.0))
        for i in range(nb):
            ctx.assume(psd[i] >= 0)
        pbm.PSD = psd
        t = ctx.real("r%d_t" % k, (1.0 + k, 1.9 + k)); ctx.assume(t > tprev); tprev = t
        pbm.record(t)
        recs.append((b0, w, nb, psd)); times.append(t)
    # the object is somewhere else (another valid grid) when the history is loaded
    b0 = ctx.real("cur_min", (0.5, 1.0)); w = ctx.real("cur_w", (0.1, 0.5)); ctx.assume(b0 > 0); ctx.assume(w > 0)
    pbm.min = b0; pbm.max = b0 + cur * w; pbm.bins = cur
    pbm.reset(False)
    q = ctx.real("query_time", (0.5, 3.5))
    k = None
    if where == "at1":
        q = times[0]; k = 0
    elif where == "at2":
        q = times[1]; k = 1
    elif where == "after":
        ctx.assume(q >= times[-1]); k = len(bins) - 1
    elif where == "before":
        ctx.assume(q <= 0)          # at or before the t = 0 placeholder record: the initial (empty) grid is loaded
    elif where == "in01":
        ctx.assume(q > 0); ctx.assume(q < times[0])
    elif where == "in12":
        ctx.assume(q > times[0]); ctx.assume(q < times[1])
    with contextlib.redirect_stdout(io.StringIO()):      # the loader prints a notice outside the recorded range
        pbm.setPSDtoRecordedTime(q)
    prove_ri(ctx, pbm, "load")
    if k is not None and not (where == "at1" and bins[0] <= bins[1]):
        # (at the earlier of two records the loader interpolates with weight 0; unless the earlier record has MORE classes than the later one it is
        #  first re-meshed onto the later record's grid -- consistent and volume conserving, but not class-by-class the record: not claimed)
        rb0, rw, nb, rpsd = recs[k]
        ctx.prove("load:state is the record at a recorded time", pbm.bins == nb and
                  ctx.all([ctx.eq(pbm.PSDbounds[i], rb0 + i * rw) for i in range(nb + 1)] + [ctx.eq(pbm.PSD[i], rpsd[i]) for i in range(nb)]))
    if where == "before":
        ctx.prove("load:before the first record the initial grid is restored, empty", pbm.bins == pbm.originalBins and
                  ctx.all([ctx.eq(pbm.PSD[i], 0.0) for i in range(len(pbm.PSD))]) and float(pbm.min) == pbm.originalMin and float(pbm.max) == pbm.originalMax)
    if where == "in12":
        nbig = max(bins[0], bins[1])
        ctx.prove("load:between two records the grid is the one with more classes", pbm.bins == nbig)
    if then == "add":
        n0 = pbm.bins
        oldb = [pbm.PSDbounds[i] * 1 for i in range(n0 + 1)]; oldp = [pbm.PSD[i] * 1 for i in range(n0)]
        pbm.addSizeClasses(1)
        prove_ri(ctx, pbm, "load+add")
        ctx.prove("load+add:existing boundaries untouched", ctx.all([ctx.eq(pbm.PSDbounds[i], oldb[i]) for i in range(n0 + 1)]))
        ctx.prove("load+add:existing populations untouched", ctx.all([ctx.eq(pbm.PSD[i], oldp[i]) for i in range(n0)]))


_ALL = [PBM.reset, PBM.addSizeClasses, PBM.changeSizeClasses, PBM.adjustSizeClassesEuler, PBM.UpdatePBMEuler, PBM.createBackup,
        PBM.revert, PBM.MomentFromN, PBM.CumulativeMomentFromN, PBM.WeightedMomentFromN, PBM.CumulativeWeightedMomentFromN,
        PBM.ThirdMoment, PBM.__init__, PBM.enableRecording, PBM.record, PBM.setPSDtoRecordedTime, PBM._grabPSDfromIndex]
_A = ["pre-state satisfies RI (uniform grid min + i*w, 0 < min, w > 0, populations >= 0); real arithmetic",
      "bin-count configurations are small concrete integers chosen so that every branch of adjustSizeClassesEuler is reachable"]
_seqs3 = [list(s) for s in itertools.product(("add", "change", "adjust", "update", "backup", "revert", "reset"), repeat=3)
          if s.count("change") + s.count("adjust") <= 1]       # two re-meshes in one history are beyond the solver within the budget
HARNESSES = [
    Harness("C08.op_reset", op_reset, functions=_ALL, assumptions=_A, params={"quick": [{"n": 3, "keep": False}, {"n": 3, "keep": True}, {"n": 4, "keep": False}], "thorough": [{"n": 5, "keep": False}, {"n": 5, "keep": True}]}),
    Harness("C08.op_add", op_add, functions=_ALL, assumptions=_A, params={"quick": [{"n": 2, "k": 1}, {"n": 3, "k": 2}], "thorough": [{"n": 4, "k": 3}, {"n": 5, "k": 1}]}),
    Harness("C08.op_change", op_change, functions=_ALL, assumptions=_A + ["cMin > 0"], opts={"ob_timeout": 75.0, "max_paths": 400},
            budget={"quick": 240.0, "thorough": 1800.0},
            params={"quick": [{"n": 2, "nb": 2, "_shards": 4}, {"n": 2, "nb": 3, "_shards": 4}], "thorough": [{"n": 3, "nb": 2, "_shards": 4}, {"n": 3, "nb": 3, "_shards": 8}, {"n": 2, "nb": 4, "_shards": 4}]}),
    Harness("C08.op_change_reset", op_change_reset, functions=_ALL, assumptions=_A, params={"quick": [{"n": 2, "nb": 3}], "thorough": [{"n": 3, "nb": 5}]}),
    Harness("C08.op_adjust", op_adjust, functions=_ALL, assumptions=_A + ["entry state arbitrary RI, including bins > maxBins (classes appended by hand)"], opts={"ob_timeout": 30.0},
            budget={"quick": 150.0, "thorough": 1500.0},
            params={"quick": [{"n": 2, "orig": 4, "minb": 2, "maxb": 2, "adaptive": True, "diss": False},
                              {"n": 3, "orig": 4, "minb": 2, "maxb": 2, "adaptive": True, "diss": False},
                              {"n": 2, "orig": 4, "minb": 2, "maxb": 3, "adaptive": True, "diss": True},
                              {"n": 3, "orig": 4, "minb": 2, "maxb": 3, "adaptive": False, "diss": True},
                              {"n": 2, "orig": 4, "minb": 4, "maxb": 6, "adaptive": True, "diss": True}],          # fewer classes than minBins/2
                    "thorough": [{"n": 3, "orig": 4, "minb": 2, "maxb": 3, "adaptive": True, "diss": False}, {"n": 2, "orig": 4, "minb": 6, "maxb": 8, "adaptive": True, "diss": True},
                                 {"n": 3, "orig": 4, "minb": 2, "maxb": 4, "adaptive": True, "diss": True},
                                 {"n": 4, "orig": 4, "minb": 2, "maxb": 4, "adaptive": True, "diss": False}]}),
    Harness("C08.op_update", op_update, functions=_ALL, assumptions=_A + ["incoming newN unconstrained (may be negative)"],
            params={"quick": [{"n": 3}], "thorough": [{"n": 5}]}),
    Harness("C08.op_backup_revert", op_backup_revert, functions=_ALL, assumptions=_A, params={"quick": [{"n": 2, "k": 1}], "thorough": [{"n": 3, "k": 2}]}),
    Harness("C08.op_backup_isolated", op_backup_isolated, functions=_ALL, assumptions=_A, params={"quick": [{"n": 2}], "thorough": [{"n": 4}]}),
    Harness("C08.moment_purity", moment_purity, functions=_ALL, assumptions=_A, params={"quick": [{"n": 3}], "thorough": [{"n": 5}]}),
    Harness("C08.op_load", op_load, functions=_ALL, assumptions=_A + ["the recorded history is written by the real record(); record times strictly increase"],
            bounds={"records": 2, "classes per record": "bins"}, opts={"ob_timeout": 30.0, "max_paths": 400}, budget={"quick": 120.0, "thorough": 900.0},
            params={"quick": [{"bins": [2, 3], "where": "in12", "then": "add"}, {"bins": [3, 2], "where": "at1", "then": "add"},
                              {"bins": [2, 2], "where": "after", "then": "add"}, {"bins": [2, 3], "where": "before", "then": "add"}],
                    "thorough": [{"bins": list(b), "where": wh, "then": th} for b in ((2, 3), (3, 2), (3, 3), (2, 4)) for wh in ("before", "in01", "in12", "at1", "at2", "after", "any")
                                 for th in (None, "add")]}),
    Harness("C08.hist", hist, functions=_ALL, assumptions=["histories start from the constructor; operation arguments symbolic"],
            opts={"ob_timeout": 20.0, "max_paths": 300}, budget={"quick": 120.0, "thorough": 900.0}, validate=1,
            params={"quick": [{"seq": ["add", "adjust"]}, {"seq": ["update", "adjust", "add"]}, {"seq": ["backup", "add", "revert"]}, {"seq": ["backup", "change", "revert"]},
                              {"seq": ["backup", "reset", "revert"]}, {"seq": ["backup", "change", "revert", "add"]}],
                    "thorough": [{"seq": s} for s in _seqs3[::3]] + [{"seq": ["backup", "change", "revert"]}, {"seq": ["backup", "reset", "revert"]}, {"seq": ["backup", "adjust", "revert"]},
                                 {"seq": ["backup", "change", "revert", "add"]}]}),
            # (all 275 length-3 histories were explored once during development -- 45334 obligations, no violation after the backup repair, about one hour on 16 cores;
            #  every third one plus the backup/.../revert ones keeps the thorough tier of this property near half an hour)
]
