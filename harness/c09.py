"""C09 -- thermodynamic queries are pure; the composition cache of the diffusion models is sound.

Decided on kawin's own code (the pycalphad minimiser is compiled and stubbed):
  * the composition cache (HashTable, the cache lines of SinglePhaseModel._getFluxes and _computeSingleMobility): can be
    switched off; a cached value is reused only for a (composition, temperature) that agrees with the stored one to the
    configured precision in every component; a stored point is found again; clearCache empties it.  The key
    `astype(int64)` is modelled exactly (truncation, out-of-range -> INT_MIN as NumPy on x86 does), `hash(tuple)` is
    taken as injective.
  * batching: the array entry points hand every point (x_i, T_i, g_i) unchanged to the per-point routine and put the
    answer in slot i for every broadcast combination -- a point evaluated alone or inside an array sees the same
    arguments; repeating the call gives the same answer; no array passed in is modified.
  * the binary interfacial-composition routine passes gExtra + gOffset to the backend without touching the caller's
    array; local_equilibrium refreshes the state variables of cached composition sets; cache resets are complete.
"""
import sys, builtins, contextlib
import numpy as np
import z3
from vk.run import Harness
from vk import symnp, core
from vk.core import SymReal, is_sym
from kawin.diffusion.DiffusionParameters import HashTable, computeMobility, _computeSingleMobility, MobilityData
from kawin.diffusion.SinglePhase import SinglePhaseModel
from kawin.diffusion.Diffusion import DiffusionModel
from kawin.thermo.Thermodynamics import GeneralThermodynamics, SampledPointsCache
from kawin.thermo.BinTherm import BinaryThermodynamics
from kawin.thermo.MultiTherm import MulticomponentThermodynamics, CurvatureOutput, _growthRateOutputFromCurvature
from kawin.thermo import utils as tutils
from kawin.thermo.LocalEquilibrium import local_equilibrium
from pycalphad import variables as v

_DP = sys.modules["kawin.diffusion.DiffusionParameters"]
_BT = sys.modules["kawin.thermo.BinTherm"]
_LE = sys.modules["kawin.thermo.LocalEquilibrium"]


# ----------------------------------------------------------------------------- facade additions
_orig_astype = symnp.SymArray.astype


def _cast_int(vv, bits):
    """NumPy's float -> signed integer cast on x86: truncation toward zero; out of range -> INT_MIN"""
    lo = -(2 ** (bits - 1)); hi = 2 ** (bits - 1) - 1
    if not is_sym(vv):
        f = float(vv)
        t = int(f) if f == f and abs(f) != float("inf") else lo
        return t if lo <= t <= hi else lo
    if isinstance(vv, core.SymBool):
        vv = vv._asreal()
    c = core.cur()
    t = vv.t
    tr = z3.If(t >= 0, z3.ToReal(z3.ToInt(t)), -z3.ToReal(z3.ToInt(-t)))
    r = z3.If(z3.And(tr >= lo, tr <= hi), tr, z3.RealVal(lo))
    return c.named(SymReal(r, 1000))


def _astype(self, dtype, *a, **kw):
    dt = np.dtype(dtype)
    if dt.kind == "i" and symnp.has_sym(self):
        out = np.empty(self.shape, dtype=object)
        src = self.view(np.ndarray)
        for idx in np.ndindex(*self.shape):
            out[idx] = _cast_int(src[idx], dt.itemsize * 8)
        return out.view(symnp.SymArray)
    return _orig_astype(self, dtype, *a, **kw)


symnp.SymArray.astype = _astype


class SymKey:
    """stands for hash(tuple): equal iff the tuples are equal component-wise (64-bit collisions are outside the claim)"""
    __slots__ = ("items",)

    def __init__(self, items):
        self.items = tuple(items)

    def __hash__(self):
        return 0x5EED

    def __eq__(self, o):
        if not isinstance(o, SymKey) or len(o.items) != len(self.items):
            return False
        c = core.cur()
        return bool(c.all([SymReal.lift(a) == b for a, b in zip(self.items, o.items)]))    # forks when undecided


def _hash(obj):
    if symnp.symbolic_mode() and isinstance(obj, tuple):
        return SymKey(obj)
    return builtins.hash(obj)


_DP.hash = _hash          # module-level name shadows the builtin inside DiffusionParameters only; transparent on plain numpy


def _unique_sym(a, **kw):
    """numpy.unique for 1-D symbolic data: distinct values (decided by forking on equality), ascending"""
    if kw.get("return_index") or kw.get("return_inverse") or kw.get("return_counts") or kw.get("axis") is not None:
        raise symnp.FacadeMissing("unique with return_* / axis on symbolic data")
    if not symnp.has_sym(a):
        return symnp.wrap_num(np.unique(symnp.to_float(symnp.plain(symnp.to_obj(a)))))
    xs = list(symnp.plain(symnp.to_obj(a)).ravel())
    reps = []
    for x in xs:
        if not any(bool(SymReal.lift(x) == r) for r in reps):
            reps.append(x)
    out = symnp.to_obj(reps)
    if len(reps) > 1:
        out = out[symnp.f_argsort(out)]
    return out


symnp.FUNCS["unique"] = _unique_sym


@contextlib.contextmanager
def patched(mod, name, value):
    missing = object()
    old = mod.__dict__.get(name, missing)
    setattr(mod, name, value)
    try:
        yield
    finally:
        if old is missing:
            delattr(mod, name)
        else:
            setattr(mod, name, old)


# ----------------------------------------------------------------------------- helpers
def point(ctx, tag, ne):
    """a (composition, temperature) pair in the range of the shipped databases"""
    x = ctx.reals(tag + "x", ne, (0.0, 1.0)); T = ctx.real(tag + "T", (200.0, 3000.0))
    for i in range(ne):
        ctx.assume(x[i] >= 0); ctx.assume(x[i] <= 1)
    ctx.assume(T >= 200); ctx.assume(T <= 3000)
    return x, T


def agree(ctx, p, q, s):
    """every component of (x, T) agrees to s decimal places: |v1 - v2| < 10^-s"""
    (x1, T1), (x2, T2) = p, q
    sc = 10 ** s
    cs = []
    for a, b in list(zip(list(x1), list(x2))) + [(T1, T2)]:
        d = (a - b) * sc
        cs.append(ctx.all([d < 1, d > -1]))
    return ctx.all(cs)


# ----------------------------------------------------------------------------- cache: HashTable
def cache_off(ctx, s=4, ne=1):
    """after enableCaching(False) nothing is stored and nothing is returned; switching it back on works"""
    ht = HashTable(); ht.setHashSensitivity(s)
    x, T = point(ctx, "p", ne)
    ht.addToHashTable(x, T, "V0")
    ctx.prove("enabled by default: stored point found", ht.retrieveFromHashTable(x, T) == "V0")
    ht.enableCaching(False)
    ctx.prove("switched off: value stored earlier is not returned", ht.retrieveFromHashTable(x, T) is None)
    ht.clearCache()
    ht.addToHashTable(x, T, "V1")
    ctx.prove("switched off: nothing stored", len(ht.cachedData) == 0)
    r = ht.retrieveFromHashTable(x, T)
    ctx.observe("off_lookup_is_none", r is None)
    ctx.prove("switched off: nothing returned", r is None)
    ht.enableCaching(True)
    ctx.prove("switched on again: earlier (discarded) value not returned", ht.retrieveFromHashTable(x, T) is None)
    ht.addToHashTable(x, T, "V2")
    ctx.prove("switched on again: stored point found", ht.retrieveFromHashTable(x, T) == "V2")


def cache_key(ctx, s=4, ne=1, stores=1):
    """a value stored for (x1,T1) is returned for (x2,T2) only if every component agrees to the configured precision;
    identical arguments are found again; clearCache empties the table; arguments are not modified"""
    ht = HashTable(); ht.setHashSensitivity(s)
    pts = [point(ctx, "p%d" % k, ne) for k in range(stores)]
    q = point(ctx, "q", ne)
    pre = [[pt[0][i] * 1 for i in range(ne)] + [pt[1] * 1] for pt in pts + [q]]
    for k, (x, T) in enumerate(pts):
        ht.addToHashTable(x, T, "V%d" % k)
    r = ht.retrieveFromHashTable(q[0], q[1])
    ctx.observe("found", r is not None)
    ctx.prove("lookup returns a stored value or nothing", r is None or r in ["V%d" % k for k in range(stores)])
    if r is not None:
        k = int(r[1:])
        ctx.prove("cached value reused only for arguments that agree to the configured precision", agree(ctx, pts[k], q, s))
    for k, (x, T) in enumerate(pts):
        rk = ht.retrieveFromHashTable(x, T)
        ctx.prove("stored point looked up with identical arguments is found", rk is not None)
        if rk is not None and rk != "V%d" % k:
            ctx.prove("a later store replaced the value only for arguments that agree to the configured precision",
                      int(rk[1:]) > k and agree(ctx, pts[int(rk[1:])], pts[k], s))
    for pt, p0 in zip(pts + [q], pre):
        ctx.prove("arguments not modified", ctx.all([ctx.eq(pt[0][i], p0[i]) for i in range(ne)] + [ctx.eq(pt[1], p0[ne])]))
    ht.clearCache()
    ctx.prove("clearCache empties the table", len(ht.cachedData) == 0 and ht.retrieveFromHashTable(pts[0][0], pts[0][1]) is None)


# ----------------------------------------------------------------------------- cache: users of the table
def _spy(ht, log):
    """pass-through recorder around the real retrieveFromHashTable (the real method does the work)"""
    real = ht.retrieveFromHashTable

    def retrieve(x, T):
        r = real(x, T)
        log.append(((list(np.atleast_1d(x)), T), r))
        return r
    ht.retrieveFromHashTable = retrieve


def cache_fluxes(ctx, N=2, ne=1, s=4, cache=True):
    """SinglePhaseModel._getFluxes: with the cache on, the diffusivity of a node is either the backend's answer for that
    very node or the answer cached for a node whose (x, T) agrees to the configured precision; what is looked up is what
    enters the flux; a second evaluation at identical arguments is served from the cache; with the cache off the backend is
    asked for every node every time and nothing is kept"""
    els = ["M", "A", "B"][:ne + 1]
    m = SinglePhaseModel([0.0, 1.0], N, els, ["ALPHA"], record=False)
    m.boundaryConditions.setupDefaults(m.elements)
    m.setHashSensitivity(s)
    m.useCache(cache)
    pts = [point(ctx, "n%d" % i, ne) for i in range(N)]
    X = np.zeros((ne, N))
    for i in range(N):
        for e in range(ne):
            X[e, i] = pts[i][0][e]
    Tn = np.array([pts[i][1] for i in range(N)])
    m.setTemperatureFunction(lambda z, t: Tn)
    calls = []

    class Backend:          # stands for a GeneralThermodynamics object: only the query the analysed method makes
        def clearCache(self):
            pass

        def getInterdiffusivity(self, x, T, removeCache=True, phase=None):
            k = len(calls)
            xs = list(np.atleast_1d(x))
            if ne == 1:
                D = ctx.uf("D", *xs, T, rng=(0.5, 2.0))
            else:
                D = np.array([[ctx.uf("D%d%d" % (a, b), *xs, T, rng=(0.5, 2.0)) for b in range(ne)] for a in range(ne)])
            calls.append(((xs, T), D, phase))
            return D
    m.setThermodynamics(Backend())
    log = []
    _spy(m.hashTable, log)
    fl = m._getFluxes(0.0, [X])
    ctx.observe("fluxes", fl)
    ctx.prove("one lookup per node", len(log) == N)
    if len(log) != N:
        return
    used = []; k = 0
    for i in range(N):
        (xa, Ta), r = log[i]
        ctx.prove("node looked up with its own composition and temperature",
                  ctx.all([ctx.eq(xa[e], pts[i][0][e]) for e in range(ne)] + [ctx.eq(Ta, pts[i][1])]))
        if r is None:
            ctx.prove("miss: backend asked for this node (matrix phase)", k < len(calls) and calls[k][2] == "ALPHA" and
                      ctx.all([ctx.eq(calls[k][0][0][e], pts[i][0][e]) for e in range(ne)] + [ctx.eq(calls[k][0][1], pts[i][1])]))
            if k >= len(calls):
                return
            used.append((calls[k][1], i)); k += 1
        else:
            ctx.prove("cache off: never a hit", cache)
            src = [j for (Dj, j) in used if Dj is r]
            ctx.prove("hit: value is the backend's answer for an earlier node", len(src) >= 1)
            if src:
                ctx.prove("hit: cached value reused only for a node that agrees to the configured precision", agree(ctx, pts[src[0]], pts[i], s))
            used.append((r, src[0] if src else i))
    ctx.prove("backend asked once per miss", k == len(calls))
    if not cache:
        ctx.prove("cache off: backend asked for every node, nothing kept", len(calls) == N and len(m.hashTable.cachedData) == 0)
    # what was looked up is what enters the flux (interior faces): J = -(D_i + D_{i-1})/2 (x_i - x_{i-1})/dz
    for f in range(1, N):
        Dm = (used[f][0] + used[f - 1][0]) / 2
        grad = [(pts[f][0][e] - pts[f - 1][0][e]) / m.dz for e in range(ne)]
        for e in range(ne):
            ref = -Dm * grad[0] if ne == 1 else -sum(Dm[e, b] * grad[b] for b in range(ne))
            ctx.prove("flux built from the looked-up diffusivities", ctx.eq(fl[e, f], ref))
    # second evaluation at identical arguments
    n0 = len(calls); log.clear()
    m._getFluxes(0.0, [X])
    if cache:
        ctx.prove("identical arguments are served from the cache", len(calls) == n0 and all(r is not None for _, r in log))
    else:
        ctx.prove("cache off: second evaluation asks the backend again for every node", len(calls) == n0 + N and len(m.hashTable.cachedData) == 0)


def cache_mobility(ctx, N=2, ne=1, s=4, cache=True):
    """computeMobility/_computeSingleMobility: a point is served from the table only if it agrees with the point the value
    was computed for; otherwise the backend equilibrium is computed for exactly that point; cache off / no table: always"""
    els = ["A", "B", "C"][:ne + 1]        # alphabetical, so that the (re)ordering of elements (C11) plays no role here
    pts = [point(ctx, "n%d" % i, ne) for i in range(N)]
    X = np.zeros((N, ne))
    for i in range(N):
        for e in range(ne):
            X[i, e] = pts[i][0][e]
    Tn = np.array([pts[i][1] for i in range(N)])
    calls = []

    class CS:
        def __init__(self, name, frac, xs):
            self.phase_record = type("PR", (), {"phase_name": name})()
            self.NP = frac; self.X = xs

    class Wks:
        def __init__(self, xs, T):
            self.eq = type("EQ", (), {})()
            self.eq.MU = np.array([[ctx.uf("mu%d" % c, *xs, T, rng=(-3.0, -1.0)) for c in range(ne + 1)]])
            self._cs = [CS("ALPHA", 1.0, [1.0 / (ne + 1)] * (ne + 1))]

        def get_composition_sets(self):
            return self._cs
    th = object.__new__(GeneralThermodynamics)
    th.phases = ["ALPHA"]; th.elements = els + ["VA"]; th.numElements = ne + 1
    th.mobCallables = {}; th.mobility_correction = {}

    def getEq(x, T, gExtra=0, precPhase=None):
        xs = list(np.atleast_1d(x))
        w = Wks(xs, T)
        calls.append(((xs, T), w))
        return w
    th.getEq = getEq
    ht = None
    log = []
    if cache is not None:
        ht = HashTable(); ht.setHashSensitivity(s); ht.enableCaching(cache)
        _spy(ht, log)
    md = computeMobility(th, X[:, 0] if ne == 1 else X, Tn, ht)
    ctx.prove("one entry per point", len(md.chemical_potentials) == N and len(md.mobility) == N)
    src = []; k = 0
    for i in range(N):
        hit = ht is not None and log[i][1] is not None
        if hit:
            ctx.prove("cache off: never a hit", bool(cache))
            j = [jj for jj in range(i) if md.chemical_potentials[jj] is md.chemical_potentials[i]]
            ctx.prove("hit: value is the one computed for an earlier point", len(j) >= 1)
            if j:
                ctx.prove("hit: cached value reused only for a point that agrees to the configured precision", agree(ctx, pts[src[j[0]]], pts[i], s))
            src.append(src[j[0]] if j else i)
        else:
            ctx.prove("miss: backend equilibrium computed for this point", k < len(calls) and
                      ctx.all([ctx.eq(calls[k][0][0][e], pts[i][0][e]) for e in range(ne)] + [ctx.eq(calls[k][0][1], pts[i][1])]))
            if k >= len(calls):
                return
            ctx.prove("miss: chemical potentials are the backend's for this point",
                      ctx.all([ctx.eq(md.chemical_potentials[i][c], calls[k][1].eq.MU[0, c]) for c in range(ne + 1)]))
            k += 1; src.append(i)
    ctx.observe("mu", [md.chemical_potentials[i][c] for i in range(N) for c in range(ne + 1)])
    ctx.prove("backend asked once per miss", k == len(calls))
    if not cache:
        ctx.prove("cache off / absent: backend asked for every point, nothing kept", len(calls) == N and (ht is None or len(ht.cachedData) == 0))


# ----------------------------------------------------------------------------- batching / purity of the array entry points
def _mk_therm(cls, ne):
    th = object.__new__(cls)
    th.phases = ["ALPHA", "P1"]
    th.elements = ["M", "A", "B", "C"][:ne + 1] + ["VA"]
    th.numElements = ne + 1
    return th


def _same(ctx, a, b):
    """element-wise equality claim of two results (scalars / arrays / tuples), shapes included"""
    if isinstance(a, (tuple, list)) and not isinstance(a, np.ndarray):
        return ctx.all([len(a) == len(b)] + [_same(ctx, u, w) for u, w in zip(a, b)]) if len(a) == len(b) else False
    if np.shape(a) != np.shape(b):
        return False
    if np.shape(a) == ():
        return ctx.eq(a if not isinstance(a, np.ndarray) else a[()], b if not isinstance(b, np.ndarray) else b[()])
    fa = np.asarray(a).ravel(); fb = np.asarray(b).ravel()
    return ctx.all([ctx.eq(fa[i], fb[i]) for i in range(len(fa))])


def _snap(a):
    a = np.asarray(a)
    return [a.ravel()[i] * 1 for i in range(a.size)], np.shape(a)


def _unchanged(ctx, a, snap):
    vals, shp = snap
    if np.shape(a) != shp:
        return False
    fa = np.asarray(a).ravel()
    return ctx.all([ctx.eq(fa[i], vals[i]) for i in range(len(vals))])


def batching(ctx, entry="df", ne=1, n=2, bc="nn", col=False, aslist=False):
    """array entry point vs. the same point evaluated alone: slot i of the array answer equals the answer for
    (x_i, T_i, g_i) alone (per-point backend routine = uninterpreted function of its arguments); repeating the call gives
    the same answer; no argument array is modified; the per-point routine is asked once per point with that point"""
    uf = ctx.uf
    X = ctx.reals("x", (n, ne), (0.01, 0.3)); Tn = ctx.reals("T", n, (500.0, 1200.0)); G = ctx.reals("g", n, (0.0, 500.0))
    R = ctx.reals("R", n, (0.5, 3.0))
    for i in range(n):
        ctx.assume(R[i] > 0)
    calls = []
    args = []           # arrays handed to the entry point (checked for modification)

    def xarg(rows):     # composition argument for the given rows
        if ne == 1:
            a = np.array([X[i, 0] for i in rows])
            if col:
                a = a.reshape(len(rows), 1)
            if len(rows) == 1 and not col:
                return a[0] if not aslist else [a[0]]
            return list(a) if (aslist and not col) else a
        a = np.array([[X[i, e] for e in range(ne)] for i in rows])
        return a[0] if len(rows) == 1 else a

    def targ(rows):
        return Tn[rows[0]] if len(rows) == 1 else np.array([Tn[i] for i in rows])

    def garg(rows, src=G):
        return src[rows[0]] if len(rows) == 1 else np.array([src[i] for i in rows])
    # which rows of x / T / g take part for the chosen broadcast combination
    rows_x = list(range(n)) if bc in ("nn", "n1") else [0]
    rows_T = list(range(n)) if bc in ("nn", "1n") else [0]
    npts = n
    xi = lambda i: i if len(rows_x) > 1 else 0
    ti = lambda i: i if len(rows_T) > 1 else 0

    if entry in ("df", "interdiff", "tracer"):
        th = _mk_therm(GeneralThermodynamics, ne)
        if entry == "df":
            def per(x, T, precPhase, removeCache, lpsc):
                xs = list(np.atleast_1d(x)); calls.append((xs, T))
                comp = np.array([uf("xb%d" % e, *xs, T, rng=(0.3, 0.9)) for e in range(ne)])
                return uf("dg", *xs, T, rng=(-2.0, 5.0)), (comp[0] if ne == 1 else comp)
            th._drivingForce = per
            call = lambda x, T, g, r: th.getDrivingForce(x, T, precPhase="P1", removeCache=False)
        elif entry == "interdiff":
            def per(x, T, removeCache, phase):
                xs = list(np.atleast_1d(x)); calls.append((xs, T))
                if ne == 1:
                    return uf("D", *xs, T, rng=(0.5, 2.0))
                return np.array([[uf("D%d%d" % (a_, b_), *xs, T, rng=(0.5, 2.0)) for b_ in range(ne)] for a_ in range(ne)])
            th._interdiffusivitySingle = per
            call = lambda x, T, g, r: th.getInterdiffusivity(x, T, removeCache=False)
        else:
            def per(x, T, removeCache, phase):
                xs = list(np.atleast_1d(x)); calls.append((xs, T))
                return np.array([uf("Dt%d" % c, *xs, T, rng=(0.5, 2.0)) for c in range(ne + 1)])
            th._tracerDiffusivitySingle = per
            call = lambda x, T, g, r: th.getTracerDiffusivity(x, T, removeCache=False)
        full = (xarg(rows_x), targ(rows_T), None, None)
        single = lambda i: (xarg([xi(i)]), targ([ti(i)]), None, None)
        pt = lambda i: ([X[xi(i), e] for e in range(ne)], Tn[ti(i)])
    elif entry == "ifc_bin":
        th = _mk_therm(BinaryThermodynamics, 1)

        def per(T, gExtra, precPhase):
            ga = np.atleast_1d(gExtra)
            for j in range(len(ga)):
                calls.append(([ga[j]], T))
            xa = np.array([uf("xa", T, ga[j], rng=(0.01, 0.2)) for j in range(len(ga))])
            xb = np.array([uf("xbeta", T, ga[j], rng=(0.5, 0.9)) for j in range(len(ga))])
            return np.squeeze(xa), np.squeeze(xb)
        th._interfacialComposition = per
        call = lambda x, T, g, r: th.getInterfacialComposition(T, g, precPhase="P1")
        rows_g = list(range(n)) if bc in ("nn", "1n") else [0]      # here: bc = (T, g): nn, 1n (one T, n g), n1 (n T, one g)
        rows_T = list(range(n)) if bc in ("nn", "n1") else [0]
        ti = lambda i: i if len(rows_T) > 1 else 0
        gi = lambda i: i if len(rows_g) > 1 else 0
        full = (None, targ(rows_T), garg(rows_g), None)
        single = lambda i: (None, targ([ti(i)]), garg([gi(i)]), None)
        pt = lambda i: ([G[gi(i)]], Tn[ti(i)])
    elif entry == "ifc_multi":
        th = _mk_therm(MulticomponentThermodynamics, ne)

        def per(x, T, gExtra, precPhase):
            xs = list(np.atleast_1d(x)); calls.append((xs + [gExtra], T))
            return (np.array([uf("xM%d" % e, *xs, T, gExtra, rng=(0.01, 0.2)) for e in range(ne)]),
                    np.array([uf("xP%d" % e, *xs, T, gExtra, rng=(0.4, 0.9)) for e in range(ne)]))
        th._interfacialComposition = per
        call = lambda x, T, g, r: th.getInterfacialComposition(x, T, g, precPhase="P1")
        rows_T = list(range(n)) if bc == "nn" else [0]               # bc: nn (n T, n g) or 1n (one T, n g); one composition
        ti = lambda i: i if len(rows_T) > 1 else 0
        full = (xarg([0]), targ(rows_T), garg(list(range(n))), None)
        single = lambda i: (xarg([0]), targ([ti(i)]), garg([i]), None)
        pt = lambda i: ([X[0, e] for e in range(ne)] + [G[i]], Tn[ti(i)])
    elif entry == "growth":
        th = _mk_therm(MulticomponentThermodynamics, ne)
        dG = ctx.real("dG", (50.0, 900.0))

        def curvatureFactor(x, T, precPhase=None, removeCache=False, searchDir=None, computeSearchDir=False):
            xs = list(np.atleast_1d(x)); calls.append((xs, T))
            u = lambda nm, rng: uf(nm, *xs, T, rng=rng)
            return CurvatureOutput(dc=np.array([u("dc%d" % e, (-1e-4, 1e-4)) for e in range(ne)]), mc=u("mc", (0.1, 2.0)),
                                   gba=np.array([[u("gba%d%d" % (a_, b_), (-1.0, 1.0)) for b_ in range(ne)] for a_ in range(ne)]),
                                   beta=u("beta", (0.1, 2.0)), c_eq_alpha=np.array([u("cea%d" % e, (0.01, 0.2)) for e in range(ne)]),
                                   c_eq_beta=np.array([u("ceb%d" % e, (0.3, 0.8)) for e in range(ne)]))
        th.curvatureFactor = curvatureFactor
        call = lambda x, T, g, r: tuple(th.getGrowthAndInterfacialComposition(x, T, dG, r, g, precPhase="P1"))
        full = (xarg([0]), targ([0]), garg(list(range(n))), garg(list(range(n)), R))
        single = lambda i: (xarg([0]), targ([0]), garg([i]), garg([i], R))
        pt = lambda i: ([X[0, e] for e in range(ne)], Tn[0])
    else:
        raise ValueError(entry)

    snaps = [(a, _snap(a)) for a in full if isinstance(a, (np.ndarray, list))]
    res = call(*full)
    nfull = len(calls)
    ctx.observe("res", [np.asarray(r).ravel()[k] for r in (res if isinstance(res, tuple) else (res,)) for k in range(np.asarray(r).size)])
    if entry == "growth":
        ctx.prove("backend asked once for the (single) composition and temperature", nfull == 1 and
                  ctx.all([ctx.eq(calls[0][0][e], X[0, e]) for e in range(ne)] + [ctx.eq(calls[0][1], Tn[0])]))
    else:
        ctx.prove("per-point routine asked once per point", nfull == npts)
        if nfull == npts:
            for i in range(npts):
                want_x, want_T = pt(i)
                ctx.prove("per-point routine sees the i-th point unchanged",
                          ctx.all([len(calls[i][0]) == len(want_x)] + [ctx.eq(u, w) for u, w in zip(calls[i][0], want_x)] + [ctx.eq(calls[i][1], want_T)]))
    ctx.prove("no argument array modified", ctx.all([_unchanged(ctx, a, sn) for a, sn in snaps]))
    # the same points alone, in reverse order (other queries in between)
    parts = res if isinstance(res, tuple) else (res,)
    for i in reversed(range(npts)):
        ri = call(*single(i))
        pi = ri if isinstance(ri, tuple) else (ri,)
        for q, (whole, alone) in enumerate(zip(parts, pi)):
            if entry == "growth" and q >= 3:
                ctx.prove("equilibrium compositions do not depend on the batch", _same(ctx, whole, alone))
                continue
            w = np.asarray(whole)
            wi = w[i] if (npts > 1 and w.ndim >= 1 and w.shape[0] == npts) else (w if npts == 1 else None)
            ctx.prove("answer has one slot per point", wi is not None)
            if wi is not None:
                ctx.prove("point inside an array = point alone", _same(ctx, wi if np.shape(wi) != () else wi[()] if isinstance(wi, np.ndarray) else wi, np.squeeze(alone) if isinstance(alone, np.ndarray) else alone))
    again = call(*full)
    ctx.prove("repeating the call gives the same answer", _same(ctx, res if isinstance(res, tuple) else (res,), again if isinstance(again, tuple) else (again,)))
    ctx.prove("no argument array modified (after all calls)", ctx.all([_unchanged(ctx, a, sn) for a, sn in snaps]))


# ----------------------------------------------------------------------------- binary interfacial composition routines
class _PR:
    """phase-record factory stand-in: attribute `models` (assigned by _setupSubModels) and item access"""
    def __init__(self):
        self.models = None

    def __getitem__(self, k):
        return type("PhaseRecord", (), {"phase_name": k, "nonvacant_elements": ["A", "B"], "phase_dof": 2})()


class _CS:
    def __init__(self, name, X):
        self.phase_record = type("PhaseRecord", (), {"phase_name": name, "nonvacant_elements": ["A", "B"]})()
        self.X = X


def _mk_binary(ctx, method):
    th = object.__new__(BinaryThermodynamics)
    th.phases = ["ALPHA", "P1"]; th.elements = ["A", "B", "VA"]; th.numElements = 2
    th.reverse = th.elements[1] < th.elements[0]
    th.db = None; th.models = {"ALPHA": "model-alpha", "P1": "model-p1"}; th.phase_records = _PR(); th.pDens = 500
    th._guessComposition = {"P1": (0, 1, 0.1)}
    th.setInterfacialMethod(method)
    return th


def ifc_eq(ctx, n=2, pattern=(1, 0), public=True):
    """_interfacialCompositionFromEq behind getInterfacialComposition: the backend is asked for GE = g_i + gOffset (the
    documented 1 J/mol) at the queried T, slot i carries the two-phase answer found for g_i (sentinel -1 where none), the
    caller's gExtra array is not touched, a repeated call gives the same answer"""
    th = _mk_binary(ctx, "equilibrium")
    T = ctx.real("T", (500.0, 1200.0))
    g = ctx.reals("g", n, (0.0, 500.0))
    snap = _snap(g)
    seen = []

    class Workspace:       # stands for pycalphad.Workspace: an equilibrium grid over (GE, X)
        def __init__(self, db, elements, phases, cond, models=None, phase_record_factory=None, calc_opts=None):
            self.cond = cond
            seen.append((cond, list(phases), models, phase_record_factory))
            self.eq = type("EQ", (), {})()
            self.eq.coords = {"GE": None, "N": None, "P": None, "T": None, "X_B": None}

        def enumerate_composition_sets(self):
            ge = np.atleast_1d(self.cond[v.GE])
            for gi in range(len(ge)):
                for xi in range(2):
                    if pattern[gi] == xi:
                        css = [_CS("P1", [1 - ctx.uf("xP", self.cond[v.T], ge[gi], rng=(0.5, 0.9)), ctx.uf("xP", self.cond[v.T], ge[gi], rng=(0.5, 0.9))]),
                               _CS("ALPHA", [1 - ctx.uf("xM", self.cond[v.T], ge[gi], rng=(0.01, 0.2)), ctx.uf("xM", self.cond[v.T], ge[gi], rng=(0.01, 0.2))])]
                    else:
                        css = [_CS("ALPHA", [0.9, 0.1])]
                    yield (gi, 0, 0, 0, xi), css
    with patched(_BT, "Workspace", Workspace):
        if public:
            xa, xb = th.getInterfacialComposition(T, g, precPhase="P1")
        else:
            xa, xb = th._interfacialCompositionFromEq(T, g, "P1")
        ctx.observe("xa", np.atleast_1d(xa)); ctx.observe("xb", np.atleast_1d(xb))
        ctx.prove("backend workspace built once for matrix + named precipitate", len(seen) == 1 and seen[0][1] == ["ALPHA", "P1"])
        if len(seen) != 1:
            return
        cond = seen[0][0]
        ge = np.atleast_1d(cond[v.GE])
        ctx.prove("one GE value per requested Gibbs-Thomson energy", len(ge) == n)
        ctx.prove("backend asked at the queried temperature", ctx.eq(cond[v.T], T))
        for i in range(n):
            ctx.prove("backend asked for g_i + gOffset (1 J/mol)", ctx.eq(ge[i], snap[0][i] + 1.0))
            if pattern[i] is None:
                ctx.prove("no two-phase equilibrium: sentinel -1 in both outputs", ctx.all([ctx.eq(np.atleast_1d(xa)[i], -1.0), ctx.eq(np.atleast_1d(xb)[i], -1.0)]))
            else:
                ctx.prove("slot i carries the backend's two-phase answer for g_i",
                          ctx.all([ctx.eq(np.atleast_1d(xa)[i], ctx.uf("xM", T, snap[0][i] + 1.0, rng=(0.01, 0.2))),
                                   ctx.eq(np.atleast_1d(xb)[i], ctx.uf("xP", T, snap[0][i] + 1.0, rng=(0.5, 0.9)))]))
        ctx.prove("caller's gExtra array not modified", _unchanged(ctx, g, snap))
        xa2, xb2 = th.getInterfacialComposition(T, g, precPhase="P1")
        ctx.prove("repeating the call gives the same answer", _same(ctx, (xa, xb), (xa2, xb2)))
        ctx.prove("caller's gExtra array not modified (after the repeat)", _unchanged(ctx, g, snap))
        # a single Gibbs-Thomson energy alone
        k = n - 1
        xa1, xb1 = th.getInterfacialComposition(T, g[k], precPhase="P1") if pattern[k] == pattern[0] else (None, None)
        if xa1 is not None:
            ctx.prove("point inside an array = point alone", ctx.all([ctx.eq(np.atleast_1d(xa)[k], xa1), ctx.eq(np.atleast_1d(xb)[k], xb1)]))


def ifc_curv(ctx, n=2):
    """_interfacialCompositionFromCurvature behind getInterfacialComposition: caller's gExtra untouched, slot i depends on
    g_i only (equals the single-point answer), repeat gives the same answer"""
    th = _mk_binary(ctx, "curvature")
    T = ctx.real("T", (500.0, 1200.0))
    g = ctx.reals("g", n, (0.0, 500.0))
    snap = _snap(g)
    xm = ctx.real("xMeq", (0.01, 0.1)); xp = ctx.real("xPeq", (0.5, 0.9))
    ctx.assume(xp > xm)
    cm = ctx.real("d2G_matrix", (1e4, 1e5)); cp = ctx.real("d2G_precip", (1e4, 1e5))
    ctx.assume(cm > 0); ctx.assume(cp > 0)

    class Workspace:
        def __init__(self, db, elements, phases, cond, models=None, phase_record_factory=None, calc_opts=None):
            self.cond = cond
            self.eq = type("EQ", (), {})()
            self.eq.MU = np.array([[ctx.uf("muA", cond[v.T], rng=(-3.0, -1.0)), ctx.uf("muB", cond[v.T], rng=(-3.0, -1.0))]])

        def enumerate_composition_sets(self):
            yield (0, 0, 0, 0, 0), [_CS("ALPHA", [1 - xm, xm]), _CS("P1", [1 - xp, xp])]
    with patched(_BT, "Workspace", Workspace), patched(_BT, "dMudX", lambda mu, cs, ref: np.array([[cm if cs.phase_record.phase_name == "ALPHA" else cp]])):
        xa, xb = th.getInterfacialComposition(T, g, precPhase="P1")
        ctx.observe("xa", np.atleast_1d(xa)); ctx.observe("xb", np.atleast_1d(xb))
        ctx.prove("caller's gExtra array not modified", _unchanged(ctx, g, snap))
        for i in range(n):
            xa1, xb1 = th.getInterfacialComposition(T, g[i], precPhase="P1")
            ctx.prove("point inside an array = point alone", ctx.all([ctx.eq(np.atleast_1d(xa)[i], xa1), ctx.eq(np.atleast_1d(xb)[i], xb1)]))
        xa2, xb2 = th.getInterfacialComposition(T, g, precPhase="P1")
        ctx.prove("repeating the call gives the same answer", _same(ctx, (xa, xb), (xa2, xb2)))
        ctx.prove("caller's gExtra array not modified (after all calls)", _unchanged(ctx, g, snap))


# ----------------------------------------------------------------------------- cached composition sets: refresh, history, reset
class _CompSet:
    """pycalphad CompositionSet stand-in: dof = [GE, N, P, T, site fractions...]"""
    def __init__(self, phase_record, nsite=2):
        self.phase_record = phase_record
        self.dof = np.zeros(4 + nsite)
        self.NP = 0.0
        self.X = None

    def update(self, site_fractions, phase_amt, state_variables):
        self.dof[:4] = state_variables
        self.dof[4:] = site_fractions
        self.NP = phase_amt


def local_eq_refresh(ctx, ncs=2, withGE=True):
    """local_equilibrium with cached composition sets: whatever state (temperature, pressure, GE of an earlier query) they
    carry, the solver receives them with the state variables of the *current* query; site fractions (the starting point)
    are kept; the conditions are handed through"""
    Tq, GEq = 950.0, 37.5            # local_equilibrium converts conditions with float(): the query itself is concrete
    conds = {v.X("B"): 0.125, v.N: 1, v.P: 101325, v.T: Tq}
    if withGE:
        conds[v.GE] = GEq
    css = []
    old = []
    for k in range(ncs):
        cs = _CompSet("pr%d" % k)
        st = ctx.reals("old%d" % k, 6, (0.0, 2000.0))      # arbitrary history: GE, N, P, T, y1, y2 of some earlier query
        for j in range(6):
            cs.dof[j] = st[j]
        old.append([st[j] * 1 for j in range(6)])
        css.append(cs)
    got = []

    class Solver:
        def solve(self, composition_sets, cur_conds):
            got.append(([[cs.dof[j] * 1 for j in range(6)] for cs in composition_sets], dict(cur_conds), list(composition_sets)))
            return "RESULT"
    with patched(_LE, "Solver", Solver):
        res, out = local_equilibrium(None, ["A", "B", "VA"], ["ALPHA"], conds, {}, _PR(), composition_sets=css)
    ctx.prove("solver called once with the supplied composition sets", len(got) == 1 and res == "RESULT" and all(a is b for a, b in zip(got[0][2], css)) and all(a is b for a, b in zip(out, css)))
    if len(got) != 1:
        return
    want = [GEq if withGE else 0.0, 1.0, 101325.0, Tq]
    for k in range(ncs):
        ctx.observe("dof%d" % k, [got[0][0][k][j] for j in range(6)])
        ctx.prove("cached composition set carries the state variables (GE, N, P, T) of the current query",
                  ctx.all([ctx.eq(got[0][0][k][j], want[j]) for j in range(4)]))
        ctx.prove("site fractions (starting point) kept", ctx.all([ctx.eq(got[0][0][k][j], old[k][j]) for j in (4, 5)]))
    ctx.prove("conditions handed through", all(got[0][1][key] == val for key, val in conds.items()) and len(got[0][1]) == len(conds))


def history(ctx, entry="interdiff", ne=1, seq=((0.10, 900.0), (0.20, 1000.0)), keep=True):
    """getInterdiffusivity / getTracerDiffusivity through the real _...Single, getLocalEq and local_equilibrium (pycalphad's
    calculate / CompositionSet / Solver and the mobility evaluation stubbed): the answer for the last query of a sequence on
    one object (cached composition sets kept or discarded) equals the answer of a fresh object asked only that query"""
    _TH = sys.modules["kawin.thermo.Thermodynamics"]
    els = ["A", "B", "C"][:ne + 1]

    def mk():
        th = object.__new__(GeneralThermodynamics)
        th.phases = ["ALPHA", "P1"]; th.elements = els + ["VA"]; th.numElements = ne + 1
        th.db = None; th.models = {"ALPHA": "model-alpha", "P1": "model-p1"}; th.phase_records = _PR()
        th.mobCallables = {"ALPHA": {"mob": "ALPHA"}, "P1": {"mob": "P1"}}; th.diffCallables = {"ALPHA": None, "P1": None}
        th.mobility_correction = {}; th.vacancyPoorInterstitialSublattice = {}; th._parameters = {}
        th.clearCache()
        return th

    def calculate(dbf, comps, phase, T=None, P=None, N=None, GE=None, pdens=None, model=None, phase_records=None):
        r = type("Calc", (), {})()
        r.GM = type("V", (), {"values": np.array([[0.0, 1.0]])})()
        r.Y = type("Y", (), {"isel": staticmethod(lambda points=0: type("V", (), {"values": np.array([0.25, 0.75]) if points == 0 else np.array([0.5, 0.5])})())})()
        return r

    class Solver:
        def solve(self, composition_sets, cur_conds):
            cs = composition_sets[0]
            st = [cs.dof[j] for j in range(4)]
            xs = [cur_conds[v.X(e)] for e in els[1:]]
            res = type("Result", (), {})()
            # the minimiser's answer: a function of the conditions and of the state the composition set carries (its
            # independence of the starting site fractions is pycalphad's business and assumed)
            # ... and of the phase whose composition set it is handed
            ph = cs.phase_record.phase_name
            res.chemical_potentials = np.array([ctx.uf("mu%d_%s" % (c, ph), *st, cur_conds[v.T], *xs, rng=(-3.0, -1.0)) for c in range(ne + 1)])
            cs.X = [1 - sum(xs)] + xs
            return res

    def inverseMobility(chemical_potentials, cs, refEl, mobCallables, mobility_correction=None, vacancy_poor_interstitial_sublattice=False, parameters=None):
        tag = "%s_%s" % (cs.phase_record.phase_name, mobCallables["mob"])
        D = np.array([[ctx.uf("D%d%d_%s" % (a_, b_, tag), chemical_potentials[0], cs.dof[3], rng=(0.5, 2.0)) for b_ in range(ne)] for a_ in range(ne)])
        return D, None, None

    def tracer_diffusivity(cs, mobCallables, mobility_correction=None, parameters=None):
        tag = "%s_%s" % (cs.phase_record.phase_name, mobCallables["mob"])
        return np.array([ctx.uf("Dt%d_%s" % (c, tag), cs.dof[3], *cs.X[1:], rng=(0.5, 2.0)) for c in range(ne + 1)])

    def ask(th, q, removeCache):
        x, T = q[0], q[1]
        phase = q[2] if len(q) > 2 else None          # None: the matrix phase (the default of the entry points)
        xx = x if ne == 1 else [x / (e + 1) for e in range(ne)]
        if entry == "interdiff":
            return th.getInterdiffusivity(xx, T, removeCache=removeCache, phase=phase)
        return th.getTracerDiffusivity(xx, T, removeCache=removeCache, phase=phase)
    with patched(_LE, "Solver", Solver), patched(_LE, "calculate", calculate), patched(_LE, "CompositionSet", _CompSet), \
            patched(_TH, "inverseMobility", inverseMobility), patched(_TH, "tracer_diffusivity", tracer_diffusivity):
        warm = mk()
        for q in seq[:-1]:
            ask(warm, q, not keep)
            qp = q[2] if len(q) > 2 else "ALPHA"
            ctx.prove("cached composition set kept / discarded as requested (under the phase that was asked)",
                      (warm._diffusivity_cache.get(qp) is not None) == keep and
                      (not keep or all(cs.phase_record.phase_name == qp for cs in warm._diffusivity_cache[qp])))
        r_hist = ask(warm, seq[-1], not keep)
        r_fresh = ask(mk(), seq[-1], True)
        ctx.observe("r_hist", np.atleast_1d(r_hist)); ctx.observe("r_fresh", np.atleast_1d(r_fresh))
        ctx.prove("answer independent of the queries made before and of keeping the cached equilibria", _same(ctx, np.asarray(r_hist), np.asarray(r_fresh)))
        r_again = ask(warm, seq[-1], not keep)
        ctx.prove("repeating the call gives the same answer", _same(ctx, np.asarray(r_hist), np.asarray(r_again)))


def sampling_history(ctx, npts=2, keep=True, same=False, ordered=False, conds=False):
    """sampling driving force through the real getDrivingForce -> _getDrivingForceSampling ->
    _getPrecCompositionSetSamplingDF (pycalphad's calculate / CompositionSet and the matrix local equilibrium stubbed):
    two successive queries on one object at symbolic temperatures T1 != T2 (arbitrarily close); the second answer equals a
    fresh object's answer at T2, the precipitate free-energy samples in use are those of T2, and the precipitate composition
    set handed back carries T2"""
    _TH = sys.modules["kawin.thermo.Thermodynamics"]
    x = ctx.real("x", (0.01, 0.2))
    T1 = ctx.real("T1", (700.0, 702.0)); T2 = ctx.real("T2", (700.0, 702.0))
    ctx.assume(T1 > 0); ctx.assume(T2 > 0)
    if same:
        T2 = T1
    else:
        ctx.assume(T1 != T2, "the temperature changed between the two queries (by any amount)")
    Xs = [[1.0 - (j + 1.0) / (npts + 1.0), (j + 1.0) / (npts + 1.0)] for j in range(npts)]      # the (temperature independent) sample grid
    log = []

    class SamplingCS(_CompSet):
        def update(self, site_fractions, phase_amt, state_variables):
            _CompSet.update(self, site_fractions, phase_amt, state_variables)
            self.X = [self.dof[4], self.dof[5]]

    def calculate(db, elements, phase, pdens=None, model=None, output=None, phase_records=None, conditions=None, to_xarray=True, **cond):
        T = cond["T"]
        log.append((phase, output, T))
        if conds:       # sampling restricted by the caller's local_phase_sampling_conditions: the samples depend on them
            T = T + 0.0 * T + conditions["restrict"] * 1000.0
        pts = type("Points", (), {})()
        pts.X = np.array([[Xs[j] for j in range(npts)]])
        pts.Y = np.array([[Xs[j] for j in range(npts)]])
        # free energy of sample j of the precipitate phase: an arbitrary function of the temperature it is sampled at
        pts.GM = np.array([[ctx.uf("GM%d" % j, T, rng=(-5.0, -1.0)) for j in range(npts)]])
        ocm = [ctx.uf("OCM%d" % j, T, rng=((-1.0, -0.1) if j == 0 else (-1.0, 1.0))) for j in range(npts)]
        if ordered:
            ctx.assume(ocm[0] < -1e-6, "an ordered precipitate phase has at least one sample below the disordered surface")
        pts.OCM = np.array([ocm])
        return pts

    def mk():
        th = object.__new__(GeneralThermodynamics)
        th.phases = ["ALPHA", "P1"]; th.elements = ["A", "B", "VA"]; th.numElements = 2
        th.db = None; th.models = {"ALPHA": "model-alpha", "P1": "model-p1"}; th.phase_records = _PR()
        th.sampling_pDens = 2000; th.orderedPhase = {"ALPHA": False, "P1": ordered}
        th.clearCache()
        th.setDrivingForceMethod("sampling")

        def getLocalEq(xx, T, gExtra=0, precPhase=None, composition_sets=None):
            xs = list(np.atleast_1d(xx))
            res = type("Result", (), {})()
            res.chemical_potentials = np.array([ctx.uf("mu%d" % c, *xs, T, rng=(-3.0, -1.0)) for c in range(2)])
            return res, [SamplingCS(th.phase_records["ALPHA"])]
        th.getLocalEq = getLocalEq
        return th
    with patched(_TH, "calculate", calculate), patched(_TH, "CompositionSet", SamplingCS):
        warm = mk()
        lp1 = lp2 = None
        if conds:
            # conds: True = two different dictionaries; "inplace" = the caller's one dictionary is modified between the queries;
            #        "equal" = a second dictionary with the same content
            r1 = ctx.real("restrict1", (0.1, 0.4)); r2 = ctx.real("restrict2", (0.5, 0.9))
            if conds == "equal":
                r2 = r1
            else:
                ctx.assume(r1 != r2, "the two queries restrict the precipitate sampling differently")
            lp1 = {"restrict": r1}; lp2 = {"restrict": r2}
        d1, c1 = warm.getDrivingForce(x, T1, precPhase="P1", removeCache=not keep, local_phase_sampling_conditions=lp1)
        n1 = len(log)
        if conds == "inplace":
            lp1["restrict"] = r2
            lp2 = lp1
        d2, c2 = warm.getDrivingForce(x, T2, precPhase="P1", removeCache=not keep, local_phase_sampling_conditions=lp2)
        n2 = len(log)
        if conds:
            ctx.prove("caller's sampling-conditions dictionary not modified by the query", list(lp2.keys()) == ["restrict"] and lp2["restrict"] is r2)
        fresh = mk()
        df, cf = fresh.getDrivingForce(x, T2, precPhase="P1", removeCache=False, local_phase_sampling_conditions=(None if not conds else {"restrict": r2}))
        ctx.observe("dg_hist", d2 * 1.0); ctx.observe("dg_fresh", df * 1.0)
        ctx.prove("sampling driving force after a query at another temperature equals a fresh object's answer",
                  ctx.all([ctx.eq(d2 * 1.0, df * 1.0), ctx.eq(c2 * 1.0, cf * 1.0)]))
        if not same:
            ctx.prove("precipitate phase re-sampled for the new query", n2 > n1)
            if n2 > n1:
                ctx.prove("precipitate phase re-sampled at the temperature of the new query", ctx.all([ctx.eq(t, T2) for (_, _, t) in log[n1:n2]]))
        if keep:
            sc = warm._points_cache["P1"]; sf = fresh._points_cache["P1"]
            ctx.prove("cached precipitate samples are those of the last queried temperature",
                      ctx.all([ctx.eq(sc.temperature, T2)] + [ctx.eq(np.squeeze(sc.samples.GM)[j], np.squeeze(sf.samples.GM)[j]) for j in range(npts)]))
        else:
            ctx.prove("removeCache: no samples kept", warm._points_cache["P1"] == SampledPointsCache())
        # the composition set handed back by the real _getPrecCompositionSetSamplingDF (one more direct call on the warm object)
        mu = fresh.getLocalEq(x, T2)[0].chemical_potentials
        dgd, cs = warm._getPrecCompositionSetSamplingDF(x, T2, mu, "P1", lp2)
        ctx.prove("direct call agrees with the fresh object's answer", ctx.eq(dgd * 1.0, df * 1.0))
        ctx.prove("precipitate composition set carries the state variables of the query (GE offset, N, P, T)",
                  ctx.all([ctx.eq(cs.dof[0], 1.0), ctx.eq(cs.dof[1], 1.0), ctx.eq(cs.dof[2], 101325.0), ctx.eq(cs.dof[3], T2)]))


def _mk_multi(ctx, ne=2):
    """real MulticomponentThermodynamics object without a database (attributes as __init__ leaves them)"""
    th = object.__new__(MulticomponentThermodynamics)
    th.phases = ["ALPHA", "P1"]; th.elements = ["A", "B", "C", "D"][:ne + 1] + ["VA"]; th.numElements = ne + 1
    th.mobCallables = {"ALPHA": {"mob": "ALPHA"}, "P1": None}; th.diffCallables = {"ALPHA": None, "P1": None}
    th.mobility_correction = {}; th.vacancyPoorInterstitialSublattice = {}; th._parameters = {}
    th.clearCache()
    th._curvature_outputs = {p: CurvatureOutput() for p in th.phases[1:]}
    return th


def _curv_same(ctx, a, b):
    if a is None or b is None:
        return a is None and b is None
    return ctx.all([_same(ctx, np.asarray(u) if u is not None else 0.0, np.asarray(w) if w is not None else 0.0) if (u is None) == (w is None) else False
                    for u, w in zip(tuple(a), tuple(b))])


@contextlib.contextmanager
def _curv_backend(ctx, ne, region):
    """pycalphad side of curvatureFactor: the composition-set search answers per query according to `region`
    ('two': matrix + precipitate found, 'matrix': only the matrix stable, 'invalid': no converged equilibrium); mobility /
    curvature evaluations are uninterpreted functions of the composition sets they are handed"""
    _MT = sys.modules["kawin.thermo.MultiTherm"]
    names = ["A", "B", "C", "D"][:ne + 1]

    def cs_for(phase, xs, T):
        X = [ctx.uf("X_%s_%s" % (phase, n_), *xs, T, rng=((0.05, 0.2) if phase == "ALPHA" else (0.25, 0.4))) for n_ in names]
        for q in X:
            ctx.assume(q > 0, "backend contract: mole fractions positive")
        if phase != "ALPHA":
            ctx.assume(X[1] > ctx.uf("X_ALPHA_%s" % names[1], *xs, T, rng=(0.05, 0.2)), "backend contract: the precipitate is richer in the first solute than the matrix")
        c = _CS(phase, X)
        c.phase_record.nonvacant_elements = names
        c.key = (phase, xs, T)
        return c

    def getCS(th):
        def _getCompositionSetsEq(x, T, precPhase, cached_composition_sets={}):
            xs = list(np.atleast_1d(x))
            r = region[len(th._queries)]
            th._queries.append((xs, T))
            if r == "invalid":
                return None
            mu = np.array([ctx.uf("MUeq%d" % c, *xs, T, rng=(-3.0, -1.0)) for c in range(ne + 1)])
            return mu, cs_for("ALPHA", xs, T), (cs_for(precPhase, xs, T) if r == "two" else None)
        return _getCompositionSetsEq

    def inverseMobility(mu, cs, refEl, mobCallables, mobility_correction=None, vacancy_poor_interstitial_sublattice=False, parameters=None):
        ph, xs, T = cs.key
        u = lambda nm, rng: ctx.uf("%s_%s" % (nm, ph), *xs, T, rng=rng)
        # diffusivity and inverse-mobility matrices: positive diagonal (non-singular, positive definite), arbitrary otherwise
        D = np.array([[u("Dnkj%d%d" % (a_, b_), (1.0, 2.0)) if a_ == b_ else 0.0 * T for b_ in range(ne)] for a_ in range(ne)])
        dmu = np.array([[u("dMu%d%d" % (a_, b_), (0.5, 2.0)) for b_ in range(ne)] for a_ in range(ne)])
        iM = np.array([[u("invM%d%d" % (a_, b_), (1.0, 2.0)) if a_ == b_ else 0.0 * T for b_ in range(ne)] for a_ in range(ne)])
        for a_ in range(ne):
            ctx.assume(D[a_, a_] > 0); ctx.assume(iM[a_, a_] > 0)
        return D, dmu, iM

    def tracer_diffusivity(cs, mobCallables, mobility_correction=None, parameters=None):
        ph, xs, T = cs.key
        d = np.array([ctx.uf("Dtr%d_%s" % (c, ph), *xs, T, rng=(0.5, 2.0)) for c in range(ne + 1)])
        for c in range(ne + 1):
            ctx.assume(d[c] > 0)
        return d

    def dMudX(mu, cs, refEl):
        return 3.0 * np.eye(ne)
    with patched(_MT, "inverseMobility", inverseMobility), patched(_MT, "tracer_diffusivity", tracer_diffusivity), patched(_MT, "dMudX", dMudX):
        yield getCS


def curvature_history(ctx, ne=2, first="two", rc1=False, second="matrix", rc2=True, entry="curvature", clear=False):
    """curvatureFactor / getGrowthAndInterfacialComposition / impingementFactor (real code incl. _curvatureFactorFromEq,
    _searchForTwoPhaseEq, _process_invalid_eq; pycalphad pieces stubbed): a query made after another query on the same
    object -- cached equilibria kept or discarded -- answers like a fresh object asked only the second query, and a query
    with removeCache=True leaves no composition sets behind"""
    X = ctx.reals("x", (2, ne), (0.01, 0.2)); Tq = ctx.reals("T", 2, (700.0, 1200.0))
    R = ctx.real("R", (0.5, 3.0)); ctx.assume(R > 0)
    g = ctx.real("g", (0.0, 500.0)); dG = ctx.real("dG", (50.0, 900.0))

    def ask(th, i, rc):
        if entry == "curvature":
            return th.curvatureFactor(X[i], Tq[i], precPhase="P1", removeCache=rc)
        if entry == "growth":
            return th.getGrowthAndInterfacialComposition(X[i], Tq[i], dG, R, g, precPhase="P1", removeCache=rc)
        return th.impingementFactor(X[i], Tq[i], precPhase="P1", removeCache=rc)

    def same(a, b):
        if entry == "impingement":
            return (a is None and b is None) if (a is None or b is None) else ctx.eq(a, b)
        return _curv_same(ctx, a, b)
    region = [first, second, second]
    with _curv_backend(ctx, ne, region) as getCS:
        warm = _mk_multi(ctx, ne); warm._queries = []; warm._getCompositionSetsEq = getCS(warm)
        ask(warm, 0, rc1)
        if clear:
            warm.clearCache()
        r_hist = ask(warm, 1, rc2)
        stored = warm._compset_cache_curvature.get("P1")
    with _curv_backend(ctx, ne, [second]) as getCS:
        fresh = _mk_multi(ctx, ne); fresh._queries = []; fresh._getCompositionSetsEq = getCS(fresh)
        r_fresh = ask(fresh, 1, rc2)
    ctx.observe("hist_is_none", r_hist is None); ctx.observe("fresh_is_none", r_fresh is None)
    ctx.prove("backend searched once per query with the queried point", len(warm._queries) == 2 and len(fresh._queries) == 1 and
              ctx.all([ctx.eq(a, b) for a, b in zip(warm._queries[1][0] + [warm._queries[1][1]], list(X[1]) + [Tq[1]])]))
    # documented fall-back with removeCache=False when no two-phase equilibrium is found: the result of the previous query is used
    # (curvatureFactor needs the composition sets the previous query kept; impingementFactor only the previous beta)
    documented_fallback = (not rc2) and second != "two" and first == "two" and not clear and (entry == "impingement" or not rc1)
    if not documented_fallback:
        ctx.prove("answer equals a fresh object's answer (independent of the earlier query and of keeping the cached equilibria)", same(r_hist, r_fresh))
    else:
        ctx.prove("documented fallback (removeCache=False, no two-phase equilibrium): the previous result is returned, not a mixture",
                  r_hist is not None if entry != "impingement" else True)
    if rc2:
        ctx.prove("removeCache=True leaves no cached composition sets behind", stored is None)
    elif second == "two":
        ctx.prove("removeCache=False keeps the composition sets of this query", stored is not None and len(stored) == 2)


def method_switch(ctx, first="tangent", second="approximate", keep=True):
    """driving-force method changed on an object that keeps its cached composition sets: getDrivingForce [first method];
    setDrivingForceMethod(second); the same query twice -- the repeated call gives the same answer, which is also a
    fresh object's answer.  Real getDrivingForce, _getDrivingForceTangent/Approx/Curvature/Sampling,
    _getCompositionSetsForDF, _getCompositionSetsEq, _resetDrivingForceCache, setDrivingForceMethod"""
    _TH = sys.modules["kawin.thermo.Thermodynamics"]
    x = ctx.real("x", (0.01, 0.2)); T = ctx.real("T", (700.0, 1200.0))
    names = ["A", "B"]

    def cs_of(phase, tag):
        lo, hi = ((0.05, 0.2) if phase == "ALPHA" else (0.5, 0.8))
        xb = ctx.uf("X_%s_%s" % (phase, tag), x, T, rng=(lo, hi))
        ctx.assume(xb > 0); ctx.assume(xb < 1)
        c = _CS(phase, [1 - xb, xb])
        c.phase_record.nonvacant_elements = names
        c.tag = tag
        return c

    def distinct(cm, cp):
        ctx.assume(cp.X[1] > cm.X[1] + 0.1, "backend contract: precipitate composition differs from the matrix")

    def local_equilibrium(dbf, comps, phases, conds, models, phase_records, composition_sets=None):
        """in-place solve on the composition sets supplied (pycalphad does not add or remove composition sets); one per phase if none"""
        tag = "+".join(phases) + ("|MU" if any(str(k).startswith("MU") for k in conds) else "|X")
        if composition_sets is None:
            composition_sets = [cs_of(ph, "loc:" + tag) for ph in phases]
        res = type("Result", (), {})()
        have = "+".join(c.phase_record.phase_name for c in composition_sets)
        if tag == "ALPHA+P1|X" and have == "ALPHA+P1":
            # a regular update of a complete matrix + precipitate pair converges to the global equilibrium (independence of the
            # starting point is pycalphad's business and assumed)
            for c in composition_sets:
                c.X = cs_of(c.phase_record.phase_name, "global").X
            res.chemical_potentials = np.array([ctx.uf("MUeq%d" % c, x, T, rng=(-3.0, -1.0)) for c in range(2)])
            res.x = np.array([0.0 * x])
            return res, composition_sets
        res.chemical_potentials = np.array([ctx.uf("MU%d<%s;%s>" % (c, tag, have), x, T, rng=(-3.0, -1.0)) for c in range(2)])
        res.x = np.array([ctx.uf("GE<%s;%s>" % (tag, have), x, T, rng=(-1.0, 3.0))])
        return res, composition_sets

    def mk(method):
        th = object.__new__(GeneralThermodynamics)
        th.phases = ["ALPHA", "P1"]; th.elements = names + ["VA"]; th.numElements = 2
        th.db = None; th.models = {"ALPHA": "model-alpha", "P1": "model-p1"}; th.phase_records = _PR()
        th.clearCache()
        th.setDrivingForceMethod(method)

        def getLocalEq(xx, TT, gExtra=0, precPhase=None, composition_sets=None):
            res = type("Result", (), {})()
            res.chemical_potentials = np.array([ctx.uf("MUloc%d" % c, x, T, rng=(-3.0, -1.0)) for c in range(2)])
            return res, [cs_of("ALPHA", "local")]

        def sampling(xx, TT, mu, precPhase, lpsc=None):
            return ctx.uf("dg_sampling", x, T, rng=(-1.0, 3.0)), cs_of("P1", "sampled")

        def getEq(xx, TT, gExtra=0, precPhase=None):
            w = type("Wks", (), {})()
            w.eq = type("EQ", (), {})()
            w.eq.MU = np.array([[ctx.uf("MUeq%d" % c, x, T, rng=(-3.0, -1.0)) for c in range(2)]])
            cm, cp = cs_of("ALPHA", "global"), cs_of("P1", "global")
            distinct(cm, cp)
            w.get_composition_sets = lambda: [cm, cp]
            return w
        th.getLocalEq = getLocalEq; th._getPrecCompositionSetSamplingDF = sampling; th.getEq = getEq
        distinct(cs_of("ALPHA", "local"), cs_of("P1", "sampled"))
        return th
    with patched(_TH, "local_equilibrium", local_equilibrium), patched(_TH, "dMudX", lambda mu, cs, ref: np.array([[ctx.uf("d2G", x, T, rng=(1.0, 5.0))]])):
        th = mk(first)
        th.getDrivingForce(x, T, precPhase="P1", removeCache=not keep)
        th.setDrivingForceMethod(second)
        r1 = th.getDrivingForce(x, T, precPhase="P1", removeCache=not keep)
        r2 = th.getDrivingForce(x, T, precPhase="P1", removeCache=not keep)
        rf = mk(second).getDrivingForce(x, T, precPhase="P1", removeCache=not keep)
    ctx.observe("r1", r1[0] * 1.0); ctx.observe("r2", r2[0] * 1.0); ctx.observe("rf", rf[0] * 1.0)
    ctx.prove("after a method switch: repeating the call gives the same answer", ctx.all([ctx.eq(r1[0] * 1.0, r2[0] * 1.0), ctx.eq(r1[1] * 1.0, r2[1] * 1.0)]))
    ctx.prove("after a method switch: answer equals a fresh object's answer for the new method", ctx.all([ctx.eq(r1[0] * 1.0, rf[0] * 1.0), ctx.eq(r1[1] * 1.0, rf[1] * 1.0)]))


def reset(ctx, multi=False):
    """clearCache and _resetDrivingForceCache(removeCache=True) leave every cache attribute in its initial state;
    removeCache=False leaves the caches alone"""
    cls = MulticomponentThermodynamics if multi else GeneralThermodynamics
    th = object.__new__(cls)
    th.phases = ["ALPHA", "P1", "P2"]
    th.clearCache()
    init = {k: (dict(val) if isinstance(val, dict) else val) for k, val in th.__dict__.items() if k != "phases"}
    names = ["_compset_cache_df", "_matrix_cs", "_points_cache", "_diffusivity_cache"] + (["_compset_cache_curvature"] if multi else [])
    ctx.prove("clearCache defines every cache attribute", sorted(init) == sorted(names) and all(init[k] in ({}, None) for k in names))
    tok = ctx.real("token", (0.0, 1.0))
    th._compset_cache_df = {"P1": [tok], "P2": [tok]}; th._matrix_cs = [tok]
    th._points_cache = {"P1": SampledPointsCache(temperature=tok, samples=tok, ordered_samples=None)}
    th._diffusivity_cache = {"ALPHA": [tok]}
    if multi:
        th._compset_cache_curvature = {"P1": [tok, tok]}
    th._resetDrivingForceCache("P1", False)
    ctx.prove("removeCache=False keeps the cached equilibria", th._compset_cache_df["P1"] == [tok] and th._matrix_cs == [tok] and th._points_cache["P1"].samples is tok)
    th._resetDrivingForceCache("P1", True)
    ctx.prove("removeCache=True discards the cached equilibria and samples of the phase and the matrix composition set",
              th._compset_cache_df["P1"] is None and th._matrix_cs is None and th._points_cache["P1"] == SampledPointsCache()
              and th._points_cache["P1"].samples is None and th._points_cache["P1"].temperature is None)
    ctx.prove("other phases' cached equilibria untouched", th._compset_cache_df["P2"] == [tok])
    th.clearCache()
    now = {k: val for k, val in th.__dict__.items() if k != "phases"}
    ctx.prove("clearCache restores the initial cache state", sorted(now) == sorted(init) and all(now[k] == init[k] for k in init))
    ht = HashTable(); ht.addToHashTable(np.array([tok]), 900.0 + tok, "V")
    ht.clearCache()
    ctx.prove("HashTable.clearCache restores the initial state", ht.cachedData == {})


_F_HT = [HashTable.enableCaching, HashTable.clearCache, HashTable.setHashSensitivity, HashTable._hashingFunction,
         HashTable.retrieveFromHashTable, HashTable.addToHashTable]
_A_HT = ["0 <= x_i <= 1, 200 <= T <= 3000 (range of the shipped databases); precision s decimal places, s in 0..15 (from s = 16 on T*10^s leaves the int64 range for T >= 922.34 K: see PENDING)",
         "agreement to precision: |v1 - v2| < 10^-s in every component (indifferent to truncation vs. rounding of the key)",
         "real arithmetic for x*10^s; the integer cast is exact (truncation, out-of-range -> INT_MIN)"]
_S_HT = ["hash(tuple of integers): injective (64-bit hash collisions are outside the claim)"]

HARNESSES = [
    Harness("C09.cache_off", cache_off, functions=_F_HT, assumptions=_A_HT, stubs=_S_HT, bounds={"solutes": "ne", "precision": "s"},
            params={"quick": [{"s": 4, "ne": 1}, {"s": 9, "ne": 2}, {"s": 0, "ne": 2}], "thorough": [{"s": s, "ne": ne} for s in (0, 3, 6, 9) for ne in (1, 2, 3)]}),
    Harness("C09.cache_key", cache_key, functions=_F_HT, assumptions=_A_HT, stubs=_S_HT, bounds={"solutes": "ne", "precision": "s", "stored points": "stores"},
            params={"quick": [{"s": s, "ne": 1 + (s % 2), "stores": 1} for s in range(16)] + [{"s": 4, "ne": 2, "stores": 2}, {"s": 8, "ne": 1, "stores": 2}, {"s": 15, "ne": 2, "stores": 2}],
                    "thorough": [{"s": s, "ne": ne, "stores": st} for s in range(16) for ne in (1, 2, 3) for st in (1, 2)]}),
    Harness("C09.cache_fluxes", cache_fluxes, functions=_F_HT + [SinglePhaseModel._getFluxes, DiffusionModel.useCache, DiffusionModel.setHashSensitivity],
            assumptions=_A_HT, stubs=_S_HT + ["therm.getInterdiffusivity: uninterpreted function of (x, T)"], bounds={"nodes": "N", "solutes": "ne", "precision": "s"},
            params={"quick": [{"N": 2, "ne": 1, "s": 4, "cache": True}, {"N": 3, "ne": 1, "s": 2, "cache": True}, {"N": 2, "ne": 2, "s": 8, "cache": True},
                              {"N": 2, "ne": 1, "s": 4, "cache": False}, {"N": 2, "ne": 2, "s": 0, "cache": False}],
                    "thorough": [{"N": n, "ne": ne, "s": s, "cache": c} for n in (2, 3) for ne in (1, 2) for s in (0, 5, 9) for c in (True, False)]}),
    Harness("C09.cache_mobility", cache_mobility, functions=_F_HT + [computeMobility, _computeSingleMobility, tutils._process_xT_arrays],
            assumptions=_A_HT, stubs=_S_HT + ["therm.getEq: workspace stub whose chemical potentials are uninterpreted functions of (x, T); no mobility models (mobility stays -1)"],
            bounds={"points": "N", "solutes": "ne", "precision": "s"},
            params={"quick": [{"N": 2, "ne": 1, "s": 4, "cache": True}, {"N": 2, "ne": 2, "s": 7, "cache": True}, {"N": 2, "ne": 1, "s": 4, "cache": False},
                              {"N": 2, "ne": 2, "s": 4, "cache": None}],
                    "thorough": [{"N": n, "ne": ne, "s": s, "cache": c} for n in (2, 3) for ne in (1, 2) for s in (0, 9) for c in (True, False, None)]}),
    Harness("C09.batching", batching,
            functions=[GeneralThermodynamics.getDrivingForce, GeneralThermodynamics.getInterdiffusivity, GeneralThermodynamics.getTracerDiffusivity,
                       BinaryThermodynamics.getInterfacialComposition, MulticomponentThermodynamics.getInterfacialComposition,
                       MulticomponentThermodynamics.getGrowthAndInterfacialComposition, _growthRateOutputFromCurvature,
                       tutils._process_xT_arrays, tutils._process_TG_arrays, tutils._process_x, tutils._getPrecipitatePhase],
            assumptions=["per-point backend routines are functions of their arguments (uninterpreted): purity of pycalphad itself is outside the claim",
                         "radii > 0 (growth entry)"],
            stubs=["_drivingForce, _interdiffusivitySingle, _tracerDiffusivitySingle, _interfacialComposition (binary and multicomponent), curvatureFactor: uninterpreted functions of (x, T[, g])"],
            bounds={"points": "n", "solutes": "ne", "broadcast": "bc (nn: both arrays, 1n / n1: one side a single value)", "binary x layout": "(N,) / (N,1) / list"},
            params={"quick": [{"entry": "df", "ne": 1, "n": 2, "bc": "nn"}, {"entry": "df", "ne": 1, "n": 3, "bc": "1n", "col": True}, {"entry": "df", "ne": 2, "n": 2, "bc": "n1"},
                              {"entry": "df", "ne": 1, "n": 2, "bc": "n1", "aslist": True}, {"entry": "df", "ne": 2, "n": 2, "bc": "1n"},
                              {"entry": "interdiff", "ne": 1, "n": 2, "bc": "1n"}, {"entry": "interdiff", "ne": 2, "n": 2, "bc": "nn"}, {"entry": "interdiff", "ne": 1, "n": 2, "bc": "nn", "col": True},
                              {"entry": "tracer", "ne": 1, "n": 2, "bc": "n1"}, {"entry": "tracer", "ne": 2, "n": 2, "bc": "1n"},
                              {"entry": "ifc_bin", "n": 2, "bc": "nn"}, {"entry": "ifc_bin", "n": 3, "bc": "nn"}, {"entry": "ifc_bin", "n": 3, "bc": "1n"}, {"entry": "ifc_bin", "n": 2, "bc": "n1"},
                              {"entry": "ifc_multi", "ne": 2, "n": 2, "bc": "nn"}, {"entry": "ifc_multi", "ne": 2, "n": 2, "bc": "1n"},
                              {"entry": "growth", "ne": 2, "n": 2}],
                    "thorough": [{"entry": e, "ne": ne, "n": n, "bc": bc, "col": col} for e in ("df", "interdiff", "tracer") for ne in (1, 2, 3) for n in (2, 3)
                                 for bc in ("nn", "1n", "n1") for col in ((False, True) if ne == 1 else (False,))] +
                                [{"entry": "ifc_bin", "n": n, "bc": bc} for n in (2, 3) for bc in ("nn", "1n", "n1")] +
                                [{"entry": "ifc_multi", "ne": ne, "n": 3, "bc": bc} for ne in (2, 3) for bc in ("nn", "1n")] +
                                [{"entry": "growth", "ne": ne, "n": 3} for ne in (2, 3)]}),
    Harness("C09.ifc_eq", ifc_eq, functions=[BinaryThermodynamics.getInterfacialComposition, BinaryThermodynamics._interfacialCompositionFromEq,
                                               BinaryThermodynamics.setInterfacialMethod, GeneralThermodynamics._setupSubModels, tutils._process_TG_arrays],
            assumptions=["the equilibrium grid reports, per GE value, at most one guess composition with the two-phase set (which one: harness parameter)"],
            stubs=["pycalphad.Workspace: grid over (GE, X) whose two-phase compositions are uninterpreted functions of (T, GE)"],
            bounds={"Gibbs-Thomson energies": "n", "two-phase pattern": "pattern[i] = guess-composition index with the two-phase set for g_i, None = unstable"},
            params={"quick": [{"n": 2, "pattern": [1, 0]}, {"n": 3, "pattern": [None, 1, 1]}, {"n": 2, "pattern": [0, None], "public": False}, {"n": 1, "pattern": [0]},
                              {"n": 3, "pattern": [1, None, 0]}],
                    "thorough": [{"n": 3, "pattern": list(pt), "public": pub} for pt in __import__("itertools").product((None, 0, 1), repeat=3) for pub in (True, False)]}),
    Harness("C09.ifc_curv", ifc_curv, functions=[BinaryThermodynamics.getInterfacialComposition, BinaryThermodynamics._interfacialCompositionFromCurvature],
            assumptions=["free-energy curvatures > 0, x_precipitate > x_matrix at the planar equilibrium"],
            stubs=["pycalphad.Workspace (one two-phase set), dMudX: symbolic curvatures"], bounds={"Gibbs-Thomson energies": "n"},
            params={"quick": [{"n": 2}], "thorough": [{"n": 3}]}),
    Harness("C09.local_eq_refresh", local_eq_refresh, functions=[local_equilibrium],
            assumptions=["the query's conditions are concrete numbers (local_equilibrium converts them with float()); the state left in the cached composition sets by earlier queries is arbitrary"],
            stubs=["pycalphad Solver: records what it is given"], bounds={"cached composition sets": "ncs"},
            params={"quick": [{"ncs": 1, "withGE": True}, {"ncs": 2, "withGE": False}], "thorough": [{"ncs": 3, "withGE": True}, {"ncs": 3, "withGE": False}]}),
    Harness("C09.history", history, functions=[GeneralThermodynamics.getInterdiffusivity, GeneralThermodynamics._interdiffusivitySingle, GeneralThermodynamics.getTracerDiffusivity,
                                                 GeneralThermodynamics._tracerDiffusivitySingle, GeneralThermodynamics.getLocalEq, GeneralThermodynamics._getConditions,
                                                 GeneralThermodynamics._setupSubModels, GeneralThermodynamics.clearCache, local_equilibrium],
            assumptions=["query points are concrete (float() in local_equilibrium); backend answers are uninterpreted functions",
                         "the minimiser's answer does not depend on the starting site fractions of a supplied composition set (pycalphad; outside the claim)"],
            stubs=["pycalphad calculate / CompositionSet / Solver: answer = uninterpreted function of the conditions and of the state variables the composition set carries",
                   "the answer also depends on the phase of the composition set handed to the solver",
                   "inverseMobility / tracer_diffusivity: uninterpreted functions of the chemical potentials, the composition set's phase, temperature and composition and of the phase whose mobility model is passed"],
            bounds={"query sequence": "seq of (x, T[, phase]) (last one compared with a fresh object)", "solutes": "ne", "phases with mobility data": 2},
            params={"quick": [{"entry": "interdiff", "ne": 1, "keep": True}, {"entry": "interdiff", "ne": 2, "keep": False}, {"entry": "tracer", "ne": 1, "keep": True},
                              {"entry": "tracer", "ne": 2, "keep": True, "seq": [[0.1, 900.0], [0.1, 1000.0], [0.3, 900.0]]},
                              {"entry": "interdiff", "ne": 1, "keep": True, "seq": [[0.2, 1000.0], [0.2, 1000.0]]},
                              {"entry": "interdiff", "ne": 1, "keep": True, "seq": [[0.1, 900.0, "ALPHA"], [0.1, 900.0, "P1"]]},
                              {"entry": "interdiff", "ne": 2, "keep": True, "seq": [[0.1, 900.0, "P1"], [0.2, 1000.0], [0.2, 1000.0, "P1"]]},
                              {"entry": "tracer", "ne": 1, "keep": True, "seq": [[0.1, 900.0], [0.2, 950.0, "P1"]]},
                              {"entry": "tracer", "ne": 2, "keep": False, "seq": [[0.1, 900.0, "P1"], [0.1, 900.0, "ALPHA"]]}],
                    "thorough": [{"entry": e, "ne": ne, "keep": k, "seq": sq} for e in ("interdiff", "tracer") for ne in (1, 2, 3) for k in (True, False)
                                 for sq in ([[0.1, 900.0], [0.2, 1000.0]], [[0.1, 900.0], [0.1, 1000.0], [0.3, 900.0]], [[0.3, 1200.0], [0.1, 1200.0], [0.1, 300.0]],
                                            [[0.1, 900.0, "ALPHA"], [0.1, 900.0, "P1"]], [[0.1, 900.0, "P1"], [0.2, 1000.0], [0.2, 1000.0, "P1"]],
                                            [[0.2, 950.0, "P1"], [0.2, 950.0, "ALPHA"], [0.3, 800.0, "P1"], [0.3, 800.0]])]}),
    Harness("C09.reset", reset, functions=[GeneralThermodynamics.clearCache, MulticomponentThermodynamics.clearCache, GeneralThermodynamics._resetDrivingForceCache, HashTable.clearCache],
            params={"quick": [{"multi": False}, {"multi": True}], "thorough": [{"multi": False}, {"multi": True}]}),
    Harness("C09.sampling_history", sampling_history,
            functions=[GeneralThermodynamics.getDrivingForce, GeneralThermodynamics._getDrivingForceSampling, GeneralThermodynamics._getPrecCompositionSetSamplingDF,
                       GeneralThermodynamics._resetDrivingForceCache, GeneralThermodynamics._setupSubModels, GeneralThermodynamics.setDrivingForceMethod],
            assumptions=["T1 != T2 symbolic, arbitrarily close; sample grid of the precipitate phase fixed, sampled free energies are arbitrary functions of the sampling temperature",
                         "matrix chemical potentials are an uninterpreted function of (x, T)", "ordered variant: at least one sample has an ordering contribution below the tolerance"],
            stubs=["pycalphad calculate (precipitate sampling): GM_j = uninterpreted function of T; CompositionSet stand-in; getLocalEq (matrix-only local equilibrium): uninterpreted mu(x, T)"],
            bounds={"sample points": "npts", "queries": 2},
            params={"quick": [{"npts": 2, "keep": True}, {"npts": 2, "keep": False}, {"npts": 2, "keep": True, "same": True}, {"npts": 2, "keep": True, "ordered": True}],
                    "thorough": [{"npts": n, "keep": k, "same": sm, "ordered": o} for n in (2, 3) for k in (True, False) for sm in (False, True) for o in (False, True)]}),
    Harness("C09.curvature_history", curvature_history,
            functions=[MulticomponentThermodynamics.curvatureFactor, MulticomponentThermodynamics._curvatureFactorFromEq, MulticomponentThermodynamics._searchForTwoPhaseEq,
                       MulticomponentThermodynamics.getGrowthAndInterfacialComposition, MulticomponentThermodynamics.clearCache, _growthRateOutputFromCurvature],
            assumptions=["whether a query finds matrix + precipitate, only the matrix, or no converged equilibrium is a harness parameter per query; no search direction is given",
                         "with removeCache=False and no two-phase equilibrium the documented fallback (previous result) applies and is not compared with a fresh object"],
            stubs=["_getCompositionSetsEq (pycalphad equilibrium): composition sets / chemical potentials are uninterpreted functions of the queried (x, T)",
                   "inverseMobility, tracer_diffusivity: uninterpreted functions of the composition set handed in (diagonal positive diffusivity / inverse-mobility matrices, positive tracer diffusivities); dMudX of the precipitate: 3*I",
                   "composition sets: positive mole fractions, precipitate richer in the first solute than the matrix"],
            bounds={"queries": 2, "solutes": "ne"},
            params={"quick": [{"first": "two", "rc1": False, "second": "matrix", "rc2": True}, {"first": "two", "rc1": False, "second": "invalid", "rc2": True},
                              {"first": "two", "rc1": False, "second": "two", "rc2": True}, {"first": "two", "rc1": True, "second": "matrix", "rc2": False},
                              {"first": "two", "rc1": False, "second": "two", "rc2": False}, {"first": "two", "rc1": False, "second": "matrix", "rc2": False},
                              {"first": "two", "rc1": False, "second": "matrix", "rc2": False, "clear": True},
                              {"first": "two", "rc1": False, "second": "matrix", "rc2": True, "entry": "growth"}, {"first": "matrix", "rc1": False, "second": "two", "rc2": False, "entry": "growth"}],
                    "thorough": [{"first": f, "rc1": r1, "second": sc, "rc2": r2, "entry": e, "clear": c, "ne": ne} for f in ("two", "matrix") for r1 in (False, True)
                                 for sc in ("two", "matrix", "invalid") for r2 in (False, True) for e in ("curvature", "growth") for c in (False, True) for ne in (2,)]}),
    Harness("C09.method_switch", method_switch,
            functions=[GeneralThermodynamics.getDrivingForce, GeneralThermodynamics.setDrivingForceMethod, GeneralThermodynamics._getDrivingForceTangent,
                       GeneralThermodynamics._getDrivingForceApprox, GeneralThermodynamics._getDrivingForceCurvature, GeneralThermodynamics._getDrivingForceSampling,
                       GeneralThermodynamics._getCompositionSetsForDF, GeneralThermodynamics._getCompositionSetsEq, GeneralThermodynamics._resetDrivingForceCache],
            assumptions=["same (x, T) for all queries; precipitate composition differs from the matrix composition"],
            stubs=["getLocalEq / getEq / _getPrecCompositionSetSamplingDF / local_equilibrium: uninterpreted functions of (x, T), of the phases asked for and of the phases of the "
                   "composition sets handed in; local_equilibrium solves in place on the composition sets supplied (adds none), as pycalphad does"],
            bounds={"methods": "first -> second", "queries": "1 + 2"},
            params={"quick": [{"first": "tangent", "second": "approximate"}, {"first": "tangent", "second": "curvature"}, {"first": "approximate", "second": "tangent"},
                              {"first": "curvature", "second": "tangent", "keep": False}],
                    "thorough": [{"first": f, "second": g_, "keep": k} for f in ("tangent", "approximate", "curvature", "sampling") for g_ in ("tangent", "approximate", "curvature", "sampling") if f != g_ for k in (True, False)]}),
    Harness("C09.impingement_history", curvature_history, functions=[MulticomponentThermodynamics.impingementFactor, MulticomponentThermodynamics.curvatureFactor,
                                                                     MulticomponentThermodynamics._curvatureFactorFromEq, MulticomponentThermodynamics.clearCache],
            assumptions=["as C09.curvature_history; the documented fall-back (removeCache=False, no clearCache in between, no two-phase equilibrium: previous beta) is not compared with a fresh object"], stubs=["as C09.curvature_history"], bounds={"queries": 2},
            params={"quick": [{"first": "two", "rc1": False, "second": "matrix", "rc2": True, "entry": "impingement"},
                              {"first": "two", "rc1": True, "second": "invalid", "rc2": True, "entry": "impingement"},
                              {"first": "two", "rc1": False, "second": "matrix", "rc2": False, "entry": "impingement", "clear": True},
                              {"first": "two", "rc1": True, "second": "matrix", "rc2": False, "entry": "impingement"},
                              {"first": "two", "rc1": False, "second": "two", "rc2": True, "entry": "impingement"}],
                    "thorough": [{"first": f, "rc1": r1, "second": sc, "rc2": r2, "entry": "impingement", "clear": c} for f in ("two", "matrix") for r1 in (False, True)
                                 for sc in ("matrix", "invalid", "two") for r2 in (False, True) for c in (False, True)]}),
    Harness("C09.sampling_conditions", sampling_history, functions=[GeneralThermodynamics.getDrivingForce, GeneralThermodynamics._getDrivingForceSampling, GeneralThermodynamics._getPrecCompositionSetSamplingDF],
            assumptions=["two queries with different local_phase_sampling_conditions (two dictionaries, or the caller's one dictionary modified in place in between), or with an equal second dictionary; the samples the backend returns depend on the conditions"],
            stubs=["as C09.sampling_history; calculate: GM_j = uninterpreted function of (T, sampling restriction)"], bounds={"sample points": "npts", "queries": 2},
            params={"quick": [{"npts": 2, "keep": True, "same": True, "conds": True}, {"npts": 2, "keep": True, "conds": True},
                              {"npts": 2, "keep": True, "same": True, "conds": "inplace"}, {"npts": 2, "keep": True, "same": True, "conds": "equal"}],
                    "thorough": [{"npts": 3, "keep": k, "same": sm, "conds": c} for k in (True, False) for sm in (True, False) for c in (True, "inplace", "equal")]}),
    Harness("C09.cache_key_wide", cache_key, functions=_F_HT, assumptions=_A_HT, stubs=_S_HT, bounds={"solutes": "ne", "precision": "s = 17, 18 (T*10^s leaves the int64 range for every T >= 92.3 K: all temperatures share one key; s = 16: for T >= 922.34 K)"},
            params={"quick": [{"s": 17, "ne": 1, "stores": 1}, {"s": 18, "ne": 1, "stores": 1}], "thorough": [{"s": s_, "ne": 2, "stores": 2} for s_ in (17, 18)]}),
]

from harness.c09_extra import EXTRA as _EXTRA
HARNESSES = HARNESSES + _EXTRA

# harnesses that are violated on the unchanged tree wait here (not part of ./vcheck) until the code is repaired or the finding is listed;
# run them with  VK_PENDING=1 ./vcheck C09 --only <id>
PENDING = []
import os as _os
if _os.environ.get("VK_PENDING"):
    HARNESSES = HARNESSES + PENDING
