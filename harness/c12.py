"""C12 -- driving force, phase boundary and critical radius agree with each other (narrow claim).

What is decided here is the part of the property that lives in kawin's own code: the critical radius returned by
the real `nucleationBarrier` for a precipitation state is the radius at which the growth rate computed by the real
growth functions (`_singleGrowthMulti` -> `MulticomponentThermodynamics.getGrowthAndInterfacialComposition` ->
`_growthRateOutputFromCurvature`; `_createLookupBinary` + `_singleGrowthBinary`) changes sign, with the Gibbs-Thomson
energy of every size class taken from the real `computeGibbsThomsonContribution`.  The thermodynamic backend
(pycalphad) is replaced by stubs; for the binary case the relation the property states for it ("the interfacial matrix
composition for Gibbs-Thomson energy g is the composition at which the driving force equals g; the driving force
increases with supersaturation") is the *contract* of the stub.
"""
import numpy as np
from vk.run import Harness
from vk import symnp
from kawin.precipitation.KWNEuler import PrecipitateModel
from kawin.precipitation.KWNBase import PrecipitateBase
from kawin.precipitation.PopulationBalance import PopulationBalanceModel as PBM
from kawin.precipitation.PrecipitationParameters import PrecipitateParameters, PrecipitationData
from kawin.precipitation import NucleationRate as nucfuncs
from kawin.precipitation.parameters.ShapeFactors import NeedleDescription, PlateDescription, ShapeFactor, ShapeDescriptionBase
from kawin.precipitation.parameters.Nucleation import BulkDescription, GrainBoundaryDescription, NucleationBarrierParameters
from kawin.thermo.MultiTherm import MulticomponentThermodynamics, CurvatureOutput, _growthRateOutputFromCurvature
from kawin.thermo.BinTherm import BinaryThermodynamics
from kawin.thermo.Thermodynamics import GeneralThermodynamics
from harness import c09 as _c09


# ----------------------------------------------------------------------------- numpy.unique on symbolic data
def _unique_sym(a, **kw):
    """numpy.unique for 1-D symbolic data: distinct values (decided by forking on equality), ascending"""
    if kw.get("return_index") or kw.get("return_inverse") or kw.get("return_counts") or kw.get("axis") is not None:
        raise symnp.FacadeMissing("unique with return_* / axis on symbolic data")
    if not symnp.has_sym(a):
        return symnp.wrap_num(np.unique(symnp.to_float(symnp.plain(symnp.to_obj(a)))))
    xs = list(symnp.plain(symnp.to_obj(a)).ravel())
    reps = []
    for x in xs:
        if not any(bool(symnp.SymReal.lift(x) == r) for r in reps):
            reps.append(x)
    out = symnp.to_obj(reps)
    if len(reps) > 1:
        out = out[symnp.f_argsort(out)]
    return out


symnp.FUNCS["unique"] = _unique_sym


# ----------------------------------------------------------------------------- shared construction
def make_shape(ctx, kind, f, k):
    """a user-defined shape description (the documented extension point of ShapeFactor) whose thermodynamic and kinetic
    factors are the symbolic numbers f, k for every aspect ratio > 1; the base class is a real shipped description"""
    base = {"needle": NeedleDescription, "plate": PlateDescription}[kind]

    class SymbolicFactorShape(base):
        name = "SYMF"

        def _thermoFactor(self, ar):
            if callable(f):
                return np.array([f(a) for a in ar]) if len(ar) else np.ones(ar.shape)
            return f * np.ones(ar.shape)

        def _kineticFactor(self, ar):
            if callable(k):
                return np.array([k(a) for a in ar]) if len(ar) else np.ones(ar.shape)
            return k * np.ones(ar.shape)
    return SymbolicFactorShape()


def mk_model(ctx, nb, elements, shape="sphere", strain=False, rmin_sym=True, nph=1, arfun=False):
    """real PrecipitateModel; the analysed precipitate phase is the last of nph phases: nb size classes on a symbolic grid,
    symbolic interfacial energy, molar volumes, minimum radius, shape factors and (optionally) a constant elastic strain
    energy.  The other phases carry different concrete parameters (they must not leak into the analysed phase)."""
    names = ["P%d" % (i + 1) for i in range(nph)]
    m = PrecipitateModel(phases=names, elements=list(elements))
    tp = nph - 1
    for q in range(tp):
        po = m.precipitateParameters[q]
        po.gamma = 0.37 + 0.1 * q; po.volume.Vm = 1.3; po.Rmin = 0.05
        m.PBM[q] = PBM(0.5, 5.0, nb + 1, 1, 10 * nb)
    pp = m.precipitateParameters[tp]
    gamma = ctx.real("gamma", (0.2, 1.5)); ctx.assume(gamma > 0)
    vmb = ctx.real("VmBeta", (0.5, 2.0)); ctx.assume(vmb > 0)
    vma = ctx.real("VmAlpha", (0.5, 2.0)); ctx.assume(vma > 0)
    pp.gamma = gamma
    pp.volume.Vm = vmb
    m.matrixParameters.volume.Vm = vma
    if rmin_sym:
        rmin = ctx.real("Rmin", (0.0, 0.6)); ctx.assume(rmin >= 0)
        pp.Rmin = rmin
    f = 1.0; k = 1.0
    aspect = None
    if shape != "sphere" and arfun:
        # radius-dependent aspect ratio ar(R) = c + kk R > 1 (a user function, as accepted by setAspectRatio) and shape factors
        # that are arbitrary positive functions of the aspect ratio
        c = ctx.real("ar_c", (1.1, 2.0)); kk = ctx.real("ar_k", (0.2, 1.5))
        ctx.assume(c > 1); ctx.assume(kk > 0)
        aspect = lambda r: c + kk * r

        def f(a):
            val = ctx.uf("thermoFactor", a, rng=(0.8, 1.6)); ctx.assume(val > 0)
            return val

        def k(a):
            val = ctx.uf("kineticFactor", a, rng=(0.5, 1.5)); ctx.assume(val > 0)
            return val
        pp.shapeFactor.setPrecipitateShape(make_shape(ctx, shape, f, k), aspect)
    elif shape != "sphere":
        f = ctx.real("thermoFactor", (0.8, 1.6)); ctx.assume(f > 0)
        k = ctx.real("kineticFactor", (0.5, 1.5)); ctx.assume(k > 0)
        pp.shapeFactor.setPrecipitateShape(make_shape(ctx, shape, f, k), 2.0)
    E = 0.0
    if strain:
        E = ctx.real("strainEnergy", (0.0, 0.8)); ctx.assume(E >= 0)
        pp.strainEnergy.setConstantElasticEnergy(E)
    # size-class grid b0 + i*w (what PopulationBalanceModel.reset builds)
    pbm = PBM(1e-10, 1e-9, nb, 1, 10 * nb)
    b0 = ctx.real("b0", (0.3, 1.0)); w = ctx.real("w", (0.3, 1.5))
    ctx.assume(b0 > 0); ctx.assume(w > 0)
    pbm.min = b0; pbm.max = b0 + nb * w; pbm.bins = nb
    pbm.reset(False)
    m.PBM[tp] = pbm
    return m, pp, dict(gamma=gamma, vmb=vmb, vma=vma, f=f, k=k, E=E, b0=b0, w=w, tp=tp, name=names[tp], aspect=aspect)


def sign_claims(ctx, tag, R, g, rcrit_prop, rcrit, unclamped):
    """growth g at radius R against the critical radius"""
    zero = 0.0 * R
    ctx.prove(tag + ": a class boundary above the critical radius grows", ctx.implies(R > rcrit, ctx.lt(zero, g)))
    ctx.prove(tag + ": a class boundary below the (unclamped) critical radius shrinks",
              ctx.implies(ctx.all([unclamped, R < rcrit]), ctx.lt(g, zero)))
    ctx.prove(tag + ": growth vanishes at the (unclamped) critical radius",
              ctx.implies(ctx.all([unclamped, R == rcrit]), ctx.eq(g, zero)))


# ----------------------------------------------------------------------------- C12.rcrit
def rcrit(ctx, shape="sphere", strain=True, arfun=False):
    """nucleationBarrier on the volumetric driving force of volumetricDrivingForce: Rcrit = max(2 f gamma / dGvol, Rmin),
    Gcrit = 4 pi/3 gamma Rcrit^2 (bulk / dislocation); 0 for dGvol <= 0; and the Gibbs-Thomson energy of a particle of
    the (unclamped) critical radius equals the chemical driving force (the link between the two code paths).
    arfun: the aspect ratio is a function of the radius; f is the shape DESCRIPTION's thermodynamic factor at the aspect
    ratio handed to nucleationBarrier (that of the previous critical radius, as _calcNucleationRate does)"""
    m, pp, s = mk_model(ctx, 2, ["A"], shape, strain, arfun=arfun)
    x = ctx.real("x", (0.02, 0.3)); T = ctx.real("T", (500.0, 900.0))
    dgs = ctx.reals("chemDG", 2, (-1.0, 3.0))
    th = object.__new__(BinaryThermodynamics)
    th.phases = ["ALPHA", "P1"]; th.elements = ["M", "A", "VA"]; th.numElements = 2
    calls = []

    def df(xi, Ti, precPhase, removeCache, lpsc):
        calls.append((xi, Ti, precPhase))
        return dgs[len(calls) - 1], ctx.uf("betaComp", Ti, rng=(0.5, 0.9))
    th._drivingForce = df
    if arfun:
        Rprev = ctx.real("RcritPrev", (0.0, 2.0)); ctx.assume(Rprev >= 0)
        ar = pp.shapeFactor.aspectRatio(Rprev)
        fval = s["f"](s["aspect"](Rprev))
    else:
        ar = pp.shapeFactor.aspectRatio(0.0)
        fval = s["f"]
    chem, vol, bcomp = nucfuncs.volumetricDrivingForce(th, np.array([x, x]), np.array([T, T]), pp, ar)
    ctx.observe("volDG", vol)
    R, G = nucfuncs.nucleationBarrier(vol, pp, ar)
    ctx.observe("Rcrit", R); ctx.observe("Gcrit", G)
    ctx.prove("backend queried once per point for the named precipitate", len(calls) == 2 and all(c[2] == "P1" for c in calls))
    # strain energy per unit volume of the constant description (4 pi/3 * prod(normal radii) * E; the product is 3/(4 pi) up to rounding)
    Evol = pp.strainEnergy.compute(pp.shapeFactor.description.normalRadii(ar))
    for i in range(2):
        ctx.prove("chemical driving force handed through", ctx.eq(chem[i], dgs[i]))
        ctx.prove("volumetric driving force = chemical / Vm - strain energy", ctx.eq(vol[i], dgs[i] / s["vmb"] - Evol))
        pos = vol[i] > 0
        den = ctx.ite(pos, vol[i], 1.0 + 0.0 * vol[i])
        prop = 2 * fval * s["gamma"] / den
        ctx.prove("Rcrit = max(2 f gamma / dG, Rmin) for positive driving force" if not arfun else
                  "Rcrit = max(2 f(ar) gamma / dG, Rmin) with f the description's thermodynamic factor at the aspect ratio passed in",
                  ctx.implies(pos, ctx.eq(R[i], ctx.ite(prop >= pp.Rmin, prop, pp.Rmin * 1.0))))
        ctx.prove("Rcrit >= Rmin for positive driving force", ctx.implies(pos, ctx.le(pp.Rmin * 1.0, R[i])))
        ctx.prove("Gcrit = 4 pi/3 gamma Rcrit^2", ctx.implies(pos, ctx.eq(G[i], 4 * np.pi / 3 * s["gamma"] * R[i] * R[i])))
        ctx.prove("no barrier reported for non-positive driving force",
                  ctx.implies(ctx.neg(pos), ctx.all([ctx.eq(R[i], 0.0), ctx.eq(G[i], 0.0)])))
        # link: the Gibbs-Thomson energy of a particle of critical size is the chemical driving force
        if arfun:
            continue     # with a radius-dependent aspect ratio the factor at Rcrit differs from the one used for Rcrit (by design)
        unclamped = ctx.all([pos, prop >= pp.Rmin])
        Rq = ctx.ite(unclamped, R[i], 1.0 + 0.0 * R[i])
        gt = pp.computeGibbsThomsonContribution(Rq)
        ctx.observe("gt%d" % i, gt)
        ctx.prove("Gibbs-Thomson energy at the (unclamped) critical radius equals the chemical driving force",
                  ctx.implies(unclamped, ctx.eq(gt, dgs[i])))


# ----------------------------------------------------------------------------- C12.rcrit_gb
def rcrit_gb(ctx, strain=True, history="gamma"):
    """grain-boundary nucleation site (spherical-cap nucleus; the Clemm-Fisher factors a, b, c are polynomials in
    k = gbEnergy / 2 gamma and 2 (b gamma - a gbEnergy) / 3 c = 2 gamma): the critical radius nucleationBarrier reports
    through NucleationBarrierParameters.Rcrit is 2 gamma / dG -- the radius at which the driving force equals the
    Gibbs-Thomson energy of computeGibbsThomsonContribution -- also after the interfacial energy (or the grain-boundary
    energy) was changed on the same object, whose site factors had already been evaluated for the old value"""
    m, pp, s = mk_model(ctx, 2, ["A"], "sphere", strain)
    gam = s["gamma"]
    ggb = ctx.real("gbEnergy", (0.05, 0.35)); ctx.assume(ggb >= 0); ctx.assume(ggb < 2 * gam)
    pp.nucleation.gbEnergy = ggb
    pp.nucleation.setNucleationType("grain boundaries")
    if history == "gamma":
        g0 = ctx.real("gammaBefore", (0.2, 1.5)); ctx.assume(g0 > 0); ctx.assume(ggb < 2 * g0)
        pp.gamma = g0
    elif history == "gbEnergy":
        e0 = ctx.real("gbEnergyBefore", (0.05, 0.35)); ctx.assume(e0 >= 0); ctx.assume(e0 < 2 * gam)
        pp.nucleation.gbEnergy = e0
    if history != "none":
        v0 = ctx.real("volDGbefore", (0.2, 3.0)); ctx.assume(v0 > 0)
        nucfuncs.nucleationBarrier(v0, pp, 1)          # an earlier evaluation on this object (site factors now cached)
        if history == "gamma":
            pp.gamma = gam                               # PrecipitateParameters.gamma -> validate() -> NucleationBarrierParameters.gamma
        else:
            pp.nucleation.gbEnergy = ggb
    x = ctx.real("x", (0.02, 0.3)); T = ctx.real("T", (500.0, 900.0))
    dg = ctx.real("chemDG", (0.5, 3.0))
    th = object.__new__(BinaryThermodynamics)
    th.phases = ["ALPHA", "P1"]; th.elements = ["M", "A", "VA"]; th.numElements = 2
    th._drivingForce = lambda xi, Ti, precPhase, removeCache, lpsc: (dg, ctx.uf("betaComp", Ti, rng=(0.5, 0.9)))
    ar = pp.shapeFactor.aspectRatio(0.0)
    chem, vol, bcomp = nucfuncs.volumetricDrivingForce(th, x, T, pp, ar)
    vol = vol * 1.0
    ctx.assume(vol > 0, "precipitate can nucleate")
    R, G = nucfuncs.nucleationBarrier(vol, pp, ar)
    R = R * 1.0
    ctx.observe("Rcrit", R); ctx.observe("volDG", vol)
    prop = 2 * gam / vol
    ctx.prove("grain-boundary site: Rcrit = max(2 gamma / dG, Rmin) with the current interfacial energy",
              ctx.eq(R, ctx.ite(prop >= pp.Rmin, prop, pp.Rmin * 1.0)))
    unclamped = prop >= pp.Rmin
    Rq = ctx.ite(unclamped, R, 1.0 + 0.0 * R)
    gt = pp.computeGibbsThomsonContribution(Rq)
    ctx.observe("gt", gt)
    ctx.prove("grain-boundary site: Gibbs-Thomson energy at the (unclamped) critical radius equals the chemical driving force",
              ctx.implies(unclamped, ctx.eq(gt, dg)))


# ----------------------------------------------------------------------------- C12.multi_sign
def multi_sign(ctx, nb=2, shape="sphere", strain=False, ne=2, nph=1):
    """multicomponent: growth rate of every class boundary from the real _singleGrowthMulti (real
    getGrowthAndInterfacialComposition / _growthRateOutputFromCurvature, curvature factors stubbed) has the sign of
    R - Rcrit with Rcrit from the real nucleationBarrier for the same state"""
    els = ["A", "B", "C"][:ne]
    m, pp, s = mk_model(ctx, nb, els, shape, strain, nph=nph)
    tp = s["tp"]
    T = ctx.real("T", (500.0, 900.0))
    x = ctx.reals("x", ne, (0.02, 0.2))
    volDG = ctx.real("volDG", (0.2, 3.0)); ctx.assume(volDG > 0)
    mc = ctx.real("mc", (0.1, 2.0)); ctx.assume(mc > 0)
    dc = ctx.reals("dc", ne, (-0.05, 0.05))
    gba = ctx.reals("gba", (ne, ne), (-1.0, 1.0))
    cea = ctx.reals("c_eq_alpha", ne, (0.01, 0.2)); ceb = ctx.reals("c_eq_beta", ne, (0.2, 0.6))
    th = object.__new__(MulticomponentThermodynamics)
    th.phases = ["ALPHA"] + list(m.phases); th.elements = ["M"] + els + ["VA"]; th.numElements = ne + 1
    seen = []

    def curvatureFactor(xx, TT, precPhase=None, removeCache=False, searchDir=None, computeSearchDir=False):
        seen.append((precPhase,))
        return CurvatureOutput(dc=dc, mc=mc, gba=gba, beta=1.0, c_eq_alpha=cea, c_eq_beta=ceb)
    th.curvatureFactor = curvatureFactor
    m.setThermodynamics(th)
    m.PSDXalpha = [None] * nph; m.PSDXbeta = [None] * nph
    Y = PrecipitationData(m.phases, m.elements, 1)
    Y.composition[0] = x
    Y.temperature[0] = T
    for q in range(tp):
        Y.drivingForce[0, q] = 0.77; Y.precipitateDensity[0, q] = 3.0
    Y.drivingForce[0, tp] = volDG
    Y.precipitateDensity[0, tp] = 1.0
    ar = pp.shapeFactor.aspectRatio(m.pData.Rcrit[m.pData.n, tp])
    Rc, Gc = nucfuncs.nucleationBarrier(volDG, pp, ar)
    g, xEqA, xEqB = m._singleGrowthMulti(tp, Y)
    Rc = Rc * 1.0
    ctx.observe("growth", g); ctx.observe("Rcrit", Rc)
    ctx.prove("one growth rate per class boundary", np.shape(g) == (nb + 1,) and len(seen) == 1 and seen[0][0] == s["name"])
    prop = 2 * s["f"] * s["gamma"] / volDG
    unclamped = prop >= pp.Rmin
    for i in range(nb + 1):
        sign_claims(ctx, "multi", m.PBM[tp].PSDbounds[i], g[i], prop, Rc, unclamped)
    ctx.prove("equilibrium compositions handed through", ctx.all([ctx.eq(xEqA[j], cea[j]) for j in range(ne)] + [ctx.eq(xEqB[j], ceb[j]) for j in range(ne)]))


# ----------------------------------------------------------------------------- C12.binary_sign
def binary_sign(ctx, nb=2, shape="sphere", strain=True, eff=False, sentinel=False, nph=1):
    """binary: growth rate of every class boundary above the last unstable one, from the real _createLookupBinary +
    _singleGrowthBinary, has (a) the sign of x - x_alpha(R_i) and (b), under the stub contract, the sign of R_i - Rcrit"""
    m, pp, s = mk_model(ctx, nb, ["A"], shape, strain, nph=nph)
    tp = s["tp"]
    if eff:
        m.matrixParameters.effectiveDiffusion.setupInterpolation(n=1)
    else:
        m.enableEffectiveDiffusionDistance(False)
    T = ctx.real("T", (500.0, 900.0))
    x = ctx.real("x", (0.05, 0.3)); ctx.assume(x > 0); ctx.assume(x < 1)
    DF = ctx.real("chemDG", (0.5, 4.0))
    D = ctx.real("D", (0.1, 2.0)); ctx.assume(D > 0)
    glim = None
    if sentinel:
        glim = ctx.real("gUnstable", (2.0, 9.0)); ctx.assume(glim > 0, "the planar interface is stable")
    th = object.__new__(BinaryThermodynamics)
    th.phases = ["ALPHA"] + list(m.phases); th.elements = ["M", "A", "VA"]; th.numElements = 2
    answers = []      # (g, x_alpha or None when the sentinel was returned) of the size-class query

    def interfacial(Tq, gExtra, precPhase):
        """stub of the per-temperature backend routine.  Contract (the property's statement about pycalphad):
        x_alpha(T, g) is the composition at which the driving force equals g and the driving force increases with
        composition:  x_alpha(T,g) = x + K(T,g) (g - DF(x,T)) with K > 0; sentinel -1 exactly for g above a limit"""
        ga = np.atleast_1d(gExtra)
        xa = np.zeros(ga.shape); xb = np.zeros(ga.shape)
        rec = []
        for j in range(len(ga)):
            K = ctx.uf("K", Tq, ga[j], rng=(0.01, 0.05)); ctx.assume(K > 0)
            xaj = x + K * (ga[j] - DF)
            xbj = ctx.uf("xbeta", Tq, ga[j], rng=(0.6, 0.9))
            ctx.assume(xaj > 0); ctx.assume(xaj < 1); ctx.assume(xbj > 0)
            ctx.assume(s["vma"] * xbj / s["vmb"] - xaj > 0, "precipitate richer in solute than the matrix (volume corrected)")
            ctx.assume(x < s["vma"] * xbj / s["vmb"], "supersaturation below 1")
            if sentinel and precPhase == s["name"] and bool(ga[j] > glim):
                xa[j] = -1.0; xb[j] = -1.0; rec.append((ga[j], None))
            else:
                xa[j] = xaj; xb[j] = xbj; rec.append((ga[j], xaj))
        if len(ga) == nb + 1 and precPhase == s["name"]:
            answers.append(rec)
        return np.squeeze(xa), np.squeeze(xb)
    th._interfacialComposition = interfacial
    th._interdiffusivitySingle = lambda xi, Ti, removeCache, phase: D
    th._drivingForce = lambda xi, Ti, precPhase, removeCache, lpsc: (DF if precPhase == s["name"] else 0.0 * DF - 1.0, ctx.uf("betaComp", Ti, rng=(0.5, 0.9)))
    m.setThermodynamics(th)
    Y = PrecipitationData(m.phases, m.elements, 1)
    Y.composition[0, 0] = x
    Y.temperature[0] = T
    # nucleation side: volumetric driving force and critical radius for the same state
    ar = pp.shapeFactor.aspectRatio(m.pData.Rcrit[m.pData.n, tp])
    chem, volDG, _ = nucfuncs.volumetricDrivingForce(th, x, T, pp, ar)
    ctx.assume(volDG > 0, "precipitate can nucleate")
    Rc, Gc = nucfuncs.nucleationBarrier(volDG, pp, ar)
    Rc = Rc * 1.0
    # growth side
    m._createLookupBinary(T)
    g = m._singleGrowthBinary(tp, Y)
    ctx.observe("growth", g); ctx.observe("Rcrit", Rc); ctx.observe("idx", float(m.RdrivingForceIndex[tp]))
    ctx.prove("size classes queried once, one growth rate per class boundary", np.shape(g) == (nb + 1,) and len(answers) == 1)
    if len(answers) != 1:
        return
    rec = answers[0]
    stable = [j for j in range(nb + 1) if rec[j][1] is not None]
    if not stable:
        return        # no size class of the grid is stable: outside the claim (see report)
    first = stable[0]
    # the Gibbs-Thomson energy decreases with the radius, so the stub's sentinel pattern is a prefix; a path on which it is
    # not is infeasible (kept out in case the branch-feasibility check timed out on it)
    ctx.assume(stable == list(range(first, nb + 1)), "backend contract: unstable for every larger Gibbs-Thomson energy")
    idx_ref = max(first - 1, 0)
    ctx.prove("classes excluded from growth are those up to the last unstable boundary", int(m.RdrivingForceIndex[tp]) == idx_ref)
    prop = 2 * s["f"] * s["gamma"] / volDG
    unclamped = prop >= pp.Rmin
    zero = 0.0 * x
    for i in range(idx_ref + 1, nb + 1):
        R = m.PBM[tp].PSDbounds[i]
        xal = rec[i][1]
        ctx.prove("binary: Gibbs-Thomson energy handed to the backend is that of the class boundary",
                  ctx.eq(rec[i][0], s["vmb"] * (pp.strainEnergy.compute(pp.shapeFactor.normalRadii(R)) + 2 * s["f"] * s["gamma"] / R)))
        ctx.prove("binary: interfacial composition stored for the class is the backend's answer", ctx.eq(m.PSDXalpha[tp][i, 0], xal))
        ctx.prove("binary: growth has the sign of x - x_alpha(R)",
                  ctx.all([ctx.implies(x > xal, ctx.lt(zero, g[i])), ctx.implies(x < xal, ctx.lt(g[i], zero)),
                           ctx.implies(x == xal, ctx.eq(g[i], zero))]))
        sign_claims(ctx, "binary", R, g[i], prop, Rc, unclamped)


# ----------------------------------------------------------------------------- C12.step_sign
def step_sign(ctx, nb=2, shape="sphere", ne=2):
    """one evaluation of the real PrecipitateBase._calculateDependentTerms on a multicomponent model whose previous state
    (recorded slice, driving force dG_old) differs from the new one (matrix composition changed by the mass balance, the
    backend reports dG_new): the growth rates left in model.growth are those of the driving force computed in THIS call
    and change sign at the critical radius this call stores in the state (real _processX, _calcNucleationRate incl.
    volumetricDrivingForce / nucleationBarrier / betaMulti / zeldovich / incubationTime / nucleationRate /
    nucleationRadius, _growthRate -> _growthRateMulti -> _singleGrowthMulti -> getGrowthAndInterfacialComposition)"""
    els = ["A", "B", "C"][:ne]
    m, pp, s = mk_model(ctx, nb, els, shape, False)
    T = ctx.real("T", (500.0, 900.0)); ctx.assume(T > 0)
    aM = ctx.real("latticeParameter", (0.5, 2.0)); ctx.assume(aM > 0)
    m.matrixParameters.volume.a = aM
    pp.volume.a = aM
    m.setTemperature(T)
    x_old = ctx.reals("x_old", ne, (0.02, 0.2)); x_new = ctx.reals("x_new", ne, (0.02, 0.2))
    dg_old = ctx.real("volDG_old", (0.2, 3.0)); chem_new = ctx.real("chemDG_new", (0.2, 6.0))
    rc_old = ctx.real("Rcrit_old", (0.2, 3.0)); ctx.assume(rc_old >= 0)
    mc = ctx.real("mc", (0.1, 2.0)); ctx.assume(mc > 0)
    beta = ctx.real("beta", (0.1, 2.0)); ctx.assume(beta > 0)
    sites = ctx.real("sites", (1.0, 5.0)); ctx.assume(sites >= 0)
    dc = ctx.reals("dc", ne, (-0.05, 0.05)); gba = ctx.reals("gba", (ne, ne), (-1.0, 1.0))
    cea = ctx.reals("c_eq_alpha", ne, (0.01, 0.2)); ceb = ctx.reals("c_eq_beta", ne, (0.2, 0.6))
    t = ctx.real("t", (1.0, 5.0)); ctx.assume(t > 0)
    th = object.__new__(MulticomponentThermodynamics)
    th.phases = ["ALPHA"] + list(m.phases); th.elements = ["M"] + els + ["VA"]; th.numElements = ne + 1
    asked = []
    th.curvatureFactor = lambda xx, TT, precPhase=None, removeCache=False, searchDir=None, computeSearchDir=False: \
        CurvatureOutput(dc=dc, mc=mc, gba=gba, beta=beta, c_eq_alpha=cea, c_eq_beta=ceb)

    def df(xi, Ti, precPhase, removeCache, lpsc):
        asked.append([xi[j] * 1 for j in range(ne)])
        return chem_new, np.array([ctx.uf("betaComp%d" % j, Ti, rng=(0.3, 0.6)) for j in range(ne)])
    th._drivingForce = df
    m.setThermodynamics(th)
    m.PSDXalpha = [None]; m.PSDXbeta = [None]
    # recorded previous state
    d = m.pData
    d.time[0] = 0.0; d.temperature[0] = T
    d.composition[0] = x_old
    d.drivingForce[0, 0] = dg_old; d.Rcrit[0, 0] = rc_old
    d.precipitateDensity[0, 0] = 1.0
    m._currY = d.copySlice(d.n)                      # as left by the first stage of the iteration
    # mass balance and site count are not the subject: the new state has another matrix composition
    def massBalance(tt, xx, Y):
        Y.composition[0] = x_new
        Y.precipitateDensity[0, 0] = 1.0
        return Y
    m._calcMassBalance = massBalance
    m._calcNucleationSites = lambda tt, xx, p: sites
    psd = ctx.reals("psd", nb, (0.0, 5.0))
    for i in range(nb):
        ctx.assume(psd[i] >= 0)
    vol_new = chem_new / s["vmb"]
    ctx.assume(vol_new > 0, "precipitate can nucleate in the new state")
    m._calculateDependentTerms(t, [psd])
    Y = m._currY
    g = m.growth[0]
    ctx.observe("growth", g); ctx.observe("Rcrit", Y.Rcrit[0, 0]); ctx.observe("dG", Y.drivingForce[0, 0])
    ctx.prove("backend asked for the driving force at the new matrix composition", len(asked) == 1 and ctx.all([ctx.eq(asked[0][j], x_new[j]) for j in range(ne)]))
    ctx.prove("state carries the driving force computed in this call", ctx.eq(Y.drivingForce[0, 0], vol_new))
    prop = 2 * s["f"] * s["gamma"] / vol_new
    unclamped = prop >= pp.Rmin
    ctx.prove("state carries the critical radius of this call's driving force", ctx.eq(Y.Rcrit[0, 0], ctx.ite(unclamped, prop, pp.Rmin * 1.0)))
    for i in range(nb + 1):
        R = m.PBM[0].PSDbounds[i]
        ctx.prove("step: growth law evaluated with the driving force computed in this call",
                  ctx.eq(g[i], s["k"] * (mc / R) * (vol_new * s["vmb"] - s["vmb"] * (2 * s["f"] * s["gamma"] / R))))
        sign_claims(ctx, "step", R, g[i], prop, Y.Rcrit[0, 0], unclamped)


# ----------------------------------------------------------------------------- C12.ifc_curvature
def ifc_curvature(ctx, reverse=False, n=2):
    """curvature method for the binary interfacial composition (real getInterfacialComposition ->
    _interfacialCompositionFromCurvature) for both alphabetical orders of reference element and solute: at g = 0 the
    planar solvus (the SOLUTE's mole fractions of the two composition sets) is returned, the matrix composition x(g)
    satisfies (x - x_eq) G'' (x_prec - x_eq) = g -- the second-order form of 'driving force at x(g) equals g' -- and rises
    with g"""
    els = ["NI", "AL"] if reverse else ["AL", "ZR"]            # reference element first; pycalphad lists compositions alphabetically
    th = object.__new__(BinaryThermodynamics)
    th.phases = ["ALPHA", "P1"]; th.elements = els + ["VA"]; th.numElements = 2
    th.reverse = th.elements[1] < th.elements[0]
    th.db = None; th.models = {"ALPHA": "model-alpha", "P1": "model-p1"}; th.phase_records = _c09._PR(); th.pDens = 500
    th._guessComposition = {"P1": (0, 1, 0.1)}
    th.setInterfacialMethod("curvature")
    T = ctx.real("T", (500.0, 1200.0))
    g = ctx.reals("g", n, (0.0, 30.0))
    for i in range(n):
        ctx.assume(g[i] >= 0)
    xm = ctx.real("xMeq", (0.01, 0.1)); xp = ctx.real("xPeq", (0.2, 0.3))
    ctx.assume(xm > 0); ctx.assume(xp < 1); ctx.assume(xp > xm)
    cm = ctx.real("d2G_matrix", (1e3, 1e4)); cp = ctx.real("d2G_precip", (1e3, 1e4))
    ctx.assume(cm > 0); ctx.assume(cp > 0)
    order = sorted(els)
    comp = lambda xs: [xs if e == els[1] else 1 - xs for e in order]      # alphabetical, as pycalphad's CompositionSet.X

    class Workspace:
        def __init__(self, db, elements, phases, cond, models=None, phase_record_factory=None, calc_opts=None):
            self.eq = type("EQ", (), {})()
            self.eq.MU = np.array([[ctx.uf("mu0", cond[_c09.v.T], rng=(-3.0, -1.0)), ctx.uf("mu1", cond[_c09.v.T], rng=(-3.0, -1.0))]])

        def enumerate_composition_sets(self):
            yield (0, 0, 0, 0, 0), [_c09._CS("ALPHA", comp(xm)), _c09._CS("P1", comp(xp))]
    curv = lambda mu, cs, ref: np.array([[cm if cs.phase_record.phase_name == "ALPHA" else cp]])
    with _c09.patched(_c09._BT, "Workspace", Workspace), _c09.patched(_c09._BT, "dMudX", curv):
        xa0, xb0 = th.getInterfacialComposition(T, 0, precPhase="P1")
        xa, xb = th.getInterfacialComposition(T, g, precPhase="P1")
    xa = np.atleast_1d(xa); xb = np.atleast_1d(xb)
    ctx.observe("xa0", xa0 * 1.0); ctx.observe("xa", xa); ctx.observe("xb", xb)
    ctx.prove("curvature method: g = 0 gives the planar solvus, i.e. the solute's mole fractions of matrix and precipitate",
              ctx.all([ctx.eq(xa0 * 1.0, xm), ctx.eq(xb0 * 1.0, xp)]))
    zero = 0.0 * xm
    for i in range(n):
        inside = ctx.all([xa[i] > 0, xa[i] < 1])
        ctx.prove("curvature method: (x(g) - x_eq) G'' (x_prec - x_eq) = g for the solute (unclipped)",
                  ctx.implies(inside, ctx.eq((xa[i] - xm) * cm * (xp - xm), g[i])))
        ctx.prove("curvature method: matrix composition does not fall below the planar solvus", ctx.le(xm, xa[i]))
        for j in range(n):
            if j != i:
                ctx.prove("curvature method: matrix composition rises with the Gibbs-Thomson energy", ctx.implies(g[i] <= g[j], ctx.le(xa[i], xa[j])))


_F_COMMON = [nucfuncs.nucleationBarrier, nucfuncs.volumetricDrivingForce, PrecipitateParameters.computeGibbsThomsonContribution,
             PrecipitateParameters.computeStrainEnergyFromR, ShapeFactor.thermoFactor, ShapeFactor.kineticFactor,
             ShapeDescriptionBase.thermoFactor, ShapeDescriptionBase.kineticFactor, GeneralThermodynamics.getDrivingForce]
_F_MULTI = [PrecipitateModel._singleGrowthMulti, MulticomponentThermodynamics.getGrowthAndInterfacialComposition,
            _growthRateOutputFromCurvature, PrecipitateModel.particleGibbs]
_F_BIN = [PrecipitateModel._createLookupBinary, PrecipitateModel._singleGrowthBinary, BinaryThermodynamics.getInterfacialComposition,
          GeneralThermodynamics.getInterdiffusivity]
_A = ["gamma, molar volumes, thermodynamic / kinetic shape factors > 0; Rmin >= 0; size-class boundaries b0 + i*w, b0 > 0, w > 0",
      "constant aspect ratio (sphere, or a user shape description with symbolic thermo / kinetic factor at aspect ratio 2); C12.rcrit also with a "
      "radius-dependent aspect ratio ar(R) = c + k R (c > 1, k > 0) and shape factors that are uninterpreted positive functions of the aspect ratio",
      "elastic strain energy: constant description, symbolic >= 0 where stated",
      "'below Rcrit shrinks' is claimed when 2 f gamma / dG >= Rmin (otherwise nucleationBarrier reports Rmin, not the root)"]
_S_MULTI = ["MulticomponentThermodynamics.curvatureFactor: arbitrary CurvatureOutput with mc > 0 (pycalphad equilibrium + mobility)"]
_S_BIN = ["BinaryThermodynamics._interfacialComposition (per-temperature pycalphad routine): x_alpha(T,g) = x + K(T,g)(g - DF(x,T)), K > 0 "
          "uninterpreted, i.e. the composition at which a driving force increasing in x equals g; sentinel -1 above a symbolic limit of g",
          "_interdiffusivitySingle: D > 0; _drivingForce: symbolic value DF(x,T)"]

HARNESSES = [
    Harness("C12.rcrit", rcrit, functions=_F_COMMON, assumptions=_A, stubs=["_drivingForce (per-point pycalphad routine): arbitrary values"],
            bounds={"points": 2},
            params={"quick": [{"shape": "sphere", "strain": True}, {"shape": "needle", "strain": True}, {"shape": "plate", "strain": False},
                              {"shape": "needle", "strain": False, "arfun": True}, {"shape": "plate", "strain": True, "arfun": True}],
                    "thorough": [{"shape": sh, "strain": st} for sh in ("sphere", "needle", "plate") for st in (False, True)] +
                                [{"shape": sh, "strain": st, "arfun": True} for sh in ("needle", "plate") for st in (False, True)]}),
    Harness("C12.rcrit_gb", rcrit_gb, functions=_F_COMMON + [NucleationBarrierParameters.Rcrit, NucleationBarrierParameters.setNucleationType,
                                                              GrainBoundaryDescription._areaFactor, GrainBoundaryDescription._volumeFactor, GrainBoundaryDescription._gbRemoval,
                                                              PrecipitateParameters.validate],
            assumptions=_A + ["grain-boundary site, spherical shape factor, 0 <= gbEnergy < 2 gamma (k < 1) for every interfacial energy used; volumetric driving force > 0",
                              "pi is an opaque symbolic constant (3.1415926 < pi < 3.1415927), so that 2*pi/3*3 = 2*pi holds exactly as in the derivation"],
            stubs=["_drivingForce (per-point pycalphad routine): arbitrary value"], opts={"symbolic_pi": True, "ob_timeout": 40.0},
            bounds={"history": "site factors evaluated once before the interfacial / grain-boundary energy was changed on the same object (or no history)"},
            params={"quick": [{"strain": True, "history": "gamma"}, {"strain": False, "history": "gbEnergy"}, {"strain": False, "history": "none"}],
                    "thorough": [{"strain": st, "history": h} for st in (False, True) for h in ("gamma", "gbEnergy", "none")]}),
    Harness("C12.multi_sign", multi_sign, functions=_F_COMMON + _F_MULTI, assumptions=_A + ["volumetric driving force > 0; no elastic strain energy"],
            stubs=_S_MULTI, bounds={"classes": "nb", "solutes": "ne", "phases": "nph (the last one analysed)"},
            params={"quick": [{"nb": 2, "shape": "sphere", "ne": 2}, {"nb": 2, "shape": "needle", "ne": 2, "nph": 2}, {"nb": 3, "shape": "plate", "ne": 3}],
                    "thorough": [{"nb": 5, "shape": sh, "ne": ne, "nph": 1 + (ne == 3)} for sh in ("sphere", "needle", "plate") for ne in (2, 3)] + [{"nb": 3, "shape": "needle", "ne": 2, "nph": 3}]}),
    Harness("C12.multi_sign_strain", multi_sign, functions=_F_COMMON + _F_MULTI, assumptions=_A + ["volumetric driving force > 0; constant elastic strain energy >= 0"],
            stubs=_S_MULTI, bounds={"classes": "nb", "solutes": "ne", "phases": 1},
            params={"quick": [{"nb": 2, "shape": "sphere", "ne": 2, "strain": True}],
                    "thorough": [{"nb": 3, "shape": "needle", "ne": 2, "strain": True}]}),
    Harness("C12.binary_sign", binary_sign, functions=_F_COMMON + _F_BIN, assumptions=_A + [
        "volumetric driving force > 0; D > 0; VmAlpha/VmBeta x_beta > x_alpha and supersaturation < 1 for every class",
        "claims are made for class boundaries above RdrivingForceIndex (classes at or below it are emptied by _processX)"],
            stubs=_S_BIN, bounds={"classes": "nb", "phases": "nph (the last one analysed)"},
            params={"quick": [{"nb": 2, "shape": "sphere", "strain": True, "eff": False, "sentinel": False},
                              {"nb": 2, "shape": "needle", "strain": True, "eff": False, "sentinel": True, "nph": 2},
                              {"nb": 2, "shape": "sphere", "strain": False, "eff": True, "sentinel": False}],
                    "thorough": [{"nb": 4, "shape": sh, "strain": True, "eff": False, "sentinel": se, "nph": 1 + (sh == "plate")} for sh in ("sphere", "plate") for se in (False, True)] +
                                [{"nb": 3, "shape": "sphere", "strain": False, "eff": True, "sentinel": False}] +
                                [{"nb": 2, "shape": "needle", "strain": True, "eff": True, "sentinel": True, "nph": 2}]}),
    Harness("C12.step_sign", step_sign,
            functions=_F_COMMON + _F_MULTI + [PrecipitateBase._calculateDependentTerms, PrecipitateBase._calcNucleationRate, PrecipitateModel._processX, PrecipitateModel._growthRateMulti,
                                              nucfuncs.betaMulti, nucfuncs.zeldovich, nucfuncs.incubationTime, nucfuncs.nucleationRate, nucfuncs.nucleationRadius,
                                              MulticomponentThermodynamics.impingementFactor],
            assumptions=_A + ["previous recorded state arbitrary (driving force, critical radius, composition); new state: chemical driving force > 0, no elastic strain energy, isothermal",
                              "the evaluation is a later stage of an iteration (model._currY set), i.e. the branch that recomputes the dependent terms"],
            stubs=_S_MULTI + ["_drivingForce: symbolic new chemical driving force", "_calcMassBalance (C01) replaced: new matrix composition; _calcNucleationSites: symbolic site count"],
            bounds={"classes": "nb", "solutes": "ne", "phases": 1}, opts={"ob_timeout": 40.0},
            params={"quick": [{"nb": 2, "shape": "sphere", "ne": 2}], "thorough": [{"nb": 3, "shape": "needle", "ne": 2}, {"nb": 3, "shape": "sphere", "ne": 3}]}),
    Harness("C12.ifc_curvature", ifc_curvature,
            functions=[BinaryThermodynamics.getInterfacialComposition, BinaryThermodynamics._interfacialCompositionFromCurvature, BinaryThermodynamics.setInterfacialMethod],
            assumptions=["free-energy curvatures > 0; 0 < x_eq(matrix) < x_eq(precipitate) < 1 (solute); g >= 0",
                         "composition sets list mole fractions alphabetically (pycalphad); both orders of reference element / solute"],
            stubs=["pycalphad.Workspace: one matrix + precipitate pair with symbolic solute contents; dMudX: symbolic curvatures"], bounds={"Gibbs-Thomson energies": "n"},
            params={"quick": [{"reverse": False, "n": 2}, {"reverse": True, "n": 2}], "thorough": [{"reverse": False, "n": 3}, {"reverse": True, "n": 3}]}),
    # the driving force that the phase-boundary / critical-radius relations are about is the one of the QUERIED temperature: the real
    # sampling path (body shared with C09.sampling_history) after an earlier query at another, arbitrarily close temperature
    Harness("C12.df_sampling_temperature", _c09.sampling_history,
            functions=[GeneralThermodynamics.getDrivingForce, GeneralThermodynamics._getDrivingForceSampling, GeneralThermodynamics._getPrecCompositionSetSamplingDF],
            assumptions=["T1 != T2 symbolic, arbitrarily close; sampled precipitate free energies are arbitrary functions of the sampling temperature"],
            stubs=["pycalphad calculate / CompositionSet / matrix local equilibrium: uninterpreted functions (see C09.sampling_history)"],
            bounds={"sample points": "npts", "queries": 2},
            params={"quick": [{"npts": 2, "keep": True}, {"npts": 2, "keep": True, "ordered": True}],
                    "thorough": [{"npts": 3, "keep": True}, {"npts": 3, "keep": True, "ordered": True}, {"npts": 2, "keep": False}]}),
]
