"""shared construction of a real PrecipitateModel (no thermodynamics attached) in an arbitrary symbolic state"""
import numpy as np
from kawin.precipitation.KWNEuler import PrecipitateModel
from kawin.precipitation.PopulationBalance import PopulationBalanceModel as PBM
from kawin.precipitation.PrecipitationParameters import PrecipitationData

EL = ["A", "B", "C"]
PH = ["P1", "P2", "P3"]


def mk_grid(ctx, pbm, n, tag):
    b0 = ctx.real(tag + "min", (0.5, 1.0)); w = ctx.real(tag + "w", (0.1, 0.5))
    ctx.assume(b0 > 0); ctx.assume(w > 0)
    pbm.min = b0; pbm.max = b0 + n * w; pbm.bins = n
    pbm.reset(False)
    return b0, w


def mk_kwn(ctx, nph=1, nel=1, ncls=2, hist=1, infinite=True, vm_sym=True):
    """real PrecipitateModel with `nph` phases, `nel` solutes, `ncls` size classes per phase; every numeric state entry
    the mass balance / statistics read is symbolic.  Returns (model, info dict)."""
    m = PrecipitateModel(phases=PH[:nph], elements=EL[:nel])
    info = {"b0": [], "w": [], "vf": [], "ratio": [], "xbeta": [], "psd_prev": []}
    vma = ctx.real("VmAlpha", (0.8, 1.2)); ctx.assume(vma > 0)
    m.matrixParameters.volume.Vm = vma
    m.matrixParameters.volume.a = 1.0
    info["VmAlpha"] = vma
    m.PSDXalpha, m.PSDXbeta = [], []
    for p in range(nph):
        pbm = PBM(1e-10, 1e-9, ncls, 1, 10 * ncls)
        b0, w = mk_grid(ctx, pbm, ncls, "p%d_" % p)
        prev = ctx.reals("p%d_PSDprev" % p, ncls, (0.0, 3.0))
        for i in range(ncls):
            ctx.assume(prev[i] >= 0)
        pbm.PSD = prev
        m.PBM[p] = pbm
        pp = m.precipitateParameters[p]
        vmb = ctx.real("p%d_VmBeta" % p, (0.8, 1.2)); ctx.assume(vmb > 0)
        pp.volume.Vm = vmb
        vf = ctx.real("p%d_volumeFactor" % p, (0.5, 4.5)); ctx.assume(vf > 0)
        pp.nucleation._gamma = 0.1
        pp.nucleation._volumeFactor = vf        # cached factor: covers bulk and grain-boundary shaped nuclei without trigonometry
        pp.nucleation._areaFactor = ctx.real("p%d_areaFactor" % p, (1.0, 13.0))
        pp.nucleation._GBk = 0.0
        pp.infinitePrecipitateDiffusion = infinite
        xb = ctx.reals("p%d_Xbeta" % p, (ncls + 1, nel), (0.1, 0.9))
        m.PSDXbeta.append(xb)
        m.PSDXalpha.append(ctx.reals("p%d_Xalpha" % p, (ncls + 1, nel), (0.01, 0.2)))
        info["b0"].append(b0); info["w"].append(w); info["vf"].append(vf); info["ratio"].append(vma / vmb)
        info["xbeta"].append(xb); info["psd_prev"].append(prev)
    m.eqAspectRatio = [np.ones(ncls + 1) for _ in range(nph)]
    # recorded history: `hist` steps, symbolic where the analysed code reads it
    d = PrecipitationData(m.phases, m.elements, hist)
    d.time = ctx.reals("time", hist, (0.0, 1.0)) if hist > 1 else d.time
    x0 = ctx.reals("x_alloy", nel, (0.05, 0.3))
    comp = ctx.reals("comp_hist", (hist, nel), (0.01, 0.3))
    for e in range(nel):
        comp[0, e] = x0[e]
    d.composition = comp
    d.fconc = ctx.reals("fconc_hist", (hist, nph, nel), (0.0, 0.05))
    d.volFrac = ctx.reals("volFrac_hist", (hist, nph), (0.0, 0.2))
    for k in range(hist):
        for p in range(nph):
            ctx.assume(d.volFrac[k, p] >= 0); ctx.assume(d.volFrac[k, p] < 1)
    d.n = hist - 1
    m.pData = d
    info["x0"] = x0
    mnd = ctx.real("minNucleateDensity", (1e-3, 1e-2)); ctx.assume(mnd > 0)
    m.constraints.minNucleateDensity = mnd
    mc = ctx.real("minComposition", (1e-6, 1e-4)); ctx.assume(mc >= 0)
    m.constraints.minComposition = mc
    info["minDens"] = mnd; info["minComp"] = mc
    return m, info


def radii(info, p, ncls):
    return [info["b0"][p] + (i + 0.5) * info["w"][p] for i in range(ncls)]
