"""C15 -- precipitate shape factors match the geometry they describe (the algebraic / structural clauses).

Decided here (real ShapeDescription*/ShapeFactor code on symbolic aspect ratios and radii):
  purity      caller's aspect-ratio array unchanged, values < 1 behave as 1, scalar and array calls agree
  radii       unit volume and requested aspect ratio of the three semi-axes (cbrt is exact)
  unit        sphere/needle/plate factors are exactly 1 for aspect ratio <= 1; sphere factors are 1 everywhere
  eqradius    equivalent-radius factor: 1 at 1, strictly increasing, squeezed between 1 and ar (needle, plate)
  continuity  every closed-form algebraic factor is continuous at 1: |f(a) - f(1)| <= L (a - 1) + rounding
  via_radius  ShapeFactor.<factor>(R) = description.<factor>(aspect(R)) for constant and R-dependent aspect ratios
  rcrit_*     _findRcritScalar / _findRcrit: one bisection iteration (loop lifted from the current source by ast)
              keeps a sign-change bracket and halves it; exit through the tolerance test returns a root to tolerance;
              bounded end-to-end runs of the real function
Outside (transcendental, needs quadrature): spheroid area / capacitance identities, monotonicity and the limit
ar -> 1+ of the needle/plate kinetic and thermodynamic factors, the cuboidal kinetic fit.
"""
import ast, inspect, textwrap
import numpy as np
from vk.run import Harness
from vk import core
import kawin.precipitation.parameters.ShapeFactors as SFmod
from kawin.precipitation.parameters.ShapeFactors import (ShapeDescriptionBase, SphereDescription, NeedleDescription,
                                                         PlateDescription, CuboidalDescription, ShapeFactor)

DESC = {"sphere": SphereDescription, "needle": NeedleDescription, "plate": PlateDescription, "cubic": CuboidalDescription}
FACTORS = ("eqRadiusFactor", "kineticFactor", "thermoFactor")
PI = 3.141592653589793


def _clamp(ctx, x):
    # the same term the code builds (ite(x < 1, 1, x)), so that uninterpreted functions are applied to identical arguments
    return ctx.ite(x < 1, 1, x)


def _obs(ctx, name, v):
    """observe; 0-d arrays (np.squeeze of a single value on plain numpy) as scalars"""
    if isinstance(v, np.ndarray) and v.ndim == 0:
        v = v[()]
    ctx.observe(name, v)


def _is1(ctx, v):
    """v == 1 exactly; plain numbers (also NaN, which real code may produce from 0/0 on constants) are compared in Python"""
    if isinstance(v, np.ndarray) and v.ndim == 0:
        v = v[()]
    if core.is_sym(v):
        return ctx.eq(v, 1.0, rtol=0.0)
    return bool(float(v) == 1.0)


def _flat(v):
    """result of a factor call -> python list of scalars (row-major)"""
    if isinstance(v, np.ndarray):
        return [v[idx] for idx in np.ndindex(*v.shape)]
    return [v]


# ------------------------------------------------------------------------------------------------ purity

def purity(ctx, shape="needle", fn="thermoFactor", n=2):
    """the array handed in is unchanged; entries < 1 give what 1 gives; scalar calls agree with the array call element by element
    (arrays of length >= 3 can mix entries <= 1 with several distinct entries > 1)"""
    d = DESC[shape]()
    ar = ctx.reals("ar", n, (0.2, 4.0))
    before = [ar[i] * 1 for i in range(n)]
    elems = [ar[i] for i in range(n)]          # the element values themselves (immutable scalars)
    out = getattr(d, fn)(ar)
    _obs(ctx, "out", out)
    ctx.prove("caller's aspect-ratio array is not modified", ctx.all([ctx.eq(ar[i], before[i], rtol=0.0) for i in range(n)]))
    want_shape = (n, 3) if fn == "normalRadii" else (n,)
    ctx.prove("array call returns one entry (row) per aspect ratio", np.shape(out) == want_shape)
    if np.shape(out) != want_shape:
        return
    # entries below 1 are treated as 1: same result as for the clamped array
    # (the clamped array is built by case distinction, so that on every path the code sees either the entry itself or the constant 1)
    cl = np.array([(1.0 if (elems[i] < 1) else elems[i]) for i in range(n)])
    out_cl = getattr(d, fn)(cl)
    ctx.prove("aspect ratios below 1 are treated as 1", ctx.all([ctx.eq(a, b) for a, b in zip(_flat(out), _flat(out_cl))]))
    # scalar calls
    for i in range(n):
        s = getattr(d, fn)(elems[i])
        _obs(ctx, "scalar%d" % i, s)
        ctx.prove("scalar call returns a scalar (a 3-vector for normalRadii)", np.shape(s) == ((3,) if fn == "normalRadii" else ()))
        row = _flat(out[i])
        ctx.prove("scalar and array calls agree", ctx.all([ctx.eq(a, b) for a, b in zip(_flat(s), row)]) if len(_flat(s)) == len(row) else False)
    # reversed order of the entries: every entry keeps its own factor (position independence)
    rev = np.array([elems[n - 1 - i] for i in range(n)])
    out_rev = getattr(d, fn)(rev)
    if np.shape(out_rev) == want_shape:
        ctx.prove("factor of an entry does not depend on its position in the array",
                  ctx.all([ctx.eq(a, b) for i in range(n) for a, b in zip(_flat(out[i]), _flat(out_rev[n - 1 - i]))]))
    ctx.prove("caller's aspect-ratio array is not modified (after scalar calls)", ctx.all([ctx.eq(ar[i], before[i], rtol=0.0) for i in range(n)]))


# ------------------------------------------------------------------------------------------------ semi-axes

def radii(ctx, shape="needle", arr=False):
    """three semi-axes for unit volume: product * 4 pi / 3 = 1 (cuboid: edge product = 1) and long/short = aspect ratio"""
    d = DESC[shape]()
    a = ctx.real("ar", (0.3, 30.0))
    ctx.assume(a <= 100)
    ac = _clamp(ctx, a)
    if arr:
        r = d.normalRadii(np.array([a, a + 1]))
        _obs(ctx, "radii", r)
        ctx.prove("normalRadii returns n x 3", np.shape(r) == (2, 3))
        r = r[0]
    else:
        r = d.normalRadii(a)
        _obs(ctx, "radii", r)
        ctx.prove("normalRadii returns 3 values", np.shape(r) == (3,))
    if np.shape(r) != (3,):
        return
    vol = r[0] * r[1] * r[2] * (1.0 if shape == "cubic" else 4 * PI / 3)
    tol = 1e-9
    ctx.prove("semi-axes multiply to unit volume", ctx.all([ctx.le(vol, 1 + tol), ctx.le(1 - tol, vol)]))
    ctx.prove("semi-axes are positive", ctx.all([ctx.lt(0.0 * a, r[k]) for k in range(3)]))
    if shape in ("needle", "cubic"):
        ctx.prove("two short axes equal, long/short = aspect ratio", ctx.all([ctx.eq(r[0], r[1]), ctx.eq(r[2], ac * r[0])]))
    elif shape == "plate":
        ctx.prove("two long axes equal, long/short = aspect ratio", ctx.all([ctx.eq(r[0], r[1]), ctx.eq(r[0], ac * r[2])]))
    else:
        ctx.prove("sphere: three equal radii", ctx.all([ctx.eq(r[0], r[1]), ctx.eq(r[1], r[2])]))


# ------------------------------------------------------------------------------------------------ value at 1

def unit(ctx, shape="needle", fn="thermoFactor"):
    """needle / plate / sphere: the factor is exactly 1 at aspect ratio 1 (and for inputs below 1); sphere: 1 for every ratio"""
    d = DESC[shape]()
    a = ctx.real("ar", (0.2, 3.0))
    f1 = getattr(d, fn)(1.0)
    ctx.prove("factor equals 1 at aspect ratio 1", _is1(ctx, f1))
    fa = getattr(d, fn)(a)
    _obs(ctx, "f", fa)
    ctx.prove("factor equals 1 for inputs <= 1", ctx.implies(a <= 1, _is1(ctx, fa)))
    if shape == "sphere":
        ctx.prove("sphere factor is 1 for every aspect ratio", _is1(ctx, fa))
    v = getattr(d, fn)(np.array([a, 1.0, 0.5 * a]))
    ctx.prove("array call: entries with ratio <= 1 are 1", ctx.all([_is1(ctx, v[1]), ctx.implies(a <= 1, _is1(ctx, v[0])), ctx.implies(a <= 2, _is1(ctx, v[2]))]))


def eqradius(ctx, shape="needle"):
    """equivalent-radius factor of needle and plate: 1 at 1, strictly increasing with the aspect ratio, 1 <= f(a) <= a"""
    d = DESC[shape]()
    a = ctx.real("a", (1.0, 20.0)); b = ctx.real("b", (1.0, 20.0))
    ctx.assume(a >= 1); ctx.assume(b > a); ctx.assume(b <= 100)
    fa = d.eqRadiusFactor(a); fb = d.eqRadiusFactor(b)
    _obs(ctx, "fa", fa); _obs(ctx, "fb", fb)
    ctx.prove("eq. radius factor increases with aspect ratio", ctx.lt(fa, fb))
    ctx.prove("eq. radius factor between 1 and the aspect ratio (continuity at 1)", ctx.all([ctx.le(1.0 + 0.0 * a, fa), ctx.le(fa, a)]))
    ctx.prove("eq. radius factor > 1 above aspect ratio 1", ctx.lt(1.0 + 0.0 * b, fb))
    # the volume meaning: a spheroid with short semi-axis 1 (needle: 1,1,a / plate: a,a,1) has the volume of the sphere of radius f
    vol = fa * fa * fa
    ctx.prove("eq. radius factor cubed = volume ratio of the spheroid with unit short axis", ctx.eq(vol, a if shape == "needle" else a * a))


def continuity(ctx, shape="cubic", fn="eqRadiusFactor", L=1.0):
    """closed-form algebraic factors: f is continuous at aspect ratio 1 with |f(a) - f(1)| <= L (a - 1) + 1e-9 on (1, 2],
    where f(1) is what the public method returns at 1 (the 'Min' value used for all inputs <= 1)"""
    d = DESC[shape]()
    a = ctx.real("a", (1.0, 2.0))
    ctx.assume(a > 1); ctx.assume(a <= 2)
    f1 = getattr(d, fn)(1.0)
    fa = getattr(d, fn)(a)
    _obs(ctx, "f1", f1); _obs(ctx, "fa", fa)
    bound = L * (a - 1) + 1e-9
    ctx.prove("value at 1 equals the limit of the ar>1 formula: |f(a)-f(1)| <= L(a-1)+1e-9", ctx.all([ctx.le(fa - f1, bound, rtol=0.0), ctx.le(f1 - fa, bound, rtol=0.0)]))
    f0 = getattr(d, fn)(0.5 * a)
    ctx.prove("inputs below 1 give the value at 1", ctx.all([ctx.le(f0 - f1, 1e-9, rtol=0.0), ctx.le(f1 - f0, 1e-9, rtol=0.0)]))


def cub_kinetic(ctx, L=4.0, amax=1.5):
    """cuboidal kinetic factor f(a) = 0.1 exp(-0.091 (a-1)) + 1.736 s / (cbrt(a) log X),  s = sqrt(a^2-1),  X = 2a^2 + 2a s - 1:
    the value returned at aspect ratio 1 equals the limit of the formula for a -> 1+, in the form |f(a) - f(1)| <= L (a-1) + 1e-9 on
    (1, amax].  log is uninterpreted; two ground instances of true bounds are supplied for the argument the code uses (t = X - 1 >= 0):
        2t/(2+t) <= log(1+t) <= t(2+t)/(2(1+t))
    (the differences to log(1+t) have the derivatives t^2/((1+t)(2+t)^2) >= 0 and t^2/(2(1+t)^2) >= 0 and vanish at 0).
    The proof is cut into lemmas about the terms the real code built; a lemma is used as a hypothesis only after it was posed as an
    obligation itself (so an undischarged lemma shows up as inconclusive, never as success)."""
    d = DESC["cubic"]()
    a = ctx.real("a", (1.0, amax))
    ctx.assume(a > 1); ctx.assume(a <= amax)
    f1 = d.kineticFactor(1.0)
    fa = d.kineticFactor(a)
    _obs(ctx, "f1", f1); _obs(ctx, "fa", fa)
    f0 = d.kineticFactor(0.5 * a)
    ctx.prove("inputs below 1 give the value at 1", ctx.all([ctx.le(f0 - f1, 1e-9, rtol=0.0), ctx.le(f1 - f0, 1e-9, rtol=0.0)]))
    bound = L * (a - 1) + 1e-9
    final = ctx.all([ctx.le(fa - f1, bound, rtol=0.0), ctx.le(f1 - fa, bound, rtol=0.0)])
    if ctx.mode == "symbolic":
        ac = _clamp(ctx, a)
        sq = np.sqrt(ac**2 - 1); c = np.cbrt(ac)
        X = 2 * ac**2 + 2 * ac * sq - 1
        lg = np.log(X); E = np.exp(-0.091 * (ac - 1))
        t = X - 1; u = ac + sq
        q = fa - 0.1 * E

        def lemma(name, cond):
            ctx.prove("lemma: " + name, cond)
            ctx.assume(cond, name)
        ctx.assume(ctx.all([lg * (2 + t) >= 2 * t, 2 * lg * (1 + t) <= t * (2 + t)]), "2t/(2+t) <= log(1+t) <= t(2+t)/(2(1+t)), t >= 0")
        lemma("s = sqrt(a^2-1) > 0, X - 1 = 2 s (a + s), X = (a + s)^2", ctx.all([sq > 0, ctx.eq(sq * sq, ac * ac - 1), ctx.eq(t, 2 * sq * u), ctx.eq(X, u * u)]))
        lemma("1 <= cbrt(a) <= a", ctx.all([c >= 1, c <= ac]))
        lemma("1 - 0.091 (a-1) <= exp(-0.091 (a-1)) < 1", ctx.all([E < 1, E >= 1 - 0.091 * (ac - 1)]))
        lemma("log X > 0", lg > 0)
        lemma("2 s <= a log X   (from the lower bound of the logarithm)", 2 * sq <= ac * lg)
        lemma("(a+s) log X <= s (1 + (a+s)^2)   (from the upper bound of the logarithm)", u * lg <= sq * (1 + u * u))
        lemma("second term q = 1.736 s / (cbrt(a) log X)", ctx.eq(q * (c * lg), 1.736 * sq))
        lemma("q <= 0.868 a", q <= 0.868 * ac)
        lemma("q (1 + (a+s)^2) cbrt(a) >= 1.736 (a+s)", q * (1 + u * u) * c >= 1.736 * u)
        lemma("(a+s-1)^2 <= 4 a (a-1)", (u - 1) * (u - 1) <= 4 * ac * (ac - 1))
        lemma("q >= 0.868 - 3.5 (a-1)", q >= 0.868 - 3.5 * (ac - 1))
    ctx.prove("cuboidal kinetic factor: value at 1 equals the limit of the ar>1 formula: |f(a)-f(1)| <= L(a-1)+1e-9", final)


# ------------------------------------------------------------------------------------------------ ShapeFactor (functions of R)

def via_radius(ctx, shape="needle", fn="thermoFactor", mode="callable", n=2):
    """ShapeFactor.<fn>(R) is description.<fn>(aspect(R)); constant aspect ratios (also < 1) and radius-dependent ones;
    neither R nor the array the aspect-ratio function hands out is modified"""
    R = ctx.reals("R", n, (0.5, 3.0))
    Rb = [R[i] * 1 for i in range(n)]
    if mode == "scalar":
        a = ctx.real("ar", (0.3, 4.0))
        sf = ShapeFactor(shape, a)
        ctx.prove("scalar aspect ratio selects the closed-form critical radius", sf.findRcrit == sf._findRcritScalar)
        held = None
        asp = [a for _ in range(n)]
    else:
        k = ctx.real("k", (0.1, 2.0)); c = ctx.real("c", (0.2, 1.5))
        held = {}

        def aspect(r):
            # a user function of the usual kind: linear in R; it keeps a reference to the array it returns
            v = c + k * r
            held["last"] = v
            held["copy"] = _flat(v * 1) if isinstance(v, np.ndarray) else [v * 1]
            return v
        sf = ShapeFactor(shape, aspect)
        ctx.prove("callable aspect ratio selects the bisection search", sf.findRcrit == sf._findRcrit)
        asp = [c + k * Rb[i] for i in range(n)]
    out = getattr(sf, fn)(R)
    _obs(ctx, "out", out)
    ref = getattr(sf.description, fn)(np.array(asp))
    ctx.prove("factor(R) = description factor(aspect(R))", ctx.all([ctx.eq(x, y) for x, y in zip(_flat(out), _flat(ref))]) if np.shape(out) == np.shape(ref) else False)
    ctx.prove("R is not modified", ctx.all([ctx.eq(R[i], Rb[i], rtol=0.0) for i in range(n)]))
    if held is not None:
        ctx.prove("array returned by the user's aspect-ratio function is not modified", ctx.all([ctx.eq(x, y, rtol=0.0) for x, y in zip(_flat(held["last"]), held["copy"])]))
    s = getattr(sf, fn)(Rb[0])
    ctx.prove("scalar and array calls agree", ctx.all([ctx.eq(x, y) for x, y in zip(_flat(s), _flat(out[0]))]) if len(_flat(s)) == len(_flat(out[0])) else False)


# ------------------------------------------------------------------------------------------------ critical radius

class UFDescription(ShapeDescriptionBase):
    """a user-defined shape (the documented extension point) whose thermodynamic factor above aspect ratio 1 is an arbitrary positive function"""
    name = "UF"

    def __init__(self, ctx):
        super().__init__()
        self.ctx = ctx

    def _thermoFactor(self, ar):
        out = np.ones(ar.shape)
        for i in range(len(ar)):
            g = self.ctx.uf("g", ar[i], rng=(0.6, 2.5))
            self.ctx.assume(g > 0, "thermodynamic factor positive")
            out[i] = g
        return out


def mk_sf(ctx, kind, calls=None, max_calls=None):
    """ShapeFactor with a radius-dependent aspect ratio.  kind 'uf': aspect(R) and factor(ar) uninterpreted; 'needle' / 'plate':
    real description with aspect(R) = 1 + k R"""
    tol = ctx.real("tol", (1e-3, 0.2))
    ctx.assume(tol > 0)
    if kind == "uf":
        def aspect(r):
            if calls is not None:
                calls.append(r)
                if max_calls is not None and len(calls) > max_calls:
                    raise core.Reject("more bisection iterations than the bound of this harness")
            return ctx.uf("aspect", r, rng=(0.5, 4.0))
        sf = ShapeFactor(UFDescription(ctx), aspect)
    else:
        k = ctx.real("k", (0.05, 1.0)); ctx.assume(k > 0)

        def aspect(r):
            if calls is not None:
                calls.append(r)
                if max_calls is not None and len(calls) > max_calls:
                    raise core.Reject("more bisection iterations than the bound of this harness")
            return 1 + k * r
        sf = ShapeFactor(kind, aspect)
    sf.tol = tol
    return sf, tol


def lift_loop():
    """split the *current* source of ShapeFactor._findRcrit at its while loop: (init, test, body, tail) as functions over the
    live variables, compiled in a copy of the module namespace (so `np` is whatever the module sees right now)"""
    src = textwrap.dedent(inspect.getsource(ShapeFactor._findRcrit))
    fdef = ast.parse(src).body[0]
    loops = [i for i, s in enumerate(fdef.body) if isinstance(s, ast.While)]
    if len(loops) != 1:
        raise core.VkError("_findRcrit: expected exactly one top-level while loop, found %d" % len(loops))
    li = loops[0]
    loop = fdef.body[li]
    if loop.orelse:
        raise core.VkError("_findRcrit: while/else not supported")
    state = ["minR", "maxR", "midR", "fMin", "fMax", "fMid", "n"]
    assigned = {t.id for s in ast.walk(fdef) if isinstance(s, (ast.Assign, ast.AugAssign)) for t in (s.targets if isinstance(s, ast.Assign) else [s.target]) if isinstance(t, ast.Name)}
    if assigned != set(state):
        raise core.VkError("_findRcrit: local variables changed: %s" % sorted(assigned))
    names = [x.arg for x in fdef.args.args]
    if names[:3] != ["self", "RcritSphere", "Rmax"] or fdef.args.vararg or fdef.args.kwarg or fdef.args.kwonlyargs:
        raise core.VkError("_findRcrit: unexpected signature %s" % names)
    # further parameters (all must have defaults) are kept, with their defaults, behind the loop state
    extra = names[3:]
    defaults = fdef.args.defaults[len(fdef.args.defaults) - len(extra):] if extra else []
    if len(defaults) != len(extra):
        raise core.VkError("_findRcrit: extra parameter without default %s" % names)
    tail_params = "".join(", %s=%s" % (nm, ast.unparse(df)) for nm, df in zip(extra, defaults))
    args = "self, RcritSphere, Rmax"
    st = ", ".join(state)

    class Ret(ast.NodeTransformer):
        def visit_Return(self, node):
            return ast.copy_location(ast.Return(value=ast.Tuple(elts=[ast.Constant("return"), node.value], ctx=ast.Load())), node)

    def mkfun(name, params, stmts, ret_state):
        body = [Ret().visit(s) for s in stmts]
        if ret_state:
            body = body + [ast.parse("return ('state', (%s))" % st).body[0]]
        f = ast.FunctionDef(name=name, args=ast.parse("def f(%s): pass" % params).body[0].args, body=body or [ast.Pass()], decorator_list=[], returns=None, type_params=[])
        return f
    import copy
    pre = [copy.deepcopy(s) for s in fdef.body[:li] if not (isinstance(s, ast.Expr) and isinstance(s.value, ast.Constant))]
    f_init = mkfun("vk_init", args + tail_params, pre, True)
    f_test = mkfun("vk_test", args + ", " + st + tail_params, [ast.Return(value=copy.deepcopy(loop.test))], False)
    f_test.body = [ast.Return(value=copy.deepcopy(loop.test))]
    f_body = mkfun("vk_body", args + ", " + st + tail_params, [copy.deepcopy(s) for s in loop.body], True)
    f_tail = mkfun("vk_tail", args + ", " + st + tail_params, [copy.deepcopy(s) for s in fdef.body[li + 1:]], False)
    m = ast.Module(body=[f_init, f_test, f_body, f_tail], type_ignores=[])
    ast.fix_missing_locations(m)
    ns = dict(SFmod.__dict__)
    exec(compile(m, "<lifted ShapeFactor._findRcrit>", "exec"), ns)
    return ns["vk_init"], ns["vk_test"], ns["vk_body"], ns["vk_tail"]


def _F(sf, Rc, R):
    """objective of the property text: R / (R_sphere * factor(aspect(R))) - 1, through the real factor code"""
    return R / (Rc * sf.thermoFactor(R)) - 1


def _bracket(ctx, a, b):
    return ctx.any([ctx.all([a < 0, b > 0]), ctx.all([a > 0, b < 0])])


def rcrit_init(ctx, kind="uf"):
    """statements before the loop establish the invariant: bracket [R_sphere, Rmax], midpoint, stored f values = f of the stored radii"""
    init, test, body, tail = lift_loop()
    sf, tol = mk_sf(ctx, kind)
    Rc = ctx.real("Rc", (0.5, 1.5)); Rmax = ctx.real("Rmax", (2.0, 6.0))
    ctx.assume(Rc > 0); ctx.assume(Rmax > Rc)
    tag, st = init(sf, Rc, Rmax)
    ctx.prove("initialisation falls through to the loop", tag == "state")
    if tag != "state":
        return
    minR, maxR, midR, fMin, fMax, fMid, n = st
    ctx.observe("state", [minR, maxR, midR, fMin, fMax, fMid])
    ctx.prove("init: search interval is [R_sphere, Rmax]", ctx.all([ctx.eq(minR, Rc), ctx.eq(maxR, Rmax)]))
    ctx.prove("init: midR is the midpoint", ctx.eq(2 * midR, minR + maxR))
    ctx.prove("init: stored f values are f of the stored radii",
              ctx.all([ctx.eq(fMin, _F(sf, Rc, minR)), ctx.eq(fMax, _F(sf, Rc, maxR)), ctx.eq(fMid, _F(sf, Rc, midR))]))
    ctx.prove("init: iteration counter starts at 0", n == 0)


def rcrit_step(ctx, kind="uf", n0=0):
    """one bisection iteration from an arbitrary state satisfying the invariant keeps the invariant and halves the bracket;
    leaving the loop through its test returns midR with |f(midR)| <= tol"""
    init, test, body, tail = lift_loop()
    sf, tol = mk_sf(ctx, kind)
    Rc = ctx.real("Rc", (0.5, 1.5)); Rmax = ctx.real("Rmax", (2.0, 6.0))
    lo = ctx.real("minR", (0.5, 2.0)); w = ctx.real("width", (0.5, 3.0))
    ctx.assume(Rc > 0); ctx.assume(lo >= Rc); ctx.assume(w > 0); ctx.assume(lo + w <= Rmax)
    minR, maxR = lo, lo + w
    midR = (minR + maxR) / 2
    fMin, fMax, fMid = _F(sf, Rc, minR), _F(sf, Rc, maxR), _F(sf, Rc, midR)
    ctx.assume(_bracket(ctx, fMin, fMax), "invariant: f changes sign over [minR, maxR]")
    go = test(sf, Rc, Rmax, minR, maxR, midR, fMin, fMax, fMid, n0)
    ctx.observe("go", go)
    if not go:
        ret = tail(sf, Rc, Rmax, minR, maxR, midR, fMin, fMax, fMid, n0)
        ctx.prove("exit: the function returns a value", isinstance(ret, tuple) and ret[0] == "return")
        r = ret[1]
        _obs(ctx, "ret", r)
        fr = _F(sf, Rc, r)
        ctx.prove("exit through the tolerance test: |R/(R_sphere*factor(aspect(R))) - 1| <= tol", ctx.all([ctx.le(fr, tol, rtol=0.0), ctx.le(-tol, fr, rtol=0.0)]))
        ctx.prove("exit: returned radius lies inside the bracket", ctx.all([ctx.lt(minR, r), ctx.lt(r, maxR)]))
        return
    tag, st = body(sf, Rc, Rmax, minR, maxR, midR, fMin, fMax, fMid, n0)
    if tag == "return":
        ctx.prove("the search only gives up after 100 iterations", n0 + 1 == 100)
        return
    ctx.prove("no early give-up", n0 + 1 != 100)
    minR2, maxR2, midR2, fMin2, fMax2, fMid2, n2 = st
    ctx.observe("state", [minR2, maxR2, midR2, fMin2, fMax2, fMid2])
    ctx.prove("step: counter advances by one", n2 == n0 + 1)
    ctx.prove("step: new bracket inside the old one", ctx.all([ctx.le(minR, minR2), ctx.le(maxR2, maxR), ctx.lt(minR2, maxR2)]))
    ctx.prove("step: bracket width halves", ctx.eq(2 * (maxR2 - minR2), maxR - minR))
    ctx.prove("step: midR is the midpoint of the new bracket", ctx.eq(2 * midR2, minR2 + maxR2))
    ctx.prove("step: stored f values are f of the stored radii",
              ctx.all([ctx.eq(fMin2, _F(sf, Rc, minR2)), ctx.eq(fMax2, _F(sf, Rc, maxR2)), ctx.eq(fMid2, _F(sf, Rc, midR2))]))
    ctx.prove("step: f still changes sign over the bracket", _bracket(ctx, fMin2, fMax2))


def rcrit_run(ctx, kind="uf", k=2):
    """the real _findRcrit end to end, runs of at most k bisection iterations: a bracketed root is returned to tolerance"""
    calls = []
    sf, tol = mk_sf(ctx, kind, calls, 3 + k)
    Rc = ctx.real("Rc", (0.5, 1.5)); Rmax = ctx.real("Rmax", (2.0, 6.0))
    ctx.assume(Rc > 0); ctx.assume(Rmax > Rc)
    f_lo, f_hi = _F(sf, Rc, Rc), _F(sf, Rc, Rmax)
    ctx.assume(_bracket(ctx, f_lo, f_hi), "a root is bracketed: f(R_sphere) and f(Rmax) have opposite signs")
    del calls[:]
    r = sf.findRcrit(Rc, Rmax)
    _obs(ctx, "rcrit", r)
    nit = len(calls) - 3
    calls.append(None); del calls[:]          # the checks below evaluate the factor again: not counted
    fr = _F(sf, Rc, r)
    ctx.prove("returned radius solves R = R_sphere*factor(aspect(R)) to the tolerance", ctx.all([ctx.le(fr, tol, rtol=0.0), ctx.le(-tol, fr, rtol=0.0)]))
    ctx.prove("returned radius lies in (R_sphere, Rmax)", ctx.all([ctx.lt(Rc, r), ctx.lt(r, Rmax)]))
    ctx.prove("one factor evaluation per bisection iteration", 0 <= nit <= k)


def rcrit_scalar(ctx, shape="needle"):
    """constant aspect ratio: findRcrit returns R with R = R_sphere * thermoFactor(aspect(R)) exactly"""
    a = ctx.real("ar", (0.5, 5.0))
    Rc = ctx.real("Rc", (0.5, 1.5)); Rmax = ctx.real("Rmax", (2.0, 6.0))
    ctx.assume(Rc > 0)
    sf = ShapeFactor(shape, a)
    r = sf.findRcrit(Rc, Rmax)
    _obs(ctx, "rcrit", r)
    ctx.prove("scalar result", np.shape(r) == ())
    ctx.prove("R = R_sphere * factor(aspect(R))", ctx.eq(r, Rc * sf.thermoFactor(r)))
    ctx.prove("R = R_sphere * description factor(aspect ratio)", ctx.eq(r, Rc * sf.description.thermoFactor(a)))
    ctx.prove("aspect ratio <= 1: the spherical critical radius", ctx.implies(a <= 1, ctx.eq(r, Rc)) if shape != "cubic" else True)


def ecc(ctx, shape="needle"):
    """eccentricity of the spheroid over the whole supported range: ecc^2 = 1 - 1/ar^2 (= 1 - short^2/long^2 of the semi-axes),
    0 <= ecc < 1, increasing with the aspect ratio; and the public factor methods evaluate their formulas with exactly that value"""
    d = DESC[shape]()
    a = ctx.real("ar", (1.0, 100.0)); b = ctx.real("br", (1.0, 100.0))
    ctx.assume(a > 1); ctx.assume(a < b); ctx.assume(b <= 100)
    ea = d.eccentricity(a); eb = d.eccentricity(b)
    _obs(ctx, "ecc_a", ea); _obs(ctx, "ecc_b", eb)
    for (x, e) in ((a, ea), (b, eb)):
        ctx.prove("eccentricity squared = 1 - 1/ar^2 on the whole range (1, 100]", ctx.eq(e * e * x * x, x * x - 1))
        ctx.prove("0 < eccentricity < 1", ctx.all([ctx.lt(0.0 * x, e), ctx.lt(e, 1.0 + 0.0 * x)]))
    ctx.prove("eccentricity increases with the aspect ratio", ctx.lt(ea, eb))
    # the semi-axes of the unit-volume spheroid give the same eccentricity
    r = d.normalRadii(b)
    lo, hi = (r[0], r[2]) if shape == "needle" else (r[2], r[0])
    ctx.prove("eccentricity squared = 1 - (short/long)^2 of the semi-axes", ctx.eq(eb * eb * hi * hi, hi * hi - lo * lo))
    ev = d.eccentricity(np.array([a, b]))
    ctx.prove("array call of eccentricity agrees with the scalar calls", ctx.all([ctx.eq(ev[0], ea), ctx.eq(ev[1], eb)]))
    # what the factor methods use: the real eccentricity() is observed while the public methods run
    seen = []
    real_ecc = d.eccentricity

    def spy(ar):
        e = real_ecc(ar)
        seen.append((ar, e))
        return e
    d.eccentricity = spy
    for fn in ("kineticFactor", "thermoFactor"):
        del seen[:]
        getattr(d, fn)(b)
        ctx.prove(fn + " evaluates the eccentricity once, for the aspect ratio handed in", len(seen) == 1 and np.shape(seen[0][0]) == (1,))
        if len(seen) == 1 and np.shape(seen[0][0]) == (1,):
            x, e = seen[0][0][0], seen[0][1][0]
            ctx.prove(fn + " uses the aspect ratio handed in", ctx.eq(x, b, rtol=0.0))
            ctx.prove(fn + " is evaluated with ecc^2 = 1 - 1/ar^2", ctx.eq(e * e * x * x, x * x - 1))


def geometry(ctx, shape="needle", fn="kineticFactor"):
    """needle / plate: thermodynamic factor = spheroid surface area / area of the equal-volume sphere, kinetic factor = spheroid
    capacitance / radius of the equal-volume sphere, written with the semi-axes (short a, long c) that normalRadii returns for unit
    volume, the sphere radius r = cbrt(3/(4 pi)) and the eccentricity e = sqrt(1 - a^2/c^2) = sqrt(1 - 1/ar^2):
      prolate:  S = 2 pi a^2 (1 + c/(a e) asin e)                 C = 2 c e / (ln(1+e) - ln(1-e))
      oblate :  S = 2 pi c^2 + pi a^2/e (ln((1+e)/(1-e)))         C = c e / asin e        (here c = long, a = short)
    log / asin are uninterpreted, so the claim is that the code's expression is this expression of the same e (and of a, c, r)."""
    d = DESC[shape]()
    x = ctx.real("ar", (1.0, 100.0))
    ctx.assume(x > 1); ctx.assume(x <= 100)
    f = getattr(d, fn)(x)
    _obs(ctx, "factor", f)
    rad = d.normalRadii(x)
    short, long_ = (rad[0], rad[2]) if shape == "needle" else (rad[2], rad[0])
    r = float(np.cbrt(3 / (4 * PI)))
    xc = _clamp(ctx, x)                           # = x on the assumed range; the term the code itself forms
    e = np.sqrt(1 - 1 / xc**2)
    A, C = short / r, long_ / r                  # semi-axes in units of the sphere radius
    close = lambda u, v: ctx.eq(u, v)
    if shape == "needle" and fn == "kineticFactor":
        ctx.prove("needle kinetic factor = capacitance of the prolate spheroid / sphere radius", close(f * (np.log(1 + e) - np.log(1 - e)), 2 * C * e))
    elif shape == "needle":
        ctx.prove("needle thermodynamic factor = area of the prolate spheroid / sphere area", close(2 * f * e, A * A * e + A * C * np.arcsin(e)))
    elif fn == "kineticFactor":
        # asin e is written pi/2 - acos e (= acos(short/long)), with the double pi/2 as in the code: the solver's asin + acos = pi/2 uses
        # the decimal expansion of pi, one unit in the 16th digit away
        ctx.prove("plate kinetic factor = capacitance of the oblate spheroid / sphere radius", close(f * (np.pi / 2 - np.arccos(e)), C * e))
    else:
        if ctx.mode == "symbolic":
            # ground instance of a law of the real power function that the solver's uninterpreted pow lacks: ar^(4/3) = (ar^(1/3))^4
            c3 = np.cbrt(xc)
            ctx.assume(ctx.eq(xc ** (4 / 3), c3 * c3 * c3 * c3), "pow(ar, 4/3) = cbrt(ar)^4")
        ctx.prove("plate thermodynamic factor = area of the oblate spheroid / sphere area", close(4 * f * e, 2 * C * C * e + A * A * np.log((1 + e) / (1 - e))))


SEQS = {
    # name: (initial shape, steps); a step is (method name or "description", argument kind)
    "description_setter": ("needle", [("description", "plate")]),
    "description_setter_cubic": ("plate", [("description", "cubic")]),
    "setPrecipitateShape": ("needle", [("setPrecipitateShape", "plate")]),
    "setPrecipitateShape_instance": ("plate", [("setPrecipitateShape", "needle_instance")]),
    "setPlateShape": ("needle", [("setPlateShape", None)]),
    "setNeedleShape": ("cubic", [("setNeedleShape", None)]),
    "setCuboidalShape": ("needle", [("setCuboidalShape", None)]),
    "setSpherical": ("plate", [("setSpherical", None)]),
    "setAspectRatio": ("needle", [("setAspectRatio", None)]),
    "setter_then_ratio": ("needle", [("description", "plate"), ("setAspectRatio", None)]),
    "ratio_then_setter": ("plate", [("setAspectRatio", None), ("description", "needle")]),
    "callable_then_scalar": ("needle", [("setAspectRatio", "callable"), ("description", "plate"), ("setAspectRatio", None)]),
}


def rcrit_after_shape_change(ctx, seq="description_setter"):
    """constant aspect ratio, shape / ratio changed through the public API before the search: findRcrit returns R with
    R = R_sphere * thermoFactor(aspect(R)) of the description and aspect ratio that are active at the time of the call"""
    shape0, steps = SEQS[seq]
    a0 = ctx.real("ar0", (0.5, 5.0))
    news = [ctx.real("ar%d" % (k + 1), (0.5, 5.0)) for k in range(len(steps))]
    Rc = ctx.real("Rc", (0.5, 1.5)); Rmax = ctx.real("Rmax", (2.0, 6.0))
    ctx.assume(Rc > 0)
    sf = ShapeFactor(shape0, a0)
    cur_ar, cur_desc, scalar = a0, DESC[shape0], True
    for k, (what, arg) in enumerate(steps):
        if what == "description":
            sf.description = DESC[arg]()
            cur_desc = DESC[arg]
        elif what == "setPrecipitateShape":
            if arg.endswith("_instance"):
                sf.setPrecipitateShape(DESC[arg[:-9]](), news[k]); cur_desc = DESC[arg[:-9]]
            else:
                sf.setPrecipitateShape(arg, news[k]); cur_desc = DESC[arg]
            cur_ar, scalar = news[k], True
        elif what == "setAspectRatio":
            if arg == "callable":
                sf.setAspectRatio(lambda r: 1 + news[k] * r); scalar = False
            else:
                sf.setAspectRatio(news[k]); cur_ar, scalar = news[k], True
        elif what == "setSpherical":
            sf.setSpherical(news[k]); cur_desc, cur_ar, scalar = DESC["sphere"], 1.0, True
        else:
            getattr(sf, what)(news[k])
            cur_desc = {"setPlateShape": DESC["plate"], "setNeedleShape": DESC["needle"], "setCuboidalShape": DESC["cubic"]}[what]
            cur_ar, scalar = news[k], True
    ctx.prove("active description is the one set last", type(sf.description) is cur_desc)
    ctx.prove("constant aspect ratio selects the closed-form critical radius", scalar and sf.findRcrit == sf._findRcritScalar)
    r = sf.findRcrit(Rc, Rmax)
    _obs(ctx, "rcrit", r)
    ctx.prove("R = R_sphere * factor(aspect(R)) for the active shape and aspect ratio", ctx.eq(r, Rc * sf.thermoFactor(r)))
    ctx.prove("R = R_sphere * thermodynamic factor of a fresh description of the active shape at the active aspect ratio", ctx.eq(r, Rc * cur_desc().thermoFactor(cur_ar)))
    ctx.prove("aspect ratio reported for the returned radius is the active one", ctx.eq(sf.aspectRatio(r), cur_ar))


_FN = [ShapeDescriptionBase._processAspectRatio, ShapeDescriptionBase.normalRadii, ShapeDescriptionBase.eqRadiusFactor,
       ShapeDescriptionBase.kineticFactor, ShapeDescriptionBase.thermoFactor, ShapeDescriptionBase.eccentricity,
       SphereDescription._eqRadius, SphereDescription._normalRadii, SphereDescription._kineticFactor, SphereDescription._thermoFactor,
       NeedleDescription._eqRadius, NeedleDescription._normalRadii, NeedleDescription._kineticFactor, NeedleDescription._thermoFactor,
       PlateDescription._eqRadius, PlateDescription._normalRadii, PlateDescription._kineticFactor, PlateDescription._thermoFactor,
       CuboidalDescription.__init__, CuboidalDescription._eqRadius, CuboidalDescription._normalRadii, CuboidalDescription._kineticFactor,
       CuboidalDescription._thermoFactor, ShapeFactor.__init__, ShapeFactor.setPrecipitateShape, ShapeFactor.setAspectRatio,
       ShapeFactor._scalarAspectRatioEquation, ShapeFactor.normalRadii, ShapeFactor.eqRadiusFactor, ShapeFactor.kineticFactor,
       ShapeFactor.thermoFactor, ShapeFactor._findRcritScalar, ShapeFactor._findRcrit]
_A = ["aspect ratios are arbitrary reals (values below 1 included) unless a harness says otherwise; real arithmetic, pi is the double",
      "exp/log/arcsin/arccos are uninterpreted (congruence + a few ground axioms): clauses that need their values are outside"]
_SHAPES = ("sphere", "needle", "plate", "cubic")
_ALLFN = FACTORS + ("normalRadii",)
_pur_q = [{"shape": s, "fn": f, "n": 2} for s in _SHAPES for f in _ALLFN]
_cont = [{"shape": "cubic", "fn": "eqRadiusFactor", "L": 1.0}, {"shape": "cubic", "fn": "thermoFactor", "L": 1.0},
         {"shape": "needle", "fn": "eqRadiusFactor", "L": 1.0}, {"shape": "plate", "fn": "eqRadiusFactor", "L": 1.0},
         {"shape": "sphere", "fn": "eqRadiusFactor", "L": 1.0}, {"shape": "sphere", "fn": "kineticFactor", "L": 1.0},
         {"shape": "sphere", "fn": "thermoFactor", "L": 1.0}]
_RA = ["thermodynamic factor > 0, R_sphere > 0, R_sphere < Rmax, tol > 0",
       "kind 'uf': aspect(R) and the factor above ratio 1 are arbitrary (uninterpreted, deterministic) functions -- continuity is not assumed, hence "
       "only exits through the tolerance test are claimed (the 100-iteration give-up returns R_sphere and is outside the claim)",
       "a root is 'bracketed' when f(R_sphere) and f(Rmax) have strictly opposite signs"]
HARNESSES = [
    Harness("C15.purity", purity, functions=_FN, assumptions=_A, bounds={"array length": "n = 3 (thorough: 3 and 4): arrays that mix entries <= 1 with two or more distinct entries > 1"},
            opts={"feas_defs": False, "max_paths": 700},
            params={"quick": [dict(p, n=3) for p in _pur_q], "thorough": [dict(p, n=k) for p in _pur_q for k in (2, 4)]}),
    Harness("C15.radii", radii, functions=_FN, assumptions=_A + ["aspect ratio <= 100; unit volume to 1e-9 (the code's cbrt(3/(4 pi)) is a rounded double)"],
            params={"quick": [{"shape": s, "arr": False} for s in _SHAPES] + [{"shape": "needle", "arr": True}, {"shape": "plate", "arr": True}],
                    "thorough": [{"shape": s, "arr": a} for s in _SHAPES for a in (False, True)]}),
    Harness("C15.unit", unit, functions=_FN, assumptions=_A,
            params={"quick": [{"shape": s, "fn": f} for s in ("sphere", "needle", "plate") for f in FACTORS],
                    "thorough": [{"shape": s, "fn": f} for s in ("sphere", "needle", "plate") for f in FACTORS]}),
    Harness("C15.ecc", ecc, functions=_FN, assumptions=_A + ["1 < a < b <= 100"],
            params={"quick": [{"shape": "needle"}, {"shape": "plate"}], "thorough": [{"shape": "needle"}, {"shape": "plate"}]}),
    Harness("C15.geometry", geometry, functions=_FN, opts={"ob_timeout": 40.0},
            assumptions=_A + ["1 < ar <= 100", "log and asin are uninterpreted: the factor is shown to be the closed-form area / capacitance expression of the spheroid's semi-axes and eccentricity, "
                              "written with the difference of logarithms where the code writes one (the logarithm laws are not available to the solver); the numerical value of the "
                              "expression against quadrature is outside"],
            params={"quick": [{"shape": s, "fn": f} for s in ("needle", "plate") for f in ("kineticFactor", "thermoFactor")],
                    "thorough": [{"shape": s, "fn": f} for s in ("needle", "plate") for f in ("kineticFactor", "thermoFactor")]}),
    Harness("C15.eqradius", eqradius, functions=_FN, assumptions=_A + ["1 <= a < b <= 100"],
            params={"quick": [{"shape": "needle"}, {"shape": "plate"}], "thorough": [{"shape": "needle"}, {"shape": "plate"}]}),
    Harness("C15.continuity", continuity, functions=_FN,
            assumptions=_A + ["continuity at 1 is checked in the quantitative form |f(a)-f(1)| <= L (a-1) + 1e-9 for 1 < a <= 2 (L = 1), for the factors that are algebraic in a"],
            params={"quick": _cont, "thorough": _cont}),
    Harness("C15.cub_kinetic", cub_kinetic, functions=_FN, opts={"ob_timeout": 60.0},
            assumptions=_A + ["1 < a <= 1.5; continuity at 1 in the quantitative form |f(a)-f(1)| <= 4 (a-1) + 1e-9",
                              "ground instances of 2t/(2+t) <= log(1+t) <= t(2+t)/(2(1+t)) (t >= 0) for the logarithm the formula takes; exp through the engine's axioms exp(x) >= 1+x, exp(x) < 1 for x < 0"],
            params={"quick": [{"L": 4.0, "amax": 1.5}], "thorough": [{"L": 4.0, "amax": 1.5}, {"L": 4.0, "amax": 1.1}]}),
    Harness("C15.via_radius", via_radius, functions=_FN, assumptions=_A + ["callable aspect ratio: aspect(R) = c + k R with symbolic c, k"], bounds={"array length": "n"},
            params={"quick": [{"shape": "needle", "fn": "thermoFactor", "mode": "callable", "n": 2}, {"shape": "plate", "fn": "kineticFactor", "mode": "scalar", "n": 2},
                              {"shape": "cubic", "fn": "eqRadiusFactor", "mode": "callable", "n": 2}, {"shape": "plate", "fn": "normalRadii", "mode": "callable", "n": 2},
                              {"shape": "needle", "fn": "normalRadii", "mode": "scalar", "n": 2}, {"shape": "sphere", "fn": "thermoFactor", "mode": "scalar", "n": 2}],
                    "thorough": [{"shape": s, "fn": f, "mode": m, "n": 2} for s in _SHAPES for f in _ALLFN for m in ("scalar", "callable")]}),
    Harness("C15.rcrit_init", rcrit_init, functions=_FN, assumptions=_A + _RA, stubs=["user-supplied aspect-ratio function and (kind 'uf') user-defined ShapeDescriptionBase subclass returning uninterpreted values"],
            params={"quick": [{"kind": "uf"}, {"kind": "needle"}], "thorough": [{"kind": "uf"}, {"kind": "needle"}, {"kind": "plate"}]}),
    Harness("C15.rcrit_step", rcrit_step, functions=_FN, assumptions=_A + _RA + ["entry state: R_sphere <= minR < maxR <= Rmax, midR the midpoint, stored f values consistent, sign change over the bracket (the invariant established by rcrit_init)"],
            stubs=["loop test / body / tail of _findRcrit lifted from the current source with ast (nothing transcribed)"],
            params={"quick": [{"kind": "uf", "n0": 0}, {"kind": "uf", "n0": 98}, {"kind": "uf", "n0": 99}],
                    "thorough": [{"kind": "uf", "n0": n0} for n0 in (0, 1, 50, 98, 99)]}),
    Harness("C15.rcrit_run", rcrit_run, functions=_FN, assumptions=_A + _RA, bounds={"bisection iterations": "<= k (longer runs are cut off; the inductive step covers them)"},
            opts={"max_paths": 2500}, budget={"quick": 120.0, "thorough": 900.0},
            params={"quick": [{"kind": "uf", "k": 2}, {"kind": "needle", "k": 1}], "thorough": [{"kind": "uf", "k": 3}, {"kind": "needle", "k": 2}, {"kind": "plate", "k": 1}]}),
    Harness("C15.rcrit_scalar", rcrit_scalar, functions=_FN, assumptions=_A,
            params={"quick": [{"shape": s} for s in _SHAPES], "thorough": [{"shape": s} for s in _SHAPES]}),
    Harness("C15.rcrit_after_shape_change", rcrit_after_shape_change, functions=_FN + [ShapeFactor.setSpherical, ShapeFactor.setNeedleShape, ShapeFactor.setPlateShape, ShapeFactor.setCuboidalShape],
            assumptions=_A + ["R_sphere > 0; every aspect ratio of the sequence is an independent symbolic real"], bounds={"sequences": "the public ways of changing shape / aspect ratio, 1-3 steps (SEQS)"},
            params={"quick": [{"seq": q} for q in SEQS], "thorough": [{"seq": q} for q in SEQS]}),
]

from harness.c15_extra import EXTRA as _EXTRA
HARNESSES = HARNESSES + _EXTRA
