"""C01 -- precipitation conserves solute between matrix and precipitates.

mass_balance      : real PrecipitateModel._calcMassBalance on a symbolic distribution / grid / interfacial compositions / molar
                    volumes / shape (volume) factor, compared with an independent reference written from the property text.
append_is_balance : real PrecipitateBase.postProcess (nucleation-rate, growth-rate and PSD-update steps stubbed): what is appended
                    to the recorded history is exactly the mass-balanced state of the distribution it was given, so the identity
                    holds at every recorded step, for either iterator and any number of solve calls (inductive step).
"""
import numpy as np
from vk.run import Harness
from harness.kwn_common import mk_kwn, radii
from kawin.precipitation.KWNEuler import PrecipitateModel
from kawin.precipitation.KWNBase import PrecipitateBase
from kawin.precipitation.PopulationBalance import PopulationBalanceModel as PBM
from kawin.precipitation.PrecipitationParameters import PrecipitationData


def reference(ctx, info, x, nph, nel, ncls, infinite, fconc_old):
    """precipitate fraction and solute content from the property text"""
    fv, fc, dens = [], [], []
    for p in range(nph):
        r = radii(info, p, ncls)
        n0 = sum(x[p][i] for i in range(ncls))
        m3 = sum(x[p][i] * r[i] ** 3 for i in range(ncls))
        k = info["ratio"][p] * info["vf"][p]
        raw = k * m3
        empty = n0 < info["minDens"]
        fv.append(ctx.ite(empty, 0.0 * raw, ctx.ite(raw <= 1, raw, 1.0 + 0.0 * raw)))
        row = []
        for e in range(nel):
            xb = info["xbeta"][p]
            if infinite:
                s = k * sum(x[p][i] * r[i] ** 3 * 0.5 * (xb[i, e] + xb[i + 1, e]) for i in range(ncls))
            else:
                s = fconc_old[p][e] + k * sum((x[p][i] - info["psd_prev"][p][i]) * r[i] ** 3 * 0.5 * (xb[i, e] + xb[i + 1, e]) for i in range(ncls))
            row.append(ctx.ite(empty, 0.0 * s, s))
        fc.append(row); dens.append(n0)
    return fv, fc, dens


def mass_balance(ctx, nph=1, nel=1, ncls=2, infinite=True):
    m, info = mk_kwn(ctx, nph, nel, ncls, hist=1, infinite=infinite)
    x = [ctx.reals("x%d" % p, ncls, (0.0, 0.3)) for p in range(nph)]
    for p in range(nph):
        for i in range(ncls):
            ctx.assume(x[p][i] >= 0)
    Y = m.pData.copySlice(0)
    # the slice carries whatever the previous stage/step left in it
    Y.fconc = ctx.reals("Yfconc", (1, nph, nel), (0.0, 0.05)); Y.volFrac = ctx.reals("YvolFrac", (1, nph), (0.0, 0.2))
    Y.composition = ctx.reals("Ycomp", (1, nel), (0.0, 0.3))
    fold = [[m.pData.fconc[0, p, e] * 1 for e in range(nel)] for p in range(nph)]
    fv, fc, dens = reference(ctx, info, x, nph, nel, ncls, infinite, fold)
    tot = sum(fv)
    ctx.assume(tot < 1, "matrix not fully consumed")
    Y = m._calcMassBalance(0.0, x, Y)
    ctx.observe("composition", Y.composition[0]); ctx.observe("volFrac", Y.volFrac[0]); ctx.observe("fconc", Y.fconc[0])
    for p in range(nph):
        ctx.prove("volume fraction = (Vm_a/Vm_b) * volume factor * third moment (capped at 1, zero below the density threshold)", ctx.eq(Y.volFrac[0, p], fv[p]))
        for e in range(nel):
            ctx.prove("precipitate solute content = sum of particle volume * mean interfacial composition", ctx.eq(Y.fconc[0, p, e], fc[p][e]))
    for e in range(nel):
        x0 = info["x0"][e]
        held = sum(Y.fconc[0, p, e] for p in range(nph))
        unclamped = (x0 - sum(fc[p][e] for p in range(nph))) / (1 - tot)
        bal = ctx.eq(x0, (1 - sum(Y.volFrac[0, p] for p in range(nph))) * Y.composition[0, e] + held)
        ctx.prove("solute balance: x0 = (1 - sum fv) * x_matrix + sum fconc, unless the negative-composition clamp applies",
                  ctx.implies(unclamped >= 0, bal))
        ctx.prove("clamp only replaces a negative matrix composition by the minimum composition",
                  ctx.implies(unclamped < 0, ctx.eq(Y.composition[0, e], info["minComp"])))


def append_is_balance(ctx, nph=1, nel=1, ncls=2, hist=2):
    """real postProcess: the appended record is the mass-balanced state of the x it received; histories stay aligned"""
    m, info = mk_kwn(ctx, nph, nel, ncls, hist=hist, infinite=True)
    x = [ctx.reals("x%d" % p, ncls, (0.0, 0.3)) for p in range(nph)]
    for p in range(nph):
        for i in range(ncls):
            ctx.assume(x[p][i] >= 0)
    # stubs for the steps that involve the thermodynamic backend; they may write the fields they own, nothing else
    def nuc(t, xx, Y):
        Y.nucRate = ctx.reals("stub_nucRate", (1, nph), (0.0, 1.0)); Y.drivingForce = ctx.reals("stub_dG", (1, nph), (-1.0, 1.0))
        return Y

    def growth(Y):
        Y.xEqAlpha = ctx.reals("stub_xEqA", (1, nph, nel), (0.0, 0.2))
        return [0.0 * xx for xx in x], Y
    m._calcNucleationRate = nuc
    m._growthRate = growth
    m._updateParticleSizeDistribution = lambda t, xx: None
    m._processX = lambda xx: None
    m.temperatureParameters.setIsothermalTemperature(ctx.real("T", (500.0, 900.0)))
    m._currY = m.pData.copySlice(m.pData.n)       # as left by the first stage of the step
    fv, fc, dens = reference(ctx, info, x, nph, nel, ncls, True, None)
    tot = sum(fv)
    ctx.assume(tot < 1)
    n0 = m.pData.n
    tnew = ctx.real("tnew", (1.0, 2.0))
    xs, stop = PrecipitateBase.postProcess(m, tnew, x)
    d = m.pData
    ctx.prove("one record appended", d.n == n0 + 1)
    ctx.prove("all histories have the same length", all(len(getattr(d, a)) == n0 + 2 for a in PrecipitationData.ATTRIBUTES))
    ctx.prove("recorded time is the step time", ctx.eq(d.time[d.n], tnew))
    for e in range(nel):
        x0 = info["x0"][e]
        unclamped = (x0 - sum(fc[p][e] for p in range(nph))) / (1 - tot)
        bal = ctx.eq(x0, (1 - sum(d.volFrac[d.n, p] for p in range(nph))) * d.composition[d.n, e] + sum(d.fconc[d.n, p, e] for p in range(nph)))
        ctx.prove("recorded step satisfies the solute balance for the distribution it was given", ctx.implies(unclamped >= 0, bal))
        ctx.prove("initial alloy content is not overwritten", ctx.eq(d.composition[0, e], x0))
    for p in range(nph):
        ctx.prove("recorded volume fraction is the mass-balanced one", ctx.eq(d.volFrac[d.n, p], fv[p]))
        for e in range(nel):
            ctx.prove("recorded precipitate content is the mass-balanced one", ctx.eq(d.fconc[d.n, p, e], fc[p][e]))
    ctx.prove("no stop requested without stopping conditions", stop is False or bool(stop) is False)


_F = [PrecipitateModel._calcMassBalance, PBM.ZeroMomentFromN, PBM.MomentFromN, PBM.ThirdMomentFromN, PBM.WeightedMomentFromN,
      PrecipitationData.copySlice, PrecipitationData.appendToArrays, PrecipitateBase.postProcess, PrecipitateBase._calculateDependentTerms]
_A = ["real arithmetic", "populations >= 0; uniform grids min + i*w; molar volumes and volume factor > 0 (the cached volume factor is symbolic, so spherical and grain-boundary shaped nuclei are covered)",
      "sum of precipitate fractions < 1 (matrix not fully consumed; otherwise the code keeps the previous composition by design)",
      "previously recorded volume fractions < 1"]
HARNESSES = [
    Harness("C01.mass_balance", mass_balance, functions=_F, assumptions=_A, bounds={"phases": "nph", "solutes": "nel", "classes": "ncls"},
            opts={"ob_timeout": 40.0}, budget={"quick": 150.0, "thorough": 1500.0},
            params={"quick": [{"nph": 1, "nel": 1, "ncls": 2, "infinite": True}, {"nph": 1, "nel": 1, "ncls": 2, "infinite": False},
                              {"nph": 2, "nel": 1, "ncls": 2, "infinite": True}, {"nph": 1, "nel": 2, "ncls": 3, "infinite": True}],
                    "thorough": [{"nph": 2, "nel": 2, "ncls": 3, "infinite": True}, {"nph": 1, "nel": 1, "ncls": 4, "infinite": True},
                                 {"nph": 3, "nel": 1, "ncls": 2, "infinite": True}, {"nph": 2, "nel": 2, "ncls": 2, "infinite": False},
                                 {"nph": 3, "nel": 2, "ncls": 3, "infinite": True}, {"nph": 2, "nel": 3, "ncls": 4, "infinite": True},
                                 {"nph": 1, "nel": 1, "ncls": 6, "infinite": False}]}),
    Harness("C01.append_is_balance", append_is_balance, functions=_F, assumptions=_A,
            stubs=["_calcNucleationRate, _growthRate: write fresh symbolic values into the fields they own (nucRate, drivingForce, xEqAlpha)",
                   "_updateParticleSizeDistribution, _processX: no-ops (C02/C08)"],
            opts={"ob_timeout": 40.0}, budget={"quick": 150.0, "thorough": 1500.0},
            params={"quick": [{"nph": 1, "nel": 1, "ncls": 2, "hist": 2}, {"nph": 2, "nel": 1, "ncls": 2, "hist": 1}],
                    "thorough": [{"nph": 2, "nel": 2, "ncls": 2, "hist": 3}, {"nph": 1, "nel": 2, "ncls": 3, "hist": 2},
                                 {"nph": 3, "nel": 2, "ncls": 3, "hist": 2}, {"nph": 2, "nel": 3, "ncls": 4, "hist": 4}]}),
]

from harness.c01_extra import EXTRA as _EXTRA
HARNESSES = HARNESSES + _EXTRA
