"""C09 (extra) -- driving-force queries do not depend on the queries made before, nor on keeping cached equilibria.

A sequence of 2-3 getDrivingForce queries runs on one real MulticomponentThermodynamics object (no database; the pycalphad
side is the uninterpreted-function backend of harness/c11.py), the last query also on a fresh object.  What the real
code keeps between queries (_compset_cache_df, _matrix_cs) is handed back to the backend by the real code, and the
backend answers *as a function of what it is handed*:

* local_equilibrium updates the composition sets it is given in place and returns the same list (as pycalphad does);
* its result is a function of the conditions -- independence of a regular starting point is the minimiser's business and
  assumed (DESIGN, C09 "outside") -- EXCEPT for a degenerate starting point: the parallel-tangent solve of the precipitate
  may collapse onto the matrix composition (order/disorder pair, undersaturated matrix), and a solve that is started from
  a collapsed composition set collapses again.  Whether a regularly started solve collapses is a symbolic bit per query.

So a collapsed composition set that survives in the cache changes the terms of every later query.
"""
import numpy as np
from vk.run import Harness
from harness import c11 as E

GT, MCT = E.GT, E.MCT


class HistBackend(E.Backend):
    """backend of c11 + composition sets updated in place + the 'collapsed' degenerate state"""

    def __init__(self, ctx, ref, solutes, phases):
        super().__init__(ctx, ref, solutes, phases)
        self.flag = False           # does the (regularly started) parallel-tangent solve of the current query collapse?
        self.last_matrix = None
        self.n_stale = 0

    def _bounded(self, cs):
        for q in cs.X:
            self.ctx.assume(q < 1, "backend contract: mole fractions below 1")

    def local_equilibrium(self, dbf, comps, phases, conds, models, phase_records, composition_sets=None):
        ctx = self.ctx
        rec, args = self.canon(conds, "local", phases)
        tag = "loc:" + "+".join(phases)
        mu = np.array([ctx.uf("MU<%s>%s" % (tag, a), *args, rng=(-2.0, -0.1)) for a in self.names])
        new = [E._CompSet(self, ph, tag, rec, args) for ph in phases]
        for c in new:
            self._bounded(c)
            c.collapsed = False
        tangent_solve = list(phases) == [self.phases[1]] and len(rec["MU"]) > 0
        stale = composition_sets is not None and any(getattr(c, "collapsed", False) for c in composition_sets)
        ge = ctx.uf("GEsol<%s>" % tag, *args, rng=(-1.0, 1.0))
        if tangent_solve:
            if stale:
                self.n_stale += 1
            if stale or bool(self.flag):
                # collapsed: the precipitate set sits on the matrix composition
                c = new[0]
                c.Xn = dict(self.last_matrix.Xn); c.X = [c.Xn[a] for a in self.names]
                c.dof = np.array([rec["GE"], 1.0, 101325.0, rec["T"]] + c.X)
                c.collapsed = True
                ge = ctx.uf("GEcollapsed<%s>" % tag, *args, rng=(-1.0, 1.0))
            else:
                # regular solution: the precipitate differs visibly from the matrix in its first component
                a0 = self.names[0]
                ctx.assume(new[0].Xn[a0] > self.last_matrix.Xn[a0] + 0.05,
                           "backend contract: a non-collapsed precipitate composition differs from the matrix composition")
        res = E.types.SimpleNamespace(chemical_potentials=mu, x=np.array([ge]))
        if composition_sets is not None:
            # pycalphad updates the sets it is handed in place
            for old, nw in zip(composition_sets, new):
                old.__dict__.clear(); old.__dict__.update(nw.__dict__)
            out = composition_sets
        else:
            out = new
        if list(phases) == [self.phases[0]]:
            self.last_matrix = out[0]
        rec["sets"] = list(out)
        rec["mu"] = {a: mu[i] for i, a in enumerate(self.names)}
        return res, out

    def sampling(self, x, T, mu, precPhase, local_phase_sampling_conditions=None):
        dg, cs = super().sampling(x, T, mu, precPhase, local_phase_sampling_conditions)
        self._bounded(cs)
        cs.collapsed = False
        return dg, cs


def df_history(ctx, method="tangent", remove=(False, False), collapse=("sym", "sym"), ref="FE", solutes=("CR", "NI")):
    """the last getDrivingForce query of a sequence answers like a fresh object; no collapsed set stays cached"""
    saved_np = E.np
    E.np = np          # harness.c11 is not the running harness module here: give its stub classes the numpy this body sees
    try:
        _df_history(ctx, method, remove, collapse, ref, solutes)
    finally:
        E.np = saved_np


def _df_history(ctx, method, remove, collapse, ref, solutes):
    phases = ("MATRIX", "PREC")
    be = HistBackend(ctx, ref, solutes, phases)
    be.corr = {a: 1.0 for a in be.names}; be.corr["VA"] = 1
    m = len(remove)
    user = [ref] + list(be.sol)
    X = [[ctx.real("q%d_x_%s" % (k, a), (0.05, 0.25)) for a in be.sol] for k in range(m)]
    T = [ctx.real("q%d_T" % k, (500.0, 1200.0)) for k in range(m)]
    for k in range(m):
        ctx.assume(T[k] > 0)
    flags = [(ctx.boolean("q%d_tangent_collapses" % k) if c == "sym" else bool(c)) for k, c in enumerate(collapse)]

    def ask(th, k):
        be.flag = flags[k]
        with E._Patched(be):
            dg, comp = th.getDrivingForce(np.array(X[k]), T[k], precPhase="PREC", removeCache=bool(remove[k]))
        return E._sc(dg), np.atleast_1d(comp)

    warm = E.mk_therm(ctx, be, user, phases=phases, method=method)
    for k in range(m):
        dg, comp = ask(warm, k)
        kept = warm._compset_cache_df.get("PREC", None)
        ctx.prove("no collapsed composition set is kept in the driving-force cache after a query",
                  not any(getattr(c, "collapsed", False) for c in (kept or [])))
        if remove[k]:
            ctx.prove("removeCache=True leaves no cached equilibria behind", kept is None and warm._matrix_cs is None)
    fresh = E.mk_therm(ctx, be, user, phases=phases, method=method)
    n0 = be.n_stale
    dg_f, comp_f = ask(fresh, m - 1)
    ctx.observe("dg_hist", dg); ctx.observe("dg_fresh", dg_f); ctx.observe("comp_hist", comp); ctx.observe("comp_fresh", comp_f)
    ctx.prove("driving force of the last query equals a fresh object's answer", ctx.eq(dg, dg_f))
    ctx.prove("precipitate composition of the last query has the fresh object's shape", len(comp) == len(comp_f))
    for i in range(min(len(comp), len(comp_f))):
        ctx.prove("precipitate composition of the last query equals a fresh object's answer", ctx.eq(comp[i], comp_f[i]))
    ctx.prove("the backend was never started from a collapsed composition set", be.n_stale == 0)


_F = [GT.getDrivingForce, GT._getDrivingForceTangent, GT._getDrivingForceSampling, GT._getDrivingForceApprox, GT._getDrivingForceCurvature,
      GT._getCompositionSetsForDF, GT._getCompositionSetsEq, GT._resetDrivingForceCache, GT.getLocalEq, GT.getEq, GT._getConditions, GT._setupSubModels]
_A = ["pycalphad's answer is a function of the conditions and independent of a regular starting composition set (the minimiser's business, assumed)",
      "degenerate starting point: a parallel-tangent solve started from a composition set that has collapsed onto the matrix composition collapses again; "
      "whether a regularly started solve collapses is an arbitrary (symbolic) bit per query",
      "a non-collapsed precipitate composition differs from the matrix composition by more than the np.allclose tolerance; mole fractions in (0, 1)",
      "approximate / curvature methods are only claimed for removeCache=True: with the cache kept the real code re-solves the cached pair at GE = 0 where a fresh "
      "object solves the global equilibrium at GE = gOffset, a (tiny) difference that is pycalphad's to quantify"]
_S = E._SE + ["local_equilibrium updates the handed composition sets in place and returns the same list (as pycalphad's Solver does)"]
_seq2 = [{"method": "tangent", "remove": [False, False], "collapse": [True, False]},
         {"method": "tangent", "remove": [False, False], "collapse": ["sym", "sym"]},
         {"method": "tangent", "remove": [True, False], "collapse": ["sym", "sym"]},
         {"method": "tangent", "remove": [False, True], "collapse": ["sym", "sym"]},
         {"method": "tangent", "remove": [False, False, False], "collapse": ["sym", True, "sym"]},
         {"method": "sampling", "remove": [False, False], "collapse": [False, False]},
         {"method": "sampling", "remove": [True, False, False], "collapse": [False, False, False]},
         {"method": "approximate", "remove": [True, True], "collapse": [False, False]},
         {"method": "curvature", "remove": [True, True], "collapse": [False, False]}]
EXTRA = [
    Harness("C09.df_history", df_history, functions=_F, assumptions=_A, stubs=_S,
            bounds={"queries": "2-3 per sequence", "elements": "ternary", "phases": "matrix + one precipitate"},
            params={"quick": _seq2,
                    "thorough": _seq2 + [{"method": "tangent", "remove": list(r), "collapse": ["sym"] * 3} for r in
                                         ((False, False, False), (False, True, False), (True, False, False), (False, False, True))]
                                + [{"method": "tangent", "remove": [False, False], "collapse": ["sym", "sym"], "ref": "ZR", "solutes": ["CR", "NB", "TI"]},
                                   {"method": "approximate", "remove": [True, True, True], "collapse": [False] * 3},
                                   {"method": "curvature", "remove": [True, True, True], "collapse": [False] * 3}]}),
]
