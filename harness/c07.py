"""C07 -- size-class transport is conservative and bounded (PopulationBalanceModel transport kernels)."""
import contextlib, io
import numpy as np
from vk.run import Harness
from kawin.precipitation.PopulationBalance import PopulationBalanceModel as PBM
from kawin.precipitation.coupling.GrainGrowth import GrainGrowthModel


def mk_pbm(ctx, n, name="b"):
    """a real PopulationBalanceModel whose grid is symbolic: b0 > 0, equal positive class width"""
    pbm = PBM(1e-10, 1e-9, n, 1, 10 * n)
    b0 = ctx.real(name + "0", (0.5, 1.0))
    w = ctx.real(name + "w", (0.1, 0.5))
    ctx.assume(b0 > 0); ctx.assume(w > 0)
    pbm.min = b0
    pbm.max = b0 + n * w
    pbm.bins = n
    pbm.reset(False)
    return pbm, b0, w


def store_other(ctx, pbm, n):
    """the object's stored distribution is some other non-negative one than the psd argument (an RK4 stage, a trial distribution)"""
    other = ctx.reals("stored_n", n, (0.0, 5.0))
    for i in range(n):
        ctx.assume(other[i] >= 0)
    pbm.PSD = other


def inputs(ctx, n, nuc=True):
    psd = ctx.reals("n", n, (0.0, 5.0))
    g = ctx.reals("g", n + 1, (-1.0, 1.0))
    for i in range(n):
        ctx.assume(psd[i] >= 0)
    if nuc:
        nr = ctx.real("nuc", (0.0, 2.0)); rn = ctx.real("rnuc", (0.2, 2.5))
        ctx.assume(nr >= 0)
    else:
        nr, rn = 0, 0
    return psd, g, nr, rn


def conserve(ctx, n=3, stored="same"):
    """sum(dXdt) = nucRate + netFlux[0] - netFlux[n], before and after the step-size correction"""
    pbm, b0, w = mk_pbm(ctx, n)
    psd, g, nuc, rn = inputs(ctx, n)
    dt = ctx.real("dt", (0.05, 1.0)); ctx.assume(dt > 0)
    pbm.PSD = psd
    if stored == "other":
        store_other(ctx, pbm, n)
    d = pbm.getdXdtEuler(g, nuc, rn, psd)
    ctx.observe("dxdt", d)
    ctx.prove("sum_before", ctx.eq(sum(d), nuc + pbm._netFlux[0] - pbm._netFlux[n]))
    d2 = pbm.correctdXdtEuler(dt, g, nuc, rn, psd)
    ctx.observe("dxdt_corr", d2)
    ctx.prove("sum_after", ctx.eq(sum(d2), nuc + pbm._netFlux[0] - pbm._netFlux[n]))


def ref_faces(ctx, n, psd, g, w):
    """independent scalar reference written from the property text: face i carries g_i*n_i/dR out of class i
    downwards iff g_i <= 0 and g_i*n_{i-1}/dR upwards out of class i-1 iff g_i > 0"""
    J = []
    for i in range(n + 1):
        down = g[i] * psd[i] / w if i < n else 0.0 * g[i]
        up = g[i] * psd[i - 1] / w if i >= 1 else 0.0 * g[i]
        J.append(ctx.ite(g[i] > 0, up, down))
    return J


def upwind(ctx, n=3, stored="same"):
    """every face flux equals the upwind reference; hence exchange is only between adjacent classes"""
    pbm, b0, w = mk_pbm(ctx, n)
    psd, g, nuc, rn = inputs(ctx, n, nuc=False)
    pbm.PSD = psd
    if stored == "other":
        store_other(ctx, pbm, n)
    # radius far above the grid: nucleation term goes to one class with rate 0
    d = pbm.getdXdtEuler(g, 0, 0, psd)
    J = ref_faces(ctx, n, psd, g, w)
    ctx.observe("netflux", pbm._netFlux)
    for i in range(n + 1):
        ctx.prove("face_flux_is_upwind", ctx.eq(pbm._netFlux[i], J[i]))
    for i in range(n):
        ctx.prove("dxdt_is_face_difference", ctx.eq(d[i], J[i] - J[i + 1]))


def nuc_class(ctx, n=3):
    """nuclei enter only the class [b_k, b_k+1) containing the nucleation radius (R = b_k included);
    for radii outside the grid the nearest class receives them (the smallest class below the grid, the largest above it)"""
    pbm, b0, w = mk_pbm(ctx, n)
    psd, g, nuc, rn = inputs(ctx, n)
    dt = ctx.real("dt", (0.05, 1.0)); ctx.assume(dt > 0)
    pbm.PSD = psd
    d = pbm.getdXdtEuler(g, nuc, rn, psd)
    nf = [pbm._netFlux[i] * 1 for i in range(n + 1)]
    extra = [d[i] - (nf[i] - nf[i + 1]) for i in range(n)]
    ctx.observe("extra", extra)
    bnds = [b0 + i * w for i in range(n + 1)]
    inside = ctx.all([bnds[0] <= rn, rn < bnds[n]])
    for k in range(n):
        ink = ctx.all([bnds[k] <= rn, rn < bnds[k + 1]])
        ctx.prove("nuclei_in_containing_class", ctx.implies(ink, ctx.all([ctx.eq(extra[i], nuc if i == k else 0.0 * nuc) for i in range(n)])))
    ctx.prove("nuclei_below_the_grid_enter_the_smallest_class",
              ctx.implies(rn < bnds[0], ctx.all([ctx.eq(extra[i], nuc if i == 0 else 0.0 * nuc) for i in range(n)])))
    ctx.prove("nuclei_above_the_grid_enter_the_largest_class",
              ctx.implies(rn >= bnds[n], ctx.all([ctx.eq(extra[i], nuc if i == n - 1 else 0.0 * nuc) for i in range(n)])))
    # exactly one class in every case
    ctx.prove("nuclei_in_exactly_one_class",
              ctx.any([ctx.all([ctx.eq(extra[i], nuc if i == k else 0.0 * nuc) for i in range(n)]) for k in range(n)]))
    d2 = pbm.correctdXdtEuler(dt, g, nuc, rn, psd)
    extra2 = [d2[i] - (pbm._netFlux[i] - pbm._netFlux[i + 1]) for i in range(n)]
    for k in range(n):
        ink = ctx.all([bnds[k] <= rn, rn < bnds[k + 1]])
        if k == 0:
            ink = ctx.any([ink, rn < bnds[0]])
        if k == n - 1:
            ink = ctx.any([ink, rn >= bnds[n]])
        ctx.prove("nuclei_in_containing_class_after_correction",
                  ctx.implies(ink, ctx.all([ctx.eq(extra2[i], nuc if i == k else 0.0 * nuc) for i in range(n)])))


def face_limit(ctx, n=3, stored="same"):
    """after correctdXdtEuler(dt) no face removes more than the class holds; faces that were within the limit keep
    their upwind value (the correction only ever limits)"""
    pbm, b0, w = mk_pbm(ctx, n)
    psd, g, nuc, rn = inputs(ctx, n)
    dt = ctx.real("dt", (0.05, 3.0)); ctx.assume(dt > 0)
    pbm.PSD = psd
    if stored == "other":
        store_other(ctx, pbm, n)
    pbm.getdXdtEuler(g, nuc, rn, psd)
    J = ref_faces(ctx, n, psd, g, w)
    pbm.correctdXdtEuler(dt, g, nuc, rn, psd)
    ctx.observe("netflux_corr", pbm._netFlux)
    for i in range(n):
        ctx.prove("lower_face_limited", ctx.le(-pbm._netFlux[i] * dt, psd[i]))
        ctx.prove("upper_face_limited", ctx.le(pbm._netFlux[i + 1] * dt, psd[i]))
    for i in range(n + 1):
        within = ctx.all([(-J[i] * dt <= psd[i]) if i < n else True, (J[i] * dt <= psd[i - 1]) if i >= 1 else True])
        ctx.prove("unlimited_face_unchanged", ctx.implies(within, ctx.eq(pbm._netFlux[i], J[i])))
        nf = pbm._netFlux[i]
        ctx.prove("correction_only_shrinks", ctx.all([ctx.implies(J[i] >= 0, ctx.all([ctx.le(0.0 * dt, nf), ctx.le(nf, J[i])])),
                                                       ctx.implies(J[i] <= 0, ctx.all([ctx.le(nf, 0.0 * dt), ctx.le(J[i], nf)]))]))


def nonneg(ctx, n=3, stored="same"):
    """a class whose two faces obey |g| dt <= r dR with r <= 1/2 does not become negative in an Euler update"""
    pbm, b0, w = mk_pbm(ctx, n)
    psd, g, nuc, rn = inputs(ctx, n)
    dt = ctx.real("dt", (0.05, 0.5)); ctx.assume(dt > 0)
    r = ctx.real("r", (0.1, 0.5)); ctx.assume(r > 0); ctx.assume(r <= 0.5)
    pbm.PSD = psd
    if stored == "other":
        store_other(ctx, pbm, n)
    d0 = pbm.getdXdtEuler(g, nuc, rn, psd)
    d = pbm.correctdXdtEuler(dt, g, nuc, rn, psd)
    for i in range(n):
        obey = ctx.all([g[i] * dt <= r * w, -g[i] * dt <= r * w, g[i + 1] * dt <= r * w, -g[i + 1] * dt <= r * w])
        ctx.prove("class_stays_nonnegative", ctx.implies(obey, ctx.le(0.0 * dt, psd[i] + dt * d[i])))
        ctx.prove("class_stays_nonnegative_uncorrected", ctx.implies(obey, ctx.le(0.0 * dt, psd[i] + dt * d0[i])))


def dt_limit(ctx, n=3, di=0, via=None):
    """getDTEuler = maxBinRatio * class width / max |g| over faces >= dissolutionIndex of populated classes,
    and the current dt when there is no such face or all those rates are zero.
    via="revert": the grid was installed by createBackup(); changeSizeClasses(..); revert();  via="load": by record(); ...;
    setPSDtoRecordedTime() -- the class width in the limit is that of the grid in force, however it was installed"""
    pbm, b0, w = mk_pbm(ctx, n)
    if via == "revert":
        pbm.createBackup()
        c0 = ctx.real("other_min", (0.3, 1.2)); c1 = ctx.real("other_max", (0.8, 3.0)); ctx.assume(c0 > 0)
        pbm.changeSizeClasses(c0, c1, n + 1)
        pbm.revert()
    elif via == "load":
        pbm.enableRecording()
        tr = ctx.real("record_time", (1.0, 2.0)); ctx.assume(tr > 0)
        pbm.record(tr)
        c0 = ctx.real("other_min", (0.3, 1.2)); cw = ctx.real("other_w", (0.1, 0.5)); ctx.assume(c0 > 0); ctx.assume(cw > 0)
        pbm.min = c0; pbm.max = c0 + (n + 1) * cw; pbm.bins = n + 1
        pbm.reset(False)
        with contextlib.redirect_stdout(io.StringIO()):
            pbm.setPSDtoRecordedTime(tr)
    if via is not None:
        ctx.prove("grid in force is the first one again", pbm.bins == n and len(pbm.PSDbounds) == n + 1 and
                  ctx.all([ctx.eq(pbm.PSDbounds[i], b0 + i * w) for i in range(n + 1)]))
    psd, g, nuc, rn = inputs(ctx, n, nuc=False)
    cur = ctx.real("currDT", (0.1, 10.0)); ratio = ctx.real("ratio", (0.1, 0.5))
    ctx.assume(cur > 0); ctx.assume(ratio > 0)
    pbm.PSD = psd
    dt = pbm.getDTEuler(cur, g, di, ratio)
    ctx.observe("dt", dt)
    rel = [ctx.all([psd[i] > 0]) for i in range(di, n)]
    absg = [ctx.ite(g[i] >= 0, g[i], -g[i]) for i in range(di, n)]
    none = ctx.all([ctx.any([ctx.neg(rel[k]), ctx.eq(absg[k], 0.0 * cur)]) for k in range(n - di)])
    ctx.prove("dt_is_current_when_no_relevant_rate", ctx.implies(none, ctx.eq(dt, cur)))
    # dt * |g_i| <= ratio*w for each relevant face, with equality for at least one
    for k in range(n - di):
        ctx.prove("dt_bounds_every_relevant_face", ctx.implies(ctx.all([rel[k], ctx.neg(none)]), ctx.le(dt * absg[k], ratio * w)))
    ctx.prove("dt_tight_for_fastest_face",
              ctx.implies(ctx.neg(none), ctx.any([ctx.all([rel[k], ctx.eq(dt * absg[k], ratio * w)]) for k in range(n - di)])))
    ctx.prove("dt_positive", ctx.lt(0.0 * cur, dt))


def diss_index(ctx, n=3, mi=0):
    """getDissolutionIndex >= minIndex; below the returned index the cumulative third moment is within the budget"""
    pbm, b0, w = mk_pbm(ctx, n)
    psd = ctx.reals("n", n, (0.0, 5.0))
    for i in range(n):
        ctx.assume(psd[i] >= 0)
    md = ctx.real("maxDiss", (0.0, 0.3)); ctx.assume(md >= 0); ctx.assume(md < 1)
    pbm.PSD = psd
    idx = pbm.getDissolutionIndex(md, mi)
    idx = int(idx)
    ctx.observe("idx", float(idx))
    ctx.prove("index_at_least_min", idx >= mi)
    ctx.prove("index_in_range", 0 <= idx < max(n, mi + 1))
    r = [b0 + (i + 0.5) * w for i in range(n)]
    m3 = sum(psd[i] * r[i] * r[i] * r[i] for i in range(n))
    below = sum((psd[i] * r[i] * r[i] * r[i] for i in range(min(idx, n))), 0.0 * md)
    if idx > mi:
        ctx.prove("volume_below_index_within_budget", ctx.le(below, md * m3))


def repeat(ctx, n=2):
    """a second evaluation on the same grid is not influenced by the first one (no state carried between calls)"""
    pbm, b0, w = mk_pbm(ctx, n)
    psd1 = ctx.reals("first_n", n, (0.0, 5.0)); g1 = ctx.reals("first_g", n + 1, (-1.0, 1.0))
    for i in range(n):
        ctx.assume(psd1[i] >= 0)
    nuc1 = ctx.real("first_nuc", (0.0, 2.0)); ctx.assume(nuc1 >= 0)
    dt1 = ctx.real("first_dt", (0.05, 1.0)); ctx.assume(dt1 > 0)
    pbm.PSD = psd1
    pbm.getdXdtEuler(g1, nuc1, b0 + 0.5 * w, psd1)
    pbm.correctdXdtEuler(dt1, g1, nuc1, b0 + 0.5 * w, psd1)
    psd, g, nuc, rn = inputs(ctx, n, nuc=False)
    pbm.PSD = psd
    d = pbm.getdXdtEuler(g, 0, 0, psd)
    J = ref_faces(ctx, n, psd, g, w)
    ctx.observe("netflux2", pbm._netFlux)
    for i in range(n + 1):
        ctx.prove("second call: face flux is the upwind flux of the second call's arguments only", ctx.eq(pbm._netFlux[i], J[i]))
    for i in range(n):
        ctx.prove("second call: dxdt is the face difference of the second call's arguments only", ctx.eq(d[i], J[i] - J[i + 1]))


def grain_growth(ctx, n=3):
    """GrainGrowthModel.getdXdt/correctdXdt reuse the PBM kernels: grain number changes only through the end faces"""
    gg = GrainGrowthModel(1e-10, 1e-9, n, 1, 10 * n)
    pbm, b0, w = mk_pbm(ctx, n)
    gg.pbm = pbm
    psd = ctx.reals("n", n, (0.5, 5.0))
    for i in range(n):
        ctx.assume(psd[i] > 0)
    z = ctx.real("z", (0.0, 1.0)); ctx.assume(z >= 0)
    dt = ctx.real("dt", (0.05, 1.0)); ctx.assume(dt > 0)
    amg = ctx.real("aMg", (0.1, 2.0)); ctx.assume(amg > 0)
    gg.alpha, gg.M, gg.gbe = 1.0, 1.0, amg
    gg._z = z
    pbm.PSD = psd
    d = gg.getdXdt(0.0, [psd])
    ctx.prove("grain_count_changes_only_at_ends", ctx.eq(sum(d[0]), pbm._netFlux[0] - pbm._netFlux[n]))
    gg.correctdXdt(dt, [psd], d)
    ctx.prove("grain_count_changes_only_at_ends_corrected", ctx.eq(sum(d[0]), pbm._netFlux[0] - pbm._netFlux[n]))


_F = [PBM.getdXdtEuler, PBM.correctdXdtEuler]
_A = ["class boundaries b0 + i*w with b0 > 0, w > 0 (the grid PopulationBalanceModel.reset builds with linspace)",
      "n_i >= 0, nucleation rate >= 0, dt > 0; growth field and nucleation radius unconstrained"]
HARNESSES = [
    Harness("C07.conserve", conserve, functions=_F, assumptions=_A, bounds={"classes": "n"},
            params={"quick": [{"n": 2}, {"n": 3}, {"n": 2, "stored": "other"}], "thorough": [{"n": 3}, {"n": 4, "_shards": 8}, {"n": 3, "stored": "other"}]}),
    Harness("C07.upwind", upwind, functions=_F, assumptions=_A, bounds={"classes": "n"},
            params={"quick": [{"n": 2}, {"n": 3}, {"n": 2, "stored": "other"}], "thorough": [{"n": 4}, {"n": 5}, {"n": 4, "stored": "other"}]}),
    Harness("C07.nuc_class", nuc_class, functions=_F, assumptions=_A, bounds={"classes": "n"},
            params={"quick": [{"n": 2}, {"n": 3}], "thorough": [{"n": 3}, {"n": 4, "_shards": 8}]}),
    Harness("C07.face_limit", face_limit, functions=_F, assumptions=_A, bounds={"classes": "n"},
            params={"quick": [{"n": 2}, {"n": 3, "_shards": 4}, {"n": 2, "stored": "other"}],
                    "thorough": [{"n": 3, "_shards": 4}, {"n": 4, "_shards": 16}, {"n": 3, "stored": "other", "_shards": 4}]}),
    Harness("C07.nonneg", nonneg, functions=_F, assumptions=_A + ["r <= 1/2 is the model's own step limit (maxBinRatio default 0.4)"],
            bounds={"classes": "n"}, params={"quick": [{"n": 2}, {"n": 3, "_shards": 2}, {"n": 2, "stored": "other"}],
                                           "thorough": [{"n": 3, "_shards": 2}, {"n": 4, "_shards": 8}, {"n": 3, "stored": "other", "_shards": 2}]}),
    Harness("C07.dt_limit", dt_limit, functions=[PBM.getDTEuler, PBM.createBackup, PBM.changeSizeClasses, PBM.revert, PBM.record, PBM.setPSDtoRecordedTime],
            assumptions=_A, bounds={"classes": "n", "dissolutionIndex": "di"},
            params={"quick": [{"n": 2, "di": 0}, {"n": 3, "di": 1}, {"n": 2, "di": 0, "via": "revert"}, {"n": 2, "di": 0, "via": "load"}],
                    "thorough": [{"n": 4, "di": 0}, {"n": 4, "di": 2}, {"n": 3, "di": 3}, {"n": 3, "di": 1, "via": "revert"}, {"n": 3, "di": 0, "via": "load"}]}),
    Harness("C07.diss_index", diss_index, functions=[PBM.getDissolutionIndex, PBM.CumulativeMoment, PBM.ThirdMoment],
            assumptions=_A, bounds={"classes": "n", "minIndex": "mi"},
            params={"quick": [{"n": 3, "mi": 0}, {"n": 3, "mi": 1}], "thorough": [{"n": 4, "mi": 0}, {"n": 4, "mi": 2}]}),
    Harness("C07.repeat", repeat, functions=_F, assumptions=_A, bounds={"classes": "n", "calls": 2},
            params={"quick": [{"n": 2}], "thorough": [{"n": 3, "_shards": 4}]}),
    Harness("C07.grain_growth", grain_growth, functions=[GrainGrowthModel.getdXdt, GrainGrowthModel.correctdXdt,
                                                          GrainGrowthModel.grainGrowth, GrainGrowthModel.constrainedGrowth] + _F,
            assumptions=_A + ["grain populations > 0 (Rcr = M2/M1 defined)"], bounds={"classes": "n"},
            params={"quick": [{"n": 2}], "thorough": [{"n": 3}]}),
]
