"""C15 (extra) -- the radius argument's dtype must not leak into the aspect ratio: integer radii (a Python int, an integer
array) give the same factors as the equal float radii, and a constant non-integer aspect ratio is returned as given."""
import numpy as np
from vk.run import Harness
from kawin.precipitation.parameters.ShapeFactors import ShapeFactor


def int_radius(ctx, shape="needle", ar=2.5, arr=False):
    sf = ShapeFactor(precipitateShape=shape, ar=ar)
    scale = ctx.real("scale", (0.5, 2.0)); ctx.assume(scale > 0)      # a symbolic float radius next to the integer one
    Ri = np.array([2, 3]) if arr else 2
    Rf = np.array([2.0, 3.0]) if arr else 2.0
    n = 2 if arr else 1
    ai = np.atleast_1d(sf.aspectRatio(Ri)); af = np.atleast_1d(sf.aspectRatio(Rf))
    for i in range(n):
        ctx.prove("constant aspect ratio is returned as given for an integer radius", ctx.eq(ai[i], float(ar)))
        ctx.prove("constant aspect ratio is returned as given for a float radius", ctx.eq(af[i], float(ar)))
    for name in ("eqRadiusFactor", "thermoFactor", "kineticFactor"):
        fi = np.atleast_1d(getattr(sf, name)(Ri)); ff = np.atleast_1d(getattr(sf, name)(Rf))
        for i in range(n):
            ctx.prove("%s: integer radius gives the same factor as the equal float radius" % name, ctx.eq(fi[i], ff[i]))
    ni = np.atleast_2d(sf.normalRadii(Ri)); nf = np.atleast_2d(sf.normalRadii(Rf))
    for i in range(n):
        for j in range(3):
            ctx.prove("normalRadii: integer radius gives the same semi-axes as the equal float radius", ctx.eq(ni[i][j], nf[i][j]))
    # the float path itself does not depend on the radius for a constant aspect ratio
    ctx.prove("constant aspect ratio does not depend on the (symbolic) radius", ctx.eq(np.atleast_1d(sf.aspectRatio(scale * 2.0))[0], float(ar)))


EXTRA = [
    Harness("C15.int_radius", int_radius, functions=[ShapeFactor._scalarAspectRatioEquation, ShapeFactor.thermoFactor, ShapeFactor.kineticFactor, ShapeFactor.eqRadiusFactor, ShapeFactor.normalRadii],
            assumptions=["constant aspect ratios 1.5 / 2.5 (non-integer), integer radii 2 and [2, 3] (concrete: integer dtypes are structure, not solver variables)"],
            bounds={"shapes": "needle, plate, cubic", "radius dtype": "int scalar / int array vs float"},
            params={"quick": [{"shape": s, "ar": a, "arr": r} for s in ("needle", "plate") for a in (2.5,) for r in (False, True)] + [{"shape": "cubic", "ar": 1.5, "arr": True}],
                    "thorough": [{"shape": s, "ar": a, "arr": r} for s in ("needle", "plate", "cubic", "sphere") for a in (1.5, 2.5) for r in (False, True)]}),
]
