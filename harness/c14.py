"""C14 -- nucleation quantities obey classical nucleation theory for every site type.

Real functions of kawin/precipitation/NucleationRate.py, the five site descriptions and NucleationBarrierParameters of
parameters/Nucleation.py, KWNEuler._calcNucleationSites and KWNBase._calcNucleationRate are executed on symbolic
driving forces, energies, temperatures, volumes ...; exp / arcsin / arccos are uninterpreted (positivity, monotonicity,
range axioms), sqrt / cbrt exact.  The thermodynamic backend is a stub returning uninterpreted values.
"""
import math
import numpy as np
from vk import core as _core
from vk.run import Harness
from kawin.Constants import AVOGADROS_NUMBER, BOLTZMANN_CONSTANT
from kawin.precipitation import NucleationRate as NR
from kawin.precipitation.parameters import Nucleation as NUC
from kawin.precipitation.parameters.Nucleation import NucleationBarrierParameters, NucleationSiteParameters
from kawin.precipitation.PrecipitationParameters import PrecipitateParameters, MatrixParameters, PrecipitationData
from kawin.precipitation.KWNEuler import PrecipitateModel
from kawin.precipitation.KWNBase import PrecipitateBase


# --------------------------------------------------------------------------- engine work-around (see report)
# kawin compares against / divides by np.inf (maxRatio of bulk sites, time = np.inf for the steady state).  The proxy
# refuses non-finite constants; for a *real-valued* x the IEEE results are exact: x < inf, x > -inf, x / +-inf = 0.
def _isinf(o):
    return isinstance(o, (float, np.floating)) and math.isinf(o)


if not getattr(_core.SymReal, "_c14_inf", False):
    _orig_cmp = _core.SymReal._cmp
    _orig_div = _core.SymReal.__truediv__

    def _cmp_inf(self, o, op):
        if _isinf(o):
            pos = o > 0
            return {"<": pos, "<=": pos, ">": not pos, ">=": not pos, "==": False, "!=": True}[op]
        return _orig_cmp(self, o, op)

    def _div_inf(self, o):
        if _isinf(o):
            return _core.SymReal(_core.rv(0), 1)
        return _orig_div(self, o)

    _core.SymReal._cmp = _cmp_inf
    _core.SymReal.__truediv__ = _div_inf
    _core.SymReal._c14_inf = True

    # the same condition object evaluated twice on one path (kawin indexes with the same mask expression repeatedly) must
    # get the same answer even when the feasibility check of the second evaluation times out
    _orig_decide = _core.Ctx.decide

    def _decide_memo(self, t):
        if self.mode != "symbolic":
            return _orig_decide(self, t)
        memo = self.__dict__.setdefault("_c14_memo", {})
        key = t.get_id()
        if key not in memo:
            memo[key] = (_orig_decide(self, t), t)
        return memo[key][0]

    _core.Ctx.decide = _decide_memo


# numpy's squeeze of a one-element array is a 0-d *array* (a mutable object that can be aliased and changed in place); the
# facade hands back the bare element instead, which hides in-place updates of the cached factors (`f = nuc.areaFactor;
# f /= x`).  The Nucleation module therefore gets a numpy stand-in that is the engine's facade except for squeeze, which
# keeps numpy's 0-d array.  (Registered from here as the HOWTO prescribes for facade gaps; transparent in concrete mode.)
import numpy as _rnp          # stays the real numpy (the facade is installed under the names np / numpy only)
from vk import symnp as _symnp


class _NpKeep0d:
    def __getattr__(self, name):
        return getattr(_symnp.FACADE, name)

    def squeeze(self, a, axis=None):
        if not _symnp.symbolic_mode():
            return _rnp.squeeze(a, axis=axis)
        return _rnp.squeeze(_symnp.plain(_symnp.to_obj(a)), axis=axis).view(_symnp.SymArray)


if not isinstance(NUC.__dict__.get("np"), _NpKeep0d):
    NUC.np = _NpKeep0d()


SITES = ("bulk", "dislocations", "grain boundaries", "grain edges", "grain corners")
IS_GB = {"bulk": False, "dislocations": False, "grain boundaries": True, "grain edges": True, "grain corners": True}
# admissible energy ratio k = gbEnergy / (2 gamma): strictly inside the site's limit (the limits sqrt(3)/2, sqrt(2/3)
# themselves are doubles in the code; the last 1e-4 below them is outside the claim)
KMAX = {"bulk": 5.0, "dislocations": 5.0, "grain boundaries": 0.9999, "grain edges": 0.8659, "grain corners": 0.8164}


def pos(ctx, name, rng):
    v = ctx.real(name, rng)
    ctx.assume(v > 0)
    return v


def new_prec(ctx):
    """PrecipitateParameters() also builds a strain-energy object that tabulates Lebedev nodes (trigonometry on np.pi):
    irrelevant here, so it is constructed with the numeric pi even when the harness runs with the symbolic constant"""
    sp = ctx.opts.get("symbolic_pi", False)
    ctx.opts["symbolic_pi"] = False
    try:
        return PrecipitateParameters("P")
    finally:
        ctx.opts["symbolic_pi"] = sp


def mk_prec(ctx, site, sym_k=True, rmin=True):
    """real PrecipitateParameters with symbolic gamma > 0, Rmin > 0 and (gb sites) symbolic gbEnergy = 2 k gamma"""
    p = new_prec(ctx)
    p.nucleation.setNucleationType(site)
    gamma = pos(ctx, "gamma", (0.05, 0.5))
    if IS_GB[site] or sym_k:
        k = ctx.real("k", (0.02, KMAX[site] * 0.9))
        ctx.assume(k >= 0); ctx.assume(k <= KMAX[site])
        p.nucleation.gbEnergy = 2 * k * gamma
    else:
        k = None
    p.gamma = gamma
    if rmin:
        p.Rmin = pos(ctx, "Rmin", (0.01, 0.3))
    return p, gamma, k


def sc(x):
    """0-d array -> its element (np.squeeze hands back 0-d arrays)"""
    if isinstance(x, np.ndarray) and x.ndim == 0:
        return x[()]
    return x


SAFETY_KINDS = ("divisor != 0", "sqrt argument >= 0", "arcsin argument in [-1,1]", "arccos argument in [-1,1]",
                "log argument > 0", "pow base/exponent domain", "division by the constant 0")


def safe(ctx, name, outs, site=None):
    """symbolic: pose every collected domain side condition (divisors != 0, sqrt / arcsin / arccos arguments).
    concrete (validation and replay of a side-condition counterexample): the same obligation names hold iff the code
    produced no inf / nan in the listed outputs -- that is what a violated side condition looks like on plain numpy"""
    if ctx.mode == "symbolic":
        if site == "grain corners":
            # the arccos argument of delta(k) (nested radicals) is beyond the solver: outside the claim
            ctx.safety = [x for x in ctx.safety if "arccos" not in x[1]]
        ctx.safe(name)
        return
    ok = True
    if ctx.mode == "concrete":
        for o in outs:
            ok = ok and bool(np.all(np.isfinite(np.asarray(o, dtype=float))))
    for kind in SAFETY_KINDS:
        ctx.prove("%s:%s" % (name, kind), ok)


def factors(ctx, p, site):
    """the three cached factors; for edge/corner sites their positivity is an assumption (opaque arcsin/arccos)"""
    nb = p.nucleation
    b, a, c = nb.areaFactor, nb.gbRemoval, nb.volumeFactor
    b, a, c = (x if not isinstance(x, np.ndarray) else x[()] for x in (b, a, c))
    return b, a, c


# =========================================================================== 1. barrier
def barrier(ctx, site="bulk", n=1):
    """nucleationBarrier: dG <= 0 -> Rcrit = Gcrit = 0; dG > 0 -> Rcrit = max(2 gamma / dG, Rmin) (every site type:
    the Clemm-Fisher critical radius is the spherical one) and Gcrit = (4 pi/3 gamma Rcrit^2) * volumeFactor/(4 pi/3)"""
    p, gamma, k = mk_prec(ctx, site)
    dG = ctx.reals("dG", n, (-1.0, 3.0)) if n > 1 else ctx.real("dG", (-1.0, 3.0))
    if IS_GB[site]:
        b, a, c = factors(ctx, p, site)
        if site != "grain boundaries":
            ctx.assume(c > 0, "volume factor of edge/corner nuclei positive inside the admissible range")
    else:
        c = 4 * np.pi / 3
    R, G = NR.nucleationBarrier(dG, p)
    ctx.observe("Rcrit", sc(R)); ctx.observe("Gcrit", sc(G))
    Rs = [R] if n == 1 else list(R)
    Gs = [G] if n == 1 else list(G)
    ds = [dG] if n == 1 else list(dG)
    for i in range(n):
        Ri, Gi, di = Rs[i], Gs[i], ds[i]
        Ri = Ri[()] if isinstance(Ri, np.ndarray) else Ri
        Gi = Gi[()] if isinstance(Gi, np.ndarray) else Gi
        ctx.prove("dG <= 0: Rcrit = 0 and Gcrit = 0", ctx.implies(di <= 0, ctx.all([ctx.eq(Ri, 0.0), ctx.eq(Gi, 0.0)])))
        ctx.prove("dG > 0: Rcrit >= Rmin", ctx.implies(di > 0, ctx.le(p.Rmin, Ri)))
        free = ctx.all([di > 0, 2 * gamma >= p.Rmin * di])       # 2 gamma / dG >= Rmin: the clamp is inactive
        clamp = ctx.all([di > 0, 2 * gamma < p.Rmin * di])
        ctx.prove("dG > 0, no clamp: Rcrit is the spherical 2 gamma / dG", ctx.implies(free, ctx.eq(Ri * di, 2 * gamma)))
        ctx.prove("dG > 0, clamped: Rcrit = Rmin", ctx.implies(clamp, ctx.eq(Ri, p.Rmin)))
        ref = gamma * c * Ri * Ri          # (4 pi/3 gamma R^2) * c / (4 pi/3)
        ctx.prove("dG > 0, no clamp: Gcrit = spherical barrier * volumeFactor/(4 pi/3)", ctx.implies(free, ctx.eq(Gi, ref)))
        ctx.prove("dG > 0, no clamp: Gcrit >= 0", ctx.implies(free, ctx.le(0.0, Gi)))
        ctx.prove("dG > 0, Rmin clamp active: Gcrit = spherical barrier * volumeFactor/(4 pi/3)", ctx.implies(clamp, ctx.eq(Gi, ref)))
        ctx.prove("dG > 0, Rmin clamp active: Gcrit >= 0", ctx.implies(clamp, ctx.le(0.0, Gi)))
    safe(ctx, "barrier well defined", [R, G], site)
    if n > 1:
        R0, G0 = NR.nucleationBarrier(ds[n - 1], p)
        ctx.prove("scalar and array arguments agree", ctx.all([ctx.eq(sc(R0), sc(Rs[n - 1])), ctx.eq(sc(G0), sc(Gs[n - 1]))]))


# =========================================================================== 2. Clemm-Fisher factors
def mk_desc(site):
    nb = NucleationBarrierParameters(site=site, gamma=1.0, gbEnergy=0.0)     # the real name -> description lookup
    return nb.description


def cf_identity(ctx, site="grain edges", n=1, safety=True):
    """areaFactor(k) - 2 k gbRemoval(k) = 3 volumeFactor(k) for every admissible k (public description API, scalar and
    array argument); all divisors / sqrt / arcsin / arccos arguments inside their domains"""
    d = mk_desc(site)
    if n == 1:
        k = ctx.real("k", (0.02, KMAX[site] * 0.9)); ks = [k]
    else:
        k = ctx.reals("k", n, (0.02, KMAX[site] * 0.9)); ks = list(k)
    for ki in ks:
        ctx.assume(ki >= 0); ctx.assume(ki <= KMAX[site])
    b = d.areaFactor(k, setInvalidToNan=False)
    a = d.gbRemoval(k, setInvalidToNan=False)
    c = d.volumeFactor(k, setInvalidToNan=False)
    ctx.observe("area", sc(b)); ctx.observe("gbrem", sc(a)); ctx.observe("vol", sc(c))
    bs, as_, cs = ([sc(x)] if n == 1 else list(x) for x in (b, a, c))
    for i in range(n):
        ctx.prove("areaFactor - 2k*gbRemoval = 3*volumeFactor", ctx.eq(bs[i] - 2 * ks[i] * as_[i], 3 * cs[i], rtol=1e-7, atol=1e-9))
    if safety:
        safe(ctx, "factor formulas well defined", [b, a, c], site)
    if n > 1:
        # array and scalar calls agree
        b0 = sc(d.areaFactor(ks[0], setInvalidToNan=False)); c1 = sc(d.volumeFactor(ks[n - 1], setInvalidToNan=False))
        ctx.prove("scalar and array calls agree", ctx.all([ctx.eq(b0, bs[0]), ctx.eq(c1, cs[n - 1])]))


def close(x, y, tol=1e-12):
    return abs(float(x) - float(y)) <= tol * max(1.0, abs(float(y)))


class plain_numpy:
    """evaluate a piece of kawin on plain numpy in every mode: for all-concrete arguments the facade adds nothing, and the
    dtype semantics (integer vs float buffers) are numpy's own -- dtypes are structure, not solver variables"""

    def __init__(self, ctx):
        self.ctx = ctx

    def __enter__(self):
        self.mode = self.ctx.mode
        self.ctx.mode = "concrete"

    def __exit__(self, *exc):
        self.ctx.mode = self.mode
        return False


K0_FORMS = {
    "float": (lambda: 0.0, lambda: np.array([0.0, 0.0])),
    "int": (lambda: 0, lambda: [0, 0]),
    "int64": (lambda: np.int64(0), lambda: np.zeros(3, dtype=int)),
    "intarray": (lambda: np.array(0), lambda: np.array([0, 0])),
}


def cf_k0(ctx, site="grain edges", kform="float"):
    """at k = 0 the area and volume factors are the spherical 4 pi and 4 pi / 3 (plain evaluation, no unknowns), however
    the zero ratio is written: float, Python int, np.int64, integer arrays (kform); scalar and array calls agree;
    kform=float also: the cached factors of a NucleationBarrierParameters with gbEnergy = 0 are spherical and with them
    the heterogeneous Rcrit / Gcrit are the bulk expressions for every positive driving force"""
    import numpy as rnp
    d = mk_desc(site)
    dG = pos(ctx, "dG", (0.5, 3.0))
    mk_scalar, mk_array = K0_FORMS[kform]
    with plain_numpy(ctx):
        b = d.areaFactor(mk_scalar()); c = d.volumeFactor(mk_scalar())
        ba = rnp.asarray(d.areaFactor(mk_array())); ca = rnp.asarray(d.volumeFactor(mk_array()))
        ra = rnp.asarray(d.areaRemoval(mk_array())); ga = rnp.asarray(d.gbRemoval(mk_scalar()))
    b = float(b); c = float(c)
    ctx.observe("b", b); ctx.observe("c", c)
    ctx.prove("areaFactor(0) = 4 pi", close(b, 4 * math.pi) and all(close(v, 4 * math.pi) for v in ba.ravel()))
    ctx.prove("volumeFactor(0) = 4 pi / 3", close(c, 4 * math.pi / 3) and all(close(v, 4 * math.pi / 3) for v in ca.ravel()))
    ctx.prove("scalar and array calls agree", ba.shape == ca.shape == ra.shape == rnp.shape(mk_array()) and
              all(float(v) == b for v in ba.ravel()) and all(float(v) == c for v in ca.ravel()))
    if kform != "float":
        return
    nb = NucleationBarrierParameters(site=site, gamma=0.37, gbEnergy=0.0)
    ctx.prove("cached factors at gbEnergy = 0 are spherical", close(sc(nb.areaFactor), 4 * math.pi) and close(sc(nb.volumeFactor), 4 * math.pi / 3))
    # with the spherical factors the heterogeneous barrier is the bulk one (symbolic dG, gamma fixed)
    R = nb.Rcrit(dG)
    G = nb.Gcrit(dG, R)
    ctx.observe("R", sc(R)); ctx.observe("G", sc(G))
    ctx.prove("k = 0: Rcrit = 2 gamma / dG", close_sym(ctx, sc(R) * dG, 0.74))
    ctx.prove("k = 0: Gcrit = 4 pi/3 gamma Rcrit^2", close_sym(ctx, sc(G) * dG * dG, 4 * math.pi / 3 * 0.37 * 0.74 * 0.74))


def close_sym(ctx, x, y, tol=1e-9):
    """|x - y| <= tol*|y| for a constant y (floating-point evaluated constants carry rounding)"""
    if ctx.mode == "concrete":
        return close(x, y, tol)
    return ctx.all([ctx.le(y - tol * abs(y), x), ctx.le(x, y + tol * abs(y))])


def cf_grid(ctx, site="grain edges", N=400):
    """SAMPLED, not proved (the edge / corner formulas need the real arcsin / arccos): on N+1 equally spaced ratios in
    [0, description.maxRatio - 1e-4] every factor is finite and >= 0, the Clemm-Fisher identity holds to 1e-9, and the volume factor
    decreases from the spherical value"""
    d = mk_desc(site)
    top = (float(d.maxRatio) - 1e-4) if math.isfinite(d.maxRatio) else 5.0      # the code's own admissible range
    ks = np.array([top * i / N for i in range(N + 1)], dtype=float)
    b = np.asarray(d.areaFactor(ks), dtype=float); a = np.asarray(d.gbRemoval(ks), dtype=float)
    c = np.asarray(d.volumeFactor(ks), dtype=float); r = np.asarray(d.areaRemoval(ks), dtype=float)
    ctx.observe("c_mid", float(c[N // 2])); ctx.observe("b_mid", float(b[N // 2]))
    tag = "sampled (%d points): " % (N + 1)
    ctx.prove(tag + "factors finite", bool(np.all(np.isfinite(b)) and np.all(np.isfinite(a)) and np.all(np.isfinite(c)) and np.all(np.isfinite(r))))
    ctx.prove(tag + "factors >= 0", bool(np.all(b >= 0) and np.all(a >= 0) and np.all(c >= 0) and np.all(r >= 0)))
    ctx.prove(tag + "areaFactor - 2k*gbRemoval = 3*volumeFactor", bool(np.all(np.abs(b - 2 * ks * a - 3 * c) <= 1e-9)))
    ctx.prove(tag + "volumeFactor does not increase with k", bool(np.all(np.diff(c) <= 1e-12)))
    if IS_GB[site]:
        ctx.prove(tag + "volumeFactor decreases with k", bool(np.all(np.diff(c) < 0)))
    ctx.prove(tag + "spherical values at k = 0", close(b[0], 4 * math.pi) and close(c[0], 4 * math.pi / 3))


def gb_poly(ctx):
    """grain-boundary site (polynomial factors): all factors >= 0 on 0 <= k < 1, the volume factor strictly decreases in k"""
    d = mk_desc("grain boundaries")
    k = ctx.reals("k", 2, (0.0, 0.99))
    ctx.assume(k[0] >= 0); ctx.assume(k[0] < k[1]); ctx.assume(k[1] < 1)
    b = d.areaFactor(k, setInvalidToNan=False); a = d.gbRemoval(k, setInvalidToNan=False)
    c = d.volumeFactor(k, setInvalidToNan=False); r = d.areaRemoval(k, setInvalidToNan=False)
    ctx.observe("b", b); ctx.observe("a", a); ctx.observe("c", c); ctx.observe("r", r)
    for i in range(2):
        ctx.prove("areaFactor >= 0", ctx.le(0.0, b[i]))
        ctx.prove("gbRemoval >= 0", ctx.le(0.0, a[i]))
        ctx.prove("volumeFactor >= 0", ctx.le(0.0, c[i]))
        ctx.prove("areaRemoval >= 0", ctx.le(0.0, r[i]))
    ctx.prove("volumeFactor decreases with k", ctx.lt(c[1], c[0]))
    safe(ctx, "factor formulas well defined", [b, a, c, r])


# =========================================================================== 3. rate chain
class Therm:
    """stand-in for the thermodynamic backend: every query is an uninterpreted function of its arguments with the
    physical sign (diffusivities > 0, compositions in (0,1), impingement factor > 0)"""
    numElements = 2

    def __init__(self, ctx):
        self.ctx = ctx

    def _pos(self, name, *args, rng=(0.1, 2.0)):
        v = self.ctx.uf(name, *args, rng=rng)
        self.ctx.assume(v > 0, "backend: %s > 0" % name)
        return v

    def getTracerDiffusivity(self, x, T, removeCache=False):
        x = list(np.atleast_1d(x)); T = list(np.atleast_1d(T))
        out = np.zeros((len(x), 2))
        for i in range(len(x)):
            out[i, 0] = self._pos("D0", x[i], T[i]); out[i, 1] = self._pos("D1", x[i], T[i])
        return out

    def getInterfacialComposition(self, T, gExtra, precPhase=None):
        T = list(np.atleast_1d(T))
        xa = np.zeros(len(T)); xb = np.zeros(len(T))
        for i in range(len(T)):
            a = self._pos("xEqAlpha", T[i], rng=(0.05, 0.3)); b = self._pos("xEqBeta", T[i], rng=(0.5, 0.9))
            self.ctx.assume(a < 1); self.ctx.assume(b < 1); self.ctx.assume(a < b, "backend: precipitate richer in solute than the matrix")
            xa[i] = a; xb[i] = b
        return xa, xb

    def impingementFactor(self, x, T, precPhase=None, removeCache=False, searchDir=None):
        v = self.ctx.uf("impingement", *list(np.atleast_1d(x)), T)
        self.ctx.assume(v > 0, "backend: impingement factor > 0")
        return v


def mk_matrix(ctx):
    m = MatrixParameters(["A"])
    m.volume.setVolume(pos(ctx, "a", (0.5, 1.5)), "a", 4)
    m.theta = pos(ctx, "theta", (1.0, 13.0))
    return m


def chain(ctx, p, matrix, therm, dG, T, x, beta_kind, time):
    R, G = NR.nucleationBarrier(dG, p)
    Z = NR.zeldovich(T, R, p)
    if beta_kind == 1:
        beta = NR.betaBinary1(therm, x, T, R, matrix, p)
    elif beta_kind == 2:
        beta = NR.betaBinary2(therm, x, T, R, matrix, p)
    else:
        beta = NR.betaMulti(therm, np.atleast_2d(x).T if np.ndim(x) == 1 else x, T, R, matrix, p)
    tau = NR.incubationTime(beta, Z, matrix)
    rate = NR.nucleationRate(Z, beta, G, T, tau, time=time)
    return R, G, Z, beta, tau, rate


def elems(v, n):
    v = sc(v)
    return [v] if n == 1 else [sc(e) for e in v]


def rates(ctx, site="bulk", beta_kind=1, n=1):
    """barrier -> Zeldovich -> impingement -> incubation time -> rate (+ nucleation radius) on symbolic dG, gamma, T,
    Vm, a, x, theta, time: everything is 0 for dG <= 0, everything is >= 0 and every division / root is well defined
    for dG > 0; the transient rate never exceeds the steady-state rate (incubation factor in [0,1])"""
    p, gamma, k = mk_prec(ctx, site, sym_k=False)
    p.volume.setVolume(pos(ctx, "VmB", (0.5e23, 2e23)), "VM", 4)
    matrix = mk_matrix(ctx)
    therm = Therm(ctx)
    if site in ("grain edges", "grain corners"):
        b, a, c = factors(ctx, p, site)
        ctx.assume(c > 0, "volume factor of edge/corner nuclei positive inside the admissible range")
        ctx.assume(b > 0, "area factor of edge/corner nuclei positive inside the admissible range")
    if n == 1:
        dG = ctx.real("dG", (-1.0, 3.0)); T = pos(ctx, "T", (1e22, 1e23)); x = pos(ctx, "x", (0.01, 0.3))
        Ts, xs = [T], [x]
    else:
        dG = ctx.reals("dG", n, (-1.0, 3.0)); T = ctx.reals("T", n, (1e22, 1e23)); x = ctx.reals("x", n, (0.01, 0.3))
        Ts, xs = list(T), list(x)
        for i in range(n):
            ctx.assume(T[i] > 0); ctx.assume(x[i] > 0)
    for xi in xs:
        ctx.assume(xi < 1)
    t = pos(ctx, "time", (0.1, 5.0))
    R, G, Z, beta, tau, rate = chain(ctx, p, matrix, therm, dG, T, x, beta_kind, t)
    rate_ss = NR.nucleationRate(Z, beta, G, T, tau)          # time = inf
    Rn = NR.nucleationRadius(T, R, p)
    for nm, v in (("R", R), ("G", G), ("Z", Z), ("beta", beta), ("tau", tau), ("rate", rate), ("rate_ss", rate_ss), ("Rnuc", Rn)):
        ctx.observe(nm, sc(v))
    # evaluating the chain must not touch the cached factors: same impingement rate when asked again, factors still
    # those of the description at the current energy ratio
    R_, G_, Z_, beta2, tau_, rate_ = chain(ctx, p, matrix, therm, dG, T, x, beta_kind, t)
    nbp = p.nucleation
    kcur = nbp.gbEnergy / (2 * gamma)
    cached = [sc(nbp.areaFactor), sc(nbp.volumeFactor), sc(nbp.gbRemoval)]
    fresh_ = [sc(f(kcur, setInvalidToNan=False)) for f in (nbp.description.areaFactor, nbp.description.volumeFactor, nbp.description.gbRemoval)]
    ctx.observe("cached", cached); ctx.observe("beta2", sc(beta2))
    ds = elems(dG, n)
    R, G, Z, beta, tau, rate, rate_ss, Rn = (elems(v, n) for v in (R, G, Z, beta, tau, rate, rate_ss, Rn))
    beta2 = elems(beta2, n)
    ctx.prove("cached factors are still those of the current energies after the rates were evaluated",
              ctx.all([ctx.eq(a_, b_) for a_, b_ in zip(cached, fresh_)]))
    for i in range(n):
        ctx.prove("impingement rate is the same when evaluated again", ctx.eq(beta[i], beta2[i]))
    for i in range(n):
        off = ds[i] <= 0
        ctx.prove("dG <= 0: Z, beta, tau, rate all zero",
                  ctx.implies(off, ctx.all([ctx.eq(v[i], 0.0) for v in (R, G, Z, beta, tau, rate, rate_ss)])))
        ctx.prove("Zeldovich factor >= 0", ctx.le(0.0, Z[i]))
        ctx.prove("impingement rate >= 0", ctx.le(0.0, beta[i]))
        ctx.prove("incubation time >= 0", ctx.le(0.0, tau[i]))
        ctx.prove("nucleation rate >= 0", ctx.le(0.0, rate[i]))
        ctx.prove("steady-state rate >= 0", ctx.le(0.0, rate_ss[i]))
        ctx.prove("transient rate <= steady-state rate (incubation factor <= 1)", ctx.le(rate[i], rate_ss[i]))
    safe(ctx, "every division / root / exp argument well defined", [R, G, Z, beta, tau, rate, rate_ss, Rn], site)
    if n > 1:
        j = n - 1
        Zs = sc(NR.zeldovich(Ts[j], R[j], p)); taus = sc(NR.incubationTime(beta[j], Z[j], matrix))
        rs = sc(NR.nucleationRate(Z[j], beta[j], G[j], Ts[j], tau[j], time=t)); Rns = sc(NR.nucleationRadius(Ts[j], R[j], p))
        ctx.prove("scalar and array arguments agree", ctx.all([ctx.eq(Zs, Z[j]), ctx.eq(taus, tau[j]), ctx.eq(rs, rate[j]), ctx.eq(Rns, Rn[j])]))


def incubation(ctx, n=1, steady=True):
    """nucleationRate on symbolic Z, beta >= 0, Gcrit != 0, T > 0, tau >= 0: rate(t) >= 0, rising with t (strictly
    while the delay matters: tau > 0 and a positive rate), bounded by the steady-state value (t = inf, steady=True):
    the incubation factor min(exp(-tau/t), 1) is in [0,1] and rises with t"""
    Z = ctx.reals("Z", n, (0.1, 2.0)); beta = ctx.reals("beta", n, (0.1, 2.0)); G = ctx.reals("G", n, (0.1, 2.0))
    T = ctx.reals("T", n, (1e22, 1e23)); tau = ctx.reals("tau", n, (0.0, 3.0))
    for i in range(n):
        ctx.assume(Z[i] >= 0); ctx.assume(beta[i] >= 0); ctx.assume(T[i] > 0); ctx.assume(tau[i] >= 0)
    t1 = pos(ctx, "t1", (0.1, 2.0)); t2 = ctx.real("t2", (2.0, 9.0)); ctx.assume(t1 < t2)
    r1 = NR.nucleationRate(Z, beta, G, T, tau, time=t1)
    r2 = NR.nucleationRate(Z, beta, G, T, tau, time=t2)
    ctx.observe("r1", sc(r1)); ctx.observe("r2", sc(r2))
    if steady:
        rs = NR.nucleationRate(Z, beta, G, T, tau)
        ctx.observe("rs", sc(rs))
        rs = elems(rs, n)
    r1, r2 = (elems(v, n) for v in (r1, r2))
    for i in range(n):
        ctx.prove("rate(t) >= 0", ctx.all([ctx.le(0.0, r1[i]), ctx.le(0.0, r2[i])]))
        ctx.prove("rate rises with time", ctx.le(r1[i], r2[i]))
        live = ctx.all([tau[i] > 0, Z[i] > 0, beta[i] > 0, ctx.neg(G[i] == 0)])
        ctx.prove("rate rises strictly with time while the incubation delay matters", ctx.implies(live, ctx.lt(r1[i], r2[i])))
        ctx.prove("Gcrit = 0 (no barrier computed): rate 0", ctx.implies(G[i] == 0, ctx.eq(r1[i], 0.0)))
        if steady:
            ctx.prove("rate(t) <= steady-state rate", ctx.le(r2[i], rs[i]))
            ctx.prove("tau = 0: no incubation delay", ctx.implies(tau[i] <= 0, ctx.eq(r1[i], rs[i])))
    safe(ctx, "divisions well defined", [r1, r2] + ([rs] if steady else []))


def monotone(ctx, site="bulk", beta_kind=1):
    """at fixed temperature and composition the steady-state rate does not decrease with the driving force
    (dG1 < dG2, both signs, Rmin clamp included)"""
    p, gamma, k = mk_prec(ctx, site, sym_k=False)
    p.volume.setVolume(pos(ctx, "VmB", (0.5e23, 2e23)), "VM", 4)
    matrix = mk_matrix(ctx)
    therm = Therm(ctx)
    d1 = ctx.real("dG1", (-1.0, 2.0)); d2 = ctx.real("dG2", (0.5, 4.0)); ctx.assume(d1 < d2)
    T0 = pos(ctx, "T", (1e22, 1e23)); x0 = pos(ctx, "x", (0.01, 0.3)); ctx.assume(x0 < 1)
    dG = np.array([d1, d2]); T = np.array([T0, T0]); x = np.array([x0, x0])
    R, G, Z, beta, tau, rate = chain(ctx, p, matrix, therm, dG, T, x, beta_kind, np.inf)
    ctx.observe("rate", rate); ctx.observe("G", G)
    # rate = (Z*beta) * exp(-Gcrit/kT): the two factors separately (sufficient for the claim; with opaque exp a violation of
    # the product alone would not replay)
    ctx.prove("lemma for rate monotonicity: barrier does not increase with driving force (both positive)", ctx.implies(d1 > 0, ctx.le(G[1], G[0])))
    ctx.prove("lemma for rate monotonicity: Z*beta does not decrease with driving force (both positive)", ctx.implies(d1 > 0, ctx.le(Z[0] * beta[0], Z[1] * beta[1])))
    # a barrier of exactly 0 at a positive driving force would be read by nucleationRate as "no barrier computed" (rate 0);
    # C14.barrier shows Gcrit = volumeFactor*gamma*Rcrit^2 > 0 there, so the guard is vacuous on a tree that passes C14.barrier
    regular = ctx.neg(ctx.all([d2 > 0, G[1] == 0]))
    ctx.prove("steady-state rate does not decrease with driving force", ctx.implies(regular, ctx.le(rate[0], rate[1])))


# =========================================================================== 3b. argument purity
def snapshot(arr):
    return [e * 1 if not isinstance(e, (float, np.floating)) else float(e) for e in np.asarray(arr).ravel()]


def unchanged(ctx, arr, copy):
    """the caller's array still holds, element by element, what it held before the call (and nothing non-finite)"""
    cur = list(np.asarray(arr).ravel())
    if len(cur) != len(copy):
        return False
    for e in cur:
        if isinstance(e, (float, np.floating)) and not math.isfinite(e):
            return False
    return ctx.all([ctx.eq(a, b) for a, b in zip(cur, copy)])


def purity(ctx, site="bulk", beta_kind=1):
    """every array-taking function of NucleationRate.py leaves the arrays the caller hands in unchanged (driving force, T,
    x, Rcrit, Gcrit, Z, beta, tau: compared element-wise with copies taken before the call), and a second call with
    the very same arrays gives the same result -- in particular rate 0 for the non-positive driving force dG[0]"""
    p, gamma, k = mk_prec(ctx, site, sym_k=False)
    p.volume.setVolume(pos(ctx, "VmB", (0.5e23, 2e23)), "VM", 4)
    matrix = mk_matrix(ctx)
    therm = Therm(ctx)
    if site in ("grain edges", "grain corners"):
        b, a, c = factors(ctx, p, site)
        ctx.assume(c > 0, "volume factor of edge/corner nuclei positive inside the admissible range")
        ctx.assume(b > 0, "area factor of edge/corner nuclei positive inside the admissible range")
    n = 2
    dG = ctx.reals("dG", n, (-1.0, 3.0)); T = ctx.reals("T", n, (1e22, 1e23)); x = ctx.reals("x", n, (0.01, 0.3))
    ctx.assume(dG[0] <= 0, "the first entry is a non-positive driving force")
    for i in range(n):
        ctx.assume(T[i] > 0); ctx.assume(x[i] > 0); ctx.assume(x[i] < 1)
    t = pos(ctx, "time", (0.1, 5.0))
    dG0, T0, x0 = snapshot(dG), snapshot(T), snapshot(x)
    xx = np.atleast_2d(x).T if beta_kind == 3 else x

    def beta_of(R):
        if beta_kind == 1:
            return NR.betaBinary1(therm, x, T, R, matrix, p)
        if beta_kind == 2:
            return NR.betaBinary2(therm, x, T, R, matrix, p)
        return NR.betaMulti(therm, xx, T, R, matrix, p)

    nm_b = "nucleationBarrier leaves the caller's driving-force array unchanged (finite, same values)"
    try:
        R, G = NR.nucleationBarrier(dG, p)
        ok = unchanged(ctx, dG, dG0)
        R2, G2 = NR.nucleationBarrier(dG, p)
    except _core.VkError as e:
        if "non-finite" not in str(e):
            raise
        # the real code stored inf / nan into an array of reals: on plain numpy this is the caller's array holding inf
        ctx.prove(nm_b, False)
        return
    ctx.prove(nm_b, ctx.all([ok, unchanged(ctx, dG, dG0)]))
    ctx.prove("nucleationBarrier: second call with the same array gives the same result",
              ctx.all([ctx.eq(R[i], R2[i]) for i in range(n)] + [ctx.eq(G[i], G2[i]) for i in range(n)]))
    R0, G0 = snapshot(R), snapshot(G)
    Z = NR.zeldovich(T, R, p)
    ctx.prove("zeldovich leaves T and Rcrit unchanged", ctx.all([unchanged(ctx, T, T0), unchanged(ctx, R, R0)]))
    beta = beta_of(R)
    ctx.prove("impingement rate function leaves x, T and Rcrit unchanged", ctx.all([unchanged(ctx, x, x0), unchanged(ctx, T, T0), unchanged(ctx, R, R0)]))
    Z0, b0 = snapshot(Z), snapshot(beta)
    tau = NR.incubationTime(beta, Z, matrix)
    ctx.prove("incubationTime leaves beta and Z unchanged", ctx.all([unchanged(ctx, beta, b0), unchanged(ctx, Z, Z0)]))
    tau0 = snapshot(tau)
    rate = NR.nucleationRate(Z, beta, G, T, tau, time=t)
    ctx.prove("nucleationRate leaves Z, beta, Gcrit, T and tau unchanged",
              ctx.all([unchanged(ctx, Z, Z0), unchanged(ctx, beta, b0), unchanged(ctx, G, G0), unchanged(ctx, T, T0), unchanged(ctx, tau, tau0)]))
    Rn = NR.nucleationRadius(T, R, p)
    ctx.prove("nucleationRadius leaves T and Rcrit unchanged", ctx.all([unchanged(ctx, T, T0), unchanged(ctx, R, R0)]))
    ctx.observe("rate", rate); ctx.observe("R", R)
    # the whole chain once more on the very same input arrays
    R3, G3, Z3, beta3, tau3, rate3 = chain(ctx, p, matrix, therm, dG, T, xx, beta_kind, t)
    ctx.prove("second evaluation with the same arrays: same rate", ctx.all([ctx.eq(rate[i], rate3[i]) for i in range(n)]))
    ctx.prove("second evaluation with the same arrays: rate 0 for the non-positive driving force", ctx.all([ctx.eq(rate3[0], 0.0), ctx.eq(R3[0], 0.0), ctx.eq(G3[0], 0.0)]))
    ctx.prove("caller's arrays unchanged after the whole chain", ctx.all([unchanged(ctx, dG, dG0), unchanged(ctx, T, T0), unchanged(ctx, x, x0)]))


# =========================================================================== 4. cached factors
CLS = {"bulk": NUC.BulkDescription, "dislocations": NUC.DislocationDescription, "grain boundaries": NUC.GrainBoundaryDescription,
       "grain edges": NUC.GrainEdgeDescription, "grain corners": NUC.GrainCornerDescription}


def cache(ctx, site0="grain boundaries", ops=("gamma", "gbe", "site:grain edges"), owned=False, conc_gamma=False):
    """after every step of a sequence of gamma= / gbEnergy= / setNucleationType with symbolic values (factors read
    in between, so that the cache is populated) each cached factor equals the current description's function of the
    *current* gbEnergy / (2 gamma).  owned: the object belongs to a PrecipitateParameters and gamma is set there."""
    if owned:
        p = new_prec(ctx); nb = p.nucleation
    else:
        p = None; nb = NucleationBarrierParameters(site="bulk", gamma=0.2, gbEnergy=0.1)
    gvals = iter([0.3, 0.45, 0.25, 0.35, 0.4])

    def fresh(tag):
        # conc_gamma: the interfacial energies are fixed distinct numbers (keeps the ratio linear in gbEnergy for the
        # corner formulas with their nested radicals); gbEnergy stays symbolic
        g = next(gvals) if conc_gamma else pos(ctx, "gamma" + tag, (0.2, 0.5))
        e = ctx.real("gbE" + tag, (0.0, 0.3)); ctx.assume(e >= 0)
        return g, e, pos(ctx, "dG" + tag, (0.5, 3.0))

    # all inputs and all admissibility assumptions first (the states the sequence passes through are known statically)
    g, e, dG = fresh("0")
    plan = [("init", site0, g, e, dG)]
    site = site0
    for i, op in enumerate(ops):
        g2, e2, dG = fresh("s%d" % (i + 1))
        if op == "gamma":
            g = g2
        elif op == "gbe":
            e = e2
        elif op == "both":
            g, e = g2, e2
        else:
            site = op.split(":")[1]
        plan.append(("s%d:%s" % (i + 1, op), site, g, e, dG))
    for (tag, site, g, e, dG) in plan:
        ctx.assume(e <= 2 * KMAX[site] * g, "gbEnergy/(2 gamma) within the limit of the current site type")

    def setgamma(g):
        if owned:
            p.gamma = g
        else:
            nb.gamma = g

    def check(tag, site, g, e, dG):
        d = nb.description
        ctx.prove(tag + ": description is the named site type", type(d) is CLS[site])
        kref = e / (2 * g)
        got = [sc(nb.GBk), sc(nb.areaFactor), sc(nb.volumeFactor), sc(nb.gbRemoval), sc(nb.areaRemoval)]
        want = [kref, sc(d.areaFactor(kref, setInvalidToNan=False)), sc(d.volumeFactor(kref, setInvalidToNan=False)),
                sc(d.gbRemoval(kref, setInvalidToNan=False)), sc(d.areaRemoval(kref, setInvalidToNan=False))]
        ctx.observe(tag, got)
        for nm, x, y in zip(("GBk", "areaFactor", "volumeFactor", "gbRemoval", "areaRemoval"), got, want):
            ctx.prove("%s: cached %s is that of the current energies and site" % (tag, nm), ctx.eq(x, y))
        ctx.prove(tag + ": stored energies are the ones set", ctx.all([ctx.eq(nb.gamma, g), ctx.eq(nb.gbEnergy, e)]))
        # the barrier uses the current factors (a positive driving force)
        ctx.prove(tag + ": Rcrit uses the current factors",
                  ctx.eq(sc(nb.Rcrit(dG)) * (3 * want[2] * dG), 2 * (want[1] * g - want[3] * e)))

    tag, site, g, e, dG = plan[0]
    nb.setNucleationType(site)
    setgamma(g)
    nb.gbEnergy = e
    check(*plan[0])
    for op, st in zip(ops, plan[1:]):
        tag, site, g, e, dG = st
        if op == "gamma":
            setgamma(g)
        elif op == "gbe":
            nb.gbEnergy = e
        elif op == "both":
            setgamma(g)              # the intermediate pair (new gamma, old gbEnergy) is never read
            nb.gbEnergy = e
        else:
            nb.setNucleationType(site)
        check(*st)


# =========================================================================== 5. available nucleation sites
def mk_pbm(ctx, n, tag):
    from kawin.precipitation.PopulationBalance import PopulationBalanceModel as PBM
    pbm = PBM(1e-10, 1e-9, n, 1, 10 * n)
    b0 = pos(ctx, tag + "b0", (0.5, 1.0)); w = pos(ctx, tag + "w", (0.1, 0.5))
    pbm.min = b0; pbm.max = b0 + n * w; pbm.bins = n
    pbm.reset(False)
    return pbm


def sites(ctx, kinds=("bulk", "bulk"), p=0, parents=(), nb=2, symvm=False):
    """_calcNucleationSites(p) >= 0 and it does not increase when the population of any phase that occupies sites of
    that type (and is not a parent phase of p) grows"""
    P = len(kinds)
    m = PrecipitateModel(phases=["P%d" % i for i in range(P)], elements=["A"])
    vmA = pos(ctx, "VmA", (0.5e23, 2e23)) if symvm else 1e-5
    m.matrixParameters.volume.setVolume(vmA, "VM", 4)
    ns = m.matrixParameters.nucleationSites
    ns.setNucleationDensity(grainSize=pos(ctx, "grain", (0.5, 2.0)), aspectRatio=pos(ctx, "grainAR", (1.0, 3.0)),
                            dislocationDensity=pos(ctx, "disl", (0.5, 2.0)))
    n0 = ctx.real("bulkN0", (0.0, 50.0)); ctx.assume(n0 >= 0)
    ns.setBulkDensity(n0)
    for i, kind in enumerate(kinds):
        pp = m.precipitateParameters[i]
        pp.nucleation.setNucleationType(kind)
        g = pos(ctx, "gamma%d" % i, (0.2, 0.5)); k = ctx.real("k%d" % i, (0.0, KMAX[kind] * 0.9))
        ctx.assume(k >= 0); ctx.assume(k <= KMAX[kind])
        pp.gamma = g
        pp.nucleation.gbEnergy = 2 * k * g
        pp.volume.setVolume(pos(ctx, "VmB%d" % i, (0.5e23, 2e23)) if symvm else 0.8e-5, "VM", 4)
        m.PBM[i] = mk_pbm(ctx, nb, "g%d" % i)
    m.precipitateParameters[p].parentPhases = list(parents)
    x = [ctx.reals("n%d" % i, nb, (0.0, 5.0)) for i in range(P)]
    y = []
    for i in range(P):
        for j in range(nb):
            ctx.assume(x[i][j] >= 0)
        if i in parents:
            y.append(x[i])
        else:
            d = ctx.reals("more%d" % i, nb, (0.0, 3.0))
            for j in range(nb):
                ctx.assume(d[j] >= 0)
            y.append(x[i] + d)
    t = ctx.real("t", (0.0, 1.0))
    s1 = sc(m._calcNucleationSites(t, x, p))
    s2 = sc(m._calcNucleationSites(t, y, p))
    ctx.observe("s1", s1); ctx.observe("s2", s2)
    ctx.prove("available sites >= 0", ctx.all([ctx.le(0.0, s1), ctx.le(0.0, s2)]))
    ctx.prove("available sites do not increase when occupying precipitates are added", ctx.le(s2, s1))
    # with no precipitates at all every site is available
    z = [0.0 * x[i] for i in range(P)]
    s0 = sc(m._calcNucleationSites(t, z, p))
    ctx.prove("occupied sites are subtracted from the empty-matrix count", ctx.le(s1, s0) if not parents else True)


# =========================================================================== 5b. owner-level interfacial energy, competing phases
def numeric_pi(ctx, fn):
    """run a constructor with the numeric pi (Lebedev tables of the strain-energy objects, irrelevant here)"""
    sp = ctx.opts.get("symbolic_pi", False)
    ctx.opts["symbolic_pi"] = False
    try:
        return fn()
    finally:
        ctx.opts["symbolic_pi"] = sp


def cache_owner(ctx, site="grain boundaries", route="prec", read="factors"):
    """the interfacial energy of a precipitate is changed through its owner -- PrecipitateParameters.gamma (route=prec)
    or PrecipitateModel.setInterfacialEnergy (route=model, second phase of two) -- after the nucleation factors have
    been evaluated once, with no later change of site type or grain-boundary energy: the energy ratio, the cached
    factors and the critical radius are those of the NEW interfacial energy.  read=ratio: only GBk is read (every site
    type); read=factors: all factors and nucleationBarrier (grain-boundary site, polynomial factors)"""
    g1 = pos(ctx, "gamma1", (0.2, 0.5)); g2 = pos(ctx, "gamma2", (0.2, 0.5))
    e = ctx.real("gbE", (0.0, 0.3)); ctx.assume(e >= 0)
    dG = pos(ctx, "dG", (0.5, 3.0))
    ctx.assume(e <= 2 * KMAX[site] * g1); ctx.assume(e <= 2 * KMAX[site] * g2)
    if route == "prec":
        p = new_prec(ctx)
        setg = lambda g: setattr(p, "gamma", g)
        p.nucleation.setNucleationType(site)
    else:
        m = numeric_pi(ctx, lambda: PrecipitateModel(phases=["P0", "P1"], elements=["A"]))
        p = m.precipitateParameters[1]
        setg = lambda g: m.setInterfacialEnergy(g, phase="P1")
        m.setInterfacialEnergy(0.3, phase="P0")
        m.setNucleationSite(site, phase="P1")
    nb = p.nucleation
    p.Rmin = pos(ctx, "Rmin", (0.01, 0.3))
    setg(g1)
    nb.gbEnergy = e
    # ordinary evaluation with the first interfacial energy (fills the cache)
    first = [sc(nb.GBk)]
    if read == "factors":
        first += [sc(nb.areaFactor), sc(nb.volumeFactor), sc(nb.gbRemoval), sc(nb.areaRemoval)]
        NR.nucleationBarrier(dG, p)
    ctx.observe("first", first)
    # only the interfacial energy changes, through the owner
    setg(g2)
    d = nb.description
    kref = e / (2 * g2)
    ctx.observe("GBk", sc(nb.GBk))
    ctx.prove("owner-level gamma change: nucleation.gamma is the new interfacial energy", ctx.all([ctx.eq(nb.gamma, g2), ctx.eq(p.gamma, g2)]))
    ctx.prove("owner-level gamma change: energy ratio is gbEnergy/(2*new gamma)", ctx.eq(sc(nb.GBk), kref))
    if read == "factors":
        got = [sc(nb.areaFactor), sc(nb.volumeFactor), sc(nb.gbRemoval), sc(nb.areaRemoval)]
        want = [sc(f(kref, setInvalidToNan=False)) for f in (d.areaFactor, d.volumeFactor, d.gbRemoval, d.areaRemoval)]
        ctx.observe("got", got)
        for nm, x, y in zip(("areaFactor", "volumeFactor", "gbRemoval", "areaRemoval"), got, want):
            ctx.prove("owner-level gamma change: cached %s is that of the new energy ratio" % nm, ctx.eq(x, y))
        ctx.prove("owner-level gamma change: areaFactor - 2k*gbRemoval = 3*volumeFactor for the energies now set",
                  ctx.eq(got[0] * g2 - got[2] * e, 3 * got[1] * g2))
        R, G = NR.nucleationBarrier(dG, p)
        R, G = sc(R), sc(G)
        ctx.observe("R", R); ctx.observe("G", G)
        free = 2 * g2 >= p.Rmin * dG
        ctx.prove("owner-level gamma change: Rcrit is the spherical 2*(new gamma)/dG", ctx.implies(free, ctx.eq(R * dG, 2 * g2)))
        ctx.prove("owner-level gamma change: Gcrit = spherical barrier * volumeFactor/(4 pi/3)", ctx.eq(G, g2 * want[1] * R * R))


def sites_compete(ctx, site="grain boundaries", nph=2, p=0, q=1, nb=2, nbs=None):
    """nph phases all nucleating on the same site type, each set by name (so each owns its description instance, as
    setNucleationSite / setNucleationType create them): more precipitates of phase q -- another phase or p itself --
    strictly lower the sites available to phase p while any are left; never negative.  nbs: number of size classes per
    phase (the grids of the phases are independent: per-phase setPBMParameters, adaptive extension of one phase only);
    an internal error (shape mismatch) on such grids is reported as no_exception:<Type>"""
    nbs = list(nbs) if nbs is not None else [nb] * nph
    m = PrecipitateModel(phases=["P%d" % i for i in range(nph)], elements=["A"])
    m.setVolumeAlpha(1e-5, "VM", 4)
    m.matrixParameters.nucleationSites.setNucleationDensity(grainSize=pos(ctx, "grain", (0.5, 2.0)), aspectRatio=pos(ctx, "grainAR", (1.0, 3.0)),
                                                            dislocationDensity=pos(ctx, "disl", (0.5, 2.0)))
    n0 = ctx.real("bulkN0", (10.0, 50.0)); ctx.assume(n0 >= 0)
    m.matrixParameters.nucleationSites.setBulkDensity(n0)
    for i in range(nph):
        ph = "P%d" % i
        g = pos(ctx, "gamma%d" % i, (0.2, 0.5)); k = ctx.real("k%d" % i, (0.0, KMAX[site] * 0.9))
        ctx.assume(k >= 0); ctx.assume(k <= KMAX[site])
        m.setVolumeBeta(0.8e-5, "VM", 4, phase=ph)
        m.setInterfacialEnergy(g, phase=ph)
        m.setNucleationSite(site, phase=ph)
        m.precipitateParameters[i].nucleation.gbEnergy = 2 * k * g
        m.PBM[i] = mk_pbm(ctx, nbs[i], "g%d" % i)
    ctx.prove("each phase owns its description instance",
              len({id(pp.nucleation.description) for pp in m.precipitateParameters}) == nph)
    # sampling scale of the populations (validation runs only): comparable to the site count of the site type, so that
    # the decrease is not absorbed by floating-point rounding (grain size is in micrometres: corners ~1e18, edges ~1e22 sites)
    sc_ = {"grain corners": 1e16, "grain edges": 1e8}.get(site, 1.0)
    x = [ctx.reals("n%d" % i, nbs[i], (0.0, 1e-3 * sc_)) for i in range(nph)]
    for i in range(nph):
        for j in range(nbs[i]):
            ctx.assume(x[i][j] >= 0)
    more = ctx.reals("more", nbs[q], (1e-4 * sc_, 2e-3 * sc_))
    for j in range(nbs[q]):
        ctx.assume(more[j] >= 0)
    ctx.assume(more[0] > 0, "at least one size class of phase q gains precipitates")
    y = [x[i] + more if i == q else x[i] for i in range(nph)]
    t = ctx.real("t", (0.0, 1.0))
    s1 = sc(m._calcNucleationSites(t, x, p))
    s2 = sc(m._calcNucleationSites(t, y, p))
    ctx.observe("s1", s1); ctx.observe("s2", s2)
    ctx.prove("available sites >= 0", ctx.all([ctx.le(0.0, s1), ctx.le(0.0, s2)]))
    ctx.prove("precipitates of any phase on the same site type lower the available sites while any are left", ctx.implies(s1 > 0, ctx.lt(s2, s1)))
    ctx.prove("available sites do not increase when occupying precipitates are added", ctx.le(s2, s1))


def at_limit(ctx, site="grain boundaries", sym=True):
    """energy ratio exactly AT the site-type limit (gbEnergy = 2 * maxRatio * gamma): the parameter object either
    rejects it (ValueError, as for ratios above the limit) or hands out non-negative factors and a non-negative
    barrier -- never the internal 'invalid' marker.  sym: gamma symbolic (grain-boundary site, limit 1); otherwise
    gamma is a power of two so that the ratio is the limit's double exactly (edge / corner limits are doubles)"""
    p = new_prec(ctx)
    p.nucleation.setNucleationType(site)
    lim = float(p.nucleation.description.maxRatio)
    gamma = pos(ctx, "gamma", (0.1, 0.5)) if sym else 0.25
    dG = pos(ctx, "dG", (0.5, 3.0))
    p.Rmin = pos(ctx, "Rmin", (0.01, 0.3))
    p.nucleation.gbEnergy = 2 * lim * gamma
    p.gamma = gamma
    name = "energy ratio at the site-type limit: rejected (ValueError) or factors and barrier >= 0"
    try:
        nb = p.nucleation
        vals = [sc(nb.areaFactor), sc(nb.volumeFactor), sc(nb.gbRemoval), sc(nb.areaRemoval)]
        R, G = NR.nucleationBarrier(dG, p)
        vals += [sc(R), sc(G)]
    except ValueError:
        ctx.observe("rejected", True)
        ctx.prove(name, True)
        return
    ctx.observe("rejected", False)
    ctx.prove(name, ctx.all([ctx.le(0.0, v) for v in vals]))


def gb_after_setup(ctx, site="grain boundaries", read="factors"):
    """real PrecipitateModel (two phases) that has been set up (PrecipitateBase.setup: grain-boundary energy handed to the
    precipitates, _isSetup set) and whose nucleation factors have been read; then model.setGrainBoundaryEnergy(new) and
    the setup() call every solve() starts with (returns early): every precipitate's nucleation.gbEnergy is the new
    value, the energy ratio is new/(2 gamma) and (read=factors, grain-boundary site) the cached factors and Rcrit follow"""
    g = pos(ctx, "gamma", (0.2, 0.5))
    e1 = ctx.real("gbE1", (0.0, 0.3)); e2 = ctx.real("gbE2", (0.0, 0.3))
    dG = pos(ctx, "dG", (0.5, 3.0))
    for e in (e1, e2):
        ctx.assume(e >= 0); ctx.assume(e <= 2 * KMAX[site] * g); ctx.assume(e <= 2 * KMAX["grain boundaries"] * 0.3)
    m = numeric_pi(ctx, lambda: PrecipitateModel(phases=["P0", "P1"], elements=["A"]))
    m.setVolumeAlpha(1e-5, "VM", 4)
    m.setInitialComposition(0.05)
    m.setTemperature(800.0)
    m.setInterfacialEnergy(0.3, phase="P0")
    m.setNucleationSite("grain boundaries", phase="P0")
    m.setInterfacialEnergy(g, phase="P1")
    m.setNucleationSite(site, phase="P1")
    m.setGrainBoundaryEnergy(e1)
    PrecipitateBase.setup(m)                 # the thermodynamics-free part of setup(); sets _isSetup
    nbs = [pp.nucleation for pp in m.precipitateParameters]
    nb = nbs[1]
    ctx.prove("set-up model: precipitates hold the model's grain-boundary energy", ctx.all([ctx.eq(x.gbEnergy, e1) for x in nbs]))
    first = [sc(nb.GBk), sc(nbs[0].GBk)]
    if read == "factors":
        first += [sc(nb.areaFactor), sc(nb.volumeFactor), sc(nb.gbRemoval)]
        NR.nucleationBarrier(dG, m.precipitateParameters[1])
    ctx.observe("first", first)
    m.setGrainBoundaryEnergy(e2)
    m.setup()                                # what the next solve() does first: returns early, the model is set up
    ctx.prove("setGrainBoundaryEnergy after setup: model is still set up (no re-initialisation)", m._isSetup is True)
    ctx.prove("setGrainBoundaryEnergy after setup: nucleation.gbEnergy of every precipitate is the new value",
              ctx.all([ctx.eq(x.gbEnergy, e2) for x in nbs] + [ctx.eq(m.matrixParameters.GBenergy, e2)]))
    ctx.observe("GBk", sc(nb.GBk))
    ctx.prove("setGrainBoundaryEnergy after setup: energy ratio is new gbEnergy/(2 gamma)",
              ctx.all([ctx.eq(sc(nb.GBk), e2 / (2 * g)), ctx.eq(sc(nbs[0].GBk), e2 / (2 * 0.3))]))
    if read == "factors":
        d = nb.description
        kref = e2 / (2 * g)
        got = [sc(nb.areaFactor), sc(nb.volumeFactor), sc(nb.gbRemoval)]
        want = [sc(f(kref, setInvalidToNan=False)) for f in (d.areaFactor, d.volumeFactor, d.gbRemoval)]
        ctx.observe("got", got)
        ctx.prove("setGrainBoundaryEnergy after setup: cached factors are those of the new energy ratio", ctx.all([ctx.eq(x, y) for x, y in zip(got, want)]))
        R, G = NR.nucleationBarrier(dG, m.precipitateParameters[1])
        Rmin = m.precipitateParameters[1].Rmin
        ctx.prove("setGrainBoundaryEnergy after setup: Rcrit is the spherical 2 gamma / dG", ctx.implies(2 * g >= Rmin * dG, ctx.eq(sc(R) * dG, 2 * g)))


# =========================================================================== 6. model level
class ThermDG(Therm):
    """adds the driving-force query: chemical driving force an uninterpreted function of (x, T, phase), any sign"""

    def __init__(self, ctx, phases):
        super().__init__(ctx); self.phases = list(phases)

    def getDrivingForce(self, x, T, precPhase=None, removeCache=False):
        x = np.atleast_2d(x); T = list(np.atleast_1d(T))
        dg = np.zeros(len(T)); xb = np.zeros((len(T), 1))
        for i in range(len(T)):
            dg[i] = self.ctx.uf("chemDG_%s" % precPhase, x[i][0], T[i], rng=(-2.0, 3.0))
            v = self._pos("xNuc_%s" % precPhase, x[i][0], T[i], rng=(0.5, 0.9)); self.ctx.assume(v < 1)
            xb[i, 0] = v
        return dg, xb


def model_zero(ctx, kinds=("bulk", "grain boundaries"), n_hist=1, beta_type=1, sym_params=True):
    """real PrecipitateBase._calcNucleationRate on a slice that still holds the previous evaluation (symbolic): a phase
    whose driving force is <= 0 now is recorded with nucleation rate 0; otherwise rate >= 0 and Rcrit >= Rmin"""
    P = len(kinds)
    phases = ["P%d" % i for i in range(P)]
    m = PrecipitateModel(phases=phases, elements=["A"])
    m.therm = ThermDG(ctx, phases); m.removeCache = False
    m.setBetaBinary(beta_type)
    m.matrixParameters.volume.setVolume(pos(ctx, "a", (0.5, 1.5)), "a", 4)
    m.matrixParameters.theta = pos(ctx, "theta", (1.0, 13.0))
    T = pos(ctx, "T", (1e22, 1e23))
    m.temperatureParameters.setIsothermalTemperature(T)
    for i, kind in enumerate(kinds):
        pp = m.precipitateParameters[i]
        pp.nucleation.setNucleationType(kind)
        if sym_params:
            g = pos(ctx, "gamma%d" % i, (0.2, 0.5)); k = ctx.real("k%d" % i, (0.0, KMAX[kind] * 0.9))
            ctx.assume(k >= 0); ctx.assume(k <= KMAX[kind])
            vm = pos(ctx, "VmB%d" % i, (0.5e23, 2e23)); rmin = pos(ctx, "Rmin%d" % i, (0.01, 0.3))
        else:
            # several phases: the material constants are fixed numbers, the state (driving forces, previous slice,
            # temperature, composition, site counts) stays symbolic
            g, k, vm, rmin = 0.25 + 0.1 * i, 0.3 + 0.2 * i, (1.0 + 0.5 * i) * 1e23, 0.1 + 0.05 * i
        pp.gamma = g
        pp.nucleation.gbEnergy = 2 * k * g
        pp.volume.setVolume(vm, "VM", 4)
        pp.Rmin = rmin
        if sym_params and kind in ("grain edges", "grain corners"):
            b, a, c = factors(ctx, pp, kind)
            ctx.assume(c > 0, "volume factor of edge/corner nuclei positive inside the admissible range")
            ctx.assume(b > 0, "area factor of edge/corner nuclei positive inside the admissible range")
    avail = [ctx.real("sites%d" % i, (0.0, 50.0)) for i in range(P)]
    for a in avail:
        ctx.assume(a >= 0)
    m._calcNucleationSites = lambda t, x, p: avail[p]          # decided separately in C14.sites
    # recorded history (n_hist steps) and the working slice, both holding an earlier evaluation
    d = PrecipitationData(m.phases, m.elements, n_hist)
    times = ctx.reals("time", n_hist, (0.0, 1.0))
    for i in range(n_hist):
        ctx.assume(times[i] >= 0)
        if i > 0:
            ctx.assume(times[i - 1] < times[i])
    d.time = times
    d.temperature = np.array([T] * n_hist)
    d.Rcrit = ctx.reals("hist_Rcrit", (n_hist, P), (0.0, 1.0))
    m.pData = d
    t = ctx.real("t", (1.0, 2.0)); ctx.assume(t > times[n_hist - 1])
    Y = PrecipitationData(m.phases, m.elements, 1)
    x0 = pos(ctx, "x", (0.01, 0.3)); ctx.assume(x0 < 1)
    Y.composition = np.array([[x0]]); Y.temperature = np.array([T]); Y.time = np.array([t])
    for nm in ("nucRate", "Rnuc", "Rcrit", "Gcrit", "impingement", "drivingForce"):
        arr = ctx.reals("prev_" + nm, (1, P), (0.0, 2.0))
        for i in range(P):
            if nm != "drivingForce":
                ctx.assume(arr[0, i] >= 0)
        setattr(Y, nm, arr)
    if beta_type != 1:
        Y.xEqAlpha = np.array([[[pos(ctx, "xa%d" % i, (0.05, 0.3))] for i in range(P)]])
        Y.xEqBeta = np.array([[[pos(ctx, "xb%d" % i, (0.5, 0.9))] for i in range(P)]])
        for i in range(P):
            ctx.assume(Y.xEqAlpha[0, i, 0] < Y.xEqBeta[0, i, 0]); ctx.assume(Y.xEqBeta[0, i, 0] < 1)
    xpsd = [np.zeros(2) for _ in range(P)]
    out = PrecipitateBase._calcNucleationRate(m, t, xpsd, Y)
    ctx.prove("the slice handed in is the one returned", out is Y)
    for i in range(P):
        dg = sc(Y.drivingForce[0, i]); nr = sc(Y.nucRate[0, i])
        ctx.observe("dG%d" % i, dg); ctx.observe("nucRate%d" % i, nr); ctx.observe("Rcrit%d" % i, sc(Y.Rcrit[0, i]))
        ctx.prove("driving force <= 0 at this step: recorded nucleation rate is 0", ctx.implies(dg <= 0, ctx.eq(nr, 0.0)))
        ctx.prove("driving force > 0: recorded nucleation rate >= 0", ctx.implies(dg > 0, ctx.le(0.0, nr)))
        ctx.prove("driving force > 0: recorded Rcrit >= Rmin", ctx.implies(dg > 0, ctx.le(m.precipitateParameters[i].Rmin, sc(Y.Rcrit[0, i]))))
        ctx.prove("nucleation radius recorded is 0 or above Rcrit",
                  ctx.implies(dg > 0, ctx.any([ctx.eq(sc(Y.Rnuc[0, i]), 0.0), ctx.le(sc(Y.Rcrit[0, i]), sc(Y.Rnuc[0, i]))])))


# =========================================================================== 6b. failed impingement calculation, first record
class ThermFault(Therm):
    """backend whose impingementFactor fails (returns None: no equilibrium, no earlier value) for the calls selected by
    symbolic fault bits"""
    numElements = 3

    def __init__(self, ctx, faults, phases=None):
        super().__init__(ctx); self.faults = list(faults); self.calls = 0; self.phases = phases

    def impingementFactor(self, x, T, precPhase=None, removeCache=False, searchDir=None):
        # fault bit of the phase asked for (model level) or of the n-th call (function level: one call per point)
        j = self.phases.index(precPhase) if self.phases is not None else self.calls
        self.calls += 1
        if j < len(self.faults) and bool(self.faults[j]):
            return None
        return super().impingementFactor(x, T, precPhase, removeCache, searchDir)

    def getDrivingForce(self, x, T, precPhase=None, removeCache=False):
        x = np.atleast_2d(x); T = list(np.atleast_1d(T))
        dg = np.zeros(len(T)); xb = np.zeros((len(T), x.shape[1]))
        for i in range(len(T)):
            dg[i] = self.ctx.uf("chemDG_%s" % precPhase, *list(x[i]), T[i], rng=(0.5, 3.0))
            for e in range(x.shape[1]):
                v = self._pos("xNuc%d_%s" % (e, precPhase), *list(x[i]), T[i], rng=(0.2, 0.4)); self.ctx.assume(v < 1)
                xb[i, e] = v
        return dg, xb


def beta_fault(ctx, site="bulk", n=2):
    """betaMulti when the backend's impingementFactor fails (None) for the points selected by symbolic fault bits: the
    impingement rate of a failed point is 0, nothing is non-finite, the other points keep their value"""
    p, gamma, k = mk_prec(ctx, site, sym_k=False)
    matrix = mk_matrix(ctx)
    faults = [ctx.boolean("fault%d" % i) for i in range(n)]
    therm = ThermFault(ctx, faults)
    dG = ctx.reals("dG", n, (0.5, 3.0)); T = ctx.reals("T", n, (1e22, 1e23)); x = ctx.reals("x", (n, 2), (0.01, 0.3))
    for i in range(n):
        ctx.assume(dG[i] > 0); ctx.assume(T[i] > 0)
        for e in range(2):
            ctx.assume(x[i, e] > 0); ctx.assume(x[i, e] < 1)
    R, G = NR.nucleationBarrier(dG, p)
    name = "failed impingement calculation: impingement rate 0, nothing non-finite"
    try:
        beta = NR.betaMulti(therm, x, T, R, matrix, p)
    except (_core.VkError, TypeError) as e:
        # the real code put None into a numeric array (NaN on plain numpy)
        ctx.prove(name, False)
        return
    ctx.observe("beta", beta)
    fl = [bool(f) for f in faults]
    finite = True
    if ctx.mode == "concrete":
        finite = bool(np.all(np.isfinite(np.asarray(beta, dtype=float))))
    ctx.prove(name, ctx.all([finite] + [ctx.eq(beta[i], 0.0) for i in range(n) if fl[i]]))
    # the points whose calculation succeeded: the value a fault-free backend gives for that point alone
    ok = Therm(ctx); ok.numElements = 3
    for i in range(n):
        if not fl[i]:
            ref = sc(NR.betaMulti(ok, x[i], T[i], R[i], matrix, p))
            ctx.prove("failed impingement calculation: other points unaffected", ctx.all([ctx.eq(beta[i], ref), ctx.le(0.0, beta[i])]))


def model_fault(ctx, kinds=("bulk", "grain boundaries")):
    """model step (real _calcNucleationRate, multicomponent branch) with a backend whose impingementFactor fails for the
    phases selected by symbolic fault bits: such a phase is recorded with nucleation rate 0 (nothing non-finite in the
    record); the other phases are recorded with rate >= 0"""
    P = len(kinds)
    phases = ["P%d" % i for i in range(P)]
    m = PrecipitateModel(phases=phases, elements=["A", "B"])
    faults = [ctx.boolean("fault%d" % i) for i in range(P)]
    m.therm = ThermFault(ctx, faults, phases); m.removeCache = False
    m.matrixParameters.volume.setVolume(pos(ctx, "a", (0.5, 1.5)), "a", 4)
    m.matrixParameters.theta = pos(ctx, "theta", (1.0, 13.0))
    T = pos(ctx, "T", (1e22, 1e23))
    m.temperatureParameters.setIsothermalTemperature(T)
    for i, kind in enumerate(kinds):
        pp = m.precipitateParameters[i]
        pp.nucleation.setNucleationType(kind)
        g, k, vm, rmin = 0.25 + 0.1 * i, 0.3 + 0.2 * i, (1.0 + 0.5 * i) * 1e23, 0.1 + 0.05 * i
        pp.gamma = g; pp.nucleation.gbEnergy = 2 * k * g; pp.volume.setVolume(vm, "VM", 4); pp.Rmin = rmin
    avail = [ctx.real("sites%d" % i, (0.0, 50.0)) for i in range(P)]
    for a in avail:
        ctx.assume(a >= 0)
    m._calcNucleationSites = lambda t, x, p: avail[p]
    d = PrecipitationData(m.phases, m.elements, 1)
    t0 = ctx.real("time0", (0.0, 0.5)); ctx.assume(t0 >= 0)
    d.time = np.array([t0]); d.temperature = np.array([T])
    m.pData = d
    t = ctx.real("t", (1.0, 2.0)); ctx.assume(t > t0)
    x0 = [pos(ctx, "x%d" % e, (0.01, 0.3)) for e in range(2)]
    for v in x0:
        ctx.assume(v < 1)
    Y = PrecipitationData(m.phases, m.elements, 1)
    Y.composition = np.array([x0]); Y.temperature = np.array([T]); Y.time = np.array([t])
    for nm in ("nucRate", "Rnuc", "Rcrit", "Gcrit", "impingement"):
        arr = ctx.reals("prev_" + nm, (1, P), (0.0, 2.0))
        for i in range(P):
            ctx.assume(arr[0, i] >= 0)
        setattr(Y, nm, arr)
    xpsd = [np.zeros(2) for _ in range(P)]
    name = "failed impingement calculation: recorded nucleation rate is 0, nothing non-finite in the record"
    try:
        PrecipitateBase._calcNucleationRate(m, t, xpsd, Y)
    except (_core.VkError, TypeError):
        ctx.prove(name, False)
        return
    fl = [bool(f) for f in faults]
    rec = [sc(Y.nucRate[0, i]) for i in range(P)] + [sc(Y.impingement[0, i]) for i in range(P)] + [sc(Y.Rnuc[0, i]) for i in range(P)]
    ctx.observe("rec", rec)
    finite = True
    if ctx.mode == "concrete":
        finite = all(math.isfinite(float(v)) for v in rec)
    dgs = [sc(Y.drivingForce[0, i]) for i in range(P)]
    # a phase whose impingement calculation failed nucleates nothing on this step (with a negative driving force the
    # backend is not even asked)
    ctx.prove(name, ctx.all([finite] + [ctx.eq(sc(Y.nucRate[0, i]), 0.0) for i in range(P) if fl[i]]))
    for i in range(P):
        if not fl[i]:
            ctx.prove("failed impingement calculation: other phases unaffected (positive driving force: impingement > 0, rate >= 0)",
                      ctx.implies(dgs[i] > 0, ctx.all([ctx.le(0.0, sc(Y.nucRate[0, i])), ctx.lt(0.0, sc(Y.impingement[0, i]))])))


class ThermBinary(ThermDG):
    """binary backend for the real setup(): planar / curved interfacial compositions are uninterpreted functions of (T, gExtra)"""

    def getInterfacialComposition(self, T, gExtra, precPhase=None):
        if np.ndim(gExtra) == 0:
            a = self._pos("xEqA_%s" % precPhase, T, gExtra, rng=(0.05, 0.3)); b = self._pos("xEqB_%s" % precPhase, T, gExtra, rng=(0.5, 0.9))
            self.ctx.assume(a < b); self.ctx.assume(b < 1)
            return a, b
        g = list(np.atleast_1d(gExtra))
        xa = np.zeros(len(g)); xb = np.zeros(len(g))
        for i in range(len(g)):
            a = self._pos("xEqA_%s" % precPhase, T, g[i], rng=(0.05, 0.3)); b = self._pos("xEqB_%s" % precPhase, T, g[i], rng=(0.5, 0.9))
            self.ctx.assume(a < b); self.ctx.assume(b < 1)
            xa[i] = a; xb[i] = b
        return xa, xb


def setup_beta2(ctx, kinds=("bulk",), bins=2):
    """real PrecipitateModel.setup() of a binary model with setBetaBinary(2) (real _createLookupBinary, real
    _calcNucleationRate; backend and the growth-rate step stubbed): the equilibrium compositions betaBinary2 receives for
    step 0 are the ones setup stored in the first record, and the recorded impingement[0] is betaBinary2 of those"""
    P = len(kinds)
    phases = ["P%d" % i for i in range(P)]
    m = PrecipitateModel(phases=phases, elements=["A"])
    m.therm = ThermBinary(ctx, phases); m.removeCache = False
    m.setBetaBinary(2)
    m.setVolumeAlpha(pos(ctx, "a", (0.5, 1.5)), "a", 4)
    m.setNucleationDensity(grainSize=1.0, aspectRatio=1.0, dislocationDensity=1.0, bulkN0=pos(ctx, "bulkN0", (10.0, 50.0)))
    x0 = pos(ctx, "x", (0.01, 0.3)); ctx.assume(x0 < 1)
    m.setInitialComposition(x0)
    T = pos(ctx, "T", (1e22, 1e23))
    m.setTemperature(T)
    m.setGrainBoundaryEnergy(0.2)
    m.setPBMParameters(cMin=0.5, cMax=1.5, bins=bins, minBins=1, maxBins=2 * bins, adaptive=False)
    for i, kind in enumerate(kinds):
        ph = phases[i]
        m.setInterfacialEnergy(0.25 + 0.1 * i, phase=ph)
        m.setVolumeBeta((1.0 + 0.5 * i) * 1e23, "VM", 4, phase=ph)
        m.setNucleationSite(kind, phase=ph)
        m.precipitateParameters[i].Rmin = 0.1
    tstart = pos(ctx, "t0", (0.5, 2.0))
    m.pData.time[0] = tstart
    m._growthRate = lambda Y: ([np.zeros(m.PBM[p].bins + 1) for p in range(P)], Y)     # not the subject here
    seen = []
    real_b2 = NR.betaBinary2

    def spy(therm, x, T_, Rcrit, matrix, precipitate, xEqAlpha=None, xEqBeta=None, removeCache=False):
        seen.append((precipitate.phase, xEqAlpha, xEqBeta, Rcrit))
        return real_b2(therm, x, T_, Rcrit, matrix, precipitate, xEqAlpha, xEqBeta, removeCache)
    NR.betaBinary2 = spy
    try:
        m.setup()
    finally:
        NR.betaBinary2 = real_b2
    ctx.prove("setup: model is set up and the first record holds the planar equilibrium compositions of the backend",
              ctx.all([m._isSetup is True] + [ctx.lt(0.0, sc(m.pData.xEqAlpha[0, i, 0])) for i in range(P)] +
                      [ctx.lt(sc(m.pData.xEqAlpha[0, i, 0]), sc(m.pData.xEqBeta[0, i, 0])) for i in range(P)]))
    for (ph, xa, xb, Rc) in seen:
        i = phases.index(ph)
        xa = np.atleast_1d(xa); xb = np.atleast_1d(xb)
        ctx.prove("setup, step 0: betaBinary2 receives the equilibrium compositions stored in the first record",
                  ctx.all([np.shape(xa) == (1,), ctx.eq(xa[0], sc(m.pData.xEqAlpha[0, i, 0])), ctx.eq(xb[0], sc(m.pData.xEqBeta[0, i, 0]))]))
        ref = sc(real_b2(m.therm, x0, T, Rc, m.matrixParameters, m.precipitateParameters[i], m.pData.xEqAlpha[0, i], m.pData.xEqBeta[0, i]))
        ctx.observe("imp%d" % i, sc(m.pData.impingement[0, i])); ctx.observe("nuc%d" % i, sc(m.pData.nucRate[0, i]))
        ctx.prove("setup, step 0: recorded impingement rate is betaBinary2 of the stored compositions", ctx.eq(sc(m.pData.impingement[0, i]), ref))
        ctx.prove("setup, step 0: recorded impingement and nucleation rate >= 0", ctx.all([ctx.le(0.0, sc(m.pData.impingement[0, i])), ctx.le(0.0, sc(m.pData.nucRate[0, i]))]))
    called = {ph for (ph, _, _, _) in seen}
    for i in range(P):
        dg = sc(m.pData.drivingForce[0, i])
        ctx.prove("setup, step 0: a phase with positive driving force was evaluated with betaBinary2", ctx.implies(dg > 0, phases[i] in called))
    safe(ctx, "setup, step 0 well defined", [m.pData.impingement[0], m.pData.nucRate[0]])


# =========================================================================== 7. non-isothermal incubation time
def noniso(ctx, N=2):
    """incubationTimeNonIsothermal on a symbolic history (N recorded steps): the returned incubation time is >= 0"""
    matrix = MatrixParameters(["A"]); matrix.theta = pos(ctx, "theta", (1.0, 13.0))
    Z = pos(ctx, "Z", (0.1, 2.0)); cb = pos(ctx, "currBeta", (0.1, 2.0))
    times = ctx.reals("time", N, (0.0, 1.0)); temps = ctx.reals("temp", N, (0.5, 2.0)); betas = ctx.reals("beta", N, (0.0, 2.0))
    for i in range(N):
        ctx.assume(temps[i] > 0); ctx.assume(betas[i] >= 0); ctx.assume(times[i] >= 0)
        if i > 0:
            ctx.assume(times[i - 1] < times[i])
    ct = ctx.real("currTime", (1.0, 2.0)); ctx.assume(ct >= times[N - 1])
    cT = pos(ctx, "currTemp", (0.5, 2.0))
    b0, t0, T0 = snapshot(betas), snapshot(times), snapshot(temps)
    tau = sc(NR.incubationTimeNonIsothermal(Z, cb, ct, cT, betas, times, temps, matrix))
    ctx.observe("tau", tau)
    ctx.prove("incubationTimeNonIsothermal leaves the recorded beta / time / temperature arrays unchanged",
              ctx.all([unchanged(ctx, betas, b0), unchanged(ctx, times, t0), unchanged(ctx, temps, T0)]))
    ctx.prove("incubation time >= 0", ctx.le(0.0, tau))
    safe(ctx, "divisions well defined", [tau])


def barrier_api(ctx, site="grain edges"):
    """NucleationBarrierParameters.Rcrit / Gcrit (public API) at the critical radius: Rcrit(dG) = 2 gamma / dG and
    Gcrit(dG, Rcrit(dG)) = (4 pi/3 gamma Rcrit^2) * volumeFactor / (4 pi/3) for every positive driving force"""
    p, gamma, k = mk_prec(ctx, site, rmin=False)
    dp = pos(ctx, "dG", (0.5, 3.0))
    b, a, c = factors(ctx, p, site)
    if site != "grain boundaries":
        ctx.assume(c > 0, "volume factor of edge/corner nuclei positive inside the admissible range")
    Rp = sc(p.nucleation.Rcrit(dp))
    ctx.observe("Rp", Rp)
    ctx.prove("Rcrit(dG) is the spherical 2 gamma / dG", ctx.eq(Rp * dp, 2 * gamma))
    # Gcrit at that radius (handed in as the value just established, as nucleationBarrier's callers do)
    Gp = sc(p.nucleation.Gcrit(dp, Rp))
    ctx.observe("Gp", Gp)
    lemma = ctx.eq(Gp * dp * dp, 4 * gamma * gamma * gamma * c)
    ctx.prove("Gcrit(dG, Rcrit(dG)) = spherical barrier * volumeFactor/(4 pi/3)", lemma)
    # posed relative to the equality just proved (then only the signs of gamma, dG and the volume factor matter); the two
    # obligations together are the unconditional claim
    ctx.prove("Gcrit(dG, Rcrit(dG)) >= 0", ctx.implies(lemma, ctx.le(0.0, Gp)) if ctx.mode == "symbolic" else ctx.le(0.0, Gp))


_FB = [NR.nucleationBarrier, NucleationBarrierParameters.Rcrit, NucleationBarrierParameters.Gcrit]
_FR = _FB + [NR.zeldovich, NR.betaBinary1, NR.betaBinary2, NR.betaMulti, NR.incubationTime, NR.nucleationRate, NR.nucleationRadius]
_ST = ["thermodynamic backend (getTracerDiffusivity, getInterfacialComposition, impingementFactor, getDrivingForce): uninterpreted functions "
       "of their arguments with diffusivities > 0, 0 < xEqAlpha < xEqBeta < 1, impingement factor > 0"]
_AR = ["gamma, Rmin, T, Vm, lattice parameter, theta, x, time > 0; x < 1", "0 <= gbEnergy/(2 gamma) <= limit of the site type minus 1e-4",
       "edge / corner sites: area and volume factor > 0 assumed (their sign needs real arcsin/arccos)"]
_FC = [NucleationBarrierParameters.setNucleationType, NucleationBarrierParameters._resetFactors, NucleationBarrierParameters.Rcrit,
       NucleationBarrierParameters._validateGBk, NucleationBarrierParameters._validateInputs, PrecipitateParameters.validate,
       NucleationBarrierParameters.GBk.fget, NucleationBarrierParameters.areaFactor.fget, NucleationBarrierParameters.volumeFactor.fget,
       NucleationBarrierParameters.gbRemoval.fget, NucleationBarrierParameters.areaRemoval.fget,
       NucleationBarrierParameters.gamma.fset, NucleationBarrierParameters.gbEnergy.fset, NucleationBarrierParameters.description.fset]
# sequences in which the corner formulas (nested radicals) are evaluated at one ratio only -- two instances of them make
# even the reachability check of the path too slow
_CACHE_THOROUGH = [
    {"site0": "grain boundaries", "ops": ["gamma", "gbe", "site:grain edges"], "owned": True},
    {"site0": "grain boundaries", "ops": ["gbe", "both", "site:grain corners"], "owned": False, "conc_gamma": True},
    {"site0": "grain edges", "ops": ["gamma", "site:grain boundaries", "gbe"], "owned": False},
    {"site0": "grain edges", "ops": ["both", "gbe", "site:bulk"], "owned": True},
    {"site0": "grain corners", "ops": ["site:grain edges", "gamma", "gbe"], "owned": False, "conc_gamma": True},
    {"site0": "bulk", "ops": ["site:grain boundaries", "gamma", "site:grain edges"], "owned": True},
    {"site0": "dislocations", "ops": ["gbe", "site:grain edges", "both"], "owned": False},
]
_FD = [NUC.NucleationDescriptionBase.areaFactor, NUC.NucleationDescriptionBase.volumeFactor, NUC.NucleationDescriptionBase.gbRemoval,
       NUC.NucleationDescriptionBase._createArrays, NUC.NucleationDescriptionBase._formatArray, NUC.NucleationDescriptionBase._areaRemoval,
       NUC.BulkDescription._areaFactor, NUC.BulkDescription._volumeFactor, NUC.BulkDescription._gbRemoval,
       NUC.GrainBoundaryDescription._areaFactor, NUC.GrainBoundaryDescription._volumeFactor, NUC.GrainBoundaryDescription._gbRemoval,
       NUC.GrainEdgeDescription._areaFactor, NUC.GrainEdgeDescription._volumeFactor, NUC.GrainEdgeDescription._gbRemoval,
       NUC.GrainEdgeDescription.alpha, NUC.GrainEdgeDescription.beta,
       NUC.GrainCornerDescription._areaFactor, NUC.GrainCornerDescription._volumeFactor, NUC.GrainCornerDescription._gbRemoval,
       NUC.GrainCornerDescription.K, NUC.GrainCornerDescription.phi, NUC.GrainCornerDescription.delta,
       NucleationBarrierParameters.setNucleationType]
HARNESSES = [
    Harness("C14.barrier_api", barrier_api, functions=_FB[1:], opts={"symbolic_pi": True}, assumptions=_AR,
            params={"quick": [{"site": s} for s in SITES[2:]], "thorough": [{"site": s} for s in SITES[2:]]}),
    Harness("C14.cf_identity", cf_identity, functions=_FD, opts={"symbolic_pi": True},
            params={"quick": [{"site": s, "n": 1} for s in SITES[1:]] + [{"site": "grain edges", "n": 2}],
                    "thorough": [{"site": s, "n": 2} for s in SITES]}),
    Harness("C14.cf_k0", cf_k0, functions=_FD + _FB[1:], bounds={"k": "the zero ratio as float, int, np.int64, 0-d and 1-d integer arrays"},
            params={"quick": [{"site": s, "kform": f} for s in SITES for f in K0_FORMS], "thorough": [{"site": s, "kform": f} for s in SITES for f in K0_FORMS]}),
    Harness("C14.rates", rates, functions=_FR, opts={"symbolic_pi": False}, stubs=_ST, assumptions=_AR,
            params={"quick": [{"site": "bulk", "beta_kind": 1, "n": 1}, {"site": "grain boundaries", "beta_kind": 2, "n": 1},
                              {"site": "grain edges", "beta_kind": 3, "n": 1}, {"site": "dislocations", "beta_kind": 1, "n": 2}, {"site": "grain corners", "beta_kind": 1, "n": 1}],
                    "thorough": [{"site": s, "beta_kind": b, "n": 1} for s in SITES for b in (1, 2, 3)] +
                                [{"site": "bulk", "beta_kind": 2, "n": 2}, {"site": "grain boundaries", "beta_kind": 1, "n": 2}, {"site": "dislocations", "beta_kind": 3, "n": 2}]}),
    Harness("C14.purity", purity, functions=_FR, stubs=_ST, assumptions=_AR + ["length-2 arrays whose first driving force is non-positive"],
            bounds={"array length": 2},
            params={"quick": [{"site": "bulk", "beta_kind": 1}, {"site": "grain boundaries", "beta_kind": 2}, {"site": "dislocations", "beta_kind": 3}],
                    "thorough": [{"site": s, "beta_kind": b} for s in SITES for b in (1, 2, 3)]}),
    Harness("C14.incubation", incubation, functions=[NR.nucleationRate], params={"quick": [{"n": 1, "steady": True}, {"n": 2, "steady": False}], "thorough": [{"n": 3, "steady": True}, {"n": 2, "steady": False}]}),
    Harness("C14.monotone", monotone, functions=_FR, stubs=_ST, assumptions=_AR,
            params={"quick": [{"site": "bulk", "beta_kind": 1}, {"site": "grain boundaries", "beta_kind": 1}],
                    "thorough": [{"site": s, "beta_kind": b} for s in SITES[:3] for b in (1, 2, 3)]}),
    Harness("C14.noniso", noniso, functions=[NR.incubationTimeNonIsothermal], assumptions=["recorded times strictly increase, current time >= last recorded time; temperatures, Z, current impingement rate > 0; recorded impingement rates >= 0"],
            params={"quick": [{"N": 1}, {"N": 2}], "thorough": [{"N": 3}]}),
    Harness("C14.cache", cache, functions=_FC, opts={"symbolic_pi": True, "branch_timeout_ms": 6000, "twin_timeout": 40.0},
            assumptions=["every (gamma, gbEnergy) pair that is read lies in the admissible range of the site type current at that moment"],
            params={"quick": [{"site0": "grain boundaries", "ops": ["gamma", "gbe", "site:grain edges"], "owned": False},
                              {"site0": "grain edges", "ops": ["gbe", "gamma", "site:grain boundaries"], "owned": True},
                              {"site0": "grain corners", "ops": ["site:grain boundaries", "both"], "owned": True, "conc_gamma": True},
                              {"site0": "bulk", "ops": ["site:grain edges", "gamma"], "owned": False}],
                    "thorough": _CACHE_THOROUGH}),
    Harness("C14.sites", sites, functions=[PrecipitateModel._calcNucleationSites, NucleationSiteParameters.dislocationSites, NucleationSiteParameters.grainBoundarySites,
                                           NucleationSiteParameters.grainEdgeSites, NucleationSiteParameters.grainCornerSites, NucleationSiteParameters.setNucleationDensity],
            assumptions=["populations >= 0 on a grid with positive radii; grain size, aspect ratio, dislocation density > 0, bulkN0 >= 0"],
            bounds={"phases": 2, "classes": "nb"},
            params={"quick": [{"kinds": ["bulk", "bulk"], "p": 0}, {"kinds": ["dislocations", "bulk"], "p": 0}, {"kinds": ["grain boundaries", "grain boundaries"], "p": 1},
                              {"kinds": ["grain edges", "grain edges"], "p": 0}, {"kinds": ["grain corners", "bulk"], "p": 0},
                              {"kinds": ["grain boundaries", "bulk"], "p": 0, "parents": [1]}, {"kinds": ["dislocations", "dislocations"], "p": 1, "symvm": True},
                              {"kinds": ["grain boundaries", "grain boundaries"], "p": 0, "symvm": True}],
                    "thorough": [{"kinds": [a, b], "p": 0, "nb": 3, "symvm": True} for a in SITES for b in (a, "bulk")]}),
    Harness("C14.cache_owner", cache_owner, functions=[PrecipitateParameters.validate, PrecipitateParameters.gamma.fset, PrecipitateBase.setInterfacialEnergy,
                                                        PrecipitateBase.setNucleationSite, NucleationBarrierParameters.gamma.fset, NucleationBarrierParameters._resetFactors,
                                                        NucleationBarrierParameters.GBk.fget, NR.nucleationBarrier],
            opts={"symbolic_pi": True}, assumptions=["both interfacial energies admissible for the site type (0 <= gbEnergy/(2 gamma) <= limit - 1e-4); no change of site type or grain-boundary energy after the gamma change"],
            params={"quick": [{"site": "grain boundaries", "route": "prec", "read": "factors"}, {"site": "grain boundaries", "route": "model", "read": "factors"},
                              {"site": "grain edges", "route": "prec", "read": "ratio"}, {"site": "grain corners", "route": "model", "read": "ratio"}],
                    "thorough": [{"site": s, "route": r, "read": "ratio"} for s in SITES for r in ("prec", "model")] +
                                [{"site": "grain boundaries", "route": r, "read": "factors"} for r in ("prec", "model")]}),
    Harness("C14.at_limit", at_limit, functions=[NucleationBarrierParameters._validateGBk, NucleationBarrierParameters.areaFactor.fget, NucleationBarrierParameters.volumeFactor.fget,
                                                  NucleationBarrierParameters.gbRemoval.fget, NR.nucleationBarrier, NUC.NucleationDescriptionBase._createArrays],
            assumptions=["gbEnergy = 2 * maxRatio * gamma exactly; edge / corner sites: gamma = 0.25 (a power of two keeps the ratio the limit's double)"],
            params={"quick": [{"site": "grain boundaries", "sym": True}, {"site": "grain edges", "sym": False}, {"site": "grain corners", "sym": False}],
                    "thorough": [{"site": "grain boundaries", "sym": True}, {"site": "grain boundaries", "sym": False}, {"site": "grain edges", "sym": False}, {"site": "grain corners", "sym": False}]}),
    Harness("C14.gb_after_setup", gb_after_setup, functions=[PrecipitateBase.setGrainBoundaryEnergy, PrecipitateBase.setup, PrecipitateModel.setup, NucleationBarrierParameters.gbEnergy.fset,
                                                              NucleationBarrierParameters.GBk.fget, NR.nucleationBarrier],
            opts={"symbolic_pi": True},
            stubs=["the thermodynamic part of KWNEuler.setup (lookup table, first nucleation / growth evaluation) is not run: the base-class PrecipitateBase.setup is called on the real PrecipitateModel, the later model.setup() call is the real one (early return)"],
            assumptions=["both grain-boundary energies admissible for both phases' site types"],
            params={"quick": [{"site": "grain boundaries", "read": "factors"}, {"site": "grain edges", "read": "ratio"}],
                    "thorough": [{"site": "grain boundaries", "read": "factors"}] + [{"site": s, "read": "ratio"} for s in SITES]}),
    Harness("C14.sites_compete", sites_compete, functions=[PrecipitateModel._calcNucleationSites, PrecipitateBase.setNucleationSite, NucleationBarrierParameters.setNucleationType],
            assumptions=["populations >= 0 on a grid with positive radii, at least one class of phase q gains precipitates; grain size, aspect ratio, dislocation density > 0, bulkN0 >= 0"],
            bounds={"phases": "nph (2 or 3), all on the same site type, each with its own description instance", "classes": "nb"},
            params={"quick": [{"site": s, "nph": 2, "p": 0, "q": 1} for s in SITES] + [{"site": "grain boundaries", "nph": 3, "p": 1, "q": 2}, {"site": "bulk", "nph": 2, "p": 1, "q": 1}] +
                             [{"site": s, "nph": 2, "p": pp_, "q": 1 - pp_, "nbs": [2, 3]} for s, pp_ in zip(SITES, (0, 1, 0, 1, 0))] + [{"site": "bulk", "nph": 2, "p": 1, "q": 0, "nbs": [2, 3]}],
                    "thorough": [{"site": s, "nph": 3, "p": p, "q": q, "nb": 3} for s in SITES for (p, q) in ((0, 2), (2, 0), (1, 1))] +
                                [{"site": s, "nph": 3, "p": p, "q": q, "nbs": [3, 2, 4]} for s in SITES for (p, q) in ((0, 1), (2, 0))]}),
    Harness("C14.model_zero", model_zero, functions=[PrecipitateBase._calcNucleationRate, NR.volumetricDrivingForce] + _FR, stubs=_ST + ["_calcNucleationSites of the model: symbolic value >= 0 (decided in C14.sites)"],
            assumptions=_AR + ["the working slice holds an arbitrary earlier evaluation (rates, radii >= 0)"],
            bounds={"phases": "1 (symbolic material constants) or 2 (fixed material constants)", "recorded steps": "n_hist"},
            params={"quick": [{"kinds": ["bulk", "grain boundaries"], "n_hist": 1, "beta_type": 1, "sym_params": False}, {"kinds": ["dislocations"], "n_hist": 2, "beta_type": 1},
                              {"kinds": ["grain boundaries"], "n_hist": 1, "beta_type": 1}],
                    "thorough": [{"kinds": ["bulk", "grain boundaries"], "n_hist": 2, "beta_type": 1, "sym_params": False},
                                 {"kinds": ["grain edges", "grain boundaries"], "n_hist": 1, "beta_type": 1, "sym_params": False},
                                 {"kinds": ["grain corners"], "n_hist": 2, "beta_type": 1, "sym_params": False},
                                 {"kinds": ["grain boundaries"], "n_hist": 2, "beta_type": 1}, {"kinds": ["grain edges"], "n_hist": 1, "beta_type": 1}, {"kinds": ["bulk"], "n_hist": 2, "beta_type": 1}]}),
    Harness("C14.beta_fault", beta_fault, functions=[NR.betaMulti, NR.nucleationBarrier], stubs=_ST + ["impingementFactor returns None for the calls selected by symbolic fault bits"], assumptions=_AR,
            params={"quick": [{"site": "bulk", "n": 2}, {"site": "grain boundaries", "n": 2}], "thorough": [{"site": s, "n": 2} for s in SITES[:3]] + [{"site": "bulk", "n": 3}]}),
    Harness("C14.model_fault", model_fault, functions=[PrecipitateBase._calcNucleationRate, NR.betaMulti, NR.volumetricDrivingForce], assumptions=_AR,
            stubs=_ST + ["impingementFactor returns None for the phases selected by symbolic fault bits", "_calcNucleationSites of the model: symbolic value >= 0"],
            bounds={"phases": "2, fixed material constants", "elements": 2},
            params={"quick": [{"kinds": ["bulk", "grain boundaries"]}], "thorough": [{"kinds": ["bulk", "grain boundaries"]}, {"kinds": ["grain boundaries", "dislocations"]}]}),
    Harness("C14.setup_beta2", setup_beta2, functions=[PrecipitateModel.setup, PrecipitateBase.setup, PrecipitateModel._createLookupBinary, PrecipitateBase._calcNucleationRate, NR.betaBinary2,
                                                        PrecipitateModel._calcNucleationSites],
            stubs=_ST + ["model._growthRate replaced by zeros (not the subject)", "NucleationRate.betaBinary2 wrapped by a recorder that calls the real function"],
            assumptions=["start time of the first record > 0 (at t = 0 the incubation factor is exp(-tau/0))", "fixed material constants, grid of `bins` classes; T, composition, lattice parameter, bulkN0 symbolic"],
            params={"quick": [{"kinds": ["bulk"], "bins": 2}], "thorough": [{"kinds": ["bulk", "grain boundaries"], "bins": 2}, {"kinds": ["dislocations"], "bins": 3}]}),
    Harness("C14.model_beta2", model_zero, functions=[PrecipitateBase._calcNucleationRate, NR.betaBinary2], stubs=_ST, assumptions=_AR,
            doc="the same model-level step with the second binary impingement formula (setBetaBinary(2)): the step completes and records a rate >= 0",
            params={"quick": [{"kinds": ["dislocations"], "n_hist": 2, "beta_type": 2}], "thorough": [{"kinds": ["bulk", "grain boundaries"], "n_hist": 1, "beta_type": 2, "sym_params": False}, {"kinds": ["grain boundaries"], "n_hist": 2, "beta_type": 2}]}),
    # C14.cf_grid (plain floating-point evaluation of the factors on a grid) was written during development as a sanity check of the
    # harnesses; it is a sampling technique, not a solver verdict, and is therefore NOT part of the check (function kept for reference).
    Harness("C14.gb_poly", gb_poly, functions=_FD, opts={"symbolic_pi": True}, params={"quick": [{}], "thorough": [{}]}),
    Harness("C14.barrier", barrier, functions=_FB, opts={"symbolic_pi": True},
            params={"quick": [{"site": s, "n": 1} for s in SITES] + [{"site": "grain boundaries", "n": 2}], "thorough": [{"site": s, "n": 2} for s in SITES]}),
]
