"""C04 -- diffusion conserves every component and honours boundary conditions.

fluxes_single / fluxes_homog : real _getFluxes + getdXdt of both diffusion models with the thermodynamic backend stubbed
        (symbolic diffusivities per node / symbolic mobilities and chemical potentials): telescoping sum, flux BC values on the user's
        side and element, composition BC freezes the node, interior fluxes equal an independent reference.
step   : one real solver iteration (Euler, RK4) through flattenX/unflattenX: the mesh sum changes by exactly dt/dz * sum_s w_s (J_s,left - J_s,right).
clip   : postProcess keeps compositions in [minComposition, 1 - minComposition]; setup never leaves a value below minComposition,
         is idempotent (second call changes nothing), and applies composition BCs to the end nodes.
"""
import itertools
import numpy as np
from vk.run import Harness
from kawin.diffusion.SinglePhase import SinglePhaseModel
from kawin.diffusion.Homogenization import HomogenizationModel
from kawin.diffusion.Diffusion import DiffusionModel
from kawin.diffusion.DiffusionParameters import BoundaryConditions
from kawin.diffusion import Homogenization as _hmod
from kawin.solver.Solver import DESolver, SolverType

ELS = ["NI", "CR", "AL", "FE"]
FLUX, COMP = BoundaryConditions.FLUX_BC, BoundaryConditions.COMPOSITION_BC


def mk_model(ctx, cls, nel, N, bcs, order=None, tag="", strnames=False, via=None):
    els = ELS[:nel + 1]
    m = cls([0.0, 1.0], N, els, ["P"], record=True)
    dz = ctx.real(tag + "dz", (0.1, 1.0)); ctx.assume(dz > 0)
    m.dz = dz
    m.setTemperature(ctx.real(tag + "T", (800.0, 1200.0)))
    m.hashTable.enableCaching(False)
    vals = {}
    # boundary conditions: bcs[e] = (left kind, right kind); `order` = order in which the user sets them (dict insertion order)
    for e in (order if order is not None else range(nel)):
        lk, rk = bcs[e]
        lv = ctx.real(tag + "leftBC_%s" % els[e + 1], (-0.5, 0.5)); rv = ctx.real(tag + "rightBC_%s" % els[e + 1], (-0.5, 0.5))
        name = {FLUX: "flux", COMP: "composition"}
        if via in ("setBC", "setBC_default"):
            # the model-level setter; "setBC_default": the element is left out for the first independent element, which every
            # other setter of the model (setCompositionLinear, ...) documents as "first independent element"
            kw = {} if (via == "setBC_default" and e == 0) else {"element": els[e + 1]}
            m.setBC(kind(lk), lv if lk is not None else 0.0, kind(rk), rv if rk is not None else 0.0, **kw)
            vals[e] = (lv if lk is not None else 0.0, rv if rk is not None else 0.0)
            continue
        if lk is not None:
            m.boundaryConditions.setBoundaryCondition("left" if strnames else BoundaryConditions.LEFT, name[lk] if strnames else lk, lv, els[e + 1])
        if rk is not None:
            m.boundaryConditions.setBoundaryCondition("right" if strnames else BoundaryConditions.RIGHT, name[rk] if strnames else rk, rv, els[e + 1])
        vals[e] = (lv if lk is not None else 0.0, rv if rk is not None else 0.0)
    m.boundaryConditions.setupDefaults(m.elements)
    x = ctx.reals(tag + "x", (nel, N), (0.05, 0.3))
    return m, dz, x, vals


def kind(k):
    return FLUX if k in (None, FLUX) else COMP


def check_bcs(ctx, m, nel, N, bcs, vals, J, d, dz, tag=""):
    for e in range(nel):
        lk, rk = kind(bcs[e][0]), kind(bcs[e][1])
        ctx.prove(tag + "mesh sum of dXdt * dz = left boundary flux - right boundary flux", ctx.eq(dz * sum(d[e, i] for i in range(N)), J[e, 0] - J[e, N]))
        if lk == FLUX:
            ctx.prove(tag + "flux condition: the user's value is the flux through the left face of that element", ctx.eq(J[e, 0], vals[e][0]))
        else:
            ctx.prove(tag + "composition condition: left node does not change", ctx.eq(d[e, 0], 0.0))
        if rk == FLUX:
            ctx.prove(tag + "flux condition: the user's value is the flux through the right face of that element", ctx.eq(J[e, N], vals[e][1]))
        else:
            ctx.prove(tag + "composition condition: right node does not change", ctx.eq(d[e, N - 1], 0.0))


def single(ctx, nel=1, N=3, bcs=((None, None),), order=None, strnames=False, other_first=False, via=None):
    """single-phase model: fluxes, BCs, telescoping, interior reference"""
    if other_first:
        # another model of the same process got non-default boundary conditions before: they must not leak into this one
        mo, _, _, _ = mk_model(ctx, SinglePhaseModel, nel, N, tuple((COMP, FLUX) for _ in range(nel)), None, tag="other_")
    m, dz, x, vals = mk_model(ctx, SinglePhaseModel, nel, N, bcs, order, strnames=strnames, via=via)
    Ds = []
    replay = {"on": False, "k": 0}

    class St:
        def getInterdiffusivity(s, xx, T, phase=None):
            if replay["on"]:            # second evaluation of the same profile: the same (deterministic) backend answers
                v = Ds[replay["k"]][0]; replay["k"] += 1
                return v
            k = len(Ds)
            if nel == 1:
                v = ctx.real("D%d" % k, (0.1, 2.0)); ctx.assume(v > 0)
            else:
                v = ctx.reals("D%d" % k, (nel, nel), (0.1, 2.0))
            Ds.append((v, [xx[e] * 1 for e in range(nel)], T))
            return v

        def clearCache(s): pass
    m.therm = St()
    x0 = [[x[e, i] * 1 for i in range(N)] for e in range(nel)]
    d = m.getdXdt(0.0, [x])[0]
    ctx.observe("dxdt", d)
    ctx.prove("backend asked once per node", len(Ds) == N)
    for i in range(N):
        ctx.prove("backend sees that node's composition", ctx.all([ctx.eq(Ds[i][1][e], x0[e][i]) for e in range(nel)]))
    # independent reference for the face fluxes
    J = np.zeros((nel, N + 1)) * dz
    for i in range(1, N):
        for e in range(nel):
            if nel == 1:
                J[e, i] = -0.5 * (Ds[i][0] + Ds[i - 1][0]) * (x0[e][i] - x0[e][i - 1]) / dz
            else:
                J[e, i] = -sum(0.5 * (Ds[i][0][e, k] + Ds[i - 1][0][e, k]) * (x0[k][i] - x0[k][i - 1]) / dz for k in range(nel))
    for e in range(nel):
        lk, rk = kind(bcs[e][0]), kind(bcs[e][1])
        J[e, 0] = vals[e][0] if lk == FLUX else J[e, 1]
        J[e, N] = vals[e][1] if rk == FLUX else J[e, N - 1]
    for e in range(nel):
        for i in range(N):
            ctx.prove("dXdt = -(J_right - J_left)/dz with reference face fluxes and the user's boundary conditions", ctx.eq(d[e, i] * dz, -(J[e, i + 1] - J[e, i])))
    replay["on"] = True
    Jm = m._getFluxes(0.0, [x])
    ctx.observe("J", Jm)
    check_bcs(ctx, m, nel, N, bcs, vals, Jm, d, dz)
    ctx.prove("profile handed in is not modified", ctx.all([ctx.eq(x[e, i], x0[e][i]) for e in range(nel) for i in range(N)]))


def homog(ctx, nel=1, N=3, bcs=((None, None),), order=None, ref2=False):
    """homogenization model: fluxes in the volume-fixed frame, BCs, telescoping"""
    m, dz, x, vals = mk_model(ctx, HomogenizationModel, nel, N, bcs, order)
    for i in range(N):
        for e in range(nel):
            ctx.assume(x[e, i] > 0)
        ctx.assume(sum(x[e, i] for e in range(nel)) < 1)
    mob = ctx.reals("mob", (N, nel + 1), (0.5, 2.0)); mu = ctx.reals("mu", (N, nel + 1), (-1.0, 1.0))
    for i in range(N):
        for e in range(nel + 1):
            ctx.assume(mob[i, e] > 0)
    eps = ctx.real("eps", (0.0, 0.1)); ctx.assume(eps >= 0)
    m.homogenizationParameters.eps = eps
    seen = {}

    def fake(therm, xx, T, params, hashTable=None):
        seen["x"] = xx; seen["T"] = T
        return mob[:, 1:], mu[:, 1:]
    # computeHomogenizationFunction returns (N, e) arrays for the independent components; the model needs all components:
    # run the real code path with the stub returning the independent block and check shapes the real function documents
    def fake_full(therm, xx, T, params, hashTable=None):
        seen["x"] = xx; seen["T"] = T
        return mob, mu
    old = _hmod.computeHomogenizationFunction
    _hmod.computeHomogenizationFunction = fake_full
    try:
        x0 = [[x[e, i] * 1 for i in range(N)] for e in range(nel)]
        J = m._getFluxes(0.0, [x])
        d = m.getdXdt(0.0, [x])[0]
    finally:
        _hmod.computeHomogenizationFunction = old
    ctx.observe("J", J)
    ctx.prove("flux array has one row per independent component and one column per face", np.shape(J) == (nel, N + 1))
    # independent reference for the interior faces: J_k = -M_k dmu_k/dz - eps M_k R T (du_k/dz)/u_k for every component (reference element
    # included), mobility at the face = geometric mean of the node values, then the volume-fixed frame J^v_e = J_e - u_e * sum_k J_k
    from kawin.Constants import GAS_CONSTANT
    if np.shape(J) == (nel, N + 1) and (nel == 1 or ref2):
        Tm = m.temperatureParameters.Tparameters
        for i in range(1, N):
            xf = [[1 - sum(x0[e][n_] for e in range(nel)) for n_ in (i - 1, i)]] + [[x0[e][i - 1], x0[e][i]] for e in range(nel)]
            Jk = []
            for k in range(nel + 1):
                Mmid = np.exp(0.5 * (np.log(mob[i, k]) + np.log(mob[i - 1, k])))
                uavg = 0.5 * (xf[k][0] + xf[k][1])
                Jk.append(-Mmid * (mu[i, k] - mu[i - 1, k]) / dz - eps * Mmid * GAS_CONSTANT * Tm * ((xf[k][1] - xf[k][0]) / dz) / uavg)
            tot = sum(Jk)
            for e in range(nel):
                uavg = 0.5 * (xf[e + 1][0] + xf[e + 1][1])
                ctx.prove("interior face flux is the homogenization flux in the volume-fixed frame (reference formula)", ctx.eq(J[e, i], Jk[e + 1] - uavg * tot))
    ctx.prove("backend sees the profile node by node", np.shape(seen["x"]) == (N, nel) and ctx.all([ctx.eq(seen["x"][i, e], x0[e][i]) for i in range(N) for e in range(nel)]))
    check_bcs(ctx, m, nel, N, bcs, vals, J, d, dz)
    for e in range(nel):
        for i in range(N):
            ctx.prove("dXdt = -(J_right - J_left)/dz", ctx.eq(d[e, i] * dz, -(J[e, i + 1] - J[e, i])))
    ctx.prove("profile handed in is not modified", ctx.all([ctx.eq(x[e, i], x0[e][i]) for e in range(nel) for i in range(N)]))


def step(ctx, model="single", kind_="euler", nel=1, N=3, bcs=((None, None),)):
    """one real solver iteration: change of the mesh sum = dt/dz * sum_s w_s (J_s,left - J_s,right); fixed-composition nodes stay put"""
    cls = SinglePhaseModel if model == "single" else HomogenizationModel
    m, dz, x, vals = mk_model(ctx, cls, nel, N, bcs)
    dt = ctx.real("dt", (0.01, 0.5)); ctx.assume(dt > 0); ctx.assume(dt < 1e29)
    if model != "single":
        for i in range(N):
            for e in range(nel):
                ctx.assume(x[e, i] > 0)
            ctx.assume(sum(x[e, i] for e in range(nel)) < 1)
    stages = []
    if model == "single":
        class St:
            def getInterdiffusivity(s, xx, T, phase=None):
                k = ctx.real("D%d" % next(cnt), (0.1, 2.0)) if nel == 1 else ctx.reals("D%d" % next(cnt), (nel, nel), (0.1, 2.0))
                return k

            def clearCache(s): pass
        cnt = itertools.count()
        m.therm = St()
    else:
        cnt = itertools.count()

        def fake_full(therm, xx, T, params, hashTable=None):
            k = next(cnt)
            mob = ctx.reals("mob%d" % k, (N, nel + 1), (0.5, 2.0)); mu = ctx.reals("mu%d" % k, (N, nel + 1), (-1.0, 1.0))
            return mob, mu
        m.homogenizationParameters.eps = 0.0
    orig = m._getFluxes

    def rec(t, xc):
        J = orig(t, xc)
        stages.append(J.copy())
        return J
    m._getFluxes = rec
    s = DESolver(SolverType.EXPLICITEULER if kind_ == "euler" else SolverType.RK4)
    s.setdXdtFunctions(m.getdXdt, m.correctdXdt, lambda d: dt, m.flattenX, m.unflattenX)
    s._dtmin = 0.0; s._dtmax = 1e30; s._X0 = [x]
    x0 = [[x[e, i] * 1 for i in range(N)] for e in range(nel)]
    old = _hmod.computeHomogenizationFunction
    if model != "single":
        _hmod.computeHomogenizationFunction = fake_full
    try:
        flat, dtu = s.iterator(s._getdXdt, 0.0, m.flattenX([x]), s._updateX)
    finally:
        _hmod.computeHomogenizationFunction = old
    xn = m.unflattenX(flat, [x])[0]
    ctx.observe("xnew", xn)
    w = [1.0] if kind_ == "euler" else [1.0 / 6, 2.0 / 6, 2.0 / 6, 1.0 / 6]
    ctx.prove("one flux evaluation per stage", len(stages) == len(w))
    if len(stages) != len(w):
        return
    ctx.prove("state keeps its (elements x nodes) shape through flatten/unflatten", np.shape(xn) == (nel, N))
    for e in range(nel):
        tot0 = sum(x0[e]); tot1 = sum(xn[e, i] for i in range(N))
        net = sum((1.0 if kind_ == "euler" else [1, 2, 2, 1][k]) * (stages[k][e, 0] - stages[k][e, N]) for k in range(len(w)))
        denom = 1.0 if kind_ == "euler" else 6.0
        ctx.prove("mesh sum changes by dt/dz * weighted (left flux - right flux)", ctx.eq((tot1 - tot0) * dz * denom, dt * net))
        lk, rk = kind(bcs[e][0]), kind(bcs[e][1])
        if lk == FLUX and rk == FLUX:
            closed = ctx.all([ctx.eq(vals[e][0], 0.0, rtol=0.0), ctx.eq(vals[e][1], 0.0, rtol=0.0)])
            ctx.prove("closed boundaries: mesh sum constant", ctx.implies(closed, ctx.eq(tot1, tot0)))
        if lk == COMP:
            ctx.prove("fixed-composition node keeps its composition over the step (left)", ctx.eq(xn[e, 0], x0[e][0]))
        if rk == COMP:
            ctx.prove("fixed-composition node keeps its composition over the step (right)", ctx.eq(xn[e, N - 1], x0[e][N - 1]))
    ctx.prove("profile handed to the iterator is not modified", ctx.all([ctx.eq(x[e, i], x0[e][i]) for e in range(nel) for i in range(N)]))


def clip(ctx, nel=2, N=2, both=False, strnames=False):
    """postProcess output range; setup: floor, idempotence, composition BCs on the end nodes"""
    m, dz, x, vals = mk_model(ctx, SinglePhaseModel, nel, N, tuple((COMP if e == 0 else None, None) for e in range(nel)))
    mc = ctx.real("minComposition", (1e-4, 1e-2)); ctx.assume(mc > 0); ctx.assume(mc < 0.1)
    m.constraints.minComposition = mc
    xin = ctx.reals("xnew", (nel, N), (-0.2, 1.2))
    out, stop = m.postProcess(ctx.real("t1", (0.1, 1.0)), [xin])
    for e in range(nel):
        for i in range(N):
            ctx.prove("postProcess keeps compositions within [minComposition, 1 - minComposition]", ctx.all([ctx.le(mc, m.x[e, i]), ctx.le(m.x[e, i], 1 - mc)]))
            inside = ctx.all([xin[e, i] >= mc, xin[e, i] <= 1 - mc])
            ctx.prove("postProcess leaves admissible compositions alone", ctx.implies(inside, ctx.eq(m.x[e, i], xin[e, i])))
    ctx.prove("postProcess never requests a stop", stop is False)
    # ---- setup on a fresh model
    m2, dz2, x2, vals2 = mk_model(ctx, SinglePhaseModel, nel, N, tuple((COMP if e == 0 else None, COMP if (e == 0 and both) else None) for e in range(nel)), tag="s_", strnames=strnames)
    m2.constraints.minComposition = mc

    class St:
        def clearCache(s): pass
    m2.therm = St()
    prof = ctx.reals("profile", (nel, N), (0.0, 0.4))
    for i in range(N):
        for e in range(nel):
            ctx.assume(prof[e, i] >= 0)
        ctx.assume(sum(prof[e, i] for e in range(nel)) <= 1)
    lv = vals2[0][0]; ctx.assume(lv >= 0); ctx.assume(lv + sum(prof[e, 0] for e in range(1, nel)) <= 1)
    if both:
        ctx.assume(vals2[0][1] >= 0); ctx.assume(vals2[0][1] + sum(prof[e, N - 1] for e in range(1, nel)) <= 1)
    m2.x = prof
    m2.compositionProfile.buildProfile = lambda els, xx, z: None        # profile builders are inputs of the property, not its subject
    m2.setup()
    after1 = [[m2.x[e, i] * 1 for i in range(N)] for e in range(nel)]
    nrec = len(m2._recordedTime)
    for e in range(nel):
        for i in range(N):
            ctx.prove("setup leaves no composition below minComposition", ctx.le(mc, m2.x[e, i]))
    nall = nel + 1
    expect = ctx.ite(lv > mc, ctx.ite(lv - nall * mc >= mc, lv - nall * mc, mc), mc)
    ctx.prove("setup puts the fixed-composition value on the end node (then shifted/floored like every node)", ctx.eq(m2.x[0, 0], expect))
    if both:
        rv = vals2[0][1]
        expect_r = ctx.ite(rv > mc, ctx.ite(rv - nall * mc >= mc, rv - nall * mc, mc), mc)
        ctx.prove("setup puts the right fixed-composition value on the right end node as well", ctx.eq(m2.x[0, N - 1], expect_r))
    m2.setup()
    ctx.prove("second setup call (next solve) does not change the profile", ctx.all([ctx.eq(m2.x[e, i], after1[e][i]) for e in range(nel) for i in range(N)]))
    ctx.prove("second setup call does not add a record", len(m2._recordedTime) == nrec)


_F = [SinglePhaseModel._getFluxes, HomogenizationModel._getFluxes, DiffusionModel.getdXdt, DiffusionModel.postProcess, DiffusionModel.setup,
      DiffusionModel.flattenX, DiffusionModel.unflattenX, BoundaryConditions.applyBoundaryConditionsToFluxes, BoundaryConditions.applyBoundaryConditionsToInitialProfile,
      BoundaryConditions.setBoundaryCondition, BoundaryConditions.setupDefaults]
_A = ["real arithmetic; dz > 0; composition cache switched off (C09 covers it)", "boundary-condition kinds per element and side enumerated, values symbolic",
      "homogenization: compositions > 0 and summing to < 1, mobilities > 0"]
_S = ["therm.getInterdiffusivity: fresh symbolic diffusivity (scalar or matrix) per node and call", "computeHomogenizationFunction: symbolic mobilities and chemical potentials per node",
      "CompositionProfile.buildProfile: identity (initial profile symbolic)"]
B1 = [((None, None),), ((FLUX, FLUX),), ((COMP, FLUX),), ((FLUX, COMP),), ((COMP, COMP),)]
B2 = [((None, None), (COMP, None)), ((FLUX, COMP), (COMP, FLUX)), ((COMP, COMP), (FLUX, FLUX))]
def bc_switch(ctx, N=3, first="comp"):
    """boundary conditions changed between two solve calls (no reset): a side switched from a fixed composition to a flux condition (or back)
    is treated as what the user set LAST: the user's flux passes the left face and the mesh sum changes by (J_left - J_right) dt/dz again"""
    els = ELS[:2]
    m = SinglePhaseModel([0.0, 1.0], N, els, ["P"], record=False)
    dz = m.dz
    m.setTemperature(ctx.real("T", (800.0, 1200.0)))
    m.hashTable.enableCaching(False)
    xl = ctx.real("x_left", (0.1, 0.3)); xr = ctx.real("x_right", (0.1, 0.3))
    ctx.assume(xl > 0.01); ctx.assume(xr > 0.01); ctx.assume(xl < 0.9); ctx.assume(xr < 0.9)
    m.setCompositionLinear(xl, xr)
    cval = ctx.real("fixed_composition", (0.1, 0.3)); ctx.assume(cval > 0.01); ctx.assume(cval < 0.9)
    jval = ctx.real("left_flux", (-0.5, 0.5))
    if first == "comp":
        m.setBC(COMP, cval, FLUX, 0.0)
    else:
        m.setBC(FLUX, jval, FLUX, 0.0)
    Ds = []

    class St:
        def getInterdiffusivity(s, xx, T, phase=None):
            v = ctx.uf("Dnode", xx[0] if np.ndim(xx) else xx, T, rng=(0.1, 2.0))      # one (uninterpreted) diffusivity per composition and temperature
            ctx.assume(v > 0); Ds.append(v)
            return v

        def clearCache(s): pass
    m.therm = St()
    m.setup()                                   # what the first solve() does
    d1 = m.getdXdt(0.0, [m.x])[0]
    if first == "comp":
        ctx.prove("first call: fixed-composition node does not change", ctx.eq(d1[0, 0], 0.0))
        m.setBC(FLUX, jval, FLUX, 0.0)          # the user opens the side for a flux before the next solve call
    else:
        ctx.prove("first call: the user's flux passes the left face", ctx.eq(m._getFluxes(0.0, [m.x])[0, 0], jval))
        m.setBC(COMP, cval, FLUX, 0.0)
    m.setup()                                   # second solve(): not the first-time branch
    d2 = m.getdXdt(0.0, [m.x])[0]
    J = m._getFluxes(0.0, [m.x])
    ctx.prove("second call: mesh sum of dXdt * dz = left boundary flux - right boundary flux", ctx.eq(dz * sum(d2[0, i] for i in range(N)), J[0, 0] - J[0, N]))
    for i in range(N):
        ctx.prove("second call: dXdt is the face-flux difference", ctx.eq(d2[0, i] * dz, J[0, i] - J[0, i + 1]))
    if first == "comp":
        ctx.prove("second call: the flux condition set last is honoured on the left face", ctx.eq(J[0, 0], jval))
    else:
        ctx.prove("second call: the side switched to a fixed composition is held", ctx.eq(d2[0, 0], 0.0))


def homog_dt(ctx, nel=1, N=3, uniform=False):
    """real HomogenizationModel.getDt on an arbitrary rate field (also the all-zero one of a uniform profile): no internal error, a positive
    step, and no node changes by more than maxCompositionChange within it"""
    els = ELS[:nel + 1]
    m = HomogenizationModel([0.0, 1.0], N, els, ["P"], record=False)
    mc = ctx.real("maxCompositionChange", (0.001, 0.01)); ctx.assume(mc > 0)
    m.constraints.maxCompositionChange = mc
    if uniform:
        d = np.zeros((nel, N))
    else:
        d = ctx.reals("dxdt", (nel, N), (-1.0, 1.0))
    dt = m.getDt([d])
    if isinstance(dt, (float, np.floating)) and np.isinf(dt):
        ctx.prove("time step is positive", dt > 0)
        ctx.prove("an unlimited step is returned only when nothing changes", ctx.all([ctx.eq(d[e, i], 0.0) for e in range(nel) for i in range(N)]) if not uniform else True)
        return
    ctx.prove("time step is positive", ctx.lt(0.0 * mc, dt))
    for e in range(nel):
        for i in range(N):
            a = d[e, i]
            ctx.prove("no node changes by more than maxCompositionChange within the step", ctx.all([ctx.le(a * dt, mc), ctx.le(-a * dt, mc)]))


HARNESSES = [
    Harness("C04.bc_switch", bc_switch, functions=[DiffusionModel.setup, DiffusionModel.getdXdt, DiffusionModel.setBC, SinglePhaseModel._getFluxes],
            assumptions=["binary single-phase model, linear initial profile, compositions in (0.01, 0.9); backend stubbed (positive diffusivity per node and call)"],
            bounds={"nodes": "N", "solve calls": 2}, params={"quick": [{"N": 3, "first": "comp"}, {"N": 3, "first": "flux"}], "thorough": [{"N": 4, "first": "comp"}, {"N": 4, "first": "flux"}, {"N": 6, "first": "comp"}, {"N": 6, "first": "flux"}]}),
    Harness("C04.homog_dt", homog_dt, functions=[HomogenizationModel.getDt], assumptions=["maxCompositionChange > 0; rate field arbitrary, including exactly zero entries and the all-zero field"],
            bounds={"nodes": "N"}, params={"quick": [{"nel": 1, "N": 2}, {"nel": 1, "N": 3, "uniform": True}], "thorough": [{"nel": 1, "N": 3}, {"nel": 2, "N": 2}, {"nel": 2, "N": 3, "uniform": True}, {"nel": 3, "N": 3}, {"nel": 2, "N": 5}, {"nel": 3, "N": 4, "uniform": True}]}),
    Harness("C04.single", single, functions=_F, assumptions=_A, stubs=_S, bounds={"solutes": "nel", "nodes": "N"},
            params={"quick": [{"nel": 1, "N": 3, "bcs": b} for b in B1] + [{"nel": 2, "N": 3, "bcs": b} for b in B2] + [{"nel": 2, "N": 3, "bcs": B2[0], "order": [1, 0]}] +
                             [{"nel": 1, "N": 3, "bcs": B1[3], "strnames": True}, {"nel": 2, "N": 3, "bcs": B2[1], "strnames": True}, {"nel": 1, "N": 3, "bcs": B1[0], "other_first": True},
                              {"nel": 1, "N": 3, "bcs": B1[3], "via": "setBC_default"}, {"nel": 2, "N": 3, "bcs": B2[1], "via": "setBC"}, {"nel": 2, "N": 3, "bcs": B2[1], "via": "setBC_default"}],
                    "thorough": [{"nel": 1, "N": 5, "bcs": b} for b in B1] + [{"nel": 1, "N": 3, "bcs": b, "strnames": True} for b in B1] + [{"nel": 2, "N": 3, "bcs": B2[0], "other_first": True}] + [{"nel": 2, "N": 4, "bcs": b, "order": o} for b in B2 for o in ([0, 1], [1, 0])] + [{"nel": 3, "N": 3, "bcs": ((COMP, FLUX), (None, None), (FLUX, COMP)), "order": [2, 0, 1]}]}),
    Harness("C04.homog", homog, functions=_F, assumptions=_A, stubs=_S, bounds={"solutes": "nel", "nodes": "N"}, opts={"ob_timeout": 40.0},
            params={"quick": [{"nel": 1, "N": 3, "bcs": b} for b in B1[:3]] + [{"nel": 2, "N": 3, "bcs": B2[1]}, {"nel": 2, "N": 2, "bcs": B2[0], "order": [1, 0]}],
                    "thorough": [{"nel": 1, "N": 4, "bcs": b} for b in B1] + [{"nel": 2, "N": 3, "bcs": b, "order": o} for b in B2 for o in ([0, 1], [1, 0])] +
                                [{"nel": 2, "N": 2, "bcs": B2[0], "ref2": True, "_opts": {"ob_timeout": 200.0}}]}),
    Harness("C04.step", step, functions=_F + [DESolver._updateX, DESolver._getdXdt], assumptions=_A + ["clip of postProcess inactive (the step itself is examined)"], stubs=_S,
            opts={"ob_timeout": 60.0}, budget={"quick": 150.0, "thorough": 1500.0},
            params={"quick": [{"model": "single", "kind_": "euler", "nel": 1, "N": 3, "bcs": B1[0]}, {"model": "single", "kind_": "rk4", "nel": 1, "N": 3, "bcs": B1[2]},
                              {"model": "homog", "kind_": "euler", "nel": 1, "N": 3, "bcs": B1[1]}, {"model": "single", "kind_": "euler", "nel": 2, "N": 2, "bcs": B2[1]}],
                    "thorough": [{"model": "single", "kind_": k, "nel": 1, "N": 3, "bcs": b} for k in ("euler", "rk4") for b in B1[:3]] +
                                [{"model": "homog", "kind_": "euler", "nel": 1, "N": 3, "bcs": b} for b in B1[:3]] + [{"model": "single", "kind_": "euler", "nel": 2, "N": 3, "bcs": B2[1]}]}),
    Harness("C04.clip", clip, functions=_F, assumptions=_A + ["initial profile >= 0 with node sums <= 1"], stubs=_S,
            params={"quick": [{"nel": 1, "N": 2}, {"nel": 2, "N": 2}, {"nel": 1, "N": 3, "both": True}, {"nel": 1, "N": 3, "both": True, "strnames": True}], "thorough": [{"nel": 2, "N": 3}, {"nel": 3, "N": 2}, {"nel": 2, "N": 3, "both": True}, {"nel": 3, "N": 3, "both": True}, {"nel": 1, "N": 5, "both": True}]}),
]
