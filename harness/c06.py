"""C06 -- integrators reach their nominal order, also for time-dependent problems.

The Butcher tableau (a, b, c) of each real iterator is extracted from the real code: coefficients by
concrete linear probing, and the *linear form itself* (stage states, result, stage times, valid for all
X_old, dt, k_i, t) as SMT obligations on a symbolic run.  The order conditions are then checked in exact
rationals -- necessary and sufficient for the nominal order on smooth problems, autonomous or not.
"""
from fractions import Fraction as Fr
import numpy as np
from vk.run import Harness
from kawin.solver.Iterators import ExplicitEulerIterator, RK4Iterator
from kawin.solver.Solver import DESolver, SolverType

ITER = {"euler": (ExplicitEulerIterator, 1, SolverType.EXPLICITEULER), "rk4": (RK4Iterator, 4, SolverType.RK4)}


def mk_solver(kind, rec, kvals, dtval):
    """a real DESolver whose model callbacks record what they are given"""
    s = DESolver(ITER[kind][2])

    def f(t, X):
        i = len(rec["t"])
        rec["t"].append(t)
        rec["X"].append([x for x in X])
        return kvals(i) if callable(kvals) else (kvals[i] if i < len(kvals) else kvals[-1])

    s.setdXdtFunctions(f, s.correctdXdtNotImplemented, lambda dXdt: dtval, s.flattenXNotImplemented, s.unflattenXNotImplemented)
    s._dtmin = 0.0
    s._dtmax = 1e30
    s._X0 = None
    return s


def probe(kind, d=1, int_state=False):
    """concrete affine probing of the real iterator around k_i = 1: returns (c, a, b) as Fractions, or None when the
    iterator does not evaluate the model the nominal number of times"""
    it, ns, _ = ITER[kind]
    rat = lambda v: Fr(float(v)).limit_denominator(100000)

    def run(kv, t=0.0, dt=1.0, x0=0.0):
        rec = {"t": [], "X": []}
        kvals = lambda i: np.array([kv[i] if i < ns else 0.0] * d, dtype=float)
        s = mk_solver(kind, rec, kvals, dt)
        xn, dtu = it(s._getdXdt, t, np.array([x0] * d, dtype=(int if int_state else float)), s._updateX)
        return rec, xn
    rec0, xb = run([1.0] * ns, t=0.0, dt=1.0)
    if len(rec0["t"]) != ns:
        return None
    c = [rat(t) for t in rec0["t"]]
    a = [[Fr(0)] * ns for _ in range(ns)]
    b = [Fr(0)] * ns
    for j in range(ns):
        kv = [1.0] * ns; kv[j] = 2.0
        rec, xn = run(kv)
        if len(rec["t"]) != ns:
            return None
        for i in range(ns):
            a[i][j] = rat(rec["X"][i][0] - rec0["X"][i][0])
        b[j] = rat(xn[0] - xb[0])
    return c, a, b


def order_conditions(c, a, b, upto):
    n = len(b)
    S = lambda f: sum((f(i) for i in range(n)), Fr(0))
    ac = [sum((a[i][j] * c[j] for j in range(n)), Fr(0)) for i in range(n)]
    ac2 = [sum((a[i][j] * c[j] ** 2 for j in range(n)), Fr(0)) for i in range(n)]
    aac = [sum((a[i][j] * ac[j] for j in range(n)), Fr(0)) for i in range(n)]
    conds = {"sum b = 1": S(lambda i: b[i]) == 1}
    if upto >= 2:
        conds["sum b c = 1/2"] = S(lambda i: b[i] * c[i]) == Fr(1, 2)
    if upto >= 3:
        conds["sum b c^2 = 1/3"] = S(lambda i: b[i] * c[i] ** 2) == Fr(1, 3)
        conds["sum b a c = 1/6"] = S(lambda i: b[i] * ac[i]) == Fr(1, 6)
    if upto >= 4:
        conds["sum b c^3 = 1/4"] = S(lambda i: b[i] * c[i] ** 3) == Fr(1, 4)
        conds["sum b c a c = 1/8"] = S(lambda i: b[i] * c[i] * ac[i]) == Fr(1, 8)
        conds["sum b a c^2 = 1/12"] = S(lambda i: b[i] * ac2[i]) == Fr(1, 12)
        conds["sum b a a c = 1/24"] = S(lambda i: b[i] * aac[i]) == Fr(1, 24)
    return conds


def tableau(ctx, kind="rk4", d=2):
    """linear form of the real iterator for symbolic t, dt, X_old, k_i; order conditions on the extracted tableau"""
    it, ns, _ = ITER[kind]
    order = 4 if kind == "rk4" else 1
    pr = probe(kind)
    ctx.prove("iterator evaluates the model once per nominal stage (concrete probe)", pr is not None)
    if pr is None:
        return
    c, a, b = pr
    t = ctx.real("t", (-2.0, 5.0)); dt = ctx.real("dt", (0.01, 2.0))
    ctx.assume(dt > 0); ctx.assume(dt < 1e29)
    X = ctx.reals("X", d, (-2.0, 2.0))
    ks = [ctx.reals("k%d" % i, d, (-2.0, 2.0)) for i in range(ns)]
    kcopy = [[ks[i][j] for j in range(d)] for i in range(ns)]   # the model's k_i values before any in-place arithmetic
    rec = {"t": [], "X": []}
    s = mk_solver(kind, rec, ks, dt)
    xold_items = [X[j] for j in range(d)]
    xn, dtu = it(s._getdXdt, t, X, s._updateX)
    ctx.observe("xnew", xn)
    ctx.prove("number_of_stages", len(rec["t"]) == ns)
    if len(rec["t"]) != ns:
        return
    for i in range(ns):
        ctx.prove("stage_time_is_t_plus_c_dt", ctx.eq(rec["t"][i], t + float(c[i]) * dt if c[i] != 0 else t + 0.0 * dt))
        for j in range(d):
            ref = xold_items[j] + dt * sum((float(a[i][m]) * kcopy[m][j] for m in range(ns) if a[i][m] != 0), 0.0 * dt)
            ctx.prove("stage_state_is_linear_form", ctx.eq(rec["X"][i][j], ref))
    for j in range(d):
        ref = xold_items[j] + dt * sum((b[m].numerator * kcopy[m][j] / b[m].denominator for m in range(ns) if b[m] != 0), 0.0 * dt)
        ctx.prove("result_is_linear_form", ctx.eq(xn[j], ref))
    ctx.prove("dt_passed_through", ctx.eq(dtu, dt))
    # documented stage times
    doc_c = [Fr(0), Fr(1, 2), Fr(1, 2), Fr(1)] if kind == "rk4" else [Fr(0)]
    ctx.prove("stage_times_as_documented", c == doc_c)
    # order conditions with the extracted stage times (non-autonomous problems) ...
    for name, ok in order_conditions(c, a, b, order).items():
        ctx.prove("order_condition(non-autonomous): " + name, bool(ok))
    # ... and with c := row sums of a (autonomous problems), plus the consistency that equates the two
    crow = [sum(a[i], Fr(0)) for i in range(ns)]
    for name, ok in order_conditions(crow, a, b, order).items():
        ctx.prove("order_condition(autonomous): " + name, bool(ok))
    ctx.prove("row_sum_consistency c_i = sum_j a_ij", c == crow)
    # the state vector handed to the iterator is unchanged
    for j in range(d):
        ctx.prove("X_old_not_modified", ctx.eq(X[j], xold_items[j]))


def dtype_independent(ctx, kind="rk4"):
    """the tableau realised by the iterator does not depend on the dtype of the state array (an integer initial state, as in
    kawin's own test model, must not truncate the stage states)"""
    scale = ctx.real("unused", (0.5, 1.5))       # the probes are concrete: dtypes are structure, not solver variables
    pf = probe(kind, int_state=False, d=2)
    pi = probe(kind, int_state=True, d=2)
    ctx.prove("iterator evaluates the model once per nominal stage for an integer state", pi is not None and pf is not None)
    if pi is None or pf is None:
        return
    ctx.prove("stage times do not depend on the state dtype", pi[0] == pf[0])
    ctx.prove("stage coefficients a_ij do not depend on the state dtype", pi[1] == pf[1])
    ctx.prove("weights b_i do not depend on the state dtype", pi[2] == pf[2])


def through_model(ctx, kind="rk4", d=2, tail="array1"):
    """through GenericModel-style nested state (list of arrays) and the real flatten/unflatten: the model's getdXdt is
    called at the documented times, with states of the supplied layout, and the model's X is not modified"""
    from kawin.GenericModel import GenericModel
    it, ns, _ = ITER[kind]
    pr = probe(kind)
    if pr is None:
        ctx.prove("iterator evaluates the model once per nominal stage (concrete probe)", False)
        return
    c, a, b = pr
    t = ctx.real("t", (-2.0, 5.0)); dt = ctx.real("dt", (0.01, 2.0))
    ctx.assume(dt > 0); ctx.assume(dt < 1e29)
    scalar = tail == "scalar"          # [array, scalar]: a scalar entry that follows an array entry
    X0 = [ctx.reals("A", d, (-2.0, 2.0)), ctx.real("B", (-2.0, 2.0)) if scalar else ctx.reals("B", 1, (-2.0, 2.0))]
    tailv = (lambda X: X[1]) if scalar else (lambda X: X[1][0])
    orig = [[X0[0][j] for j in range(d)], [tailv(X0)]]
    ks = [[ctx.reals("kA%d" % i, d, (-2.0, 2.0)), ctx.real("kB%d" % i, (-2.0, 2.0)) if scalar else ctx.reals("kB%d" % i, 1, (-2.0, 2.0))] for i in range(ns)]
    seen = {"t": [], "shapes": [], "X": []}
    m = GenericModel()
    s = DESolver(ITER[kind][2])

    def f(tt, X):
        seen["t"].append(tt)
        seen["shapes"].append([np.shape(x) for x in X])
        seen["X"].append([[X[0][j] * 1 for j in range(d)], tailv(X) * 1])
        return ks[len(seen["t"]) - 1]
    s.setdXdtFunctions(f, s.correctdXdtNotImplemented, lambda dXdt: dt, m.flattenX, m.unflattenX)
    s._dtmin = 0.0; s._dtmax = 1e30
    s._X0 = X0
    xn, dtu = it(s._getdXdt, t, m.flattenX(X0), s._updateX)
    xn = m.unflattenX(xn, X0)
    ctx.prove("model_called_once_per_stage", len(seen["t"]) == ns)
    if len(seen["t"]) != ns:
        return
    for i in range(ns):
        ctx.prove("model_called_at_documented_time", ctx.eq(seen["t"][i], t + float(c[i]) * dt if c[i] != 0 else t + 0.0 * dt))
        ctx.prove("model_sees_supplied_layout", seen["shapes"][i] == [(d,), () if scalar else (1,)])
        # the stage state handed to the model: every entry of the layout carries its own linear form
        for j in range(d):
            ref = orig[0][j] + dt * sum((float(a[i][m_]) * ks[m_][0][j] for m_ in range(ns) if a[i][m_] != 0), 0.0 * dt)
            ctx.prove("stage state through unflatten: array entry", ctx.eq(seen["X"][i][0][j], ref))
        ref = orig[1][0] + dt * sum((float(a[i][m_]) * tailv(ks[m_]) for m_ in range(ns) if a[i][m_] != 0), 0.0 * dt)
        ctx.prove("stage state through unflatten: trailing entry", ctx.eq(seen["X"][i][1], ref))
    for j in range(d):
        ctx.prove("model_state_not_modified", ctx.eq(X0[0][j], orig[0][j]))
        ref = orig[0][j] + dt * sum((b[m_].numerator * ks[m_][0][j] / b[m_].denominator for m_ in range(ns) if b[m_] != 0), 0.0 * dt)
        ctx.prove("result_through_flatten_roundtrip", ctx.eq(xn[0][j], ref))
    ref = orig[1][0] + dt * sum((b[m_].numerator * tailv(ks[m_]) / b[m_].denominator for m_ in range(ns) if b[m_] != 0), 0.0 * dt)
    ctx.prove("result_through_flatten_roundtrip: trailing entry", ctx.eq(tailv(xn), ref))
    ctx.prove("model_state_not_modified", ctx.eq(tailv(X0), orig[1][0]))
    ctx.prove("result_layout", [np.shape(x) for x in xn] == [(d,), () if scalar else (1,)])


_F = [ExplicitEulerIterator, RK4Iterator, DESolver._getdXdt, DESolver._updateX]
def aliasing(ctx, kind="rk4", d=2, rhs="identity"):
    """the iterator called directly with a right-hand side whose returned array IS (or is a view of) the array it was handed:
    dx/dt = x written as `return x`, and dx/dt = x*x kept in a buffer the function reuses.  The state vector is not modified and
    the step is the Taylor polynomial of the scheme."""
    it = RK4Iterator if kind == "rk4" else ExplicitEulerIterator
    X = ctx.reals("x", d, (-1.0, 1.0))
    t = ctx.real("t", (0.0, 1.0)); dt = ctx.real("dt", (0.01, 0.5)); ctx.assume(dt > 0)
    x0 = [X[j] * 1 for j in range(d)]
    buf = {}

    def f(tt, x, flag=False):
        if rhs == "identity":
            out = x                                   # the very object
        elif rhs == "view":
            out = x[:]                                # a view of it
        else:
            if "b" not in buf:
                buf["b"] = np.zeros(d, dtype=object)
            buf["b"][:] = [2.0 * x[j] for j in range(d)]      # dx/dt = 2x in a reused buffer: earlier stage results are overwritten
            out = buf["b"]
        return (out, dt) if flag else out

    xn, dtu = it(f, t, X, lambda Xo, dxdt, h: Xo + dxdt * h)
    lam = 2.0 if rhs == "buffer" else 1.0
    z = lam * dt
    amp = 1 + z + z * z / 2 + z * z * z / 6 + z * z * z * z / 24 if kind == "rk4" else 1 + z
    for j in range(d):
        ctx.prove("X_old_not_modified", ctx.eq(X[j], x0[j]))
        if rhs != "buffer":
            ctx.prove("step is the scheme's Taylor polynomial for dx/dt = x", ctx.eq(xn[j], x0[j] * amp))


def rk4_through_pbm(ctx, kind="rk4", n=2):
    """the iterator through the real solver wrappers of a model whose step-size correction is the population balance's
    (GrainGrowthModel.getdXdt / correctdXdt -> PopulationBalanceModel.getdXdtEuler / correctdXdtEuler): when no face needs limiting, the
    accepted state is X + dt * sum_i b_i k_i of the stage slopes k_i the model returned (the iterator's weighted combination),
    not the slope of one stage"""
    from kawin.precipitation.coupling.GrainGrowth import GrainGrowthModel
    it, ns, _ = ITER[kind]
    pr = probe(kind)
    if pr is None:
        ctx.prove("iterator evaluates the model once per nominal stage (concrete probe)", False)
        return
    c, a, b = pr
    m = GrainGrowthModel(1e-10, 1e-9, n, 1, 10 * n)
    b0 = ctx.real("b0", (0.5, 1.0)); w = ctx.real("w", (0.1, 0.5)); ctx.assume(b0 > 0); ctx.assume(w > 0)
    m.pbm.min = b0; m.pbm.max = b0 + n * w; m.pbm.bins = n
    m.pbm.reset(False)
    X0 = ctx.reals("N", n, (2.0, 5.0))
    for i in range(n):
        ctx.assume(X0[i] > 0)
    m.pbm.PSD = X0
    gs = [ctx.reals("g%d" % k, n + 1, (0.01, 0.1)) for k in range(ns)]
    for k in range(ns):
        for i in range(n + 1):
            ctx.assume(gs[k][i] > 0)           # growth only: every face flux goes to the next larger class
    calls = {"n": 0}

    def fake_growth(x):
        k = calls["n"]; calls["n"] += 1
        return gs[min(k, ns - 1)]
    m.grainGrowth = fake_growth                # the growth law is not the subject: stage k sees the symbolic field g_k
    m.constrainedGrowth = lambda g, z=0: g     # no drag
    m._z = 0
    dt = ctx.real("dt", (0.01, 0.1)); ctx.assume(dt > 0); ctx.assume(dt < 1e29)
    slopes = []
    orig_get = m.getdXdt

    fluxes = []

    def get(t, x):
        d = orig_get(t, x)
        slopes.append([d[0][i] * 1 for i in range(n)])
        fluxes.append([m.pbm._netFlux[i] * 1 for i in range(n + 1)])
        return d
    s = DESolver(ITER[kind][2])
    s.setdXdtFunctions(get, m.correctdXdt, lambda dXdt: dt, m.flattenX, m.unflattenX)
    s._dtmin = 0.0; s._dtmax = 1e30
    s._X0 = [X0]
    t = ctx.real("t", (0.0, 1.0))
    x0 = [X0[i] * 1 for i in range(n)]
    xn, dtu = it(s._getdXdt, t, m.flattenX([X0]), s._updateX)
    ctx.prove("model evaluated once per stage", len(slopes) == ns)
    if len(slopes) != ns:
        return
    # nothing needed limiting: dt times any face flux of the LAST evaluated stage stays below the content of its donor class
    nf = fluxes[-1]
    unlimited = ctx.all([ctx.all([nf[i + 1] * dt <= x0[i], -nf[i] * dt <= x0[i]]) for i in range(n)])
    for j in range(n):
        ref = x0[j] + dt * sum((b[k].numerator * slopes[k][j] / b[k].denominator for k in range(ns) if b[k] != 0), 0.0 * dt)
        ctx.prove("accepted state is X + dt * (weighted sum of the stage slopes) when no face is limited", ctx.implies(unlimited, ctx.eq(xn[j], ref)))


HARNESSES = [
    Harness("C06.rk4_through_pbm", rk4_through_pbm, functions=_F, opts={"ob_timeout": 30.0, "max_paths": 10}, budget={"quick": 200.0, "thorough": 900.0},
            assumptions=["growth fields > 0 (no sign branches); the growth law is replaced by one symbolic field per stage; real arithmetic"],
            bounds={"classes": "n"}, params={"quick": [{"kind": "rk4", "n": 2}, {"kind": "euler", "n": 2}], "thorough": [{"kind": "rk4", "n": 3}]}),
    Harness("C06.aliasing", aliasing, functions=[ExplicitEulerIterator, RK4Iterator],
            assumptions=["the iterator is called directly (public function); updateX is X + dxdt*dt; the right-hand side returns its argument, a view of it, or a reused buffer",
                         "for the reused buffer only the state vector is examined: a function that overwrites its own earlier results is outside what an iterator can be asked to survive"],
            params={"quick": [{"kind": k, "rhs": r} for k in ("rk4", "euler") for r in ("identity", "view", "buffer")],
                    "thorough": [{"kind": k, "rhs": r, "d": 3} for k in ("rk4", "euler") for r in ("identity", "view", "buffer")]}),
    Harness("C06.tableau", tableau, functions=_F,
            assumptions=["order conditions up to order 4 (8 conditions) are necessary and sufficient for order 4 of an explicit RK method on smooth problems",
                         "tableau coefficients are rationals with denominator < 1e5 (extracted by concrete probing; the symbolic linear-form obligations make the extraction sound for all t, dt, X, k)"],
            bounds={"state dimension": "d", "stages": "as executed"},
            params={"quick": [{"kind": "euler", "d": 2}, {"kind": "rk4", "d": 2}], "thorough": [{"kind": "euler", "d": 3}, {"kind": "rk4", "d": 3}]}),
    Harness("C06.dtype_independent", dtype_independent, functions=_F, assumptions=["concrete affine probing with float and integer state arrays"],
            bounds={"state dimension": 2}, validate=1, params={"quick": [{"kind": "euler"}, {"kind": "rk4"}], "thorough": [{"kind": "euler"}, {"kind": "rk4"}]}),
    Harness("C06.through_model", through_model, functions=_F,
            bounds={"state": "nested [array(d), array(1)] and [array(d), scalar]"},
            params={"quick": [{"kind": "euler", "d": 2}, {"kind": "rk4", "d": 2}, {"kind": "rk4", "d": 2, "tail": "scalar"}, {"kind": "euler", "d": 2, "tail": "scalar"}],
                    "thorough": [{"kind": "euler", "d": 3}, {"kind": "rk4", "d": 3}, {"kind": "rk4", "d": 3, "tail": "scalar"}, {"kind": "euler", "d": 3, "tail": "scalar"}]}),
]
