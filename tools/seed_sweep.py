#!/usr/bin/env python3
"""re-run the own-property check (quick tier) against EVERY seeded change on the current /repo HEAD, 4 at a time; writes tools/seed_sweep.json
(id, applies, exit, violated keys).  Each run happens in its own scratch worktree via tools/seed_run.py."""
import subprocess, json, glob, os, sys, concurrent.futures as cf
ids = sorted(os.path.basename(p) for p in glob.glob("/verif/seeded/C??-*")) if len(sys.argv) < 2 else sys.argv[1:]
def run(sid):
    p = subprocess.run("VK_JOBS=4 python3 tools/seed_run.py %s" % sid, shell=True, cwd="/verif", capture_output=True, text=True)
    line = (p.stdout.strip().splitlines() or ["%s no output" % sid])[-1]
    return sid, line
res = {}
with cf.ThreadPoolExecutor(4) as ex:
    for sid, line in ex.map(run, ids):
        print(line[:200], flush=True)
        res[sid] = line
json.dump(res, open("/verif/tools/seed_sweep.json", "w"), indent=1)
