#!/usr/bin/env python3
"""write the task text for a round of independent seeded-change agents: /tmp/wt/<ID>.task<R>.md
(only the property text, the scratch worktree, and one-line summaries of the changes earlier agents produced)
usage: mktask.py <round> [ID ...]"""
import json, sys, glob, os
rnd = sys.argv[1]; ids = sys.argv[2:] or ["C%02d" % i for i in range(1, 21)]
tmpl = open("/tmp/wt/C06.task3.md").read() if os.path.exists("/tmp/wt/C06.task3.md") else None
props = {json.loads(l)["id"]: json.loads(l) for l in open("/verif/properties.jsonl")}
HEAD = """You are helping to evaluate a verification effort for the Python package `kawin` (Kampmann-Wagner precipitation model + multicomponent diffusion, coupled to pycalphad). You have your own scratch git worktree of the repository at /tmp/wt/{ID} (a detached checkout; work ONLY there, never touch /repo or /verif, and do not read anything under /verif). The python environment with all dependencies is /venv/bin/python; run things as e.g. `cd /tmp/wt/{ID} && PYTHONPATH=/tmp/wt/{ID} /venv/bin/python ...`. The test suite is run with `cd /tmp/wt/{ID} && PYTHONPATH=/tmp/wt/{ID} /venv/bin/python -m pytest -q -p no:cacheprovider --timeout=900 kawin/tests` (97 tests, about 1 minute; they all pass on the unmodified tree). There is no network.

Here is a semantic property that the package is supposed to satisfy:

---
{PROP}
---

Your task: produce TWO different, independent, realistic source changes to kawin (each a small patch to non-test files under kawin/, the kind of slip a developer could plausibly make while refactoring or optimising) such that each change
  (a) still imports/compiles and the full existing test suite still passes (all 97 tests), and
  (b) BREAKS the property above, and
  (c) needs something specific to manifest — an unusual input, a particular multi-step sequence of operations, a boundary value, a specific configuration, a fault at a particular point, or two cooperating sites that each look fine alone — rather than something that ordinary use would expose at once.
Read the relevant code first so that the change sits in the code that actually implements the property. Prefer changes in pure Python/NumPy logic of kawin (not in pycalphad). The two changes should be in different functions/mechanisms if possible.

For each change i in (1, 2) write into /tmp/wt/{ID}.out/change<i>/ :
  - patch.diff : `git diff` of the change against the worktree HEAD (apply-able with `git apply`),
  - demo.py : a small self-contained program (it may import kawin from PYTHONPATH and use the test databases/helpers in kawin/tests if needed, but ideally avoids heavy thermodynamics) that exits 0 and prints PASS on the unmodified tree and exits 1 and prints FAIL with the change applied; it must demonstrate the violation of the property as stated (not merely that the code differs),
  - meta.json : {{"property": "{ID}", "summary": "<what the change does>", "needs": "<what is needed for it to manifest>", "files": [...], "tests_pass_with_change": true/false, "demo_fails_with_change": true/false, "demo_passes_without_change": true/false}}.
You must actually run the full test suite with each change applied and run the demo both ways, and report truthfully. After producing each change, revert the worktree (`git -C /tmp/wt/{ID} checkout -- .`) so that it is clean at the end. Keep your final answer short: for each change one paragraph (what, where, what it needs to manifest, and the confirmed results).


IMPORTANT: other people already produced the following changes for this property; yours must use DIFFERENT mechanisms / code sites (do not repeat or trivially vary them). Look for less obvious places: other functions that take part in the property, interactions between two features, rarely used options, state carried between calls, data types and shapes of arguments, aliasing between arrays, error/edge branches, clauses of the property nobody has attacked yet.
{PREV}

Also: do NOT use `git stash` (shared between worktrees); use `git diff > file`, `git apply`, `git apply -R`. If, while reading, you find that the UNMODIFIED code already violates the property for some input, say so at the top of your answer with a minimal reproducer (that is valuable), and still produce the two changes elsewhere. Write your results to /tmp/wt/{ID}.out/ as described."""
for i in ids:
    p = props[i]
    text = "%s: %s\n\n%s\n\nQuantified over: %s\n" % (i, p["title"], p["statement"], p["quantifier"]["text"])
    prev = []
    for m in sorted(glob.glob("/verif/seeded/%s-*/meta.json" % i)):
        d = json.load(open(m))
        prev.append("- " + (d.get("summary") or "")[:330].replace("\n", " "))
    open("/tmp/wt/%s.task%s.md" % (i, rnd), "w").write(HEAD.format(ID=i, PROP=text, PREV="\n".join(prev)))
    print(i, len(prev))
