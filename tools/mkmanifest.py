#!/usr/bin/env python3
"""regenerate MANIFEST.json from the table below (claimed properties) + not_applicable reasons"""
import json, os
V = os.path.dirname(os.path.dirname(os.path.abspath(__file__)))
CLAIMS = json.load(open(os.path.join(V, "tools", "claims.json")))
props = [json.loads(l) for l in open(os.path.join(V, "properties.jsonl"))]
checks, na = [], []
for p in props:
    c = CLAIMS.get(p["id"])
    if c and c.get("claimed"):
        checks.append({
            "property_id": p["id"],
            "quick_cmd": "./vcheck %s --tier quick" % p["id"],
            "thorough_cmd": "./vcheck %s --tier thorough" % p["id"],
            "evidence_file": "evidence/%s.json" % p["id"],
            "replay_cmd_template": "./vcheck %s --replay {path}" % p["id"],
            "engine": "vk",
            "level_claimed": {"category": "other", "text": c["text"], "design_ref": c.get("design_ref", "DESIGN.md section 3 " + p["id"])},
            "level_note": c["note"],
            "technique": c.get("technique", "symbolic execution of the real NumPy code on z3-backed proxies (vk.symnp), DFS path exploration, SMT (z3, cvc5 fallback) per obligation, concrete replay of models"),
        })
    else:
        na.append({"property_id": p["id"], "reason": (c or {}).get("reason", "no check built yet in this round (planned, see DESIGN.md section 3)")})
m = {
    "version": 1,
    "setup_cmd": "./setup.sh",
    "hooks": {"guard": "KAWIN_VERIF", "enable": "no source hooks: the numpy facade is installed into kawin modules at run time by vk.symnp.installed(); KAWIN_VERIF=1 is exported by ./vcheck for information only",
              "baseline_off_cmd": "cd /repo && /venv/bin/python -m pytest -ra -q -p no:cacheprovider --timeout=900 --continue-on-collection-errors",
              "source_commits": [], "add_only": True},
    "engines": [{"name": "vk", "path": "vk/", "serves_properties": [c["property_id"] for c in checks],
                 "kind_free_text": "symbolic execution of real kawin functions over numpy object arrays of z3 proxies + path explorer + SMT portfolio (z3/cvc5) + concrete replay"}],
    "checks": checks,
    "not_applicable": na,
    "notes": "All checks: ./vcheck <ID> --tier quick|thorough ; exit 0 ok / 1 VIOLATION / 3 harness error. known_findings.json lists recorded defects.",
}
json.dump(m, open(os.path.join(V, "MANIFEST.json"), "w"), indent=1)
print("claimed:", [c["property_id"] for c in checks]); print("not applicable:", [n["property_id"] for n in na])
