#!/usr/bin/env python3
"""run the property's check against seeded changes in a scratch worktree (never in /repo):
   seed_run.py C07-1 [C07-2 ...] [--tier quick]"""
import sys, os, json, subprocess, time, shutil
V = "/verif"
tier = "quick"
args = sys.argv[1:]
if "--tier" in args:
    i = args.index("--tier"); tier = args[i + 1]; del args[i:i + 2]
prop_override = None
if "--prop" in args:
    i = args.index("--prop"); prop_override = args[i + 1]; del args[i:i + 2]
for sid in args:
    d = os.path.join(V, "seeded", sid); prop = prop_override or sid.split("-")[0]
    wt = "/tmp/sr/%s" % sid
    subprocess.run("git -C /repo worktree remove --force %s 2>/dev/null; rm -rf %s; mkdir -p /tmp/sr && git -C /repo worktree add -q --detach %s HEAD" % (wt, wt, wt), shell=True)
    r = subprocess.run("git -C %s apply %s/patch.diff" % (wt, d), shell=True, capture_output=True, text=True)
    if r.returncode != 0:
        r = subprocess.run("git -C %s apply -3 %s/patch.diff" % (wt, d), shell=True, capture_output=True, text=True)
    if r.returncode != 0:
        print(sid, "PATCH DOES NOT APPLY:", r.stderr.strip()[:200]); subprocess.run("git -C /repo worktree remove --force %s" % wt, shell=True); continue
    t0 = time.time()
    try:
        p = subprocess.run("VK_REPO=%s ./vcheck %s --tier %s --no-evidence" % (wt, prop, tier), shell=True, cwd=V, capture_output=True, text=True, timeout=5400)
        rc, out = p.returncode, p.stdout + p.stderr
    finally:
        subprocess.run("git -C /repo worktree remove --force %s" % wt, shell=True)
    viol = sorted({l.split(" -- ")[0].replace("  violated: ", "") for l in out.splitlines() if l.startswith("  violated:")})
    herr = [l[:300] for l in out.splitlines() if l.startswith("HARNESS-ERROR")][:3]
    m = json.load(open(d + "/meta.json"))
    m.setdefault("check_runs", {})[tier if not prop_override else "%s:%s" % (prop, tier)] = {"exit": rc, "violated_obligations": viol, "harness_errors": herr, "wall_s": round(time.time() - t0, 1),
                                             "cmd": "git worktree add <wt>; git -C <wt> apply seeded/%s/patch.diff; VK_REPO=<wt> ./vcheck %s --tier %s" % (sid, prop, tier)}
    m["caught"] = bool(m.get("caught")) or (rc == 1)
    if rc == 1:
        m.setdefault("caught_by", [])
        if prop not in m["caught_by"]:
            m["caught_by"].append(prop)
    json.dump(m, open(d + "/meta.json", "w"), indent=1)
    print(sid, "exit", rc, "caught" if rc == 1 else "MISSED" if rc == 0 else "HARNESS-ERROR", viol[:4], herr[:1])
