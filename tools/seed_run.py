#!/usr/bin/env python3
"""run the property's check against seeded changes: seed_run.py C07-1 [C07-2 ...] [--tier quick]"""
import sys, os, json, subprocess, time
V = "/verif"
tier = "quick"
ids = [a for a in sys.argv[1:] if not a.startswith("--")]
if "--tier" in sys.argv:
    tier = sys.argv[sys.argv.index("--tier") + 1]; ids = [i for i in ids if i != tier]
for sid in ids:
    d = os.path.join(V, "seeded", sid); prop = sid.split("-")[0]
    assert subprocess.run("git -C /repo status --porcelain", shell=True, capture_output=True, text=True).stdout.strip() == "", "/repo not clean"
    r = subprocess.run("git -C /repo apply %s/patch.diff" % d, shell=True)
    if r.returncode != 0:
        print(sid, "PATCH DOES NOT APPLY"); continue
    t0 = time.time()
    try:
        p = subprocess.run("./vcheck %s --tier %s --no-evidence" % (prop, tier), shell=True, cwd=V, capture_output=True, text=True, timeout=3600)
        rc, out = p.returncode, p.stdout + p.stderr
    finally:
        subprocess.run("git -C /repo checkout -- .", shell=True)
    viol = sorted({l.split(" -- ")[0].replace("  violated: ", "") for l in out.splitlines() if l.startswith("  violated:")})
    herr = [l[:200] for l in out.splitlines() if l.startswith("HARNESS-ERROR")][:3]
    m = json.load(open(d + "/meta.json"))
    m.setdefault("check_runs", {})[tier] = {"exit": rc, "violated_obligations": viol, "harness_errors": herr, "wall_s": round(time.time() - t0, 1),
                                             "cmd": "git -C /repo apply seeded/%s/patch.diff; ./vcheck %s --tier %s; git -C /repo checkout -- ." % (sid, prop, tier)}
    m["caught"] = (rc == 1)
    json.dump(m, open(d + "/meta.json", "w"), indent=1)
    print(sid, "exit", rc, "caught" if rc == 1 else "MISSED" if rc == 0 else "HARNESS-ERROR", viol[:4], herr[:1])
