#!/usr/bin/env python3
"""replace the generated tables (8.1-8.4) at the end of DESIGN.md by the current docs/STATUS.md"""
d = open('/verif/DESIGN.md').read()
i = d.index('### 8.1 Harness inventory')
open('/verif/DESIGN.md', 'w').write(d[:i] + open('/verif/docs/STATUS.md').read())
