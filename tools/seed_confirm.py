#!/usr/bin/env python3
"""confirm a seeded change in its scratch worktree and file it under /verif/seeded/<id>/
usage: seed_confirm.py C05 1 [2 ...]"""
import sys, os, json, subprocess, shutil, time
V = "/verif"
def sh(cmd, cwd, timeout=1500):
    p = subprocess.run(cmd, shell=True, cwd=cwd, capture_output=True, text=True, timeout=timeout)
    return p.returncode, (p.stdout + p.stderr)[-3000:]
prop = sys.argv[1]
offset = 0
argv = sys.argv[2:]
if "--offset" in argv:
    i = argv.index("--offset"); offset = int(argv[i + 1]); del argv[i:i + 2]
for k in argv:
    src = "/tmp/wt/%s.out/change%s" % (prop, k)
    wt = "/tmp/wt/%s" % prop
    sid = "%s-%d" % (prop, int(k) + offset)
    out = {"id": sid, "property": prop, "ran": []}
    env = "PYTHONPATH=%s PYTHONWARNINGS=ignore" % wt
    sh("git checkout -- . && git clean -fdq", wt)
    rc, o = sh("%s /venv/bin/python %s/demo.py" % (env, src), wt, 900)
    out["demo_clean_exit"] = rc; out["ran"].append("demo on clean tree -> exit %d" % rc)
    rc, o = sh("git apply %s/patch.diff" % src, wt)
    out["applies"] = rc == 0
    if rc == 0:
        rc, o = sh("%s /venv/bin/python -m pytest -q -p no:cacheprovider --timeout=900 -x kawin/tests 2>&1 | tail -3" % env, wt)
        out["tests_tail"] = o.strip().splitlines()[-1] if o.strip() else ""
        out["tests_pass_with_change"] = (" passed" in o and "failed" not in o and "error" not in o.lower().replace("errors=0", ""))
        out["ran"].append("pytest kawin/tests with change -> %s" % out["tests_tail"])
        rc, o = sh("%s /venv/bin/python %s/demo.py" % (env, src), wt, 900)
        out["demo_changed_exit"] = rc; out["demo_changed_tail"] = o[-600:]
        out["ran"].append("demo with change -> exit %d" % rc)
    sh("git checkout -- . && git clean -fdq", wt)
    ok = out.get("applies") and out.get("tests_pass_with_change") and out.get("demo_clean_exit") == 0 and out.get("demo_changed_exit") not in (0, None)
    out["confirmed"] = bool(ok)
    try:
        m = json.load(open(src + "/meta.json"))
    except Exception:
        m = {}
    out["summary"] = m.get("summary", ""); out["needs"] = m.get("needs", ""); out["files"] = m.get("files", [])
    dst = os.path.join(V, "seeded", sid)
    if ok:
        os.makedirs(dst, exist_ok=True)
        shutil.copy(src + "/patch.diff", dst + "/patch.diff"); shutil.copy(src + "/demo.py", dst + "/demo.py")
        json.dump(out, open(dst + "/meta.json", "w"), indent=1)
    print(json.dumps({k_: out[k_] for k_ in ("id", "confirmed", "applies", "tests_tail", "demo_clean_exit", "demo_changed_exit") if k_ in out}))
