#!/verif/.venv/bin/python
"""generate the as-built tables of DESIGN.md (harness inventory, fixes, known findings, seeded changes) from the repository's own data"""
import json, os, glob, importlib, sys, subprocess
V = "/verif"; sys.path.insert(0, V); sys.path.insert(0, "/repo")
os.environ.setdefault("MPLBACKEND", "Agg")
import warnings; warnings.simplefilter("ignore")
out = []
out.append("### 8.1 Harness inventory (generated from harness/*.py)\n")
out.append("| property | harness | quick parameter sets | thorough sets | real functions executed |")
out.append("|---|---|---|---|---|")
for n in range(1, 21):
    pid = "C%02d" % n
    try:
        mod = importlib.import_module("harness." + pid.lower())
    except Exception as e:
        out.append("| %s | (import failed: %s) | | | |" % (pid, e)); continue
    for h in mod.HARNESSES:
        fn = sorted({getattr(f, "__qualname__", getattr(f, "__name__", "?")) for f in h.functions})
        out.append("| %s | `%s` | %d | %d | %s |" % (pid, h.id, len(h.params.get("quick", [])), len(h.params.get("thorough", [])), ", ".join(fn[:6]) + (" …" if len(fn) > 6 else "")))
kf = json.load(open(V + "/known_findings.json"))["findings"]
out.append("\n### 8.2 Genuine defects repaired in /repo (\"fix:\" commits; each reversal re-detected, tools/fix_reversal.py)\n")
out.append("| property | commit | what failed | obligations that fire when the commit is reversed |")
out.append("|---|---|---|---|")
for f in kf:
    if f["status"] == "fixed":
        out.append("| %s | `%s` | %s | %s |" % (f["property"], f["commit"], f["what"].split(" (the check")[0], "; ".join("`%s`" % k for k in f.get("keys", [])[:2])))
out.append("\n### 8.3 Known findings (genuine, recorded, not repaired)\n")
out.append("| property | obligation key | what fails |")
out.append("|---|---|---|")
for f in kf:
    if f["status"] == "known":
        out.append("| %s | `%s` | %s |" % (f["property"], f["key"], f["what"]))
out.append("\n### 8.4 Seeded changes (written by independent sub-agents from the property text only) and which checks catch them\n")
out.append("| id | change | needs | caught by (quick tier) |")
out.append("|---|---|---|---|")
for d in sorted(glob.glob(V + "/seeded/*/meta.json")):
    m = json.load(open(d))
    runs = m.get("check_runs", {})
    caught = []
    for k, r in runs.items():
        if r.get("exit") == 1:
            caught += r.get("violated_obligations", [])[:3]
    caught = sorted(set(caught))[:4]
    out.append("| %s | %s | %s | %s |" % (m["id"], m.get("summary", "").replace("|", "/")[:260], m.get("needs", "").replace("|", "/")[:200],
                                           ("; ".join("`%s`" % c for c in caught)) if caught else ("**MISSED**" if not m.get("caught") else "caught")))
open(V + "/docs/STATUS.md", "w").write("\n".join(out) + "\n")
print("written", len(out), "lines")
