#!/bin/bash
# usage: tools/try_patch.sh [-R <commit> | <patch.diff>] -- <check args...>
# applies a patch (or reverse-applies a commit) to /repo's working tree, runs ./vcheck <args> --no-evidence, restores /repo
set -u
cd /verif
if [ "$1" = "-R" ]; then
  git -C /repo show "$2" | git -C /repo apply -R - || { echo "cannot reverse-apply $2"; exit 9; }
  shift 2
else
  git -C /repo apply "$1" || { echo "cannot apply $1"; exit 9; }
  shift 1
fi
[ "$1" = "--" ] && shift
./vcheck "$@" --no-evidence
rc=$?
git -C /repo checkout -- .
echo "exit=$rc"
exit $rc
