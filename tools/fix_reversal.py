#!/usr/bin/env python3
"""for every 'fix:' commit of /repo: reverse it in a scratch worktree, run the mapped property check, record which obligations fire.
writes tools/fix_reversal.json ; usage: fix_reversal.py [commit ...]"""
import subprocess, json, sys, os, concurrent.futures as cf
MAP = {"RK4Iterator evaluates": "C06", "TemperatureParameters constructor": "C13", "binary lookup table refresh accumulates": "C13", "stopping conditions read": "C19",
       "enableCaching(False)": "C09", "composition cache key uses int64": "C09", "no longer adds gOffset": "C09", "clamp aspect ratios below 1 on a copy": "C15",
       "CumulativeWeightedMomentFromN": "C08", "volume-change step limit": "C11", "falls back to the previous equilibrium compositions": "C03",
       "untrained surrogate getTracerDiffusivity": "C20", "rotation setters re-apply": "C16", "solver clock never passes": "C05", "homogenization post-processing addresses": "C17",
       "diffusion setup shifts": "C04", "cuboidal shape factors are continuous": "C15", "trained surrogate diffusivity getters": "C20", "interfacial-composition training grid": "C20",
       "bookkeeping follows a re-mesh": "C13", "nucleation rate is reset": "C14", "betaBinary2 receives": "C14", "grain-boundary nucleation barrier stays": "C14",
       "Orowan strength contribution": "C18", "rebuilt from its JSON": "C20", "moduliToC accepts": "C16", "setup provides a zero growth rate": "C03",
       "binary lookup table when no size class is stable": "C03", "PSD recording works with a fixed": "C03", "keeps the PSD backup": "C08", "RK4Iterator no longer accumulates": "C06", "setBC without an element": "C04", "below the smallest size class": "C07", "already met at the start of the step": "C19", "gets the disordered matrix phase only once": "C10", "in the middle of the lookup table continues from the class below": "C03", "also resets what is defined per size class": "C03", "profile on which nothing changes": "C04", "fewer classes than minBins/2": "C08", "survive a change of the size classes": "C03", "newly added size classes continues": "C03", "stay aligned with the steps while a phase is reset": "C03", "before any interfacial composition exists": "C03", "without recording can be loaded": "C20", "post-processing works on copies": "C17",
       "site-type limit is rejected": "C14", "reaches the precipitates also after": "C14",
       "discards the composition sets cached by the previous method": "C09", "only reused for the same local sampling conditions": "C09",
       "does not fall back to an earlier query": "C09",
       "stored with the cached precipitate samples are a copy": "C09",
       "carry the J factor like their edge and screw forms": "C18", "finds the file saveRecordedPSD wrote": "C20",
       "before the matrix stiffness keeps the chosen precipitate shape": "C16", "is rotated from the value the user supplied": "C16", "also applies to cooling": "C13", "a loaded diffusion model continues from the loaded state": "C20", "keeps the size class settings of the model it is loaded into": "C20", "finds the file StrengthModel.save wrote": "C20",
       "is the limit of its formula": "C15", "does not rename the first entry of the caller's list of phases": "C11", "trained with integer temperatures can be written to JSON": "C20", "works with its default diffusivity_correction": "C10",
       "gives no nucleation instead of NaN": "C14", "first nucleation rate with the equilibrium compositions of the first record": "C14"}
log = subprocess.run("git -C /repo log --format='%h %s' --grep='^fix:'", shell=True, capture_output=True, text=True).stdout.strip().splitlines()
todo = []
for l in log:
    h, subj = l.split(" ", 1)
    prop = next((p for k, p in MAP.items() if k in subj), None)
    if sys.argv[1:] and h not in sys.argv[1:]:
        continue
    todo.append((h, subj, prop))
def run(item):
    h, subj, prop = item
    if prop is None:
        return {"commit": h, "subject": subj, "property": None, "error": "unmapped"}
    wt = "/tmp/sr/rev_%s" % h
    subprocess.run("git -C /repo worktree remove --force %s 2>/dev/null; rm -rf %s; git -C /repo worktree add -q --detach %s HEAD" % (wt, wt, wt), shell=True)
    r = subprocess.run("git -C /repo show %s | git -C %s apply -R --3way -" % (h, wt), shell=True, capture_output=True, text=True)
    if r.returncode != 0:
        subprocess.run("git -C /repo worktree remove --force %s" % wt, shell=True)
        return {"commit": h, "subject": subj, "property": prop, "error": "cannot reverse: " + r.stderr[:200]}
    p = subprocess.run("VK_REPO=%s VK_JOBS=6 ./vcheck %s --no-evidence" % (wt, prop), shell=True, cwd="/verif", capture_output=True, text=True)
    subprocess.run("git -C /repo worktree remove --force %s" % wt, shell=True)
    out = p.stdout
    viol = sorted({l.split(" -- ")[0].replace("  violated: ", "") for l in out.splitlines() if l.startswith("  violated:")})
    return {"commit": h, "subject": subj, "property": prop, "exit": p.returncode, "violated": viol}
res = []
with cf.ThreadPoolExecutor(4) as ex:
    for r in ex.map(run, todo):
        print(r["commit"], r.get("property"), r.get("exit"), (r.get("violated") or [r.get("error")])[:2], flush=True)
        res.append(r)
old = {}
pth = "/verif/tools/fix_reversal.json"
if os.path.exists(pth):
    old = {r["commit"]: r for r in json.load(open(pth))}
for r in res:
    old[r["commit"]] = r
json.dump(list(old.values()), open(pth, "w"), indent=1)
