#!/bin/bash
# Bootstrap the overlay venv used by every check (offline; idempotent).
set -e
cd "$(dirname "$0")"
V=/verif/.venv
if [ ! -x "$V/bin/python" ] || ! "$V/bin/python" -c "import z3, cvc5, numpy, jsonschema" 2>/dev/null; then
  rm -rf "$V"
  /venv/bin/python -m venv "$V"
  SITE=$("$V/bin/python" -c "import sysconfig; print(sysconfig.get_paths()['purelib'])")
  printf '/venv/lib/python3.12/site-packages\n' > "$SITE/_base.pth"
  PIP_NO_INDEX=1 "$V/bin/pip" install -q --no-index --find-links /opt/veriftools/wheels z3-solver cvc5 jsonschema >/dev/null
fi
"$V/bin/python" -c "import z3, cvc5, numpy; print('venv ok: z3', z3.get_version_string(), 'numpy', numpy.__version__)"
