"""vk.solve -- discharging obligations.

An obligation on a path is  pre ∧ path ∧ Defs ⊢ Q.  It is posed as a satisfiability query of
pre ∧ path ∧ Defs' ∧ ¬Q for growing subsets Defs' ⊆ Defs (cone of influence of Q): dropping
definitions only weakens the hypotheses, so `unsat` for any subset discharges the obligation;
`sat` counts only with the complete set.  A portfolio of encodings is tried (named terms with
division-as-multiplication; fully inlined with native division; cvc5 on the SMT-LIB export).
`unknown` is never success.
"""
import time, os
import z3
from . import core
from .core import b2z, term_vars

DEFAULT_OB_TIMEOUT_S = 20.0


class Result:
    __slots__ = ("name", "status", "how", "time", "model", "smt2", "note", "path", "occ", "q")

    def __init__(self, name, status, how="", t=0.0, model=None, smt2=None, note=""):
        self.name = name; self.status = status; self.how = how; self.time = t
        self.model = model; self.smt2 = smt2; self.note = note

    def as_dict(self):
        return {"name": self.name, "status": self.status, "how": self.how, "time": round(self.time, 3), "note": self.note}


def _cone(ctx, roots, depth):
    """definitions within `depth` def-steps of the variables in roots; depth None = all"""
    if depth is None:
        return list(ctx.defs)
    want = {}
    for r in roots:
        term_vars(r, want)
    chosen = {}
    frontier = list(want.keys())
    for _ in range(depth):
        nxt = []
        for vid in frontier:
            d = ctx.defmap.get(vid)
            if d is None or d.idx in chosen:
                continue
            chosen[d.idx] = d
            acc = {}
            for c in d.cons:
                term_vars(c, acc)
            nxt.extend(k for k in acc if k != vid)
        frontier = nxt
        if not frontier:
            break
    return [chosen[k] for k in sorted(chosen)]


def _mk_solver(kind, timeout_ms):
    if kind == "nra":
        s = z3.SolverFor("QF_NRA")
    else:
        s = z3.Solver()
    s.set("timeout", int(max(1, timeout_ms)))
    return s


def inline_terms(ctx, terms, defs=None):
    """substitute named / quotient variables by their defining terms (native division)"""
    defs = ctx.defs if defs is None else defs
    pairs = []
    for d in defs:
        if d.inl is not None:
            t = z3.substitute(d.inl, *pairs) if pairs else d.inl
            pairs.append((d.var, t))
    out = [z3.substitute(t, *pairs) if pairs else t for t in terms]
    keep = []
    for d in defs:
        if d.inl is None:
            keep.extend(z3.substitute(c, *pairs) if pairs else c for c in d.cons)
    return out, keep, pairs


def extract_inputs(ctx, model):
    vals = {}
    for name in ctx.input_order:
        v = ctx.inputs[name]
        mv = model.eval(v, model_completion=True)
        if z3.is_bool(v):
            vals[name] = bool(z3.is_true(mv))
        elif z3.is_fp(v):
            from . import fp as _fp
            vals[name] = _fp.fpval_to_float(mv)
        else:
            vals[name] = float(core.z3num_to_frac(mv))
    if ctx.uf_records:
        uf = {}
        for (name, var, argts) in ctx.uf_records:
            a = [float(core.z3num_to_frac(model.eval(t, model_completion=True))) for t in argts]
            uf.setdefault(name, []).append((a, float(core.z3num_to_frac(model.eval(var, model_completion=True)))))
        vals["__uf__"] = uf
    return vals


def decide(ctx, hyps, negQ, roots, timeout_s, upto=None, want_cvc5=True):
    """returns (status, how, model_values|None, smt2)"""
    t_end = time.time() + timeout_s
    alldefs = ctx.defs if upto is None else ctx.defs[:upto]
    ndefs = len(alldefs)
    # fast first attempt on the path's own incremental solver (pre + path + all defs already asserted)
    if upto is None and ctx.solver is not None and ctx.opts.get("feas_defs", True) and ctx.opts.get("fast_first", True) \
            and hyps is ctx._std_hyps:
        s = ctx.solver
        s.push()
        try:
            s.set("timeout", int(1000 * min(timeout_s, ctx.opts.get("fast_first_s", 1.5))))
            s.add(negQ)
            r = s.check()
            if r == z3.unsat:
                return "discharged", "z3-incremental full", None, None
            if r == z3.sat:
                return "cex", "z3-incremental full", extract_inputs(ctx, s.model()), s.to_smt2()
        finally:
            s.pop()
            s.set("timeout", ctx.opts.get("branch_timeout_ms", core.BRANCH_TIMEOUT_MS))
    depths = [0, 1, 2, 4, 8, None]
    smt2 = None
    tried_full = False
    for depth in depths:
        if depth is None or depth >= 64:
            ds = alldefs; full = True
        else:
            ds = [d for d in _cone(ctx, roots, depth) if d.idx < ndefs]
            full = len(ds) == ndefs
        if full and tried_full:
            continue
        remaining = t_end - time.time()
        if remaining <= 0:
            break
        budget = remaining if full else min(remaining, max(1.0, timeout_s / 8.0))
        for kind in (("smt",) if not full else ("smt", "nra")):
            remaining = t_end - time.time()
            if remaining <= 0:
                break
            s = _mk_solver(kind, 1000 * min(budget, remaining) * (0.5 if (full and kind == "smt") else 1.0))
            for h in hyps:
                s.add(h)
            for d in ds:
                for c in d.cons:
                    s.add(c)
            s.add(negQ)
            if full and smt2 is None:
                smt2 = s.to_smt2()
            r = s.check()
            if r == z3.unsat:
                return "discharged", "z3-%s depth=%s defs=%d/%d" % (kind, depth, len(ds), ndefs), None, smt2
            if r == z3.sat and full:
                return "cex", "z3-%s full" % kind, extract_inputs(ctx, s.model()), smt2
        if full:
            tried_full = True
    # inlined encoding with native division (complete encoding)
    remaining = t_end - time.time()
    if remaining > 0.2:
        try:
            (nq, *hs), keep, _ = inline_terms(ctx, [negQ] + list(hyps), alldefs)
            s = _mk_solver("smt", 1000 * remaining * 0.6)
            for h in hs: s.add(h)
            for c in keep: s.add(c)
            # divisors must be non-zero for native `/` to mean division
            for (c, desc, k) in ctx.safety:
                if upto is None or k <= upto:
                    s.add(inline_terms(ctx, [c], alldefs)[0][0])
            s.add(nq)
            r = s.check()
            if r == z3.unsat:
                return "discharged", "z3 inlined native-div (divisors!=0 assumed)", None, smt2
            if r == z3.sat:
                return "cex", "z3 inlined", extract_inputs(ctx, s.model()), smt2
        except z3.Z3Exception:
            pass
    # cvc5 on the complete named encoding
    remaining = t_end - time.time()
    if want_cvc5 and smt2 is not None and remaining > 0.5:
        r = cvc5_check(smt2, remaining)
        if r == "unsat":
            return "discharged", "cvc5 full", None, smt2
    return "inconclusive", "timeout/unknown after portfolio", None, smt2


def cvc5_check(smt2, timeout_s):
    """decide an SMT-LIB2 script with cvc5 (python API of the wheel); returns 'sat'|'unsat'|'unknown'"""
    try:
        import cvc5
        slv = cvc5.Solver()
        slv.setOption("tlimit-per", str(int(timeout_s * 1000)))
        slv.setOption("nl-ext", "full") if False else None
        slv.setLogic("QF_NRA")
        parser = cvc5.InputParser(slv)
        txt = smt2.replace("(check-sat)", "")
        parser.setStringInput(cvc5.InputLanguage.SMT_LIB_2_6, txt, "ob")
        sm = parser.getSymbolManager()
        while True:
            cmd = parser.nextCommand()
            if cmd.isNull():
                break
            cmd.invoke(slv, sm)
        r = slv.checkSat()
        if r.isUnsat():
            return "unsat"
        if r.isSat():
            return "sat"
        return "unknown"
    except Exception as e:     # parser / logic errors are inconclusive, never a verdict
        return "unknown"


def prove(ctx, name, cond, timeout=None, roots_extra=(), upto=None, note=""):
    occ = sum(1 for r in ctx.obligations if r.name == name)
    if ctx.mode == "concrete":
        ok = bool(cond)
        r = Result(name, "ok" if ok else "violated"); r.occ = occ
        ctx.obligations.append(r)
        ctx.observed["prove:%s#%d" % (name, occ)] = ok
        return ok
    if ctx.mode == "pinned":
        ok = cond if isinstance(cond, bool) else bool(ctx.evalz(b2z(cond)))
        r = Result(name, "ok" if ok else "violated"); r.occ = occ
        ctx.obligations.append(r)
        ctx.observed["prove:%s#%d" % (name, occ)] = bool(ok)
        return ok
    t0 = time.time()
    if isinstance(cond, bool) or hasattr(cond, "dtype") and not isinstance(cond, core.SymBool):
        if bool(cond):
            r = Result(name, "discharged", "trivial (folded to True while executing)", 0.0)
        else:
            # syntactically false on a feasible path: any model of the path is a counterexample
            r = _decide_and_pack(ctx, name, z3.BoolVal(False), timeout, upto)
        r.occ = occ; r.note = note
        ctx.obligations.append(r)
        return r.status == "discharged"
    if ctx.opts.get("batch", True) and upto is None:
        r = Result(name, "pending"); r.occ = occ; r.note = note
        ctx.obligations.append(r)
        ctx.pending.append((r, b2z(cond), timeout))
        return True
    r = _decide_and_pack(ctx, name, b2z(cond), timeout, upto)
    r.occ = occ; r.note = note
    ctx.obligations.append(r)
    return r.status == "discharged"


def flush(ctx):
    """decide the queued obligations of this path: first their conjunction in one query, then one by one"""
    pend = ctx.pending
    ctx.pending = []
    if not pend or ctx.mode != "symbolic":
        return
    if len(pend) > 1:
        t0 = time.time()
        allq = z3.And(*[q for (_, q, _) in pend])
        tmp = _decide_and_pack(ctx, "batch", allq, min(ctx.opts.get("ob_timeout", DEFAULT_OB_TIMEOUT_S), ctx.opts.get("batch_timeout", 6.0)), None, cvc5=False)
        if tmp.status == "discharged":
            dt = (time.time() - t0) / len(pend)
            for (r, q, _) in pend:
                r.status = "discharged"; r.how = tmp.how + " (batched)"; r.time = dt; r.smt2 = tmp.smt2; r.q = q
            return
    for (r, q, to) in pend:
        x = _decide_and_pack(ctx, r.name, q, to, None)
        r.status, r.how, r.time, r.model, r.smt2, r.q = x.status, x.how, x.time, x.model, x.smt2, x.q


def _decide_and_pack(ctx, name, Q, timeout, upto, cvc5=None):
    t0 = time.time()
    timeout = timeout or ctx.opts.get("ob_timeout", DEFAULT_OB_TIMEOUT_S)
    hyps = list(ctx.pre) + ctx.path_cond()
    ctx._std_hyps = hyps
    negQ = z3.Not(Q)
    status, how, model, smt2 = decide(ctx, hyps, negQ, [Q], timeout, upto=upto, want_cvc5=ctx.opts.get("cvc5", True) if cvc5 is None else cvc5)
    r = Result(name, status, how, time.time() - t0, model, None)
    r.q = Q
    if ctx.opts.get("keep_smt2") or status != "discharged":
        r.smt2 = smt2
    else:
        r.smt2 = smt2 if ctx.opts.get("sample_smt2") else None
    return r


def prove_safety(ctx, name, upto=None):
    """every collected domain side condition (divisor != 0, sqrt arg >= 0, log arg > 0 ...) holds,
    each posed with only the definitions that precede it (a later q*d == n must not hide d == 0)"""
    ok = True
    for i, (c, desc, k) in enumerate(ctx.safety):
        nm = "%s:%s" % (name, desc)
        if ctx.mode != "symbolic":
            continue
        occ = sum(1 for r in ctx.obligations if r.name == nm)
        t0 = time.time()
        timeout = ctx.opts.get("ob_timeout", DEFAULT_OB_TIMEOUT_S)
        hyps = list(ctx.pre) + ctx.path_cond() + [cc for (cc, _, kk) in ctx.safety[:i]]
        status, how, model, smt2 = decide(ctx, hyps, z3.Not(c), [c], timeout, upto=k, want_cvc5=False)
        r = Result(nm, status, how, time.time() - t0, model, smt2 if status != "discharged" else None)
        r.occ = occ
        ctx.obligations.append(r)
        ok = ok and status == "discharged"
    return ok


def path_model(ctx, timeout_s=10.0):
    """some input assignment that drives execution down this path (for exception paths / vacuity twin)"""
    hyps = list(ctx.pre) + ctx.path_cond()
    status, how, model, smt2 = decide(ctx, hyps, z3.BoolVal(True), hyps, timeout_s, want_cvc5=False)
    return model if status == "cex" else None


def dyadic_models(ctx, Q, timeout_s=6.0):
    """further counterexample candidates whose real inputs are dyadic rationals m/2^k (exactly representable as
    doubles, so a witness that sits on a boundary in exact arithmetic still sits on it when replayed)"""
    hyps = list(ctx.pre) + ctx.path_cond()
    for k in (2, 5, 9):
        s = z3.Solver()
        s.set("timeout", int(timeout_s * 1000))
        for h in hyps: s.add(h)
        for d in ctx.defs:
            for c in d.cons: s.add(c)
        if Q is not None:
            s.add(z3.Not(Q))
        for name in ctx.input_order:
            v = ctx.inputs[name]
            if z3.is_bool(v) or z3.is_fp(v):
                continue
            m = z3.Int("dy!%s" % name)
            s.add(v * (2 ** k) == z3.ToReal(m)); s.add(m >= -(2 ** (k + 8))); s.add(m <= 2 ** (k + 8))
        if s.check() == z3.sat:
            yield extract_inputs(ctx, s.model())


def _zabs(t):
    return z3.If(t >= 0, t, -t)


def robust_neg(Q, delta=1e-5):
    """a strengthened negation of the claim Q: every (in)equality must be violated by a relative margin, so that the
    witness survives floating-point replay.  Implies Not(Q); falls back to Not(x) on sub-terms it does not understand."""
    d = core.rv(delta)
    k = Q.decl().kind() if z3.is_app(Q) else None
    ch = Q.children() if z3.is_app(Q) else []
    if k == z3.Z3_OP_AND:
        return z3.Or(*[robust_neg(c, delta) for c in ch])
    if k == z3.Z3_OP_OR:
        return z3.And(*[robust_neg(c, delta) for c in ch])
    if k == z3.Z3_OP_IMPLIES:
        return z3.And(ch[0], robust_neg(ch[1], delta))
    if k == z3.Z3_OP_NOT:
        return ch[0]
    if k in (z3.Z3_OP_EQ, z3.Z3_OP_LE, z3.Z3_OP_LT, z3.Z3_OP_GE, z3.Z3_OP_GT) and len(ch) == 2 and z3.is_real(ch[0]):
        a, b = ch
        m = d * (1 + _zabs(a) + _zabs(b))
        if k == z3.Z3_OP_EQ:
            return z3.Or(a - b > m, b - a > m)
        if k in (z3.Z3_OP_LE, z3.Z3_OP_LT):
            return a - b > m
        return b - a > m
    if k == z3.Z3_OP_ITE and z3.is_bool(Q):
        return z3.If(ch[0], robust_neg(ch[1], delta), robust_neg(ch[2], delta))
    return z3.Not(Q)


def robust_models(ctx, Q, timeout_s=20.0):
    """counterexample candidates that violate Q by a margin (tried after exact and dyadic witnesses failed to replay)"""
    hyps = list(ctx.pre) + ctx.path_cond()
    for delta in (1e-4, 1e-6):
        for kind in ("smt", "nra"):
            s = _mk_solver(kind, timeout_s * 500)
            for h in hyps: s.add(h)
            for d in ctx.defs:
                for c in d.cons: s.add(c)
            s.add(robust_neg(Q, delta))
            if s.check() == z3.sat:
                yield extract_inputs(ctx, s.model())
                break


def fork_call(fn, timeout_s):
    """run fn() in a forked child with a hard wall-clock limit (z3's own time-outs are not always honoured by nlsat);
    returns fn's picklable result or None"""
    import os, pickle, select, signal
    r, w = os.pipe()
    pid = os.fork()
    if pid == 0:
        try:
            os.close(r)
            try:
                data = pickle.dumps(fn())
            except BaseException:
                data = pickle.dumps(None)
            with os.fdopen(w, "wb") as f:
                f.write(data)
        finally:
            os._exit(0)
    os.close(w)
    out = b""
    end = time.time() + timeout_s
    try:
        while True:
            left = end - time.time()
            if left <= 0:
                os.kill(pid, signal.SIGKILL)
                out = None
                break
            ready, _, _ = select.select([r], [], [], left)
            if not ready:
                continue
            chunk = os.read(r, 1 << 16)
            if not chunk:
                break
            out += chunk
    finally:
        os.close(r)
        try:
            os.waitpid(pid, 0)
        except ChildProcessError:
            pass
    if not out:
        return None
    try:
        return pickle.loads(out)
    except Exception:
        return None


def retry_models(ctx, Q, timeout_s=40.0):
    """dyadic and margin witnesses, computed in a guarded child process"""
    def work():
        res = []
        t_end = time.time() + timeout_s - 2
        for m in dyadic_models(ctx, Q, timeout_s=4.0):
            res.append(m)
            if time.time() > t_end:
                return res
        if Q is not None:
            for m in robust_models(ctx, Q, timeout_s=8.0):
                res.append(m)
                if time.time() > t_end:
                    break
        return res
    return fork_call(work, timeout_s) or []


def export_smt2(ctx, Q):
    """complete named encoding of one obligation (pre & path & all definitions & not Q) as SMT-LIB2 text"""
    s = z3.Solver()
    for h in list(ctx.pre) + ctx.path_cond():
        s.add(h)
    for d in ctx.defs:
        for c in d.cons:
            s.add(c)
    s.add(z3.Not(Q))
    return s.to_smt2()
