"""vk.fp -- IEEE-754 double proxies (z3 FloatingPoint, round-nearest-even) for the places where rounding,
NaN or infinity *is* the subject (solver clock, clipping of non-finite values)."""
import math, struct
import numpy as _np
import z3
from . import core
from .core import SymBool, mk_bool, cur

F64 = z3.Float64()
RNE = z3.RNE()


def fpval_to_float(s):
    s = z3.simplify(s)
    if z3.is_fp_value(s):
        if s.isNaN():
            return float("nan")
        if s.isInf():
            return float("-inf") if s.isNegative() else float("inf")
    bv = z3.simplify(z3.fpToIEEEBV(s))
    if not z3.is_bv_value(bv):
        raise core.VkError("FP term did not reduce to a value: %s" % str(s)[:120])
    return struct.unpack(">d", bv.as_long().to_bytes(8, "big"))[0]


def fpv(x):
    x = float(x)
    if math.isnan(x):
        return z3.fpNaN(F64)
    if math.isinf(x):
        return z3.fpPlusInfinity(F64) if x > 0 else z3.fpMinusInfinity(F64)
    bits = struct.unpack(">Q", struct.pack(">d", x))[0]
    return z3.fpBVToFP(z3.BitVecVal(bits, 64), F64)


class SymFP:
    __slots__ = ("t",)

    def __init__(self, t):
        self.t = t

    @staticmethod
    def lift(x):
        if isinstance(x, SymFP):
            return x
        if isinstance(x, (int, float, _np.floating, _np.integer)) and not isinstance(x, bool):
            return SymFP(fpv(x))
        return None

    def _bin(self, o, f, rev=False):
        b = SymFP.lift(o)
        if b is None:
            return NotImplemented
        a = self
        if rev:
            a, b = b, a
        return SymFP(f(RNE, a.t, b.t))

    def __add__(self, o): return self._bin(o, z3.fpAdd)
    def __radd__(self, o): return self._bin(o, z3.fpAdd, True)
    def __sub__(self, o): return self._bin(o, z3.fpSub)
    def __rsub__(self, o): return self._bin(o, z3.fpSub, True)
    def __mul__(self, o): return self._bin(o, z3.fpMul)
    def __rmul__(self, o): return self._bin(o, z3.fpMul, True)
    def __truediv__(self, o): return self._bin(o, z3.fpDiv)
    def __rtruediv__(self, o): return self._bin(o, z3.fpDiv, True)
    def __neg__(self): return SymFP(z3.fpNeg(self.t))
    def __pos__(self): return self
    def __abs__(self): return SymFP(z3.fpAbs(self.t))

    def _cmp(self, o, f):
        b = SymFP.lift(o)
        if b is None:
            return NotImplemented
        return mk_bool(f(self.t, b.t))

    def __lt__(self, o): return self._cmp(o, z3.fpLT)
    def __le__(self, o): return self._cmp(o, z3.fpLEQ)
    def __gt__(self, o): return self._cmp(o, z3.fpGT)
    def __ge__(self, o): return self._cmp(o, z3.fpGEQ)
    def __eq__(self, o): return self._cmp(o, z3.fpEQ)
    def __ne__(self, o): return self._cmp(o, lambda a, b: z3.Not(z3.fpEQ(a, b)))
    __hash__ = object.__hash__

    def __bool__(self):
        return bool(self != 0.0)

    def __float__(self):
        s = z3.simplify(self.t)
        if z3.is_fp_value(s):
            return fpval_to_float(s)
        raise core.VkError("float() of a symbolic double")

    def isnan(self): return mk_bool(z3.fpIsNaN(self.t))
    def isinf(self): return mk_bool(z3.fpIsInf(self.t))
    def isfinite(self): return mk_bool(z3.Not(z3.Or(z3.fpIsNaN(self.t), z3.fpIsInf(self.t))))

    def __repr__(self):
        return "SymFP(%s)" % str(self.t)[:80]


def fp_input(ctx, name, sample=(0.1, 2.0)):
    """a symbolic IEEE double input (any value, including NaN/inf, unless constrained by assumptions)"""
    if ctx.mode == "concrete":
        if name not in ctx.values:
            ctx.values[name] = float(ctx.rng.uniform(*sample)) if ctx.rng is not None else 0.5 * (sample[0] + sample[1])
        ctx.input_order.append(name)
        return float(ctx.values[name])
    v = z3.FP(name, F64)
    ctx.inputs[name] = v
    ctx.input_order.append(name)
    if ctx.mode == "pinned":
        val = float(ctx.values[name])
        ctx.pin[v.get_id()] = val
        ctx._pin_pairs.append((v, fpv(val)))
    return SymFP(v)


def isfinite(ctx, x):
    if isinstance(x, SymFP):
        return x.isfinite()
    return bool(_np.isfinite(x))


def isnan(ctx, x):
    if isinstance(x, SymFP):
        return x.isnan()
    return bool(_np.isnan(x))
