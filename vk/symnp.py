"""vk.symnp -- NumPy on symbolic scalars.

`SymArray` is a real numpy.ndarray (dtype=object) whose elements are vk.core proxies or
plain python numbers.  NumPy itself does slicing, views, aliasing, in-place updates,
broadcasting, matmul/tensordot, concatenate, ... -- that is the point: the aliasing
semantics several properties are about are NumPy's own.

What NumPy cannot do on such elements without coercing them to bool/float is supplied
here, through the two dispatch protocols (`__array_ufunc__`, `__array_function__`) and
through the `Facade` object that is installed as the global `np` of each kawin module a
harness passes through (so that constructors like `np.zeros` create object arrays and
scalars/lists of proxies are lifted before NumPy sees them).  Anything not implemented
raises FacadeMissing -- never a silent fall-through.
"""
import math, operator, functools, builtins, sys, types
import numpy as _np
import z3
from . import core
from .core import SymReal, SymBool, is_sym, FacadeMissing, VkError, cur

_nd = _np.ndarray


def plain(x):
    """SymArray -> base-class view (so that calling numpy does not re-enter dispatch)"""
    if isinstance(x, SymArray):
        return x.view(_nd)
    if isinstance(x, (list, tuple)):
        return type(x)(plain(e) for e in x)
    return x


def wrap(x):
    if isinstance(x, _nd) and not isinstance(x, SymArray) and x.dtype == object:
        return x.view(SymArray)
    if isinstance(x, (list, tuple)):
        return type(x)(wrap(e) for e in x)
    return x


def symbolic_mode():
    c = core._CUR[0]
    return c is not None and c.mode != "concrete"


def has_sym(x):
    if is_sym(x):
        return True
    if isinstance(x, _nd):
        if x.dtype != object:
            return False
        return builtins.any(is_sym(e) for e in x.view(_nd).flat)
    if isinstance(x, (list, tuple)):
        return builtins.any(has_sym(e) for e in x)
    return False


def to_obj(x):
    """anything array-like -> SymArray (object dtype)"""
    if isinstance(x, SymArray):
        return x
    if isinstance(x, _nd):
        if x.dtype == object:
            return x.view(SymArray)
        return x.astype(object).view(SymArray)
    if is_sym(x) or core.is_num(x):
        a = _np.empty((), dtype=object)
        a[()] = x
        return a.view(SymArray)
    if isinstance(x, (list, tuple)):
        elems = [to_obj(e) for e in x]
        shapes = {e.shape for e in elems}
        if len(shapes) > 1:
            raise VkError("ragged array construction %s" % (shapes,))
        shp = shapes.pop() if shapes else ()
        out = _np.empty((len(elems),) + shp, dtype=object)
        for i, e in enumerate(elems):
            out[i] = plain(e) if shp else plain(e)[()]
        return out.view(SymArray)
    raise VkError("cannot make an array from %r" % type(x))


def to_float(x):
    """object array without symbols -> float ndarray"""
    if isinstance(x, _nd) and x.dtype == object:
        return x.view(_nd).astype(float)
    if isinstance(x, (list, tuple)):
        return type(x)(to_float(e) for e in x)
    return x


def unbox(a):
    """0-d object array -> its element"""
    if isinstance(a, _nd) and a.ndim == 0:
        return a.view(_nd)[()]
    return a


# --------------------------------------------------------------------------- element-wise kernels

def _f(x):
    return float(x)


def e_abs(x):
    return abs(x)


def e_sign(x):
    if isinstance(x, SymReal):
        c = cur()
        return c.ite(x > 0, 1.0, c.ite(x < 0, -1.0, 0.0))
    return float(_np.sign(_f(x)))


def e_max(a, b):
    if is_sym(a) or is_sym(b):
        return cur().ite(SymReal.lift(a) >= b, a, b)
    return a if a >= b else b


def e_min(a, b):
    if is_sym(a) or is_sym(b):
        return cur().ite(SymReal.lift(a) <= b, a, b)
    return a if a <= b else b


def _mk1(name, npf):
    def k(x):
        if isinstance(x, SymReal):
            return getattr(x, name)()
        if isinstance(x, SymBool):
            return getattr(x._asreal(), name)()
        with _np.errstate(all="ignore"):
            return float(npf(_f(x)))
    k.__name__ = "e_" + name
    return k


def e_power(a, b):
    if is_sym(a) or is_sym(b):
        return cur().power(SymReal.lift(a), b)
    with _np.errstate(all="ignore"):
        return float(_np.power(_f(a), _f(b)))


def e_square(a):
    return a * a


def e_reciprocal(a):
    return 1.0 / a


def e_and(a, b):
    if is_sym(a) or is_sym(b):
        return core.mk_bool(z3.And(core.b2z(a), core.b2z(b)))
    return bool(a) and bool(b)


def e_or(a, b):
    if is_sym(a) or is_sym(b):
        return core.mk_bool(z3.Or(core.b2z(a), core.b2z(b)))
    return bool(a) or bool(b)


def e_not(a):
    if is_sym(a):
        return core.mk_bool(z3.Not(core.b2z(a)))
    return not bool(a)


def e_isnan(a):
    if is_sym(a):
        return False          # Real mode: NaN is excluded by the domain-safety obligations
    return bool(_np.isnan(_f(a)))


def e_isfinite(a):
    if is_sym(a):
        return True
    return bool(_np.isfinite(_f(a)))


def e_div(a, b):
    if is_sym(a) or is_sym(b):
        return SymReal.lift(a) / b
    with _np.errstate(all="ignore"):
        return float(_np.float64(a) / _np.float64(b))


def _cmp(op):
    def k(a, b):
        r = op(a, b)
        if isinstance(r, _np.bool_):
            return bool(r)
        return r
    return k


UFUNC_KERNELS = {
    "add": operator.add, "subtract": operator.sub, "multiply": operator.mul,
    "divide": e_div, "true_divide": e_div, "negative": operator.neg, "positive": operator.pos,
    "power": e_power, "float_power": e_power, "absolute": e_abs, "fabs": e_abs, "sign": e_sign,
    "maximum": e_max, "minimum": e_min, "fmax": e_max, "fmin": e_min,
    "sqrt": _mk1("sqrt", _np.sqrt), "cbrt": _mk1("cbrt", _np.cbrt), "exp": _mk1("exp", _np.exp),
    "log": _mk1("log", _np.log), "log10": _mk1("log10", _np.log10), "sin": _mk1("sin", _np.sin),
    "cos": _mk1("cos", _np.cos), "arcsin": _mk1("arcsin", _np.arcsin), "arccos": _mk1("arccos", _np.arccos),
    "square": e_square, "reciprocal": e_reciprocal,
    "less": _cmp(operator.lt), "less_equal": _cmp(operator.le), "greater": _cmp(operator.gt),
    "greater_equal": _cmp(operator.ge), "equal": _cmp(operator.eq), "not_equal": _cmp(operator.ne),
    "logical_and": e_and, "logical_or": e_or, "logical_not": e_not,
    "bitwise_and": e_and, "bitwise_or": e_or, "invert": e_not,
    "isnan": e_isnan, "isfinite": e_isfinite, "conjugate": lambda a: a,
}
_PYFUNC = {}


def pyfunc(name):
    pf = _PYFUNC.get(name)
    if pf is None:
        k = UFUNC_KERNELS[name]
        nin = 1 if name in ("negative", "positive", "absolute", "fabs", "sign", "sqrt", "cbrt", "exp", "log",
                            "log10", "sin", "cos", "arcsin", "arccos", "square", "reciprocal", "logical_not",
                            "invert", "isnan", "isfinite", "conjugate") else 2
        pf = _np.frompyfunc(k, nin, 1)
        _PYFUNC[name] = pf
    return pf


# --------------------------------------------------------------------------- the array class

def _is_objmask(k):
    # an object array of (symbolic) booleans; an EMPTY object array can only be an (empty) mask in index position
    return isinstance(k, _nd) and k.dtype == object and \
        builtins.all(isinstance(e, (SymBool, bool, _np.bool_)) for e in k.view(_nd).flat)


def _is_objindex(k):
    # an object array of integers some of which are symbolic (np.where(sym_cond, i, j), np.clip of it): an index array
    if not (isinstance(k, _nd) and k.dtype == object and k.size > 0):
        return False
    flat = list(k.view(_nd).flat)
    if not builtins.all(isinstance(e, (int, _np.integer, float, _np.floating, SymReal)) and not isinstance(e, (bool, _np.bool_)) for e in flat):
        return False
    return builtins.any(isinstance(e, SymReal) for e in flat)


def concretize_index(k, n):
    """object array of (symbolic) integer positions into an axis of length n -> intp ndarray, forking on the symbolic entries"""
    kk = k.view(_nd)
    out = _np.zeros(kk.shape, dtype=_np.intp)
    for idx in _np.ndindex(*kk.shape):
        e = kk[idx]
        if isinstance(e, SymReal):
            for v in range(-n, n):
                if bool(e == v):
                    out[idx] = v; break
            else:
                raise IndexError("symbolic index outside [-%d, %d)" % (n, n))
        else:
            if float(e) != int(e):
                raise IndexError("arrays used as indices must be of integer (or boolean) type")
            out[idx] = int(e)
    return out


def concretize_mask(m):
    """object array of SymBool/bool -> bool ndarray, forking on the symbolic entries"""
    m = m.view(_nd)
    out = _np.zeros(m.shape, dtype=bool)
    for idx in _np.ndindex(*m.shape):
        out[idx] = bool(m[idx])
    return out


class SymArray(_nd):
    __array_priority__ = 100.0

    # ---- protocols
    def __array_ufunc__(self, ufunc, method, *inputs, out=None, **kwargs):
        name = ufunc.__name__
        ins = [plain(x) if isinstance(x, _nd) else x for x in inputs]
        kwargs.pop("casting", None)
        dt = kwargs.pop("dtype", None)
        if name == "matmul":
            # object matmul works natively (python + and * on the elements)
            if out is not None:
                raise FacadeMissing("matmul with out=")
            return wrap(_np.matmul(*[x if isinstance(x, _nd) and x.dtype == object else _np.asarray(x, dtype=object) for x in ins]))
        if name not in UFUNC_KERNELS:
            raise FacadeMissing("ufunc %s (%s) on symbolic data" % (name, method))
        pf = pyfunc(name)
        if "where" in kwargs and kwargs["where"] is True:
            kwargs.pop("where")
        if method == "__call__":
            if out is not None:
                o = plain(out[0])
                res = pf(*ins, **kwargs)
                o[...] = res
                return out[0]
            return wrap(pf(*ins, **kwargs))
        if method in ("reduce", "accumulate"):
            if out is not None:
                raise FacadeMissing("%s.%s with out=" % (name, method))
            a = ins[0]
            if method == "reduce" and name in ("maximum", "minimum") and "initial" not in kwargs and a.size == 0:
                raise ValueError("zero-size array to reduction operation %s which has no identity" % name)
            if method == "reduce" and a.size == 0 and "initial" not in kwargs:
                ident = {"add": 0.0, "multiply": 1.0, "logical_or": False, "logical_and": True,
                         "bitwise_or": False, "bitwise_and": True}.get(name)
                if ident is None:
                    raise FacadeMissing("empty reduce of %s" % name)
                kwargs["initial"] = ident
            kwargs.pop("keepdims", None) if kwargs.get("keepdims") is False else None
            res = getattr(pf, method)(a, dtype=object, **kwargs)
            return wrap(res)
        if method == "outer":
            return wrap(pf.outer(*ins, **kwargs))
        raise FacadeMissing("ufunc method %s.%s" % (name, method))

    def __array_function__(self, func, types, args, kwargs):
        name = func.__name__
        mod = getattr(func, "__module__", "") or ""
        if "linalg" in mod:
            name = "linalg." + name
        impl = FUNCS.get(name)
        if impl is not None:
            return impl(*args, **kwargs)
        if name in PASS_THROUGH:
            res = func(*plain(args), **{k: plain(v) for k, v in kwargs.items()})
            return wrap(res)
        raise FacadeMissing("numpy.%s on symbolic data" % name)

    # ---- indexing with symbolic masks
    def __getitem__(self, key):
        if isinstance(key, tuple) and builtins.any(_is_objmask(k) for k in key):
            # numpy semantics need a real boolean array in that index position: concretise (forks on symbolic entries)
            key = tuple(concretize_mask(k) if _is_objmask(k) else k for k in key)
            return _nd.__getitem__(self, key)
        if _is_objmask(key):
            key = concretize_mask(key)
        elif _is_objindex(key):
            key = concretize_index(key, self.shape[0])
        r = _nd.__getitem__(self, key)
        return r

    def __setitem__(self, key, value):
        if isinstance(key, tuple) and builtins.any(_is_objmask(k) for k in key):
            *pre, last = key
            simple_pre = builtins.all(isinstance(k, (int, _np.integer)) for k in pre)
            if simple_pre and _is_objmask(last):
                sub = _nd.__getitem__(self, tuple(pre))
                if isinstance(sub, _nd):
                    sub.view(SymArray)[last] = value
                    return
            key = tuple(concretize_mask(k) if _is_objmask(k) else k for k in key)
            _nd.__setitem__(self, key, plain(value) if isinstance(value, SymArray) else value)
            return
        if _is_objmask(key):
            m = key.view(_nd)
            v = value
            scalar_v = not isinstance(v, (_nd, list, tuple)) or (isinstance(v, _nd) and v.ndim == 0)
            if scalar_v and m.shape == self.shape[:m.ndim]:
                v = unbox(v) if isinstance(v, _nd) else v
                tgt = self.view(_nd)
                c = cur()
                for idx in _np.ndindex(*m.shape):
                    mi = m[idx]
                    if isinstance(mi, SymBool):
                        if tgt[idx].__class__ is _nd:
                            raise FacadeMissing("masked assignment on sub-arrays")
                        tgt[idx] = c.ite(mi, v, tgt[idx])
                    elif mi:
                        tgt[idx] = v
                return
            key = concretize_mask(key)
        _nd.__setitem__(self, key, plain(value) if isinstance(value, SymArray) else value)

    # ---- truthiness / scalar conversion
    def __bool__(self):
        if self.size != 1:
            raise ValueError("The truth value of an array with more than one element is ambiguous.")
        return bool(self.view(_nd).flat[0])

    def __float__(self):
        if self.size != 1:
            raise TypeError("only size-1 arrays can be converted")
        return float(self.view(_nd).flat[0])

    def __int__(self):
        return int(self.view(_nd).flat[0])

    # ---- methods that would otherwise coerce to bool / use C loops
    def max(self, axis=None, out=None, **kw): return f_amax(self, axis=axis, **kw)
    def min(self, axis=None, out=None, **kw): return f_amin(self, axis=axis, **kw)
    def argmax(self, axis=None, out=None, **kw): return f_argmax(self, axis=axis)
    def argmin(self, axis=None, out=None, **kw): return f_argmin(self, axis=axis)
    def any(self, axis=None, out=None, **kw): return f_any(self, axis=axis)
    def all(self, axis=None, out=None, **kw): return f_all(self, axis=axis)
    def clip(self, a_min=None, a_max=None, out=None, **kw): return f_clip(self, a_min, a_max, out=out)
    def mean(self, axis=None, **kw): return f_mean(self, axis=axis)
    def argsort(self, axis=-1, **kw): return f_argsort(self, axis=axis)
    def nonzero(self): return f_nonzero(self)
    def searchsorted(self, v, side="left", sorter=None): return f_searchsorted(self, v, side, sorter)

    def astype(self, dtype, *a, **kw):
        dt = _np.dtype(dtype)
        if dt == object:
            return _nd.astype(self, dtype, *a, **kw)
        if dt.kind == "f" and symbolic_mode() and self.dtype == object:
            return self.copy()          # stays an object array: symbolic values may be stored into it later
        if has_sym(self):
            if dt.kind == "f":
                return self.copy()
            if dt.kind in "iu":
                return _astype_int(self, dt)
            raise FacadeMissing("astype(%s) on symbolic data" % dt)
        return _nd.astype(self.view(_nd), dtype, *a, **kw)

    def tolist(self):
        return self.view(_nd).tolist()


def _astype_int(a, dt):
    """cast of symbolic reals to an integer dtype: truncation toward zero; out of range gives the platform's
    'integer indefinite' value (minimum of the type), as numpy does on x86-64.  Result: object array of SymReal holding
    integer values (z3 ToInt), usable in tuples/hashes through the injective-hash stub of the harness."""
    info = _np.iinfo(dt)

    def k(v):
        if not is_sym(v):
            f = float(v)
            if f != f or f >= info.max + 1.0 or f <= info.min - 1.0:
                return float(info.min)
            return float(int(f))
        t = SymReal.lift(v).t
        fl = z3.ToReal(z3.ToInt(t))                       # floor
        tr = z3.If(t >= 0, fl, z3.If(fl == t, fl, fl + 1))  # toward zero
        inr = z3.And(t < core.rv(info.max + 1), t > core.rv(info.min - 1))
        return cur().named(SymReal(z3.If(inr, tr, core.rv(info.min)), 12))
    return _np.frompyfunc(k, 1, 1)(plain(a)).view(SymArray)


class SymIntArray(SymArray):
    """an array numpy would have given an integer dtype (np.full(shape, -1), np.zeros(n, dtype=int) holding symbolic data):
    whatever is stored is truncated toward zero, as the real int64 array does"""

    def __setitem__(self, key, value):
        if isinstance(value, (list, tuple, _nd)) or is_sym(value) or isinstance(value, (float, _np.floating)):
            vo = to_obj(value)
            if vo.ndim == 0:
                value = _astype_int(plain(vo).reshape(1).view(SymArray), _np.int64)[0]
            else:
                value = _astype_int(vo, _np.int64)
        SymArray.__setitem__(self, key, value)


# --------------------------------------------------------------------------- array functions

def _axis_apply(fn, a, axis):
    """apply a 1-D reduction `fn` along `axis` of object array `a`"""
    a = to_obj(a)
    if axis is None:
        return fn(list(plain(a).ravel()))
    p = plain(a)
    p = _np.moveaxis(p, axis, -1)
    out = _np.empty(p.shape[:-1], dtype=object)
    for idx in _np.ndindex(*p.shape[:-1]):
        out[idx] = fn(list(p[idx]))
    if out.ndim == 0:
        return out[()]
    return out.view(SymArray)


def _red_max(xs):
    if not xs:
        raise ValueError("zero-size array to reduction operation maximum which has no identity")
    return functools.reduce(e_max, xs)


def _red_min(xs):
    if not xs:
        raise ValueError("zero-size array to reduction operation minimum which has no identity")
    return functools.reduce(e_min, xs)


def f_amax(a, axis=None, out=None, keepdims=False, initial=None, where=None):
    if not has_sym(a):
        return wrap_num(_np.amax(to_float(plain(to_obj(a))), axis=axis))
    return _axis_apply(_red_max, a, axis)


def f_amin(a, axis=None, out=None, keepdims=False, initial=None, where=None):
    if not has_sym(a):
        return wrap_num(_np.amin(to_float(plain(to_obj(a))), axis=axis))
    return _axis_apply(_red_min, a, axis)


def wrap_num(x):
    """result of a real-numpy call on float data -> what symbolic-mode code expects"""
    if isinstance(x, _nd) and x.dtype.kind == "f" and symbolic_mode():
        return x.astype(object).view(SymArray)
    if isinstance(x, _np.floating):
        return float(x)
    return x


def _argbest(better):
    def fn(xs):
        if not xs:
            raise ValueError("attempt to get argmax of an empty sequence")
        best = 0
        for i in range(1, len(xs)):
            if bool(better(xs[i], xs[best])):     # forks when symbolic
                best = i
        return best
    return fn


def _argmax_bool(xs):
    # first True (0 when none) -- the idiom np.argmax(mask)
    for i, x in enumerate(xs):
        if bool(x):
            return i
    return 0


def f_argmax(a, axis=None, out=None, keepdims=False):
    a = to_obj(a)
    flat = list(plain(a).ravel())
    if flat and builtins.all(isinstance(e, (SymBool, bool, _np.bool_)) for e in flat):
        return _axis_apply(_argmax_bool, a, axis)
    return _axis_apply(_argbest(lambda x, y: SymReal.lift(x) > y if is_sym(x) or is_sym(y) else x > y), a, axis)


def f_argmin(a, axis=None, out=None, keepdims=False):
    a = to_obj(a)
    return _axis_apply(_argbest(lambda x, y: SymReal.lift(x) < y if is_sym(x) or is_sym(y) else x < y), a, axis)


def f_any(a, axis=None, out=None, keepdims=False, where=None):
    return _axis_apply(lambda xs: functools.reduce(e_or, [_truth(x) for x in xs], False), a, axis)


def f_all(a, axis=None, out=None, keepdims=False, where=None):
    return _axis_apply(lambda xs: functools.reduce(e_and, [_truth(x) for x in xs], True), a, axis)


def _truth(x):
    if isinstance(x, (SymBool, bool, _np.bool_)):
        return x
    if isinstance(x, SymReal):
        return x != 0
    return bool(x)


def f_where(cond, x=None, y=None):
    if x is None and y is None:
        return f_nonzero(cond)
    cond = to_obj(cond); x = to_obj(x); y = to_obj(y)
    c = cur() if core._CUR[0] is not None else None
    def k(ci, xi, yi):
        if isinstance(ci, SymBool):
            return c.ite(ci, xi, yi)
        return xi if _truth_concrete(ci) else yi
    return wrap(_np.frompyfunc(k, 3, 1)(plain(cond), plain(x), plain(y)))


def _truth_concrete(ci):
    if isinstance(ci, SymReal):
        return bool(ci)
    return bool(ci)


def f_nonzero(a):
    a = to_obj(a)
    m = _np.frompyfunc(_truth, 1, 1)(plain(a))
    return _np.nonzero(concretize_mask(m))


def f_clip(a, a_min=None, a_max=None, out=None, **kw):
    r = to_obj(a)
    if a_min is not None:
        r = pyfunc("maximum")(plain(r), plain(to_obj(a_min)))
    if a_max is not None:
        r = pyfunc("minimum")(plain(to_obj(r)), plain(to_obj(a_max)))
    if out is not None:
        plain(out)[...] = r
        return out
    r = wrap(r) if isinstance(r, _nd) else r
    if is_sym(a) or core.is_num(a):
        return unbox(r)
    return r


def f_interp(x, xp, fp, left=None, right=None, period=None):
    """piece-wise linear interpolation, numpy semantics for increasing xp; interval located by forking"""
    if period is not None:
        raise FacadeMissing("interp with period")
    if not (has_sym(x) or has_sym(xp) or has_sym(fp) or has_sym(left) or has_sym(right)):
        if left is not None or right is not None:
            return wrap_num(_np.interp(to_float(plain(to_obj(x))) if isinstance(x, (_nd, list, tuple)) else float(x),
                                       to_float(plain(to_obj(xp))), to_float(plain(to_obj(fp))), left=left, right=right))
        return wrap_num(_np.interp(to_float(plain(to_obj(x))) if isinstance(x, (_nd, list, tuple)) else float(x),
                                   to_float(plain(to_obj(xp))), to_float(plain(to_obj(fp)))))
    xs = list(plain(to_obj(xp)).ravel()); fs = list(plain(to_obj(fp)).ravel())
    n = len(xs)
    if n == 0:
        raise ValueError("array of sample points is empty")

    def one(v):
        if left is not None and (bool(SymReal.lift(v) < xs[0]) if (is_sym(v) or is_sym(xs[0])) else v < xs[0]):
            return left
        if right is not None and (bool(SymReal.lift(v) > xs[-1]) if (is_sym(v) or is_sym(xs[-1])) else v > xs[-1]):
            return right
        if n == 1:
            return fs[0]
        if bool(SymReal.lift(v) <= xs[0]) if (is_sym(v) or is_sym(xs[0])) else v <= xs[0]:
            return fs[0]
        if bool(SymReal.lift(v) >= xs[-1]) if (is_sym(v) or is_sym(xs[-1])) else v >= xs[-1]:
            return fs[-1]
        for j in range(n - 1):
            hi = xs[j + 1]
            inside = (SymReal.lift(v) < hi) if (is_sym(v) or is_sym(hi)) else (v < hi)
            if j == n - 2 or bool(inside):
                slope = (fs[j + 1] - fs[j]) / (xs[j + 1] - xs[j])
                return slope * (v - xs[j]) + fs[j]
    scalar = not isinstance(x, (_nd, list, tuple)) or (isinstance(x, _nd) and x.ndim == 0)
    xa = to_obj(x)
    out = _np.empty(xa.shape, dtype=object)
    for idx in _np.ndindex(*xa.shape):
        out[idx] = one(plain(xa)[idx])
    return out[()] if scalar else out.view(SymArray)


def f_argsort(a, axis=-1, kind=None, order=None, stable=None):
    a = to_obj(a)
    if not has_sym(a):
        return _np.argsort(to_float(plain(a)), axis=axis)
    if a.ndim != 1:
        raise FacadeMissing("argsort of symbolic nd array")
    xs = list(plain(a))
    idx = list(range(len(xs)))
    # insertion sort (stable), forking on comparisons
    for i in range(1, len(idx)):
        j = i
        while j > 0 and bool(SymReal.lift(xs[idx[j]]) < xs[idx[j - 1]]):
            idx[j], idx[j - 1] = idx[j - 1], idx[j]
            j -= 1
    return _np.array(idx, dtype=_np.intp)


def f_sort(a, axis=-1, **kw):
    a = to_obj(a)
    i = f_argsort(a, axis=axis)
    return a[i]


def f_unique(a, **kw):
    if not has_sym(a):
        return wrap_num(_np.unique(to_float(plain(to_obj(a))), **kw))
    if kw:
        raise FacadeMissing("unique with options on symbolic data")
    vals = []
    for v in plain(to_obj(a)).ravel():
        if not builtins.any(bool(SymReal.lift(v) == u) if (is_sym(v) or is_sym(u)) else v == u for u in vals):
            vals.append(v)
    out = to_obj(vals)
    return out[f_argsort(out)]


def f_mean(a, axis=None, **kw):
    a = to_obj(a)
    n = a.size if axis is None else a.shape[axis]
    s = _np.add.reduce(a, axis=axis)
    return s / n


def f_average(a, axis=None, weights=None, **kw):
    """numpy.average: sum(a*w)/sum(w) -- the division by the sum of the weights is kept (it is what distinguishes it from an explicit weighted sum);
    a weight sum that is exactly zero raises ZeroDivisionError as numpy does"""
    if weights is None:
        return f_mean(a, axis=axis)
    a = to_obj(a); w = to_obj(weights)
    if w.shape != a.shape:
        if axis is None or w.ndim != 1 or w.shape[0] != a.shape[axis]:
            raise TypeError("Axis must be specified when shapes of a and weights differ.")
        shp = [1] * a.ndim; shp[axis] = w.shape[0]
        w = w.reshape(shp)
    num = f_sum(a * w, axis=axis); den = f_sum(w * _np.ones(a.shape, dtype=object), axis=axis)
    for d in _np.atleast_1d(_np.asarray(plain(den) if hasattr(den, "shape") else den, dtype=object)).ravel():
        if bool(d == 0):
            raise ZeroDivisionError("Weights sum to zero, can't be normalized")
    return num / den


def f_isscalar(x):
    return is_sym(x) or _np.isscalar(x)


def f_linspace(start, stop, num=50, endpoint=True, **kw):
    if not symbolic_mode():
        return _np.linspace(start, stop, num, endpoint=endpoint, **kw)
    num = int(num)
    if not endpoint:
        raise FacadeMissing("linspace endpoint=False")
    out = _np.empty(num, dtype=object)
    if num == 1:
        out[0] = start
        return out.view(SymArray)
    step = (stop - start) / (num - 1)
    for i in range(num):
        out[i] = start + i * step
    out[num - 1] = stop * 1       # numpy stores the end point exactly
    return out.view(SymArray)


def f_sum(a, axis=None, **kw):
    a = to_obj(a)
    if a.size == 0 and axis is None:
        return 0.0
    return _np.add.reduce(a, axis=axis) if axis is not None else unbox(wrap(_np.add.reduce(plain(a).ravel(), dtype=object)))


def f_cumsum(a, axis=None, **kw):
    a = to_obj(a)
    if axis is None:
        a = a.ravel(); axis = 0
    return wrap(_np.add.accumulate(plain(a), axis=axis, dtype=object))


def f_prod(a, axis=None, **kw):
    a = to_obj(a)
    if axis is None:
        return unbox(wrap(_np.multiply.reduce(plain(a).ravel(), dtype=object, initial=1.0)))
    return _np.multiply.reduce(a, axis=axis)


def f_inv(a):
    a = to_obj(a)
    if not has_sym(a):
        return wrap_num(_np.linalg.inv(to_float(plain(a))))
    hook = cur().opts.get("inv_hook")
    if hook is not None:
        return hook(a)
    if a.ndim == 2 and a.shape[0] == a.shape[1] and a.shape[0] <= 3:
        return inv_cofactor(a)
    raise FacadeMissing("linalg.inv of symbolic %s matrix (no hook)" % (a.shape,))


def inv_cofactor(a):
    """exact inverse through cofactors (n <= 3); the determinant division carries the non-singularity side condition"""
    p = plain(a); n = p.shape[0]
    if n == 1:
        out = _np.empty((1, 1), dtype=object); out[0, 0] = 1.0 / p[0, 0]; return out.view(SymArray)
    if n == 2:
        det = p[0, 0] * p[1, 1] - p[0, 1] * p[1, 0]
        out = _np.empty((2, 2), dtype=object)
        out[0, 0] = p[1, 1] / det; out[0, 1] = -p[0, 1] / det
        out[1, 0] = -p[1, 0] / det; out[1, 1] = p[0, 0] / det
        return out.view(SymArray)
    c = _np.empty((3, 3), dtype=object)
    for i in range(3):
        for j in range(3):
            r = [k for k in range(3) if k != i]; s = [k for k in range(3) if k != j]
            m = p[r[0], s[0]] * p[r[1], s[1]] - p[r[0], s[1]] * p[r[1], s[0]]
            c[i, j] = m if (i + j) % 2 == 0 else -m
    det = p[0, 0] * c[0, 0] + p[0, 1] * c[0, 1] + p[0, 2] * c[0, 2]
    out = _np.empty((3, 3), dtype=object)
    for i in range(3):
        for j in range(3):
            out[i, j] = c[j, i] / det
    return out.view(SymArray)


def f_tensordot(a, b, axes=2):
    return wrap(_np.tensordot(_objarr(a), _objarr(b), axes=axes))


def _objarr(a):
    a = to_obj(a)
    return plain(a)


def f_dot(a, b, out=None):
    return wrap(_np.dot(_objarr(a), _objarr(b)))


def f_outer(a, b, out=None):
    return wrap(_np.multiply.outer(_objarr(a).ravel(), _objarr(b).ravel()))


def f_isclose(a, b, rtol=1e-5, atol=1e-8, equal_nan=False):
    """|a - b| <= atol + rtol*|b| element-wise (numpy's definition), symbolic where needed"""
    if not (has_sym(a) or has_sym(b)):
        return _np.isclose(to_float(plain(to_obj(a))), to_float(plain(to_obj(b))), rtol=rtol, atol=atol)

    def k(x, y):
        return abs(SymReal.lift(x) - y) <= atol + rtol * abs(SymReal.lift(y))
    scalar = not isinstance(a, (_nd, list, tuple)) and not isinstance(b, (_nd, list, tuple))
    r = _np.frompyfunc(k, 2, 1)(plain(to_obj(a)), plain(to_obj(b)))
    if isinstance(r, _nd):
        r = r.view(SymArray)
        return unbox(r) if (scalar or r.ndim == 0) else r
    return r


def f_allclose(a, b, rtol=1e-5, atol=1e-8, equal_nan=False):
    r = f_isclose(a, b, rtol, atol)
    if isinstance(r, _nd):
        return f_all(r)
    return r


def f_matrix_rank(a, *args, **kw):
    if has_sym(a):
        raise FacadeMissing("matrix_rank on symbolic data")
    return _np.linalg.matrix_rank(to_float(plain(to_obj(a))), *args, **kw)


def f_count_nonzero(a, axis=None, **kw):
    m = _np.frompyfunc(_truth, 1, 1)(plain(to_obj(a)))
    return int(_np.count_nonzero(concretize_mask(m), axis=axis))


def f_diff(a, n=1, axis=-1, **kw):
    a = to_obj(a)
    if n != 1:
        raise FacadeMissing("diff n>1")
    sl1 = [slice(None)] * a.ndim; sl2 = [slice(None)] * a.ndim
    sl1[axis] = slice(1, None); sl2[axis] = slice(None, -1)
    return a[tuple(sl1)] - a[tuple(sl2)]


def f_copy(a, **kw):
    return to_obj(a).copy()


def f_searchsorted(a, v, side="left", sorter=None):
    """index of the first element of the (sorted) array a that is >= v (left) / > v (right); located by forking"""
    if sorter is not None:
        raise FacadeMissing("searchsorted with sorter")
    xs = list(plain(to_obj(a)).ravel())

    def one(val):
        for i, x in enumerate(xs):
            c = (SymReal.lift(x) >= val) if side == "left" else (SymReal.lift(x) > val)
            if (is_sym(x) or is_sym(val)) and bool(c):
                return i
            if not (is_sym(x) or is_sym(val)) and ((x >= val) if side == "left" else (x > val)):
                return i
        return len(xs)
    scalar = not isinstance(v, (_nd, list, tuple)) or (isinstance(v, _nd) and v.ndim == 0)
    va = plain(to_obj(v))
    if scalar:
        return int(one(va[()]))
    out = _np.zeros(va.shape, dtype=_np.intp)
    for idx in _np.ndindex(*va.shape):
        out[idx] = one(va[idx])
    return out


def f_digitize(x, bins, right=False):
    return f_searchsorted(bins, x, side="left" if right else "right")


def f_nan_to_num(x, copy=True, nan=0.0, posinf=None, neginf=None):
    """Real mode: symbolic entries are finite reals (NaN/inf excluded by the domain-safety obligations) and pass through;
    concrete entries get numpy's treatment"""
    a = to_obj(x)

    def k(v):
        if is_sym(v):
            return v
        return float(_np.nan_to_num(float(v), nan=nan, posinf=posinf, neginf=neginf))
    r = _np.frompyfunc(k, 1, 1)(plain(a))
    if isinstance(r, _nd):
        r = r.view(SymArray)
        return unbox(r) if r.ndim == 0 and not isinstance(x, _nd) else r
    return r


def f_putmask(a, mask, values):
    """numpy.putmask semantics: a.flat[n] = values.flat[n % values.size] for every n with mask.flat[n] (NOT sequential filling)"""
    tgt = plain(a) if isinstance(a, _nd) else None
    if tgt is None:
        raise TypeError("putmask: argument 1 must be numpy.ndarray")
    m = _np.broadcast_to(plain(to_obj(mask)), tgt.shape)
    vals = plain(to_obj(values)).ravel()
    if vals.size == 0:
        return None
    c = cur() if core._CUR[0] is not None else None
    flat_idx = list(_np.ndindex(*tgt.shape))
    for n, idx in enumerate(flat_idx):
        mi = m[idx]
        v = vals[n % vals.size]
        if isinstance(mi, SymBool):
            tgt[idx] = c.ite(mi, v, tgt[idx])
        elif _truth_concrete(mi):
            tgt[idx] = v
    return None


def f_pinv(a, rcond=None, hermitian=False, **kw):
    """pseudo-inverse of a square non-singular matrix = its inverse; with hermitian=True numpy reads the lower triangle only
    (eigh, UPLO='L'), which is modelled by inverting the matrix symmetrised from its lower triangle"""
    a = to_obj(a)
    if not has_sym(a):
        return wrap_num(_np.linalg.pinv(to_float(plain(a)), hermitian=hermitian))
    if a.ndim != 2 or a.shape[0] != a.shape[1]:
        raise FacadeMissing("pinv of a non-square symbolic matrix")
    if hermitian:
        p = plain(a).copy()
        n = p.shape[0]
        for i in range(n):
            for j in range(i + 1, n):
                p[i, j] = p[j, i]
        a = p.view(SymArray)
    return f_inv(a)


def f_trapz(y, x=None, dx=1.0, axis=-1):
    raise FacadeMissing("trapz")


FUNCS = {
    "amax": f_amax, "max": f_amax, "amin": f_amin, "min": f_amin, "argmax": f_argmax, "argmin": f_argmin,
    "any": f_any, "all": f_all, "where": f_where, "nonzero": f_nonzero, "clip": f_clip, "interp": f_interp,
    "argsort": f_argsort, "sort": f_sort, "unique": f_unique, "mean": f_mean, "average": f_average, "sum": f_sum, "cumsum": f_cumsum,
    "prod": f_prod, "linalg.inv": f_inv, "tensordot": f_tensordot, "dot": f_dot, "outer": f_outer,
    "allclose": f_allclose, "isclose": f_isclose, "linalg.matrix_rank": f_matrix_rank,
    "count_nonzero": f_count_nonzero, "diff": f_diff, "copy": f_copy,
    "searchsorted": f_searchsorted, "digitize": f_digitize, "nan_to_num": f_nan_to_num, "putmask": f_putmask,
    "linalg.pinv": f_pinv,
}

PASS_THROUGH = {
    "concatenate", "append", "reshape", "transpose", "squeeze", "ravel", "atleast_1d", "atleast_2d", "atleast_3d",
    "expand_dims", "hstack", "vstack", "stack", "column_stack", "pad", "repeat", "tile", "delete", "insert",
    "swapaxes", "moveaxis", "broadcast_to", "broadcast_arrays", "flip", "roll", "shape", "ndim", "size", "take",
    "zeros_like", "ones_like", "empty_like", "full_like", "copyto", "may_share_memory", "shares_memory",
    "diag", "diagonal", "trace", "meshgrid", "array_split", "split", "fliplr", "flipud", "triu", "tril",
    "einsum", "kron", "resize", "fill_diagonal", "rot90", "append", "result_type", "iscomplexobj", "isrealobj", "real", "imag", "array_repr", "array_str",
    "array2string",
}


# --------------------------------------------------------------------------- facade module

class _LinalgFacade:
    def __getattr__(self, name):
        real = getattr(_np.linalg, name)
        if name == "inv":
            return lambda a: f_inv(a) if symbolic_mode() else real(a)
        if name == "matrix_rank":
            return lambda a, *r, **k: f_matrix_rank(a, *r, **k) if symbolic_mode() else real(a, *r, **k)
        if name == "pinv":
            return lambda a, *r, **k: f_pinv(a, *r, **k) if symbolic_mode() else real(a, *r, **k)
        if isinstance(real, type):
            return real
        def w(*a, **k):
            if symbolic_mode() and builtins.any(has_sym(x) for x in a):
                raise FacadeMissing("linalg.%s on symbolic data" % name)
            return real(*[to_float(plain(x)) if isinstance(x, _nd) else x for x in a], **k)
        return w


def lift_arg(x):
    """lift proxies / lists of proxies so that numpy dispatches to SymArray"""
    if is_sym(x):
        return to_obj(x)
    if isinstance(x, (list, tuple)):
        if builtins.all(is_sym(e) or core.is_num(e) for e in x):
            if builtins.any(is_sym(e) for e in x):
                return to_obj(list(x))
            return x
        return type(x)(lift_arg(e) for e in x)
    return x


_CONSTRUCT_INT_KINDS = ("i", "u", "b")


def _dtype_is_int(dtype):
    if dtype is None:
        return False
    try:
        return _np.dtype(dtype).kind in _CONSTRUCT_INT_KINDS
    except TypeError:
        return False


class Facade:
    """stands in for the `numpy` module inside kawin modules while a vk context is active"""
    __name__ = "numpy(vk-facade)"
    linalg = _LinalgFacade()

    # constants
    @property
    def pi(self):
        # pi is the double 3.141592653589793 (a rational) unless the harness asks for an opaque symbolic constant
        if symbolic_mode() and cur().opts.get("symbolic_pi", False):
            return cur().pi()
        return math.pi

    newaxis = None
    inf = float("inf")
    nan = float("nan")
    e = math.e
    float64 = _np.float64
    float32 = _np.float32
    int32 = _np.int32
    int64 = _np.int64
    ndarray = _np.ndarray
    errstate = _np.errstate
    finfo = _np.finfo
    bool_ = _np.bool_
    integer = _np.integer
    floating = _np.floating
    number = _np.number
    generic = _np.generic
    dtype = _np.dtype
    random = _np.random
    testing = _np.testing

    # constructors
    def zeros(self, shape, dtype=None, **kw):
        if not symbolic_mode() or _dtype_is_int(dtype):
            return _np.zeros(shape, dtype=dtype, **kw) if dtype is not None else _np.zeros(shape, **kw)
        a = _np.empty(shape, dtype=object); a.fill(0.0); return a.view(SymArray)

    def ones(self, shape, dtype=None, **kw):
        if not symbolic_mode() or _dtype_is_int(dtype):
            return _np.ones(shape, dtype=dtype, **kw) if dtype is not None else _np.ones(shape, **kw)
        a = _np.empty(shape, dtype=object); a.fill(1.0); return a.view(SymArray)

    def empty(self, shape, dtype=None, **kw):
        return self.zeros(shape, dtype=dtype)

    def full(self, shape, fill_value, dtype=None, **kw):
        if not symbolic_mode() or _dtype_is_int(dtype):
            return _np.full(shape, fill_value, dtype=dtype)
        a = _np.empty(shape, dtype=object); a.fill(fill_value)
        if dtype is None and isinstance(fill_value, (int, _np.integer)) and not isinstance(fill_value, (bool, _np.bool_)):
            return a.view(SymIntArray)       # numpy infers an integer dtype from the fill value
        return a.view(SymArray)

    def eye(self, n, *a, **kw):
        r = _np.eye(n, *a, **kw)
        return r.astype(object).view(SymArray) if symbolic_mode() else r

    def identity(self, n, **kw):
        return self.eye(n)

    def array(self, obj, dtype=None, copy=True, ndmin=0, **kw):
        if not symbolic_mode() or _dtype_is_int(dtype):
            return _np.array(obj, dtype=dtype, copy=copy, ndmin=ndmin, **kw)
        if isinstance(obj, _nd) and obj.dtype.kind in "iub" and dtype is None:
            return _np.array(obj, copy=copy, ndmin=ndmin)
        if isinstance(obj, (list, tuple)) and dtype is None and _all_int(obj):
            return _np.array(obj, ndmin=ndmin)
        if isinstance(obj, (str, bytes, dict)) or obj is None:
            return _np.array(obj, dtype=dtype)
        if isinstance(obj, (list, tuple)) and _has_str(obj):
            return _np.array(obj, dtype=dtype)
        r = to_obj(obj)
        if copy or r is obj:
            r = r.copy()
        while r.ndim < ndmin:
            r = r[_np.newaxis]
        return r

    def asarray(self, obj, dtype=None, **kw):
        if not symbolic_mode() or _dtype_is_int(dtype):
            return _np.asarray(obj, dtype=dtype, **kw)
        if isinstance(obj, SymArray):
            return obj
        return self.array(obj, dtype=dtype, copy=False)

    def atleast_1d(self, *arys):
        if not symbolic_mode():
            return _np.atleast_1d(*arys)
        res = []
        for a in arys:
            if isinstance(a, _nd) and a.dtype.kind in "iub":
                res.append(_np.atleast_1d(a)); continue
            if isinstance(a, (list, tuple)) and _all_int(a) and len(a) > 0:
                res.append(_np.atleast_1d(a)); continue
            if isinstance(a, (list, tuple)) and _has_str(a) or isinstance(a, str):
                res.append(_np.atleast_1d(a)); continue
            o = self.asarray(a)
            res.append(o.reshape(1) if o.ndim == 0 else o)
        return res[0] if len(res) == 1 else res

    def atleast_2d(self, *arys):
        if not symbolic_mode():
            return _np.atleast_2d(*arys)
        res = []
        for a in arys:
            o = self.asarray(a)
            if o.ndim == 0: o = o.reshape(1, 1)
            elif o.ndim == 1: o = o[_np.newaxis, :]
            res.append(o)
        return res[0] if len(res) == 1 else res

    def linspace(self, start, stop, num=50, endpoint=True, **kw):
        return f_linspace(start, stop, num, endpoint, **kw)

    def isscalar(self, x):
        return f_isscalar(x)

    def __getattr__(self, name):
        real = getattr(_np, name)
        if not callable(real) or isinstance(real, type):
            return real
        impl = FUNCS.get(name) or FUNCS.get(getattr(real, "__name__", name))
        if name in ("save", "savez", "savez_compressed", "load", "loadtxt", "savetxt", "histogram", "logspace", "arange",
                    "ndindex", "ndenumerate", "seterr", "geterr", "printoptions", "set_printoptions", "vectorize",
                    "frompyfunc", "iinfo", "issubdtype", "may_share_memory", "shares_memory"):
            return real

        def w(*args, **kwargs):
            if not symbolic_mode():
                return real(*args, **kwargs)
            if not builtins.any(_contains_symarray(a) or has_sym(a) for a in args) and \
                    not builtins.any(_contains_symarray(v) or has_sym(v) for v in kwargs.values()):
                # purely numeric call (ints, floats, float arrays): real numpy, float arrays handed back as object arrays
                return wrap_num(real(*args, **kwargs))
            args = tuple(lift_arg(a) for a in args)
            kwargs = {k: lift_arg(v) for k, v in kwargs.items()}
            scalar_in = len(args) > 0 and isinstance(args[0], SymArray) and args[0].ndim == 0
            if impl is not None:
                r = impl(*args, **kwargs)
            elif isinstance(real, _np.ufunc):
                uname = real.__name__
                if uname not in UFUNC_KERNELS and uname != "matmul":
                    if builtins.any(has_sym(a) for a in args):
                        raise FacadeMissing("ufunc %s on symbolic data" % name)
                    return wrap_num(real(*[to_float(plain(a)) if isinstance(a, _nd) else a for a in args], **kwargs))
                # make sure dispatch reaches SymArray even for python-number / float-array inputs
                if not builtins.any(isinstance(a, SymArray) for a in args):
                    args = (to_obj(args[0]),) + args[1:]
                    scalar_in = args[0].ndim == 0
                r = real(*args, **kwargs)
            else:
                if not builtins.any(_contains_symarray(a) for a in args) and not builtins.any(_contains_symarray(v) for v in kwargs.values()):
                    # purely numeric call: run real numpy, hand back object arrays
                    return wrap_num(real(*args, **kwargs))
                r = real(*args, **kwargs)
            if isinstance(r, _nd) and r.ndim == 0 and r.dtype == object:
                return unbox(r)
            return r
        w.__name__ = name
        return w


def _contains_symarray(x):
    if isinstance(x, SymArray):
        return True
    if isinstance(x, (list, tuple)):
        return builtins.any(_contains_symarray(e) for e in x)
    return False


def _all_int(obj):
    if isinstance(obj, (list, tuple)):
        return builtins.all(_all_int(e) for e in obj)
    return isinstance(obj, (int, _np.integer, bool, _np.bool_)) and not is_sym(obj)


def _has_str(obj):
    if isinstance(obj, (list, tuple)):
        return builtins.any(_has_str(e) for e in obj)
    return isinstance(obj, (str, bytes))


FACADE = Facade()


class installed:
    """context manager: install the facade as `np` (and friends) in the given modules"""

    def __init__(self, modules, names=("np", "numpy")):
        self.modules = modules
        self.names = names
        self.saved = []

    def __enter__(self):
        for m in self.modules:
            for n in self.names:
                if n in m.__dict__ and (m.__dict__[n] is _np):
                    self.saved.append((m, n, m.__dict__[n]))
                    m.__dict__[n] = FACADE
        return self

    def __exit__(self, *exc):
        for m, n, v in self.saved:
            m.__dict__[n] = v
        self.saved = []
        return False


def kawin_modules():
    """every imported kawin module (the facade is installed in all of them; concrete mode makes it transparent)"""
    return [m for k, m in list(sys.modules.items()) if k.startswith("kawin") and isinstance(m, types.ModuleType)]
